(* WaitNProof: invariants of Model/WaitNModel.v (nsync_wait_n over abstract notes / counters / condition variables).
   Statements are in Props/Properties_C11.v.  Part 1: a thread-local invariant (bounds, shape of the call's log);
   part 2: a global invariant (where the records of running calls can be); part 3: clean / footprint / mutex / index;
   part 4: a per-step summary of effects, then wake-ups (C11_wakes) and timeouts (C11_timeout). *)
From NsyncBase Require Import CSem.
From NsyncGen Require Import Consts Sites.
From NsyncModel Require Import WaitNModel.
From Coq Require Import List ZArith Bool Arith Lia.
Import ListNotations.

(* ---------- generic ---------- *)
Lemma run_inv (P : world -> Prop) : (forall w a, P w -> P (next w a)) -> forall sched w0, P w0 -> P (run w0 sched).
Proof. intros H sched. induction sched as [|a l IH]; intros w0 H0; simpl; auto. Qed.

Lemma fupd_same {A} (f : nat -> A) k v : fupd f k v k = v.
Proof. unfold fupd. now rewrite Nat.eqb_refl. Qed.
Lemma fupd_other {A} (f : nat -> A) k v x : x <> k -> fupd f k v x = f x.
Proof. unfold fupd. intros. destruct (Nat.eqb_spec x k); congruence. Qed.

Lemma rid_eqb_eq a b : rid_eqb a b = true <-> a = b.
Proof.
  destruct a as [[a1 a2] a3], b as [[b1 b2] b3]. unfold rid_eqb, owner, rcall, ridx; simpl.
  rewrite !andb_true_iff, !Nat.eqb_eq. split; [intros [[? ?] ?]; congruence | intros H; inversion H; auto].
Qed.
Lemma rid_eqb_refl a : rid_eqb a a = true.
Proof. now apply rid_eqb_eq. Qed.
Lemma rid_eqb_neq a b : rid_eqb a b = false <-> a <> b.
Proof. rewrite <- rid_eqb_eq. destruct (rid_eqb a b); split; congruence. Qed.
Lemma rupd_same {A} (f : rid -> A) k v : rupd f k v k = v.
Proof. unfold rupd. now rewrite rid_eqb_refl. Qed.
Lemma rupd_other {A} (f : rid -> A) k v x : x <> k -> rupd f k v x = f x.
Proof. unfold rupd. intros H. apply rid_eqb_neq in H. now rewrite H. Qed.
Lemma mem_In r l : mem r l = true <-> In r l.
Proof.
  unfold mem. rewrite existsb_exists. split.
  - intros [x [Hx He]]. apply rid_eqb_eq in He. now subst.
  - intros H. exists r. split; auto. apply rid_eqb_refl.
Qed.
Lemma mem_false r l : mem r l = false <-> ~ In r l.
Proof. rewrite <- mem_In. destruct (mem r l); split; congruence. Qed.
Lemma In_remove_r x r l : In x (remove_r r l) <-> In x l /\ x <> r.
Proof.
  unfold remove_r. rewrite filter_In, negb_true_iff, rid_eqb_neq. tauto.
Qed.
Lemma NoDup_remove_r r l : NoDup l -> NoDup (remove_r r l).
Proof. intros. unfold remove_r. now apply NoDup_filter. Qed.

(* ---------- the log functions ---------- *)
Definition mpre (cnt : nat) (L : list ev) : Prop :=
  exists pre, before_unlock L = Some pre /\ length (enq_res pre) = cnt /\ enq_res (after_unlock L) = [] /\
              (forall i r, In (i, r) (enq_res pre) -> r = false -> S i = cnt).
Definition plain_ev (e : ev) : Prop :=
  match e with EvUnlock | EvEnq _ _ | EvLock true => False | _ => True end.
Lemma mpre_cons cnt L e : plain_ev e -> mpre cnt L -> mpre cnt (e :: L).
Proof.
  intros He [pre [H1 [H2 [H3 H4]]]]. exists pre.
  destruct e; simpl in *; try contradiction; auto.
Qed.
Lemma bu_cons L e : plain_ev e -> before_unlock (e :: L) = before_unlock L.
Proof. destruct e; simpl; try contradiction; auto. Qed.
Lemma hl_cons L e : plain_ev e -> has_lock (e :: L) = has_lock L.
Proof. destruct e; simpl; try contradiction; auto. destruct ok; simpl; try contradiction; auto. Qed.
Lemma er_cons L e : plain_ev e -> enq_res (e :: L) = enq_res L.
Proof. destruct e; simpl; try contradiction; auto. Qed.

(* ---------- thread-local invariant: bounds, and the shape of the call's log ---------- *)
Definition mid (s : tstate) : Prop :=
  let f := fr s in
  has_lock (f_log f) = false /\ (f_unlocked f = true -> f_mu f <> None) /\
  if f_unlocked f then mpre (count s) (f_log f) else before_unlock (f_log f) = None.
Definition linv (s : tstate) : Prop :=
  let f := fr s in let L := f_log f in let cnt := count s in
  (f_ready f <= cnt)%nat /\
  match pc_ s with
  | PFirst j => (j < cnt)%nat /\ f_ready f = cnt /\ f_unlocked f = false /\ before_unlock L = None /\ has_lock L = false /\ enq_res L = []
  | PInit i | PEnq i =>
      (i < cnt)%nat /\ f_ready f = cnt /\ f_unlocked f = false /\ before_unlock L = None /\ has_lock L = false /\
      length (enq_res L) = i /\ (forall k r, In (k, r) (enq_res L) -> r = true)
  | PUnlock =>
      f_i f = cnt /\ f_ready f = cnt /\ f_unlocked f = false /\ before_unlock L = None /\ has_lock L = false /\
      length (enq_res L) = cnt /\ (forall k r, In (k, r) (enq_res L) -> r = false -> S k = cnt) /\ f_mu f <> None
  | PReady j _ => (j < cnt)%nat /\ f_i f = cnt /\ f_ready f = cnt /\ mid s
  | PSleep _ => f_i f = cnt /\ f_ready f = cnt /\ mid s
  | PDeqPre j | PDeq j | PDeqSpin j => (j < f_i f)%nat /\ (f_i f <= cnt)%nat /\ mid s
  | PFree => mid s
  | PLock => f_unlocked f = true /\ mid s
  | PRet => if f_unlocked f then mpre cnt L /\ has_lock (after_unlock L) = true /\ f_mu f <> None
            else before_unlock L = None /\ has_lock L = false
  | _ => True
  end.

Ltac splits := repeat match goal with |- _ /\ _ => split end.
Lemma count_with_pc s p : count (with_pc s p) = count s. Proof. reflexivity. Qed.
Lemma count_lg s e : count (lg e s) = count s. Proof. reflexivity. Qed.
Lemma count_set_ready s j b : count (set_ready s j b) = count s. Proof. reflexivity. Qed.
Lemma count_set_i s i : count (set_i s i) = count s. Proof. reflexivity. Qed.
Lemma count_set_unlocked s : count (set_unlocked s) = count s. Proof. reflexivity. Qed.
Lemma count_see_dl s c : count (see_dl s c) = count s. Proof. reflexivity. Qed.
Lemma count_with_prog s p : count (with_prog s p) = count s. Proof. reflexivity. Qed.
Global Hint Rewrite count_with_pc count_lg count_set_ready count_set_i count_set_unlocked count_see_dl count_with_prog : cnt.
Lemma mid_with_pc s p : mid (with_pc s p) <-> mid s. Proof. reflexivity. Qed.

Lemma linv_after_free s : (f_ready (fr s) <= count s)%nat -> mid s -> linv (after_free s).
Proof.
  intros Hr Hm. pose proof Hm as [H1 [H2 H3]]. unfold after_free, linv.
  destruct (f_unlocked (fr s)) eqn:E; simpl; rewrite ?E; autorewrite with cnt; splits; auto.
Qed.
Lemma linv_after_deqs s : (f_ready (fr s) <= count s)%nat -> mid s -> linv (after_deqs s).
Proof.
  intros Hr Hm. unfold after_deqs. destruct (nw_set_len <? count s)%nat.
  - unfold linv; simpl. split; auto.
  - now apply linv_after_free.
Qed.
Lemma linv_goto_deq s j : (f_ready (fr s) <= count s)%nat -> mid s -> (j < f_i (fr s))%nat -> (f_i (fr s) <= count s)%nat -> linv (goto_deq s j).
Proof.
  intros Hr Hm Hj Hi. unfold goto_deq, linv. destruct (is_note (objat s j)); simpl; auto.
Qed.
Lemma linv_deq_start s : (f_ready (fr s) <= count s)%nat -> mid s -> (f_i (fr s) <= count s)%nat -> linv (deq_start s).
Proof.
  intros Hr Hm Hi. unfold deq_start. destruct (f_i (fr s) =? 0)%nat eqn:E.
  - now apply linv_after_deqs.
  - apply Nat.eqb_neq in E. apply linv_goto_deq; auto. lia.
Qed.
Lemma linv_sleep_start s : f_ready (fr s) = count s -> f_i (fr s) = count s -> mid s -> linv (sleep_start s).
Proof.
  intros Hr Hi Hm. unfold sleep_start, linv. destruct (count s =? 0)%nat eqn:E; simpl; autorewrite with cnt; rewrite Hr; splits; auto.
  apply Nat.eqb_neq in E. lia.
Qed.

(* ---------- linv is preserved by every control function ---------- *)
Lemma mid_lg s e : plain_ev e -> mid s -> mid (lg e s).
Proof.
  intros He [H1 [H2 H3]]. unfold mid.
  change (f_log (fr (lg e s))) with (e :: f_log (fr s)). change (f_unlocked (fr (lg e s))) with (f_unlocked (fr s)).
  change (f_mu (fr (lg e s))) with (f_mu (fr s)). change (count (lg e s)) with (count s).
  rewrite hl_cons by auto. splits; auto.
  destruct (f_unlocked (fr s)); [now apply mpre_cons | now rewrite bu_cons].
Qed.
Lemma linv_after_first s clk :
  f_ready (fr s) = count s -> f_unlocked (fr s) = false -> before_unlock (f_log (fr s)) = None -> has_lock (f_log (fr s)) = false ->
  enq_res (f_log (fr s)) = [] -> linv (after_first s clk).
Proof.
  intros Hr Hu Hb Hl He. unfold after_first.
  destruct (time_pos (f_dl (fr s))).
  - destruct (count s =? 0)%nat eqn:E.
    + apply Nat.eqb_eq in E. unfold after_enq. autorewrite with cnt. simpl f_mu. rewrite E. simpl Nat.eqb.
      destruct (f_mu (fr s)) eqn:Em.
      * unfold linv; simpl; autorewrite with cnt. rewrite Hr, Hu, Hb, Hl, He, E, Em. splits; auto; try congruence; try (intros k r []).
      * apply linv_sleep_start; simpl; autorewrite with cnt; auto. unfold mid; simpl. rewrite Hu, Hl. splits; auto. congruence.
    + apply Nat.eqb_neq in E. unfold linv; simpl; autorewrite with cnt. rewrite Hr, Hu, Hb, Hl, He. splits; auto; try lia; try (intros k r []).
  - unfold linv; simpl; autorewrite with cnt. rewrite Hr, Hu. splits; auto.
Qed.
Lemma linv_ctl_call s mu dl os rest clk held : linv (ctl_call s mu dl os rest clk held).
Proof.
  unfold ctl_call. destruct (length os =? 0)%nat eqn:E.
  - apply linv_after_first; reflexivity.
  - apply Nat.eqb_neq in E. unfold linv; simpl. unfold count; simpl. splits; auto. lia.
Qed.
Lemma linv_ctl_first s j nt b clk : linv s -> pc_ s = PFirst j -> linv (ctl_first s j nt b clk).
Proof.
  unfold linv at 1. intros [Hr H] Hpc. rewrite Hpc in H. destruct H as [Hj [Hr' [Hu [Hb [Hl He]]]]].
  unfold ctl_first. destruct (time_pos nt).
  - destruct (S j =? count s)%nat eqn:E.
    + apply linv_after_first; simpl; auto.
    + apply Nat.eqb_neq in E. unfold linv; simpl; autorewrite with cnt. splits; auto. lia.
  - unfold linv; simpl; autorewrite with cnt. rewrite Hu. splits; auto. lia.
Qed.
Lemma linv_ctl_init s i v : linv s -> pc_ s = PInit i -> linv (ctl_init s i v).
Proof.
  unfold linv at 1. intros [Hr H] Hpc. rewrite Hpc in H. unfold ctl_init, linv; simpl; autorewrite with cnt. split; auto.
Qed.
Lemma linv_after_enq s i :
  (i <= count s)%nat -> f_ready (fr s) = count s -> f_unlocked (fr s) = false -> before_unlock (f_log (fr s)) = None -> has_lock (f_log (fr s)) = false ->
  (i = count s -> length (enq_res (f_log (fr s))) = count s /\ forall k r, In (k, r) (enq_res (f_log (fr s))) -> r = false -> S k = count s) ->
  linv (after_enq s i).
Proof.
  intros Hi Hr Hu Hb Hl He. unfold after_enq. autorewrite with cnt. simpl f_mu.
  assert (Hm : mid (set_i s i)). { unfold mid; simpl. rewrite Hu, Hl. splits; auto. congruence. }
  destruct (i =? count s)%nat eqn:E.
  - apply Nat.eqb_eq in E. destruct (He E) as [He1 He2]. destruct (f_mu (fr s)) eqn:Em.
    + unfold linv; simpl; autorewrite with cnt. rewrite Hr, Hu, Hb, Hl, Em. splits; auto; congruence.
    + apply linv_sleep_start; simpl; autorewrite with cnt; auto.
  - apply linv_deq_start; simpl; autorewrite with cnt; auto. lia.
Qed.
Lemma linv_ctl_enq s i ok : linv s -> pc_ s = PEnq i -> linv (ctl_enq s i ok).
Proof.
  unfold linv at 1. intros [Hr H] Hpc. rewrite Hpc in H. destruct H as [Hi [Hr' [Hu [Hb [Hl [Hn Ha]]]]]].
  unfold ctl_enq. destruct (ok && negb (S i =? count s)%nat) eqn:E.
  - apply andb_true_iff in E. destruct E as [E1 E2]. subst ok. apply negb_true_iff, Nat.eqb_neq in E2.
    unfold linv; simpl; autorewrite with cnt. splits; auto; try lia.
    intros k r [H|H]; [congruence | eauto].
  - apply linv_after_enq; simpl; autorewrite with cnt; auto.
    intros E'. split; [lia|]. intros k r [H|H] Hf.
    + inversion H; subst. lia.
    + apply Ha in H. congruence.
Qed.
Lemma linv_ctl_unlock s : linv s -> pc_ s = PUnlock -> linv (ctl_unlock s).
Proof.
  unfold linv at 1. intros [Hr H] Hpc. rewrite Hpc in H. destruct H as [Hi [Hr' [Hu [Hb [Hl [Hn [Ha Hm]]]]]]].
  unfold ctl_unlock. apply linv_sleep_start; simpl; autorewrite with cnt; auto.
  unfold mid; simpl. rewrite Hl. splits; auto. exists (f_log (fr s)). splits; auto.
Qed.
Lemma linv_ctl_ready s j mn nt : linv s -> pc_ s = PReady j mn -> linv (ctl_ready s j mn nt).
Proof.
  unfold linv at 1. intros [Hr H] Hpc. rewrite Hpc in H. destruct H as [Hj [Hi [Hr' Hm]]].
  assert (Hm' : mid (lg (EvReady false j nt) s)) by (apply mid_lg; simpl; auto).
  unfold ctl_ready. destruct (S j =? count s)%nat eqn:E.
  - destruct (time_pos _).
    + unfold linv; simpl; autorewrite with cnt. splits; auto.
    + apply linv_deq_start; simpl; autorewrite with cnt; auto; lia.
  - apply Nat.eqb_neq in E. unfold linv; simpl; autorewrite with cnt. splits; auto. lia.
Qed.
Lemma mid_see_dl s c : mid (see_dl s c) <-> mid s. Proof. reflexivity. Qed.
Lemma linv_ctl_p_timeout s mn clk : linv s -> pc_ s = PSleep mn -> linv (ctl_p_timeout s clk).
Proof.
  unfold linv at 1. intros [Hr H] Hpc. rewrite Hpc in H. destruct H as [Hi [Hr' Hm]].
  unfold ctl_p_timeout. apply linv_deq_start; simpl; autorewrite with cnt; auto; try lia.
Qed.
Lemma linv_ctl_p_ok s mn : linv s -> pc_ s = PSleep mn -> linv (ctl_p_ok s).
Proof.
  unfold linv at 1. intros [Hr H] Hpc. rewrite Hpc in H. destruct H as [Hi [Hr' Hm]].
  unfold ctl_p_ok. apply linv_sleep_start; simpl; autorewrite with cnt; auto; try (apply mid_lg; simpl; auto).
Qed.
Lemma linv_ctl_deqpre s j : linv s -> pc_ s = PDeqPre j -> linv (ctl_deqpre s j).
Proof.
  unfold linv at 1. intros [Hr H] Hpc. rewrite Hpc in H. destruct H as [Hj [Hi Hm]].
  unfold ctl_deqpre, linv; simpl; autorewrite with cnt. splits; auto.
Qed.
Lemma mid_set_ready s j b : mid (set_ready s j b) <-> mid s. Proof. reflexivity. Qed.
Lemma linv_after_deq w1 t s j r : (f_ready (fr s) <= count s)%nat -> mid s -> (j < f_i (fr s))%nat -> (f_i (fr s) <= count s)%nat -> linv (after_deq w1 t s j r).
Proof.
  intros Hr Hm Hj Hi. unfold after_deq.
  set (s1 := if negb r && (f_ready (fr s) =? count s)%nat then set_ready s j (obj_ready_now w1 (objat s j) (rec_of t s j)) else s).
  assert (H1 : (f_ready (fr s1) <= count s1)%nat /\ mid s1 /\ f_i (fr s1) = f_i (fr s) /\ count s1 = count s).
  { unfold s1. destruct (negb r && _); simpl; autorewrite with cnt; splits; auto. lia. }
  destruct H1 as [A [B [C D]]].
  destruct (S j =? f_i (fr s1))%nat eqn:E.
  - now apply linv_after_deqs.
  - apply Nat.eqb_neq in E. apply linv_goto_deq; auto; lia.
Qed.
Lemma linv_ctl_deq w1 t s j ok onl : linv s -> pc_ s = PDeq j -> linv (ctl_deq w1 t s j ok onl).
Proof.
  unfold linv at 1. intros [Hr H] Hpc. rewrite Hpc in H. destruct H as [Hj [Hi Hm]].
  assert (Hm' : mid (lg (EvDeq j ok onl) s)) by (apply mid_lg; simpl; auto).
  unfold ctl_deq. destruct (is_cv (objat s j) && negb ok).
  - unfold linv; simpl; autorewrite with cnt. splits; auto.
  - apply linv_after_deq; simpl; autorewrite with cnt; auto.
Qed.
Lemma linv_ctl_spin w t s j v : linv s -> pc_ s = PDeqSpin j -> linv (ctl_spin w t s j v).
Proof.
  unfold linv at 1. intros [Hr H] Hpc. rewrite Hpc in H. destruct H as [Hj [Hi Hm]].
  unfold ctl_spin. apply linv_after_deq; simpl; autorewrite with cnt; auto; try (apply mid_lg; simpl; auto).
Qed.
Lemma linv_ctl_free s : linv s -> pc_ s = PFree -> linv (ctl_free s).
Proof.
  unfold linv at 1. intros [Hr H] Hpc. rewrite Hpc in H.
  unfold ctl_free. apply linv_after_free; simpl; autorewrite with cnt; auto; try (apply mid_lg; simpl; auto).
Qed.
Lemma linv_ctl_lock s : linv s -> pc_ s = PLock -> linv (ctl_lock s).
Proof.
  unfold linv at 1. intros [Hr H] Hpc. rewrite Hpc in H. destruct H as [Hu [Hl [Hmu Hp]]].
  rewrite Hu in Hp. destruct Hp as [pre [P1 [P2 [P3 P4]]]].
  unfold ctl_lock, linv; simpl; autorewrite with cnt. rewrite Hu. splits; auto.
  exists pre. splits; auto.
Qed.
Lemma linv_ctl_ret s : linv s -> linv (ctl_ret s).
Proof. intros [Hr _]. unfold ctl_ret, linv; simpl. split; auto. Qed.
Lemma linv_idle s s' : linv s -> fr s' = fr s -> match pc_ s' with PIdle | PWake | PWakeV _ | PPanic => True | _ => False end -> linv s'.
Proof.
  intros [Hr _] Hf Hp. unfold linv, count. rewrite Hf. split; auto. destruct (pc_ s'); auto; contradiction.
Qed.

(* ---------- the effects of the object functions leave the thread states alone ---------- *)
Lemma thr_wake_all w l v : thr (wake_all w l v) = thr w. Proof. reflexivity. Qed.
Lemma thr_note_do_notify w n : thr (note_do_notify w n) = thr w.
Proof. unfold note_do_notify. destruct (time_pos _); reflexivity. Qed.
Lemma thr_note_deadline w n : thr (fst (note_deadline w n)) = thr w.
Proof.
  unfold note_deadline. destruct (znz _); simpl; auto. destruct (_ && _); simpl; auto. apply thr_note_do_notify.
Qed.
Lemma thr_obj_ready_time w f o r : thr (fst (obj_ready_time w f o r)) = thr w.
Proof. destruct o; simpl; auto. apply thr_note_deadline. Qed.
Lemma thr_obj_enqueue w o r : thr (fst (obj_enqueue w o r)) = thr w.
Proof. destruct o; simpl; auto; destruct (_ : bool); reflexivity. Qed.
Lemma thr_obj_dequeue w o r : thr (fst (obj_dequeue w o r)) = thr w.
Proof. destruct o; simpl; auto; destruct (_ : bool); reflexivity. Qed.
Lemma thr_ctr_add w n d w1 v : ctr_add w n d = Some (w1, v) -> thr w1 = thr w.
Proof.
  unfold ctr_add. destruct (if (d >? 0)%Z then _ else _); [|discriminate].
  intros H; inversion H; subst. destruct (nsync_counter_add_store1_guard _ _); reflexivity.
Qed.

Definition tnext (w : world) (t : nat) (c : bool) : world := fst (fst (step w t c)).

Ltac step_destruct w t :=
  unfold tnext, step;
  destruct (pc_ (thr w t)) eqn:Hpc;
  [ destruct (prog (thr w t)) as [|[mu dl os|n|n|n delta|n|n|m|m|tgt] rest] eqn:Hprog | .. ].

Lemma step_other w t c u : u <> t -> thr (tnext w t c) u = thr w u.
Proof.
  intros Hu. step_destruct w t; simpl; try reflexivity;
    repeat match goal with
    | |- context [note_deadline ?w ?n] => let E := fresh "E" in pose proof (thr_note_deadline w n); destruct (note_deadline w n) as [? ?] eqn:E; simpl in *
    | |- context [obj_ready_time ?w ?f ?o ?r] => pose proof (thr_obj_ready_time w f o r); destruct (obj_ready_time w f o r) as [? ?]; simpl in *
    | |- context [obj_enqueue ?w ?o ?r] => pose proof (thr_obj_enqueue w o r); destruct (obj_enqueue w o r) as [? ?]; simpl in *
    | |- context [obj_dequeue ?w ?o ?r] => pose proof (thr_obj_dequeue w o r); destruct (obj_dequeue w o r) as [? ?]; simpl in *
    | |- context [ctr_add ?w ?n ?d] => let E := fresh "E" in destruct (ctr_add w n d) as [[? ?]|] eqn:E; [apply thr_ctr_add in E|]; simpl in *
    | |- context [match ?x with _ => _ end] => destruct x eqn:?; simpl in *
    end;
    try (rewrite fupd_other by auto); try rewrite ?thr_note_do_notify; try congruence; auto.
Qed.

Ltac eff_destruct :=
  repeat match goal with
    | |- context [note_deadline ?w ?n] => let E := fresh "E" in pose proof (thr_note_deadline w n); destruct (note_deadline w n) as [? ?] eqn:E; simpl in *
    | |- context [obj_ready_time ?w ?f ?o ?r] => let E := fresh "E" in pose proof (thr_obj_ready_time w f o r); destruct (obj_ready_time w f o r) as [? ?] eqn:E; simpl in *
    | |- context [obj_enqueue ?w ?o ?r] => let E := fresh "E" in pose proof (thr_obj_enqueue w o r); destruct (obj_enqueue w o r) as [? ?] eqn:E; simpl in *
    | |- context [obj_dequeue ?w ?o ?r] => let E := fresh "E" in pose proof (thr_obj_dequeue w o r); destruct (obj_dequeue w o r) as [? ?] eqn:E; simpl in *
    | |- context [ctr_add ?w ?n ?d] => let E := fresh "E" in destruct (ctr_add w n d) as [[? ?]|] eqn:E; simpl in *
    | |- context [match ?x with _ => _ end] => destruct x eqn:?; simpl in *
    end.

Lemma linv_step w t c : linv (thr w t) -> linv (thr (tnext w t c) t).
Proof.
  intros H. step_destruct w t; simpl; auto; eff_destruct; rewrite ?fupd_same; auto;
    try (eapply linv_idle; [exact H | reflexivity | simpl; rewrite ?Hpc; exact I]);
    eauto using linv_ctl_call, linv_ctl_first, linv_ctl_init, linv_ctl_enq, linv_ctl_unlock, linv_ctl_ready, linv_ctl_p_timeout, linv_ctl_p_ok,
      linv_ctl_deqpre, linv_ctl_deq, linv_ctl_spin, linv_ctl_free, linv_ctl_lock, linv_ctl_ret.
Qed.

(* ---------- reachability ---------- *)
Definition winit nts cts progs c0 := init nts cts progs c0.
Lemma linv_idle_t p : linv (idle_t p).
Proof. unfold linv, idle_t; simpl. split; auto. Qed.
Lemma next_tick_thr w d : thr (next w (Tick d)) = thr w. Proof. reflexivity. Qed.
Lemma linv_next w a : (forall t, linv (thr w t)) -> forall t, linv (thr (next w a) t).
Proof.
  intros H t. destruct a as [u c|d]; [|apply H].
  change (next w (Run u c)) with (tnext w u c).
  destruct (Nat.eq_dec t u) as [->|Hn]; [apply linv_step, H | rewrite step_other by auto; apply H].
Qed.
Lemma linv_reachable nts cts progs c0 sched t : linv (thr (run (init nts cts progs c0) sched) t).
Proof.
  revert t. apply run_inv with (P := fun w => forall t, linv (thr w t)).
  - intros w a H. now apply linv_next.
  - intros t. apply linv_idle_t.
Qed.

(* ---------- the global invariant: where records can be ---------- *)
Local Open Scope Z_scope.
Definition enq_window (p : pc) (i : nat) (j : nat) : Prop :=
  match p with
  | PInit k | PEnq k => (j < k)%nat
  | PUnlock | PReady _ _ | PSleep _ => True
  | PDeqPre k | PDeq k | PDeqSpin k => (k <= j)%nat /\ (j < i)%nat
  | _ => False
  end.
(* record r belongs to the running call of its owner (state s), was handed to object o's enqueue and not yet through its dequeue *)
Definition wins (s : tstate) (r : rid) (o : oref) : Prop :=
  rcall r = done s /\ (ridx r < count s)%nat /\ objat s (ridx r) = o /\ enq_window (pc_ s) (f_i (fr s)) (ridx r).
Definition win (w : world) (r : rid) (o : oref) : Prop := wins (thr w (owner r)) r o.
Definition waker_pc (p : pc) : Prop := match p with PWake | PWakeV _ => True | _ => False end.

Record ginv (w : world) : Prop := mk_ginv {
  g_list : forall o r, In r (obj_list w o) -> win w r o /\ waiting w r <> 0 /\ taker w r = None;
  g_priv : forall u r, In r (privs w u) -> (exists n, win w r (OCv n)) /\ waiting w r <> 0 /\ taker w r = Some u /\ waker_pc (pc_ (thr w u));
  g_nd : forall o, NoDup (obj_list w o);
  g_ndp : forall u, NoDup (privs w u);
  g_note : forall n, time_pos (nt_time (notes w n)) = false -> n_waiters (notes w n) = [];
  g_cvq : forall r n, win w r (OCv n) -> In r (cvs w n) \/ taker w r <> None;
  g_spin : forall t j, pc_ (thr w t) = PDeqSpin j -> is_cv (objat (thr w t) j) = true /\ taker w (rec_of t (thr w t) j) <> None;
  g_enq : forall t i, pc_ (thr w t) = PEnq i -> taker w (rec_of t (thr w t) i) = None /\ woken w (rec_of t (thr w t) i) = false;
  g_idx : forall t, in_call (thr w t) -> f_ready (fr (thr w t)) <> count (thr w t) -> f_idx_ready (fr (thr w t)) = true
}.

Lemma rid_eta (r : rid) : r = (owner r, rcall r, ridx r).
Proof. destruct r as [[a b] c]; reflexivity. Qed.
Lemma wins_obj_unique s r o o' : wins s r o -> wins s r o' -> o = o'.
Proof. intros [_ [_ [H _]]] [_ [_ [H' _]]]. congruence. Qed.
Lemma win_rec s t j o : wins s (rec_of t s j) o <-> (j < count s)%nat /\ objat s j = o /\ enq_window (pc_ s) (f_i (fr s)) j.
Proof. unfold wins, rec_of, rcall, ridx; simpl. tauto. Qed.

(* the constants written to `waiting` *)
Lemma c_note_enq1 : note_enqueue_store1_new <> 0. Proof. vm_compute; discriminate. Qed.
Lemma c_ctr_enq1 : counter_enqueue_store1_new <> 0. Proof. vm_compute; discriminate. Qed.
Lemma c_cv_enq1 : cv_enqueue_store1_new <> 0. Proof. vm_compute; discriminate. Qed.
Lemma c_notified : znz note_notify_child_store1_new = true. Proof. reflexivity. Qed.

(* ---------- what the object functions do to the lists ---------- *)
Lemma obj_list_set_thr w t s o : obj_list (set_thr w t s) o = obj_list w o. Proof. destruct o; reflexivity. Qed.

Definition same_but_thr (w w1 : world) : Prop :=
  (forall o, obj_list w1 o = obj_list w o) /\ privs w1 = privs w /\ waiting w1 = waiting w /\ taker w1 = taker w /\ woken w1 = woken w /\
  (forall n, nt_time (notes w1 n) = nt_time (notes w n)).

(* enqueue *)
Lemma enq_spec w o r w1 ok : obj_enqueue w o r = (w1, ok) ->
  (obj_list w1 o = if ok then obj_list w o ++ [r] else obj_list w o) /\
  (forall o', o' <> o -> obj_list w1 o' = obj_list w o') /\
  (ok = true -> waiting w1 r <> 0) /\ (forall r', r' <> r -> waiting w1 r' = waiting w r') /\
  taker w1 = taker w /\ woken w1 = woken w /\ privs w1 = privs w /\ thr w1 = thr w /\
  (forall n, nt_time (notes w1 n) = nt_time (notes w n)) /\
  (forall n, o = ONote n -> ok = true -> time_pos (nt_time (notes w n)) = true) /\
  (forall n, o = OCv n -> ok = true).
Proof.
  destruct o as [n|n|n]; simpl.
  - destruct (time_pos (nt_time (notes w n))) eqn:E; intros H; inversion H; subst; clear H; simpl; splits; auto;
      try (rewrite fupd_same; reflexivity);
      try (intros o' Ho; destruct o' as [m|m|m]; simpl; auto; rewrite fupd_other; auto; congruence);
      try (intros; rewrite rupd_same; apply c_note_enq1);
      try (intros; rewrite rupd_other; auto);
      try (intros m; unfold fupd; destruct (Nat.eqb_spec m n); subst; reflexivity);
      try (intros m Hm Hk; try discriminate; inversion Hm; subst; auto); try discriminate; try (intros; discriminate).
  - destruct (counter_enqueue_store1_guard (c_value (ctrs w n))) eqn:E; intros H; inversion H; subst; clear H; simpl; splits; auto;
      try (rewrite fupd_same; reflexivity);
      try (intros o' Ho; destruct o' as [m|m|m]; simpl; auto; rewrite fupd_other; auto; congruence);
      try (intros; rewrite rupd_same; apply c_ctr_enq1);
      try (intros; rewrite rupd_other; auto); try discriminate; try (intros; discriminate).
  - intros H; inversion H; subst; clear H; simpl; splits; auto;
      try (rewrite fupd_same; reflexivity);
      try (intros o' Ho; destruct o' as [m|m|m]; simpl; auto; rewrite fupd_other; auto; congruence);
      try (intros; rewrite rupd_same; apply c_cv_enq1);
      try (intros; rewrite rupd_other; auto); try discriminate; try (intros; discriminate).
Qed.

Lemma win_set_thr_other w1 w t s2 r o : thr w1 = thr w -> owner r <> t -> (win (set_thr w1 t s2) r o <-> win w r o).
Proof. intros H Hn. unfold win; simpl. rewrite fupd_other by auto. now rewrite H. Qed.
Lemma win_set_thr_same w1 w t s2 r o : thr w1 = thr w -> owner r = t -> (win (set_thr w1 t s2) r o <-> wins s2 r o).
Proof. intros H Hn. unfold win; simpl. rewrite Hn, fupd_same. tauto. Qed.
Lemma win_transfer w1 w t s2 r o :
  thr w1 = thr w -> (owner r = t -> wins (thr w t) r o -> wins s2 r o) -> win w r o -> win (set_thr w1 t s2) r o.
Proof.
  intros H Ht Hw. destruct (Nat.eq_dec (owner r) t) as [E|E].
  - apply (win_set_thr_same w1 w t s2 r o H E). apply Ht; auto. unfold win in Hw. now rewrite E in Hw.
  - now apply (win_set_thr_other w1 w t s2 r o H E).
Qed.

(* after the enqueue of index i the window is 0..i *)
Lemma pcs_after_free s : pc_ (after_free s) = PLock \/ pc_ (after_free s) = PRet.
Proof. unfold after_free. destruct (f_unlocked _); simpl; auto. Qed.
Lemma fr_after_free s : fr (after_free s) = fr s. Proof. reflexivity. Qed.
Lemma pcs_after_deqs s : pc_ (after_deqs s) = PFree \/ pc_ (after_deqs s) = PLock \/ pc_ (after_deqs s) = PRet.
Proof. unfold after_deqs. destruct (_ <? _)%nat; simpl; auto. right. apply pcs_after_free. Qed.
Lemma fr_after_deqs s : fr (after_deqs s) = fr s. Proof. unfold after_deqs. destruct (_ <? _)%nat; reflexivity. Qed.
Lemma pcs_goto_deq s j : pc_ (goto_deq s j) = PDeqPre j \/ pc_ (goto_deq s j) = PDeq j.
Proof. unfold goto_deq. destruct (is_note _); simpl; auto. Qed.
Lemma fr_goto_deq s j : fr (goto_deq s j) = fr s. Proof. reflexivity. Qed.
Lemma fr_deq_start s : fr (deq_start s) = fr s.
Proof. unfold deq_start. destruct (_ =? _)%nat; [apply fr_after_deqs | reflexivity]. Qed.
Lemma fr_sleep_start s : fr (sleep_start s) = fr s.
Proof. unfold sleep_start. destruct (_ =? _)%nat; reflexivity. Qed.
Lemma done_after_free s : done (after_free s) = done s. Proof. reflexivity. Qed.
Lemma done_after_deqs s : done (after_deqs s) = done s. Proof. unfold after_deqs. destruct (_ <? _)%nat; reflexivity. Qed.
Lemma done_deq_start s : done (deq_start s) = done s.
Proof. unfold deq_start. destruct (_ =? _)%nat; [apply done_after_deqs | reflexivity]. Qed.
Lemma done_sleep_start s : done (sleep_start s) = done s.
Proof. unfold sleep_start. destruct (_ =? _)%nat; reflexivity. Qed.

(* window of the states the control functions lead to *)
Definition wnd (s : tstate) (j : nat) : Prop := enq_window (pc_ s) (f_i (fr s)) j.
Definition no_special (s : tstate) : Prop := (forall j, pc_ s <> PDeqSpin j) /\ (forall i, pc_ s <> PEnq i) /\ in_call s.
Lemma wnd_after_deqs s j : ~ wnd (after_deqs s) j.
Proof. unfold wnd. destruct (pcs_after_deqs s) as [H|[H|H]]; rewrite H; simpl; auto. Qed.
Lemma ns_after_deqs s : no_special (after_deqs s).
Proof. unfold no_special, in_call. destruct (pcs_after_deqs s) as [H|[H|H]]; rewrite H; splits; auto; congruence. Qed.
Lemma wnd_deq_start s j : (f_i (fr s) <= count s)%nat -> (wnd (deq_start s) j <-> (j < f_i (fr s))%nat).
Proof.
  intros Hi. unfold deq_start. destruct (f_i (fr s) =? 0)%nat eqn:E.
  - apply Nat.eqb_eq in E. split; [intros H; now apply wnd_after_deqs in H | lia].
  - unfold wnd. destruct (pcs_goto_deq s 0) as [H|H]; rewrite H; simpl; lia.
Qed.
Lemma ns_deq_start s : no_special (deq_start s).
Proof.
  unfold deq_start. destruct (_ =? _)%nat; [apply ns_after_deqs|].
  unfold no_special, in_call. destruct (pcs_goto_deq s 0) as [H|H]; rewrite H; splits; auto; congruence.
Qed.
Lemma wnd_sleep_start s j : wnd (sleep_start s) j.
Proof. unfold wnd, sleep_start. destruct (_ =? _)%nat; simpl; auto. Qed.
Lemma ns_sleep_start s : no_special (sleep_start s).
Proof. unfold no_special, in_call, sleep_start. destruct (_ =? _)%nat; simpl; splits; auto; congruence. Qed.
Lemma fr_after_enq s i : fr (after_enq s i) = fr (set_i s i).
Proof.
  unfold after_enq. destruct (_ =? _)%nat; [|apply fr_deq_start].
  destruct (f_mu _); [reflexivity | apply fr_sleep_start].
Qed.
Lemma done_after_enq s i : done (after_enq s i) = done s.
Proof.
  unfold after_enq. destruct (_ =? _)%nat; [|rewrite done_deq_start; reflexivity].
  destruct (f_mu _); [reflexivity | rewrite done_sleep_start; reflexivity].
Qed.
Lemma wnd_after_enq s i j : (i <= count s)%nat -> (j < count s)%nat -> (wnd (after_enq s i) j <-> (j < i)%nat).
Proof.
  intros Hi Hj. unfold after_enq. autorewrite with cnt. destruct (i =? count s)%nat eqn:E.
  - apply Nat.eqb_eq in E. destruct (f_mu (fr (set_i s i))).
    + unfold wnd; simpl. lia.
    + split; [lia | intros; apply wnd_sleep_start].
  - rewrite wnd_deq_start; simpl; [tauto | autorewrite with cnt; auto].
Qed.
Lemma ns_after_enq s i : no_special (after_enq s i).
Proof.
  unfold after_enq. destruct (_ =? _)%nat; [|apply ns_deq_start].
  destruct (f_mu _); [|apply ns_sleep_start]. unfold no_special, in_call; simpl; splits; auto; congruence.
Qed.
Lemma wnd_ctl_enq s i ok j : (i < count s)%nat -> (j < count s)%nat -> (wnd (ctl_enq s i ok) j <-> (j <= i)%nat).
Proof.
  intros Hi Hj. unfold ctl_enq. destruct (ok && _).
  - unfold wnd; simpl. lia.
  - rewrite wnd_after_enq; simpl; autorewrite with cnt; lia.
Qed.
Lemma ns_ctl_enq s i ok : no_special (ctl_enq s i ok).
Proof.
  unfold ctl_enq. destruct (ok && _); [|apply ns_after_enq]. unfold no_special, in_call; simpl; splits; auto; congruence.
Qed.
Lemma fr_ctl_enq s i ok : f_objs (fr (ctl_enq s i ok)) = f_objs (fr s) /\ f_ready (fr (ctl_enq s i ok)) = f_ready (fr s) /\ done (ctl_enq s i ok) = done s.
Proof.
  unfold ctl_enq. destruct (ok && _); simpl; auto. rewrite fr_after_enq, done_after_enq. simpl. auto.
Qed.

(* no record of thread t's running call with an index outside the window is on any list *)
Lemma not_listed w t j o : ginv w -> ~ wnd (thr w t) j -> ~ In (rec_of t (thr w t) j) (obj_list w o).
Proof.
  intros G Hn Hin. apply (g_list w G) in Hin. destruct Hin as [[_ [_ [_ Hw]]] _]. simpl in Hw. auto.
Qed.
Lemma not_priv w t j u : ginv w -> ~ wnd (thr w t) j -> ~ In (rec_of t (thr w t) j) (privs w u).
Proof.
  intros G Hn Hin. apply (g_priv w G) in Hin. destruct Hin as [[n [_ [_ [_ Hw]]]] _]. simpl in Hw. auto.
Qed.
Lemma oref_eq_dec (a b : oref) : {a = b} + {a <> b}.
Proof. decide equality; apply Nat.eq_dec. Qed.
Lemma In_app1 {A} (x a : A) l : In x (l ++ [a]) <-> In x l \/ x = a.
Proof. rewrite in_app_iff. simpl. intuition. Qed.
Lemma NoDup_app1 {A} (a : A) l : NoDup l -> ~ In a l -> NoDup (l ++ [a]).
Proof.
  intros H Hn. induction H; simpl.
  - constructor; auto. constructor.
  - constructor.
    + rewrite In_app1. intros [?|?]; [auto | subst; apply Hn; now left].
    + apply IHNoDup. intros ?; apply Hn; now right.
Qed.

Lemma ginv_enq w t i w1 ok :
  let s := thr w t in
  ginv w -> linv s -> pc_ s = PEnq i -> obj_enqueue w (objat s i) (rec_of t s i) = (w1, ok) ->
  ginv (set_thr w1 t (ctl_enq s i ok)).
Proof.
  intros s G L Hpc E.
  set (o := objat s i) in *. set (r := rec_of t s i) in *. set (s2 := ctl_enq s i ok).
  destruct (enq_spec _ _ _ _ _ E) as [El [Eo [Ew1 [Ew [Et [Ek [Ep [Eth [Ent [Enp Ecv]]]]]]]]]].
  destruct L as [Lr L]. rewrite Hpc in L. destruct L as [Li [Lr' _]].
  destruct (fr_ctl_enq s i ok) as [Fo [Fr Fd]]. fold s2 in Fo, Fr, Fd.
  assert (Hcnt : count s2 = count s) by (unfold count; now rewrite Fo).
  assert (Hobj : forall j, objat s2 j = objat s j) by (intros; unfold objat; now rewrite Fo).
  assert (Hnw : ~ wnd s i) by (unfold wnd; rewrite Hpc; simpl; lia).
  assert (Hnl : forall o', ~ In r (obj_list w o')) by (intros; apply not_listed; auto).
  assert (Hnp : forall u, ~ In r (privs w u)) by (intros; apply not_priv; auto).
  (* old records of t stay in the window *)
  assert (Hold : forall r' o', owner r' = t -> wins s r' o' -> wins s2 r' o').
  { intros r' o' _ [A [B [C D]]]. unfold wins. rewrite Fd, Hcnt, Hobj. splits; auto.
    apply (wnd_ctl_enq s i ok); auto. rewrite Hpc in D. simpl in D. lia. }
  assert (Hnew : wins s2 r o).
  { unfold wins, r, rec_of, rcall, ridx; simpl. rewrite Fd, Hcnt, Hobj. splits; auto. apply (wnd_ctl_enq s i ok); auto. }
  destruct (ns_ctl_enq s i ok) as [Ns1 [Ns2 Ns3]]. fold s2 in Ns1, Ns2, Ns3.
  (* members of the lists after the step *)
  assert (Hmem : forall o' r', In r' (obj_list w1 o') -> (In r' (obj_list w o') /\ r' <> r) \/ (r' = r /\ o' = o /\ ok = true)).
  { intros o' r' Hin. destruct (oref_eq_dec o' o) as [-> |Hne].
    - rewrite El in Hin. destruct ok.
      + apply In_app1 in Hin. destruct Hin as [Hin| ->]; auto. left. split; auto. intros ->. now apply (Hnl o).
      + left. split; auto. intros ->. now apply (Hnl o).
    - rewrite Eo in Hin by auto. left. split; auto. intros ->. now apply (Hnl o'). }
  constructor.
  - intros o' r' Hin. rewrite obj_list_set_thr in Hin. simpl waiting; simpl taker.
    destruct (Hmem _ _ Hin) as [[Hin' Hne]|[-> [-> Hok]]].
    + destruct (g_list w G _ _ Hin') as [A [B C]]. splits.
      * apply (win_transfer w1 w); auto. 
      * rewrite Ew; auto.
      * rewrite Et; auto.
    + splits.
      * apply (win_set_thr_same w1 w); auto.
      * auto.
      * rewrite Et. apply (g_enq w G t i Hpc).
  - intros u r' Hin. simpl privs in Hin. rewrite Ep in Hin. simpl waiting; simpl taker.
    destruct (g_priv w G _ _ Hin) as [[n A] [B [C D]]].
    assert (r' <> r) by (intros ->; now apply (Hnp u)).
    splits.
    + exists n. apply (win_transfer w1 w); auto.
    + rewrite Ew; auto.
    + rewrite Et; auto.
    + simpl thr. unfold fupd. destruct (Nat.eqb_spec u t) as [-> |Hu]; [|rewrite Eth; auto].
      fold s in D. rewrite Hpc in D. destruct D.
  - intros o'. rewrite obj_list_set_thr. destruct (oref_eq_dec o' o) as [-> |Hne].
    + rewrite El. destruct ok; [|apply (g_nd w G)]. apply NoDup_app1; [apply (g_nd w G)|apply Hnl].
    + rewrite Eo by auto. apply (g_nd w G).
  - intros u. simpl privs. rewrite Ep. apply (g_ndp w G).
  - intros n Hn. simpl notes in *. rewrite Ent in Hn. pose proof (g_note w G n Hn) as Hl.
    change (n_waiters (notes w1 n)) with (obj_list w1 (ONote n)). change (n_waiters (notes w n)) with (obj_list w (ONote n)) in Hl.
    destruct (oref_eq_dec (ONote n) o) as [Heq|Hne].
    + rewrite Heq, El. destruct ok; [|rewrite <- Heq; auto]. rewrite (Enp n) in Hn; auto; discriminate.
    + rewrite Eo; auto.
  - intros r' n Hw. simpl cvs; simpl taker. rewrite Et.
    change (cvs w1 n) with (obj_list w1 (OCv n)).
    destruct (Nat.eq_dec (owner r') t) as [Ho|Ho].
    + apply (win_set_thr_same w1 w) in Hw; auto. destruct Hw as [A [B [C D]]].
      rewrite Fd in A. rewrite Hcnt in B. rewrite Hobj in C.
      apply (wnd_ctl_enq s i ok) in D; auto.
      destruct (Nat.eq_dec (ridx r') i) as [Hi|Hi].
      * assert (r' = r) as -> by (rewrite (rid_eta r'); unfold r, rec_of; congruence).
        left. assert (o = OCv n) as Ho' by (unfold o; rewrite <- Hi; auto).
        rewrite <- Ho', El, (Ecv n Ho'). apply In_app1. now right.
      * assert (Hw : win w r' (OCv n)).
        { unfold win. rewrite Ho. fold s. unfold wins. splits; auto. rewrite Hpc. simpl. lia. }
        destruct (g_cvq w G _ _ Hw) as [Hc|Hc]; auto. left.
        change (cvs w n) with (obj_list w (OCv n)) in Hc.
        destruct (oref_eq_dec (OCv n) o) as [Heq|Hne]; [rewrite Heq, El; rewrite Heq in Hc; destruct ok; auto; apply In_app1; auto | rewrite Eo; auto].
    + apply (win_set_thr_other w1 w) in Hw; auto. destruct (g_cvq w G _ _ Hw) as [Hc|Hc]; auto. left.
      change (cvs w n) with (obj_list w (OCv n)) in Hc.
      destruct (oref_eq_dec (OCv n) o) as [Heq|Hne]; [rewrite Heq, El; rewrite Heq in Hc; destruct ok; auto; apply In_app1; auto | rewrite Eo; auto].
  - intros t' j Hp. simpl thr in *. unfold fupd in *. destruct (Nat.eqb_spec t' t) as [-> |Hn].
    + exfalso. now apply (Ns1 j).
    + rewrite Eth in *. simpl taker. rewrite Et. now apply (g_spin w G).
  - intros t' j Hp. simpl thr in *. unfold fupd in *. destruct (Nat.eqb_spec t' t) as [-> |Hn].
    + exfalso. now apply (Ns2 j).
    + rewrite Eth in *. simpl taker; simpl woken. rewrite Et, Ek. now apply (g_enq w G).
  - intros t'. simpl thr. unfold fupd. destruct (Nat.eqb_spec t' t) as [-> |Hn].
    + intros _ Hr. exfalso. apply Hr. rewrite Hcnt, Fr. auto.
    + rewrite Eth. apply (g_idx w G).
Qed.

(* dequeue: the critical section *)
Lemma c_dequeue_consts : note_dequeue_store1_new = 0 /\ counter_dequeue_store1_new = 0 /\ cv_dequeue_store1_new = 0 /\
  wake_waiters_store1_new = 0 /\ note_notify_child_store2_new = 0 /\ nsync_counter_add_store1_new = 0 /\ nsync_wait_n_store1_new = 0.
Proof. vm_compute. repeat split. Qed.
Lemma deq_spec w o r w1 ok : obj_dequeue w o r = (w1, ok) ->
  (obj_list w1 o = obj_list w o \/ obj_list w1 o = remove_r r (obj_list w o)) /\
  (forall o', o' <> o -> obj_list w1 o' = obj_list w o') /\
  (forall r', r' <> r -> waiting w1 r' = waiting w r') /\
  taker w1 = taker w /\ woken w1 = woken w /\ privs w1 = privs w /\ thr w1 = thr w /\
  (forall n, nt_time (notes w1 n) = nt_time (notes w n)) /\
  (forall n, time_pos (nt_time (notes w n)) = false -> n_waiters (notes w1 n) = n_waiters (notes w n)) /\
  (ok = false -> is_cv o = false -> obj_ready_now w1 o r = true) /\
  (ok = true -> (forall n, o <> OCounter n) -> obj_list w1 o = remove_r r (obj_list w o)) /\
  (ok = false -> match o with
                 | ONote n => time_pos (nt_time (notes w n)) = false /\ w1 = w
                 | OCounter n => True
                 | OCv n => (waiting w r = 0 \/ ~ In r (cvs w n)) /\ w1 = w end) /\
  (forall n, o = OCounter n -> (waiting w r = 0 /\ w1 = w) \/ obj_list w1 o = remove_r r (obj_list w o)).
Proof.
  destruct o as [n|n|n]; simpl.
  - destruct (time_pos (nt_time (notes w n))) eqn:E; intros H; inversion H; subst; clear H; simpl; splits; auto;
      try (rewrite fupd_same; simpl; auto; fail);
      try (intros o' Ho; destruct o' as [m|m|m]; simpl; auto; rewrite fupd_other; auto; congruence);
      try (intros; rewrite rupd_other; auto; fail);
      try (intros m; unfold fupd; destruct (Nat.eqb_spec m n); subst; reflexivity);
      try (intros m Hm; unfold fupd; destruct (Nat.eqb_spec m n); subst; [congruence | reflexivity]);
      try (intros; rewrite E; reflexivity); try discriminate; try (intros; discriminate).
  - intros H; inversion H; subst; clear H.
    destruct (znz (waiting w r)) eqn:E; simpl; splits; auto;
      try (rewrite fupd_same; simpl; auto; fail);
      try (intros o' Ho; destruct o' as [m|m|m]; simpl; auto; rewrite fupd_other; auto; congruence);
      try (intros; rewrite rupd_other; auto; fail);
      try (unfold fupd; rewrite Nat.eqb_refl; simpl; intros Hv _; apply negb_false_iff in Hv; auto; fail);
      try (intros Hv _; apply negb_false_iff in Hv; auto; fail);
      try (intros _ Hc; exfalso; apply (Hc n); reflexivity);
      try (intros; discriminate).
    intros m Hm. left. unfold znz in E. apply negb_false_iff, Z.eqb_eq in E. auto.
  - destruct (znz (waiting w r) && mem r (cvs w n)) eqn:E; intros H; inversion H; subst; clear H; simpl; splits; auto;
      try (rewrite fupd_same; simpl; auto; fail);
      try (intros o' Ho; destruct o' as [m|m|m]; simpl; auto; rewrite fupd_other; auto; congruence);
      try (intros; rewrite rupd_other; auto; fail);
      try discriminate; try (intros; discriminate).
    intros _. split; auto. apply andb_false_iff in E. destruct E as [E|E].
    + left. unfold znz in E. apply negb_false_iff, Z.eqb_eq in E. auto.
    + right. now apply mem_false.
Qed.

Lemma after_deq_facts w1 t s j r :
  let s2 := after_deq w1 t s j r in
  f_objs (fr s2) = f_objs (fr s) /\ done s2 = done s /\ f_i (fr s2) = f_i (fr s) /\ no_special s2 /\
  ((j < f_i (fr s))%nat -> forall j', wnd s2 j' <-> (S j <= j')%nat /\ (j' < f_i (fr s))%nat) /\
  ((f_ready (fr s) <> count s -> f_idx_ready (fr s) = true) ->
   (r = false -> f_ready (fr s) = count s -> obj_ready_now w1 (objat s j) (rec_of t s j) = true) ->
   f_ready (fr s2) <> count s2 -> f_idx_ready (fr s2) = true).
Proof.
  unfold after_deq.
  set (s1 := if negb r && (f_ready (fr s) =? count s)%nat then set_ready s j (obj_ready_now w1 (objat s j) (rec_of t s j)) else s).
  assert (H1 : f_objs (fr s1) = f_objs (fr s) /\ done s1 = done s /\ f_i (fr s1) = f_i (fr s)).
  { unfold s1. destruct (negb r && _); simpl; auto. }
  destruct H1 as [A [B C]].
  assert (Hidx : (f_ready (fr s) <> count s -> f_idx_ready (fr s) = true) ->
                 (r = false -> f_ready (fr s) = count s -> obj_ready_now w1 (objat s j) (rec_of t s j) = true) ->
                 f_ready (fr s1) <> count s1 -> f_idx_ready (fr s1) = true).
  { intros H1 H2. unfold s1. destruct (negb r && (f_ready (fr s) =? count s)%nat) eqn:E; auto.
    apply andb_true_iff in E. destruct E as [E1 E2]. apply negb_true_iff in E1. apply Nat.eqb_eq in E2. simpl. auto. }
  assert (Hc : count s1 = count s) by (unfold count; now rewrite A).
  destruct (S j =? f_i (fr s1))%nat eqn:E.
  - apply Nat.eqb_eq in E. rewrite fr_after_deqs, done_after_deqs. splits; auto.
    + apply ns_after_deqs.
    + intros Hj j'. split; [intros H; now apply wnd_after_deqs in H | lia].
    + intros H1 H2. unfold count. rewrite fr_after_deqs. now apply Hidx.
  - apply Nat.eqb_neq in E. splits; auto.
    + unfold no_special, in_call. destruct (pcs_goto_deq s1 (S j)) as [H|H]; rewrite H; splits; auto; congruence.
    + intros Hj j'. unfold wnd. rewrite fr_goto_deq, C. destruct (pcs_goto_deq s1 (S j)) as [H|H]; rewrite H; simpl; lia.
Qed.


(* a step that changes only thread t's control state (and nothing the invariant reads in the rest of the world) *)
Lemma ginv_control w w1 t s2 :
  let s := thr w t in
  ginv w -> same_but_thr w w1 -> thr w1 = thr w ->
  (forall r o, owner r = t -> (wins s2 r o <-> wins s r o)) ->
  (forall j, pc_ s2 = PDeqSpin j -> is_cv (objat s2 j) = true /\ taker w (rec_of t s2 j) <> None) ->
  (forall i, pc_ s2 = PEnq i -> taker w (rec_of t s2 i) = None /\ woken w (rec_of t s2 i) = false) ->
  (privs w t <> [] -> waker_pc (pc_ s2)) ->
  (in_call s2 -> f_ready (fr s2) <> count s2 -> f_idx_ready (fr s2) = true) ->
  ginv (set_thr w1 t s2).
Proof.
  intros s G [Sl [Sp [Sw [St [Sk Sn]]]]] Eth Hw Hspin Henq Hwk Hidx.
  assert (Hwin : forall r o, win (set_thr w1 t s2) r o <-> win w r o).
  { intros r o. destruct (Nat.eq_dec (owner r) t) as [E|E].
    - rewrite (win_set_thr_same w1 w t s2 r o Eth E). rewrite Hw by auto. unfold win. now rewrite E.
    - apply (win_set_thr_other w1 w t s2 r o Eth E). }
  constructor.
  - intros o r Hin. rewrite obj_list_set_thr, Sl in Hin. simpl waiting; simpl taker. rewrite Sw, St, Hwin. now apply (g_list w G).
  - intros u r Hin. simpl privs in Hin. rewrite Sp in Hin. simpl waiting; simpl taker. rewrite Sw, St.
    destruct (g_priv w G _ _ Hin) as [[n A] [B [C D]]]. splits; auto.
    + exists n. now apply Hwin.
    + simpl thr. unfold fupd. destruct (Nat.eqb_spec u t) as [-> | Hu]; [|now rewrite Eth].
      apply Hwk. intros Hnil. rewrite Hnil in Hin. destruct Hin.
  - intros o. rewrite obj_list_set_thr, Sl. apply (g_nd w G).
  - intros u. simpl privs. rewrite Sp. apply (g_ndp w G).
  - intros n Hn. simpl notes in *. rewrite Sn in Hn. change (n_waiters (notes w1 n)) with (obj_list w1 (ONote n)). rewrite Sl. now apply (g_note w G).
  - intros r n Hr. apply Hwin in Hr. simpl cvs; simpl taker. change (cvs w1 n) with (obj_list w1 (OCv n)). rewrite Sl, St. now apply (g_cvq w G).
  - intros t' j Hp. simpl thr in *. simpl taker. rewrite St. unfold fupd in *. destruct (Nat.eqb_spec t' t) as [-> | Hn]; auto.
    rewrite Eth in *. now apply (g_spin w G).
  - intros t' j Hp. simpl thr in *. simpl taker; simpl woken. rewrite St, Sk. unfold fupd in *. destruct (Nat.eqb_spec t' t) as [-> | Hn]; auto.
    rewrite Eth in *. now apply (g_enq w G).
  - intros t'. simpl thr. unfold fupd. destruct (Nat.eqb_spec t' t) as [-> | Hn]; auto. rewrite Eth. apply (g_idx w G).
Qed.
Lemma same_refl w : same_but_thr w w.
Proof. unfold same_but_thr; splits; auto. Qed.

Lemma ginv_deq w t j w1 ok onl :
  let s := thr w t in
  ginv w -> linv s -> pc_ s = PDeq j -> obj_dequeue w (objat s j) (rec_of t s j) = (w1, ok) ->
  ginv (set_thr w1 t (ctl_deq w1 t s j ok onl)).
Proof.
  intros s G L Hpc E.
  set (o := objat s j) in *. set (r := rec_of t s j) in *. set (s2 := ctl_deq w1 t s j ok onl).
  destruct (deq_spec _ _ _ _ _ E) as [El [Eo [Ew [Et [Ek [Ep [Eth [Ent [Enw [Erdy [Erem [Efalse Ectr]]]]]]]]]]]].
  destruct L as [Lr L]. rewrite Hpc in L. destruct L as [Lj [Li _]].
  assert (Hwr : win w r o).
  { unfold win, r, rec_of, owner; simpl. fold s. apply win_rec. splits; auto; try lia. rewrite Hpc. simpl. lia. }
  (* either the call stays at index j (cv, not queued any more: spin), or r is on no list afterwards *)
  assert (Hcase : (is_cv o = true /\ ok = false /\ w1 = w /\ taker w r <> None) \/
                  ((is_cv o && negb ok = false) /\ ~ In r (obj_list w1 o) /\ forall u, ~ In r (privs w u))).
  { destruct o as [n|n|n] eqn:Eobj.
    - right. splits; auto.
      + destruct ok.
        * rewrite Erem; auto; [|congruence]. rewrite In_remove_r. tauto.
        * destruct (Efalse eq_refl) as [Hn ->]. simpl. rewrite (g_note w G n Hn). auto.
      + intros u Hin. destruct (g_priv w G _ _ Hin) as [[m Hm] _]. pose proof (wins_obj_unique _ _ _ _ Hwr Hm). discriminate.
    - right. splits; auto.
      + destruct (Ectr n eq_refl) as [[Hz ->]|Hr].
        * intros Hin. destruct (g_list w G _ _ Hin) as [_ [Hnz _]]. auto.
        * rewrite Hr. rewrite In_remove_r. tauto.
      + intros u Hin. destruct (g_priv w G _ _ Hin) as [[m Hm] _]. pose proof (wins_obj_unique _ _ _ _ Hwr Hm). discriminate.
    - destruct ok.
      + right. splits; auto.
        * rewrite Erem; auto; [|congruence]. rewrite In_remove_r. tauto.
        * intros u Hin. destruct (g_priv w G _ _ Hin) as [_ [_ [Ht _]]].
          assert (Hin' : In r (obj_list w (OCv n))).
          { apply mem_In. simpl in E. destruct (znz (waiting w r) && mem r (cvs w n)) eqn:E'; [|inversion E].
            apply andb_true_iff in E'. apply E'. }
          destruct (g_list w G _ _ Hin') as [_ [_ Hn]]. congruence.
      + left. destruct (Efalse eq_refl) as [Hq ->]. splits; auto.
        destruct (g_cvq w G _ _ Hwr) as [Hc|Hc]; auto.
        destruct Hq as [Hq|Hq]; [|contradiction].
        destruct (g_list w G (OCv n) _ Hc) as [_ [Hnz _]]. contradiction. }
  destruct Hcase as [[Hcv [Hok [-> Htk]]] | [Hcv [Hnl Hnp]]].
  - (* spin *)
    unfold s2, ctl_deq. fold o. rewrite Hcv, Hok. simpl andb. cbv iota.
    apply (ginv_control w w); auto using same_refl.
    + intros r' o' _. unfold wins; simpl. fold s. rewrite Hpc. simpl. tauto.
    + intros j' Hj'. simpl in Hj'. inversion Hj'; subst j'. split; auto.
    + intros i Hi. simpl in Hi. discriminate.
    + intros Hne. destruct (privs w t) as [|x l] eqn:Ep'; [congruence|].
      destruct (g_priv w G t x) as [_ [_ [_ D]]]; [rewrite Ep'; now left|]. fold s in D. rewrite Hpc in D. destruct D.
    + simpl. intros _. apply (g_idx w G t). unfold in_call. fold s. now rewrite Hpc.
  - (* r is on no list any more *)
    assert (Hs2 : s2 = after_deq w1 t (lg (EvDeq j ok onl) s) j ok).
    { unfold s2, ctl_deq. fold o. now rewrite Hcv. }
    destruct (after_deq_facts w1 t (lg (EvDeq j ok onl) s) j ok) as [Fo [Fd [Fi [[Ns1 [Ns2 Ns3]] [Fw Fidx]]]]].
    rewrite <- Hs2 in Fo, Fd, Fi, Ns1, Ns2, Ns3, Fw, Fidx. simpl in Fo, Fd, Fi, Fw.
    assert (Hcnt : count s2 = count s) by (unfold count; now rewrite Fo).
    assert (Hobj : forall j', objat s2 j' = objat s j') by (intros; unfold objat; now rewrite Fo).
    assert (Hsub : forall o' r', In r' (obj_list w1 o') -> In r' (obj_list w o') /\ r' <> r).
    { intros o' r' Hin. destruct (oref_eq_dec o' o) as [-> | Hne].
      - split; [|intros ->; contradiction]. destruct El as [El|El]; rewrite El in Hin; auto. apply In_remove_r in Hin. tauto.
      - rewrite Eo in Hin by auto. split; auto. intros ->. destruct (g_list w G _ _ Hin) as [A _].
        apply Hne. symmetry. apply (wins_obj_unique _ _ _ _ Hwr A). }
    assert (Hold : forall r' o', r' <> r -> owner r' = t -> wins s r' o' -> wins s2 r' o').
    { intros r' o' Hne Ho [A [B [C D]]]. unfold wins. rewrite Fd, Hcnt, Hobj. splits; auto.
      apply Fw; auto. rewrite Hpc in D. simpl in D. split; [|lia].
      destruct (Nat.eq_dec (ridx r') j) as [Hj|Hj]; [|lia].
      exfalso. apply Hne. rewrite (rid_eta r'). unfold r, rec_of. congruence. }
    assert (Hback : forall r' o', owner r' = t -> wins s2 r' o' -> wins s r' o' /\ r' <> r).
    { intros r' o' Ho [A [B [C D]]]. rewrite Fd in A. rewrite Hcnt in B. rewrite Hobj in C. apply Fw in D; auto.
      split; [unfold wins; splits; auto; rewrite Hpc; simpl; lia|]. intros ->. unfold r, rec_of, ridx in D; simpl in D. lia. }
    constructor.
    + intros o' r' Hin. rewrite obj_list_set_thr in Hin. simpl waiting; simpl taker.
      destruct (Hsub _ _ Hin) as [Hin' Hne]. destruct (g_list w G _ _ Hin') as [A [B C]]. splits.
      * apply (win_transfer w1 w); auto.
      * rewrite Ew; auto.
      * rewrite Et; auto.
    + intros u r' Hin. simpl privs in Hin. rewrite Ep in Hin. simpl waiting; simpl taker.
      destruct (g_priv w G _ _ Hin) as [[n A] [B [C D]]].
      assert (r' <> r) by (intros ->; now apply (Hnp u)).
      splits.
      * exists n. apply (win_transfer w1 w); auto.
      * rewrite Ew; auto.
      * rewrite Et; auto.
      * simpl thr. unfold fupd. destruct (Nat.eqb_spec u t) as [-> | Hu]; [|rewrite Eth; auto].
        fold s in D. rewrite Hpc in D. destruct D.
    + intros o'. rewrite obj_list_set_thr. destruct (oref_eq_dec o' o) as [-> | Hne].
      * destruct El as [El|El]; rewrite El; [apply (g_nd w G) | apply NoDup_remove_r, (g_nd w G)].
      * rewrite Eo by auto. apply (g_nd w G).
    + intros u. simpl privs. rewrite Ep. apply (g_ndp w G).
    + intros n Hn. simpl notes in *. rewrite Ent in Hn. rewrite Enw by auto. now apply (g_note w G).
    + intros r' n Hw. simpl cvs; simpl taker. rewrite Et. change (cvs w1 n) with (obj_list w1 (OCv n)).
      assert (Hr' : win w r' (OCv n) /\ r' <> r).
      { destruct (Nat.eq_dec (owner r') t) as [Ho|Ho].
        - apply (win_set_thr_same w1 w) in Hw; auto. destruct (Hback _ _ Ho Hw) as [A B]. split; auto. unfold win. now rewrite Ho.
        - apply (win_set_thr_other w1 w) in Hw; auto. split; auto. intros ->. apply Ho. reflexivity. }
      destruct Hr' as [Hw' Hne]. destruct (g_cvq w G _ _ Hw') as [Hc|Hc]; auto. left.
      change (cvs w n) with (obj_list w (OCv n)) in Hc.
      destruct (oref_eq_dec (OCv n) o) as [Heq|Hneq].
      * rewrite Heq in *. destruct El as [El|El]; rewrite El; auto. apply In_remove_r. auto.
      * rewrite Eo; auto.
    + intros t' j' Hp. simpl thr in *. unfold fupd in *. destruct (Nat.eqb_spec t' t) as [-> | Hn].
      * exfalso. now apply (Ns1 j').
      * rewrite Eth in *. simpl taker. rewrite Et. now apply (g_spin w G).
    + intros t' j' Hp. simpl thr in *. unfold fupd in *. destruct (Nat.eqb_spec t' t) as [-> | Hn].
      * exfalso. now apply (Ns2 j').
      * rewrite Eth in *. simpl taker; simpl woken. rewrite Et, Ek. now apply (g_enq w G).
    + intros t'. simpl thr. unfold fupd. destruct (Nat.eqb_spec t' t) as [-> | Hn].
      * intros _. apply Fidx.
        -- simpl. apply (g_idx w G t). unfold in_call. fold s. now rewrite Hpc.
        -- intros Hok _. simpl. fold o. fold r. apply Erdy; auto. rewrite Hok in Hcv. simpl in Hcv. now rewrite andb_true_r in Hcv.
      * rewrite Eth. apply (g_idx w G).
Qed.

(* PDeqSpin: the waker has cleared `waiting`; the record is on no list *)
Lemma ginv_spin w t j :
  let s := thr w t in
  ginv w -> linv s -> pc_ s = PDeqSpin j -> znz (waiting w (rec_of t s j)) = false ->
  ginv (set_thr w t (ctl_spin w t s j (waiting w (rec_of t s j)))).
Proof.
  intros s G L Hpc Hz. set (r := rec_of t s j) in *. set (v := waiting w r) in *.
  set (s2 := ctl_spin w t s j v).
  assert (Hv : waiting w r = 0) by (unfold znz in Hz; apply negb_false_iff, Z.eqb_eq in Hz; auto).
  destruct L as [Lr L]. rewrite Hpc in L. destruct L as [Lj [Li _]].
  destruct (g_spin w G t j Hpc) as [Hcv Htk]. fold s in Hcv. fold s r in Htk.
  assert (Hnl : forall o, ~ In r (obj_list w o)).
  { intros o Hin. destruct (g_list w G _ _ Hin) as [_ [B _]]. contradiction. }
  assert (Hnp : forall u, ~ In r (privs w u)).
  { intros u Hin. destruct (g_priv w G _ _ Hin) as [_ [B _]]. contradiction. }
  destruct (after_deq_facts w t (lg (EvDeqSpin j v) s) j false) as [Fo [Fd [Fi [[Ns1 [Ns2 Ns3]] [Fw Fidx]]]]].
  fold (ctl_spin w t s j v) in Fo, Fd, Fi, Ns1, Ns2, Ns3, Fw, Fidx. fold s2 in Fo, Fd, Fi, Ns1, Ns2, Ns3, Fw, Fidx.
  simpl in Fo, Fd, Fi, Fw.
  assert (Hcnt : count s2 = count s) by (unfold count; now rewrite Fo).
  assert (Hobj : forall j', objat s2 j' = objat s j') by (intros; unfold objat; now rewrite Fo).
  assert (Hold : forall r' o', r' <> r -> owner r' = t -> wins s r' o' -> wins s2 r' o').
  { intros r' o' Hne Ho [A [B [C D]]]. unfold wins. rewrite Fd, Hcnt, Hobj. splits; auto.
    apply Fw; auto. rewrite Hpc in D. simpl in D. split; [|lia].
    destruct (Nat.eq_dec (ridx r') j) as [Hj|Hj]; [|lia].
    exfalso. apply Hne. rewrite (rid_eta r'). unfold r, rec_of. congruence. }
  assert (Hback : forall r' o', owner r' = t -> wins s2 r' o' -> wins s r' o' /\ r' <> r).
  { intros r' o' Ho [A [B [C D]]]. rewrite Fd in A. rewrite Hcnt in B. rewrite Hobj in C. apply Fw in D; auto.
    split; [unfold wins; splits; auto; rewrite Hpc; simpl; lia|]. intros ->. unfold r, rec_of, ridx in D; simpl in D. lia. }
  constructor.
  - intros o' r' Hin. rewrite obj_list_set_thr in Hin. simpl waiting; simpl taker.
    destruct (g_list w G _ _ Hin) as [A [B C]]. splits; auto.
    apply (win_transfer w w); auto. intros Ho. apply Hold; auto. intros ->. now apply (Hnl o').
  - intros u r' Hin. simpl privs in Hin. simpl waiting; simpl taker.
    destruct (g_priv w G _ _ Hin) as [[n A] [B [C D]]]. splits; auto.
    + exists n. apply (win_transfer w w); auto. intros Ho. apply Hold; auto. intros ->. now apply (Hnp u).
    + simpl thr. unfold fupd. destruct (Nat.eqb_spec u t) as [-> | Hu]; auto.
      fold s in D. rewrite Hpc in D. destruct D.
  - intros o'. rewrite obj_list_set_thr. apply (g_nd w G).
  - intros u. apply (g_ndp w G).
  - intros n Hn. now apply (g_note w G).
  - intros r' n Hw. simpl cvs; simpl taker. apply (g_cvq w G).
    destruct (Nat.eq_dec (owner r') t) as [Ho|Ho].
    + apply (win_set_thr_same w w) in Hw; auto. destruct (Hback _ _ Ho Hw) as [A B]. unfold win. now rewrite Ho.
    + now apply (win_set_thr_other w w) in Hw.
  - intros t' j' Hp. simpl thr in *. unfold fupd in *. destruct (Nat.eqb_spec t' t) as [-> | Hn].
    + exfalso. now apply (Ns1 j').
    + now apply (g_spin w G).
  - intros t' j' Hp. simpl thr in *. unfold fupd in *. destruct (Nat.eqb_spec t' t) as [-> | Hn].
    + exfalso. now apply (Ns2 j').
    + now apply (g_enq w G).
  - intros t'. simpl thr. unfold fupd. destruct (Nat.eqb_spec t' t) as [-> | Hn].
    + intros _. apply Fidx.
      * simpl. apply (g_idx w G t). unfold in_call. fold s. now rewrite Hpc.
      * intros _ _. change (objat (lg (EvDeqSpin j v) s) j) with (objat s j). change (rec_of t (lg (EvDeqSpin j v) s) j) with r.
        destruct (objat s j); try discriminate. simpl. destruct (taker w r); congruence.
    + apply (g_idx w G).
Qed.

(* PInit: nw[i] is (re)initialised; it is on no list *)
Lemma ginv_init w t i v :
  let s := thr w t in
  ginv w -> linv s -> pc_ s = PInit i ->
  ginv (set_thr (init_rec w (rec_of t s i) v) t (ctl_init s i v)).
Proof.
  intros s G L Hpc. set (r := rec_of t s i). set (s2 := ctl_init s i v).
  assert (Hnw : ~ wnd s i) by (unfold wnd; rewrite Hpc; simpl; lia).
  assert (Hnl : forall o', ~ In r (obj_list w o')) by (intros; apply not_listed; auto).
  assert (Hnp : forall u, ~ In r (privs w u)) by (intros; apply not_priv; auto).
  assert (Hw : forall r' o, owner r' = t -> (wins s2 r' o <-> wins s r' o)).
  { intros r' o _. unfold wins; simpl. rewrite Hpc. simpl. tauto. }
  assert (Hwin : forall r' o, win (set_thr (init_rec w r v) t s2) r' o <-> win w r' o).
  { intros r' o. destruct (Nat.eq_dec (owner r') t) as [E|E].
    - rewrite (win_set_thr_same (init_rec w r v) w t s2 r' o eq_refl E). rewrite Hw by auto. unfold win. now rewrite E.
    - apply (win_set_thr_other (init_rec w r v) w t s2 r' o eq_refl E). }
  assert (Hnwin : forall o, ~ win w r o).
  { intros o [_ [_ [_ D]]]. simpl in D. apply Hnw. exact D. }
  constructor.
  - intros o r' Hin. rewrite obj_list_set_thr in Hin. change (obj_list (init_rec w r v) o) with (obj_list w o) in Hin.
    assert (r' <> r) by (intros ->; now apply (Hnl o)).
    simpl waiting; simpl taker. rewrite !rupd_other by auto. rewrite Hwin. now apply (g_list w G).
  - intros u r' Hin. simpl privs in Hin. assert (r' <> r) by (intros ->; now apply (Hnp u)).
    simpl waiting; simpl taker. rewrite !rupd_other by auto.
    destruct (g_priv w G _ _ Hin) as [[n A] [B [C D]]]. splits; auto.
    + exists n. now apply Hwin.
    + simpl thr. unfold fupd. destruct (Nat.eqb_spec u t) as [-> | Hu]; auto. fold s in D. rewrite Hpc in D. destruct D.
  - intros o. rewrite obj_list_set_thr. apply (g_nd w G).
  - intros u. apply (g_ndp w G).
  - intros n Hn. now apply (g_note w G).
  - intros r' n Hr. apply Hwin in Hr. simpl cvs; simpl taker.
    assert (r' <> r) by (intros ->; now apply (Hnwin (OCv n))).
    rewrite rupd_other by auto. now apply (g_cvq w G).
  - intros t' j Hp. simpl thr in *. simpl taker. unfold fupd in *. destruct (Nat.eqb_spec t' t) as [-> | Hn].
    + simpl in Hp. discriminate.
    + rewrite rupd_other; [now apply (g_spin w G)|]. unfold rec_of, r. intros Heq. inversion Heq. auto.
  - intros t' j Hp. simpl thr in *. simpl taker; simpl woken. unfold fupd in *. destruct (Nat.eqb_spec t' t) as [-> | Hn].
    + simpl in Hp. inversion Hp; subst j. simpl. fold r. rewrite !rupd_same. auto.
    + rewrite !rupd_other; [now apply (g_enq w G)| |]; unfold rec_of, r; intros Heq; inversion Heq; auto.
  - intros t'. simpl thr. unfold fupd. destruct (Nat.eqb_spec t' t) as [-> | Hn]; [|apply (g_idx w G)].
    simpl. intros _. apply (g_idx w G t). unfold in_call. fold s. now rewrite Hpc.
Qed.

(* note_notify_child / nsync_counter_add reaching zero: every record of the object's list is woken, the list emptied *)
Lemma obj_list_wake_all w l v o : obj_list (wake_all w l v) o = obj_list w o. Proof. destruct o; reflexivity. Qed.
Lemma ginv_wake w w0 o v :
  ginv w -> is_cv o = false ->
  obj_list w0 o = [] -> (forall o', o' <> o -> obj_list w0 o' = obj_list w o') ->
  privs w0 = privs w -> waiting w0 = waiting w -> taker w0 = taker w -> woken w0 = woken w -> thr w0 = thr w ->
  (forall n, ONote n <> o -> nt_time (notes w0 n) = nt_time (notes w n)) ->
  ginv (wake_all w0 (obj_list w o) v).
Proof.
  intros G Hcv Hl Ho Hp Hw Ht Hk Hth Hn.
  set (l := obj_list w o). set (w1 := wake_all w0 l v).
  assert (Hwin : forall r o', win w1 r o' <-> win w r o').
  { intros. unfold win, w1. simpl thr. rewrite Hth. tauto. }
  assert (Hnotl : forall r o', o' <> o -> In r (obj_list w o') -> mem r l = false).
  { intros r o' Hne Hin. apply mem_false. intros Hin'. apply Hne.
    destruct (g_list w G _ _ Hin) as [A _]. destruct (g_list w G _ _ Hin') as [B _]. apply (wins_obj_unique _ _ _ _ A B). }
  assert (Hnotp : forall r u, In r (privs w u) -> mem r l = false).
  { intros r u Hin. apply mem_false. intros Hin'.
    destruct (g_priv w G _ _ Hin) as [[n A] _]. destruct (g_list w G _ _ Hin') as [B _].
    pose proof (wins_obj_unique _ _ _ _ A B) as Heq. rewrite <- Heq in Hcv. discriminate. }
  constructor.
  - intros o' r Hin. unfold w1 in Hin. rewrite obj_list_wake_all in Hin.
    destruct (oref_eq_dec o' o) as [-> | Hne]; [rewrite Hl in Hin; destruct Hin|].
    rewrite Ho in Hin by auto. rewrite Hwin. simpl waiting; simpl taker. rewrite (Hnotl r o') by auto. rewrite Hw, Ht. now apply (g_list w G).
  - intros u r Hin. simpl privs in Hin. rewrite Hp in Hin. simpl waiting; simpl taker. rewrite (Hnotp r u) by auto. rewrite Hw, Ht.
    destruct (g_priv w G _ _ Hin) as [[n A] [B [C D]]]. splits; auto.
    + exists n. now apply Hwin.
    + simpl thr. now rewrite Hth.
  - intros o'. unfold w1. rewrite obj_list_wake_all. destruct (oref_eq_dec o' o) as [-> | Hne]; [rewrite Hl; constructor|].
    rewrite Ho by auto. apply (g_nd w G).
  - intros u. simpl privs. rewrite Hp. apply (g_ndp w G).
  - intros n Hnt. simpl notes in *. change (n_waiters (notes w0 n)) with (obj_list w0 (ONote n)).
    destruct (oref_eq_dec (ONote n) o) as [<- | Hne]; auto.
    rewrite Ho by auto. rewrite Hn in Hnt by auto. now apply (g_note w G).
  - intros r n Hr. apply Hwin in Hr. simpl cvs; simpl taker. rewrite Ht. change (cvs w0 n) with (obj_list w0 (OCv n)).
    rewrite Ho; [now apply (g_cvq w G)|]. intros <-. discriminate.
  - intros t j Hpc. simpl thr in *. simpl taker. rewrite Hth in *. rewrite Ht. now apply (g_spin w G).
  - intros t i Hpc. simpl thr in *. simpl taker; simpl woken. rewrite Hth in *. rewrite Ht, Hk.
    destruct (g_enq w G t i Hpc) as [A B]. split; auto.
    destruct (mem (rec_of t (thr w t) i) l) eqn:E; auto. exfalso.
    apply mem_In in E. eapply (not_listed w t i o); eauto. unfold wnd. rewrite Hpc. simpl. lia.
  - intros t. simpl thr. rewrite Hth. apply (g_idx w G).
Qed.

Lemma ginv_same w w1 : ginv w -> same_but_thr w w1 -> thr w1 = thr w -> ginv w1.
Proof.
  intros G [Sl [Sp [Sw [St [Sk Sn]]]]] Eth.
  assert (Hwin : forall r o, win w1 r o <-> win w r o) by (intros; unfold win; rewrite Eth; tauto).
  constructor.
  - intros o r Hin. rewrite Sl in Hin. rewrite Sw, St, Hwin. now apply (g_list w G).
  - intros u r Hin. rewrite Sp in Hin. rewrite Sw, St, Eth.
    destruct (g_priv w G _ _ Hin) as [[n A] [B [C D]]]. splits; auto. exists n. now apply Hwin.
  - intros o. rewrite Sl. apply (g_nd w G).
  - intros u. rewrite Sp. apply (g_ndp w G).
  - intros n Hn. rewrite Sn in Hn. change (n_waiters (notes w1 n)) with (obj_list w1 (ONote n)). rewrite Sl. now apply (g_note w G).
  - intros r n Hr. apply Hwin in Hr. change (cvs w1 n) with (obj_list w1 (OCv n)). rewrite Sl, St. now apply (g_cvq w G).
  - intros t j Hp. rewrite Eth in *. rewrite St. now apply (g_spin w G).
  - intros t j Hp. rewrite Eth in *. rewrite St, Sk. now apply (g_enq w G).
  - intros t. rewrite Eth. apply (g_idx w G).
Qed.
Lemma same_set_ctr w n c : c_waiters c = c_waiters (ctrs w n) -> same_but_thr w (set_ctr w n c).
Proof.
  intros H. unfold same_but_thr; splits; auto. intros o. destruct o as [m|m|m]; simpl; auto.
  unfold fupd. destruct (Nat.eqb_spec m n); subst; auto.
Qed.
Lemma ginv_note_do_notify w n : ginv w -> ginv (note_do_notify w n).
Proof.
  intros G. unfold note_do_notify. destruct (time_pos (nt_time (notes w n))) eqn:E; auto.
  apply (ginv_wake w _ (ONote n)); auto.
  - simpl. now rewrite fupd_same.
  - intros o' Hne. destruct o' as [m|m|m]; simpl; auto. rewrite fupd_other by congruence. auto.
  - intros m Hne. simpl. rewrite fupd_other by congruence. auto.
Qed.
Lemma ginv_note_deadline w n : ginv w -> ginv (fst (note_deadline w n)).
Proof.
  intros G. unfold note_deadline. destruct (znz _); simpl; auto. destruct (_ && _); simpl; auto. now apply ginv_note_do_notify.
Qed.
Lemma ginv_ctr_add w n d w1 v : ginv w -> ctr_add w n d = Some (w1, v) -> ginv w1.
Proof.
  intros G. unfold ctr_add. destruct (if (d >? 0)%Z then _ else _); [|discriminate].
  intros H; inversion H; subst; clear H.
  destruct (nsync_counter_add_store1_guard _ _).
  - apply (ginv_wake w _ (OCounter n)); auto.
    + simpl. now rewrite fupd_same.
    + intros o' Hne. destruct o' as [m|m|m]; simpl; auto. rewrite fupd_other by congruence. auto.
  - apply (ginv_same w); auto. now apply same_set_ctr.
Qed.
Lemma ginv_obj_ready_time w f o r : ginv w -> ginv (fst (obj_ready_time w f o r)).
Proof.
  intros G. destruct o as [n|n|n]; simpl; auto.
  - now apply ginv_note_deadline.
  - apply (ginv_same w); auto. now apply same_set_ctr.
Qed.

Lemma NoDup_app_inv {A} (l q : list A) : NoDup (l ++ q) -> NoDup l /\ NoDup q /\ forall x, In x l -> ~ In x q.
Proof.
  induction l as [|a l IH]; simpl; intros H.
  - splits; auto. constructor.
  - inversion H as [|? ? Hn Hd]; subst. destruct (IH Hd) as [A1 [A2 A3]]. splits; auto.
    + constructor; auto. intros Hin. apply Hn. apply in_or_app. auto.
    + intros x [-> | Hx]; auto. intros Hq. apply Hn. apply in_or_app. auto.
Qed.

(* signal / broadcast (a): records l move from the head of cv n's queue to the caller's to_wake_list *)
Lemma ginv_take w t n l q s2 :
  let s := thr w t in
  ginv w -> pc_ s = PIdle -> cvs w n = l ++ q -> pc_ s2 = PWake ->
  ginv (set_thr (set_priv (set_taken (set_cv w n q) l t) t l) t s2).
Proof.
  intros s G Hpc Hc Hpc2.
  set (w1 := set_priv (set_taken (set_cv w n q) l t) t l).
  pose proof (g_nd w G (OCv n)) as Hnd. simpl in Hnd. rewrite Hc in Hnd. destruct (NoDup_app_inv _ _ Hnd) as [Hndl [Hndq Hdisj]].
  assert (Hpriv0 : privs w t = []).
  { destruct (privs w t) as [|x p] eqn:E; auto. destruct (g_priv w G t x) as [_ [_ [_ D]]]; [rewrite E; now left|].
    fold s in D. rewrite Hpc in D. destruct D. }
  assert (Hwin : forall r o, win (set_thr w1 t s2) r o <-> win w r o).
  { intros r o. destruct (Nat.eq_dec (owner r) t) as [E|E].
    - rewrite (win_set_thr_same w1 w t s2 r o eq_refl E). unfold win. rewrite E. fold s. unfold wins. rewrite Hpc, Hpc2. simpl. tauto.
    - apply (win_set_thr_other w1 w t s2 r o eq_refl E). }
  assert (Hl : forall r, In r l -> In r (cvs w n)) by (intros; rewrite Hc; apply in_or_app; auto).
  assert (Hq : forall r, In r q -> In r (cvs w n) /\ ~ In r l).
  { intros r Hr. split; [rewrite Hc; apply in_or_app; auto|]. intros Hr'. now apply (Hdisj r). }
  assert (Hlists : forall o r, In r (obj_list w1 o) -> In r (obj_list w o) /\ ~ In r l).
  { intros o r Hin. destruct o as [m|m|m]; simpl in Hin |- *.
    - split; auto. intros Hr. apply Hl in Hr. destruct (g_list w G (OCv n) r Hr) as [A _]. destruct (g_list w G (ONote m) r Hin) as [B _].
      pose proof (wins_obj_unique _ _ _ _ A B). discriminate.
    - split; auto. intros Hr. apply Hl in Hr. destruct (g_list w G (OCv n) r Hr) as [A _]. destruct (g_list w G (OCounter m) r Hin) as [B _].
      pose proof (wins_obj_unique _ _ _ _ A B). discriminate.
    - unfold fupd in Hin. destruct (Nat.eqb_spec m n) as [-> | Hne].
      + now apply Hq.
      + split; auto. intros Hr. apply Hl in Hr. destruct (g_list w G (OCv n) r Hr) as [A _]. destruct (g_list w G (OCv m) r Hin) as [B _].
        pose proof (wins_obj_unique _ _ _ _ A B) as Heq. inversion Heq. auto. }
  constructor.
  - intros o r Hin. rewrite obj_list_set_thr in Hin. destruct (Hlists _ _ Hin) as [Hin' Hnl].
    rewrite Hwin. simpl waiting; simpl taker. apply mem_false in Hnl. rewrite Hnl. now apply (g_list w G).
  - intros u r Hin. simpl privs in Hin. simpl waiting; simpl taker. simpl thr. unfold fupd in *. destruct (Nat.eqb_spec u t) as [-> | Hu].
    + pose proof Hin as Hm. apply mem_In in Hm. rewrite Hm. apply Hl in Hin. destruct (g_list w G (OCv n) r Hin) as [A [B C]].
      splits; auto. * exists n. now apply Hwin. * rewrite Hpc2. exact I.
    + destruct (g_priv w G _ _ Hin) as [[m A] [B [C D]]].
      assert (Hnl : mem r l = false).
      { apply mem_false. intros Hr. apply Hl in Hr. destruct (g_list w G (OCv n) r Hr) as [_ [_ E]]. congruence. }
      rewrite Hnl. splits; auto. exists m. now apply Hwin.
  - intros o. rewrite obj_list_set_thr. destruct o as [m|m|m]; simpl; try apply (g_nd w G (ONote m)); try apply (g_nd w G (OCounter m)).
    unfold fupd. destruct (Nat.eqb_spec m n) as [-> | Hne]; [|apply (g_nd w G (OCv m))]. auto.
  - intros u. simpl privs. unfold fupd. destruct (Nat.eqb_spec u t) as [-> | Hu]; [|apply (g_ndp w G)]. auto.
  - intros m Hm. now apply (g_note w G).
  - intros r m Hr. apply Hwin in Hr. simpl cvs; simpl taker.
    destruct (mem r l) eqn:E; [right; discriminate|].
    destruct (g_cvq w G _ _ Hr) as [Hin|Ht]; auto. left. unfold fupd. destruct (Nat.eqb_spec m n) as [-> | Hne]; auto.
    rewrite Hc in Hin. apply in_app_or in Hin. destruct Hin as [Hin|Hin]; auto. apply mem_In in Hin. congruence.
  - intros t' j Hp. simpl thr in *. simpl taker. unfold fupd in *. destruct (Nat.eqb_spec t' t) as [-> | Hn]; [congruence|].
    destruct (g_spin w G t' j Hp) as [A B]. split; auto. destruct (mem _ l); [discriminate | auto].
  - intros t' j Hp. simpl thr in *. simpl taker; simpl woken. unfold fupd in *. destruct (Nat.eqb_spec t' t) as [-> | Hn]; [congruence|].
    destruct (g_enq w G t' j Hp) as [A B]. split; auto.
    destruct (mem (rec_of t' (thr w t') j) l) eqn:E; auto. exfalso. apply mem_In, Hl in E.
    eapply (not_listed w t' j (OCv n)); eauto. unfold wnd. rewrite Hp. simpl. lia.
  - intros t'. simpl thr. unfold fupd. destruct (Nat.eqb_spec t' t) as [-> | Hn]; [|apply (g_idx w G)].
    unfold in_call. rewrite Hpc2. intros [].
Qed.

(* wake_waiters (b): the head of to_wake_list gets waiting := 0 *)
Lemma ginv_wstore w t r rest v s2 :
  let s := thr w t in
  ginv w -> pc_ s = PWake -> privs w t = r :: rest -> (exists u, pc_ s2 = PWakeV u) ->
  ginv (set_thr (set_priv (wake_store w r v) t rest) t s2).
Proof.
  intros s G Hpc Hp [u0 Hpc2].
  set (w1 := set_priv (wake_store w r v) t rest).
  pose proof (g_ndp w G t) as Hnd. rewrite Hp in Hnd. inversion Hnd as [|? ? Hnr Hnd']; subst.
  destruct (g_priv w G t r) as [[n0 Hwr] [_ [Htk _]]]; [rewrite Hp; now left|].
  assert (Hwin : forall r' o, win (set_thr w1 t s2) r' o <-> win w r' o).
  { intros r' o. destruct (Nat.eq_dec (owner r') t) as [E|E].
    - rewrite (win_set_thr_same w1 w t s2 r' o eq_refl E). unfold win. rewrite E. fold s. unfold wins. rewrite Hpc, Hpc2. simpl. tauto.
    - apply (win_set_thr_other w1 w t s2 r' o eq_refl E). }
  constructor.
  - intros o r' Hin. rewrite obj_list_set_thr in Hin. change (obj_list w1 o) with (obj_list w o) in Hin.
    destruct (g_list w G _ _ Hin) as [A [B C]].
    assert (r' <> r) by (intros ->; congruence).
    rewrite Hwin. simpl waiting; simpl taker. rewrite rupd_other by auto. auto.
  - intros u r' Hin. simpl privs in Hin. simpl waiting; simpl taker; simpl thr. unfold fupd in *. destruct (Nat.eqb_spec u t) as [-> | Hu].
    + assert (r' <> r) by (intros ->; contradiction).
      destruct (g_priv w G t r') as [[m A] [B [C D]]]; [rewrite Hp; now right|].
      rewrite rupd_other by auto. splits; auto. * exists m. now apply Hwin. * rewrite Hpc2. exact I.
    + destruct (g_priv w G _ _ Hin) as [[m A] [B [C D]]].
      assert (r' <> r) by (intros ->; rewrite Htk in C; inversion C; auto).
      rewrite rupd_other by auto. splits; auto. exists m. now apply Hwin.
  - intros o. rewrite obj_list_set_thr. apply (g_nd w G).
  - intros u. simpl privs. unfold fupd. destruct (Nat.eqb_spec u t) as [-> | Hu]; auto. apply (g_ndp w G).
  - intros m Hm. now apply (g_note w G).
  - intros r' m Hr. apply Hwin in Hr. now apply (g_cvq w G).
  - intros t' j Hp'. simpl thr in *. unfold fupd in *. destruct (Nat.eqb_spec t' t) as [-> | Hn]; [congruence|]. now apply (g_spin w G).
  - intros t' j Hp'. simpl thr in *. simpl taker; simpl woken. unfold fupd in *. destruct (Nat.eqb_spec t' t) as [-> | Hn]; [congruence|].
    destruct (g_enq w G t' j Hp') as [A B]. split; auto. rewrite rupd_other; auto.
    intros Heq. destruct Hwr as [_ [_ [_ D]]]. rewrite <- Heq in D. unfold owner, ridx, rec_of in D; simpl in D. rewrite Hp' in D. simpl in D. lia.
  - intros t'. simpl thr. unfold fupd. destruct (Nat.eqb_spec t' t) as [-> | Hn]; [|apply (g_idx w G)].
    unfold in_call. rewrite Hpc2. intros [].
Qed.

(* ---------- steps that only move thread t's control ---------- *)
Definition pure_ok (s s2 : tstate) : Prop :=
  (forall r o, wins s2 r o <-> wins s r o) /\ (forall j, pc_ s2 <> PDeqSpin j) /\ (forall i, pc_ s2 <> PEnq i) /\ ~ waker_pc (pc_ s) /\
  (in_call s2 -> f_ready (fr s2) <> count s2 -> in_call s /\ f_ready (fr s) <> count s /\ f_idx_ready (fr s2) = f_idx_ready (fr s)).
Lemma privs_nil w t : ginv w -> ~ waker_pc (pc_ (thr w t)) -> privs w t = [].
Proof.
  intros G Hn. destruct (privs w t) as [|x p] eqn:E; auto. destruct (g_priv w G t x) as [_ [_ [_ D]]]; [rewrite E; now left|]. contradiction.
Qed.
Lemma ginv_pure w w1 t s2 : ginv w -> same_but_thr w w1 -> thr w1 = thr w -> pure_ok (thr w t) s2 -> ginv (set_thr w1 t s2).
Proof.
  intros G Hs Eth [Hw [Hsp [Hen [Hwk Hidx]]]]. apply (ginv_control w w1); auto.
  - intros j Hj. exfalso. now apply (Hsp j).
  - intros i Hi. exfalso. now apply (Hen i).
  - intros Hne. exfalso. apply Hne. now apply privs_nil.
  - intros Hc Hr. destruct (Hidx Hc Hr) as [A [B C]]. rewrite C. now apply (g_idx w G t).
Qed.
Lemma wins_equiv s s2 : done s2 = done s -> f_objs (fr s2) = f_objs (fr s) ->
  (forall j, (j < count s)%nat -> (wnd s2 j <-> wnd s j)) -> forall r o, wins s2 r o <-> wins s r o.
Proof.
  intros Hd Ho Hw r o. unfold wins. assert (Hc : count s2 = count s) by (unfold count; now rewrite Ho).
  assert (Hob : objat s2 (ridx r) = objat s (ridx r)) by (unfold objat; now rewrite Ho).
  rewrite Hd, Hc, Hob. split; intros [A [B [C D]]]; splits; auto; apply (Hw (ridx r) B); auto.
Qed.
Lemma wins_empty s s2 : (forall j, (j < count s)%nat -> ~ wnd s j) -> (forall j, (j < count s2)%nat -> ~ wnd s2 j) ->
  forall r o, wins s2 r o <-> wins s r o.
Proof.
  intros H1 H2 r o. unfold wins. split; intros [A [B [C D]]]; exfalso; [apply (H2 _ B D) | apply (H1 _ B D)].
Qed.
Lemma pcs_after_first s clk :
  (pc_ (after_first s clk) = PInit 0 /\ count s <> 0%nat) \/ pc_ (after_first s clk) = PRet \/ (count s = 0%nat).
Proof.
  unfold after_first. destruct (time_pos _); simpl; auto. destruct (count s =? 0)%nat eqn:E.
  - apply Nat.eqb_eq in E. auto.
  - apply Nat.eqb_neq in E. simpl. auto.
Qed.
Lemma fr_after_first s clk : f_objs (fr (after_first s clk)) = f_objs (fr s) /\ f_ready (fr (after_first s clk)) = f_ready (fr s) /\
  f_idx_ready (fr (after_first s clk)) = f_idx_ready (fr s) /\ done (after_first s clk) = done s.
Proof.
  unfold after_first. destruct (time_pos _); simpl; auto. destruct (count s =? 0)%nat; simpl; auto.
  rewrite fr_after_enq, done_after_enq. simpl. auto.
Qed.
Lemma ns_after_first s clk : (forall j, pc_ (after_first s clk) <> PDeqSpin j) /\ (forall i, pc_ (after_first s clk) <> PEnq i).
Proof.
  unfold after_first. destruct (time_pos _); simpl; [|split; congruence]. destruct (count s =? 0)%nat; simpl; [|split; congruence].
  destruct (ns_after_enq s 0) as [A [B _]]. auto.
Qed.
Lemma wnd_after_first_empty s clk j : (j < count s)%nat -> ~ wnd (after_first s clk) j.
Proof.
  intros Hj. destruct (pcs_after_first s clk) as [[H _]|[H|H]]; unfold wnd; try rewrite H; simpl; lia.
Qed.

Lemma pure_call s mu dl os rest clk held : pc_ s = PIdle -> pure_ok s (ctl_call s mu dl os rest clk held).
Proof.
  intros Hpc. unfold ctl_call.
  set (s1 := mk_t PIdle rest (new_frame mu dl os held) (done s) (results s)).
  assert (Hr : f_ready (fr s1) = count s1) by reflexivity.
  destruct (length os =? 0)%nat eqn:E.
  - destruct (fr_after_first s1 clk) as [Fo [Fr [Fi Fd]]]. destruct (ns_after_first s1 clk) as [N1 N2].
    unfold pure_ok; splits; auto.
    + apply wins_empty; [intros j _; unfold wnd; rewrite Hpc; simpl; auto|].
      intros j Hj. apply wnd_after_first_empty. unfold count in *. now rewrite Fo in Hj.
    + rewrite Hpc. simpl. auto.
    + intros _ Hne. exfalso. apply Hne. unfold count. rewrite Fr, Fo. exact Hr.
  - unfold pure_ok; simpl; splits; auto; try congruence.
    + apply wins_empty; intros j _; unfold wnd; simpl; rewrite ?Hpc; simpl; auto.
    + rewrite Hpc. simpl. auto.
    + intros _ Hne. exfalso. apply Hne. reflexivity.
Qed.
Lemma pure_first_pos s j nt b clk : linv s -> pc_ s = PFirst j -> time_pos nt = true -> pure_ok s (ctl_first s j nt b clk).
Proof.
  intros [Lr L] Hpc Hnt. rewrite Hpc in L. destruct L as [Lj [Lr' _]].
  unfold ctl_first. rewrite Hnt. set (s1 := lg (EvReady true j nt) s).
  destruct (S j =? count s)%nat.
  - destruct (fr_after_first s1 clk) as [Fo [Fr [Fi Fd]]]. destruct (ns_after_first s1 clk) as [N1 N2].
    unfold pure_ok; splits; auto.
    + apply wins_empty; [intros j' _; unfold wnd; rewrite Hpc; simpl; auto|].
      intros j' Hj. apply wnd_after_first_empty. unfold count in *. now rewrite Fo in Hj.
    + rewrite Hpc. simpl. auto.
    + intros _ Hne. exfalso. apply Hne. unfold count. rewrite Fr, Fo. exact Lr'.
  - unfold pure_ok; simpl; splits; auto; try congruence.
    + apply wins_empty; intros j' _; unfold wnd; simpl; rewrite ?Hpc; simpl; auto.
    + rewrite Hpc. simpl. auto.
    + intros _ Hne. exfalso. apply Hne. exact Lr'.
Qed.
Lemma pure_unlock s : linv s -> pc_ s = PUnlock -> pure_ok s (ctl_unlock s).
Proof.
  intros [Lr L] Hpc. rewrite Hpc in L. destruct L as [Li [Lr' _]].
  unfold ctl_unlock. set (s1 := set_unlocked (lg EvUnlock s)). destruct (ns_sleep_start s1) as [N1 [N2 N3]].
  unfold pure_ok; splits; auto.
  - apply wins_equiv; [rewrite done_sleep_start; reflexivity | rewrite fr_sleep_start; reflexivity|].
    intros j Hj. split; intros _; [unfold wnd; rewrite Hpc; simpl; auto | apply wnd_sleep_start].
  - rewrite Hpc. simpl. auto.
  - intros _ Hne. exfalso. apply Hne. unfold count. rewrite fr_sleep_start. exact Lr'.
Qed.
Lemma pure_ready s j mn nt : linv s -> pc_ s = PReady j mn -> pure_ok s (ctl_ready s j mn nt).
Proof.
  intros [Lr L] Hpc. rewrite Hpc in L. destruct L as [Lj [Li [Lr' _]]].
  unfold ctl_ready. set (s1 := lg (EvReady false j nt) s). set (mn' := if time_lt nt mn then nt else mn).
  destruct (S j =? count s)%nat; [destruct (time_pos mn')|].
  - unfold pure_ok; simpl; splits; auto; try congruence.
    + apply wins_equiv; auto. intros j' _. unfold wnd; simpl. rewrite Hpc. simpl. tauto.
    + rewrite Hpc. simpl. auto.
    + intros _ Hne. exfalso. apply Hne. exact Lr'.
  - destruct (ns_deq_start s1) as [N1 [N2 N3]]. unfold pure_ok; splits; auto.
    + apply wins_equiv; [rewrite done_deq_start; reflexivity | rewrite fr_deq_start; reflexivity|].
      intros j' Hj. subst s1. rewrite wnd_deq_start; simpl; autorewrite with cnt; [|lia]. unfold wnd. rewrite Hpc. simpl. split; auto. intros _. lia.
    + rewrite Hpc. simpl. auto.
    + intros _ Hne. exfalso. apply Hne. unfold count. rewrite fr_deq_start. exact Lr'.
  - unfold pure_ok; simpl; splits; auto; try congruence.
    + apply wins_equiv; auto. intros j' _. unfold wnd; simpl. rewrite Hpc. simpl. tauto.
    + rewrite Hpc. simpl. auto.
    + intros _ Hne. exfalso. apply Hne. exact Lr'.
Qed.
Lemma pure_p_timeout s mn clk : linv s -> pc_ s = PSleep mn -> pure_ok s (ctl_p_timeout s clk).
Proof.
  intros [Lr L] Hpc. rewrite Hpc in L. destruct L as [Li [Lr' _]].
  unfold ctl_p_timeout. set (s1 := see_dl (lg (EvP PTimeout) s) clk).
  destruct (ns_deq_start s1) as [N1 [N2 N3]]. unfold pure_ok; splits; auto.
  - apply wins_equiv; [rewrite done_deq_start; reflexivity | rewrite fr_deq_start; reflexivity|].
    intros j' Hj. subst s1. rewrite wnd_deq_start; simpl; autorewrite with cnt; [|lia]. unfold wnd. rewrite Hpc. simpl. split; auto. intros _. lia.
  - rewrite Hpc. simpl. auto.
  - intros _ Hne. exfalso. apply Hne. unfold count. rewrite fr_deq_start. exact Lr'.
Qed.
Lemma pure_p_ok s mn : linv s -> pc_ s = PSleep mn -> pure_ok s (ctl_p_ok s).
Proof.
  intros [Lr L] Hpc. rewrite Hpc in L. destruct L as [Li [Lr' _]].
  unfold ctl_p_ok. set (s1 := lg (EvP POk) s). destruct (ns_sleep_start s1) as [N1 [N2 N3]].
  unfold pure_ok; splits; auto.
  - apply wins_equiv; [rewrite done_sleep_start; reflexivity | rewrite fr_sleep_start; reflexivity|].
    intros j Hj. split; intros _; [unfold wnd; rewrite Hpc; simpl; auto | apply wnd_sleep_start].
  - rewrite Hpc. simpl. auto.
  - intros _ Hne. exfalso. apply Hne. unfold count. rewrite fr_sleep_start. exact Lr'.
Qed.
Lemma pure_deqpre s j : pc_ s = PDeqPre j -> pure_ok s (ctl_deqpre s j).
Proof.
  intros Hpc. unfold ctl_deqpre, pure_ok; simpl; splits; auto; try congruence.
  - apply wins_equiv; auto. intros j' _. unfold wnd; simpl. rewrite Hpc. simpl. tauto.
  - rewrite Hpc. simpl. auto.
  - intros _ Hne. unfold in_call. rewrite Hpc. auto.
Qed.
Lemma pure_free s : pc_ s = PFree -> pure_ok s (ctl_free s).
Proof.
  intros Hpc. unfold ctl_free. set (s1 := lg EvFree s). unfold pure_ok; splits; auto.
  - apply wins_empty; intros j _; unfold wnd; [rewrite Hpc; simpl; auto|]. destruct (pcs_after_free s1) as [H|H]; rewrite H; simpl; auto.
  - destruct (pcs_after_free s1) as [H|H]; rewrite H; congruence.
  - destruct (pcs_after_free s1) as [H|H]; rewrite H; congruence.
  - rewrite Hpc. simpl. auto.
  - intros _ Hne. unfold in_call. rewrite Hpc. auto.
Qed.
Lemma pure_lock s : pc_ s = PLock -> pure_ok s (ctl_lock s).
Proof.
  intros Hpc. unfold ctl_lock, pure_ok; simpl; splits; auto; try congruence.
  - apply wins_empty; intros j _; unfold wnd; simpl; rewrite ?Hpc; simpl; auto.
  - rewrite Hpc. simpl. auto.
  - intros _ Hne. unfold in_call. rewrite Hpc. auto.
Qed.
Lemma pure_ret s : pc_ s = PRet -> pure_ok s (ctl_ret s).
Proof.
  intros Hpc. unfold ctl_ret, pure_ok; simpl; splits; auto; try congruence.
  - apply wins_empty; intros j _; unfold wnd; simpl; rewrite ?Hpc; simpl; auto.
  - rewrite Hpc. simpl. auto.
  - unfold in_call; simpl. intros [].
Qed.
Lemma pure_idle s s2 : pc_ s = PIdle -> fr s2 = fr s -> done s2 = done s -> (pc_ s2 = PIdle \/ pc_ s2 = PPanic) -> pure_ok s s2.
Proof.
  intros Hpc Hf Hd Hp. unfold pure_ok; splits; auto.
  - apply wins_empty; intros j _; unfold wnd; [rewrite Hpc; simpl; auto|]. destruct Hp as [H|H]; rewrite H; simpl; auto.
  - destruct Hp as [H|H]; rewrite H; congruence.
  - destruct Hp as [H|H]; rewrite H; congruence.
  - rewrite Hpc. simpl. auto.
  - unfold in_call. destruct Hp as [H|H]; rewrite H; intros [].
Qed.

Lemma same_sem w t k : same_but_thr w (set_sem w t k).
Proof. unfold same_but_thr; splits; auto. Qed.
Lemma same_muh w m v : same_but_thr w (set_muh w m v).
Proof. unfold same_but_thr; splits; auto. Qed.
Lemma ready_time_ready w o r w1 nt : obj_ready_time w true o r = (w1, nt) -> time_pos nt = false -> obj_ready_now w1 o r = true.
Proof.
  destruct o as [n|n|n]; simpl.
  - unfold note_deadline. destruct (znz (n_notified (notes w n))) eqn:E.
    + intros H _; inversion H; subst. unfold nt_time. now rewrite E.
    + destruct (time_pos (nt_time (notes w n)) && time_reached (nt_time (notes w n)) (clock w)) eqn:E2.
      * intros H _; inversion H; subst. apply andb_true_iff in E2. destruct E2 as [E2 _].
        unfold note_do_notify. rewrite E2. simpl. rewrite fupd_same. reflexivity.
      * intros H Hn; inversion H; subst. now rewrite Hn.
  - intros H; inversion H; subst. simpl. rewrite fupd_same. simpl. destruct (c_value (ctrs w n) =? 0); auto; discriminate.
  - intros H; inversion H; subst. discriminate.
Qed.

Lemma ginv_step w t c : (forall u, linv (thr w u)) -> ginv w -> ginv (tnext w t c).
Proof.
  intros L G. pose proof (L t) as Lt. step_destruct w t.
  - exact G.
  - apply (ginv_pure w w); auto using same_refl. now apply pure_call.
  - (* notify *)
    pose proof (ginv_note_deadline w n G) as G1. pose proof (thr_note_deadline w n) as T1.
    destruct (note_deadline w n) as [w1 nt]. simpl in G1, T1.
    set (w2 := if time_pos nt then note_do_notify w1 n else w1).
    assert (G2 : ginv w2) by (unfold w2; destruct (time_pos nt); auto using ginv_note_do_notify).
    assert (T2 : thr w2 = thr w) by (unfold w2; destruct (time_pos nt); rewrite ?thr_note_do_notify; auto).
    simpl. rewrite <- T2. apply (ginv_pure w2 w2); auto using same_refl. rewrite T2. apply pure_idle; auto.
  - pose proof (ginv_note_deadline w n G) as G1. pose proof (thr_note_deadline w n) as T1.
    destruct (note_deadline w n) as [w1 nt]. simpl in G1, T1.
    simpl. rewrite <- T1. apply (ginv_pure w1 w1); auto using same_refl. rewrite T1. apply pure_idle; auto.
  - destruct (nsync_counter_add_cas1_guard delta).
    + destruct (ctr_add w n delta) as [[w1 v]|] eqn:E.
      * pose proof (ginv_ctr_add _ _ _ _ _ G E) as G1. pose proof (thr_ctr_add _ _ _ _ _ E) as T1.
        simpl. rewrite <- T1. apply (ginv_pure w1 w1); auto using same_refl. rewrite T1. apply pure_idle; auto.
      * simpl. apply (ginv_pure w w); auto using same_refl. apply pure_idle; auto.
    + simpl. apply (ginv_pure w w); auto using same_refl. apply pure_idle; auto.
  - destruct (cvs w n) as [|r q] eqn:E.
    + simpl. apply (ginv_pure w w); auto using same_refl. apply pure_idle; auto.
    + simpl. apply (ginv_take w t n [r] q); auto.
  - destruct (cvs w n) as [|r q] eqn:E.
    + simpl. apply (ginv_pure w w); auto using same_refl. apply pure_idle; auto.
    + simpl. apply (ginv_take w t n (r :: q) []); auto. now rewrite app_nil_r.
  - destruct (muh w m).
    + exact G.
    + simpl. apply (ginv_pure w); auto using same_muh. apply pure_idle; auto.
  - simpl. set (w1 := match muh w m with Some h => if (h =? t)%nat then set_muh w m None else w | None => w end).
    assert (S1 : same_but_thr w w1 /\ thr w1 = thr w).
    { unfold w1. destruct (muh w m); [destruct (_ =? _)%nat|]; auto using same_muh, same_refl. }
    destruct S1. apply (ginv_pure w); auto. apply pure_idle; auto.
  - (* OpStale *) simpl. apply (ginv_pure w); auto using same_sem. apply pure_idle; auto.
  - (* PFirst *)
    pose proof (ginv_obj_ready_time w true (objat (thr w t) j) (rec_of t (thr w t) j) G) as G1.
    pose proof (thr_obj_ready_time w true (objat (thr w t) j) (rec_of t (thr w t) j)) as T1.
    destruct (obj_ready_time w true (objat (thr w t) j) (rec_of t (thr w t) j)) as [w1 nt] eqn:E. simpl in G1, T1. simpl.
    destruct (time_pos nt) eqn:Hnt.
    + rewrite <- T1. apply (ginv_pure w1 w1); auto using same_refl. rewrite T1. now apply pure_first_pos.
    + pose proof (ready_time_ready _ _ _ _ _ E Hnt) as Hrdy.
      unfold ctl_first. rewrite Hnt. rewrite Hrdy. rewrite <- T1.
      apply (ginv_control w1 w1); auto using same_refl; rewrite ?T1.
      all: try solve [simpl; congruence].
      all: try solve [simpl; auto].
      all: try solve [intros r0 o0 _; apply wins_empty; intros j' _; unfold wnd; simpl; rewrite ?Hpc; simpl; auto].
      all: try solve [intros Hne; exfalso; apply Hne; apply privs_nil; auto; rewrite T1, Hpc; simpl; auto].
  - (* PInit *) simpl. now apply ginv_init.
  - (* PEnq *)
    destruct (obj_enqueue w (objat (thr w t) i) (rec_of t (thr w t) i)) as [w1 ok] eqn:E. simpl. now apply ginv_enq.
  - (* PUnlock *)
    simpl. set (w1 := match f_mu (fr (thr w t)) with Some m => match muh w m with Some h => if (h =? t)%nat then set_muh w m None else w | None => w end | None => w end).
    assert (S1 : same_but_thr w w1 /\ thr w1 = thr w).
    { unfold w1. destruct (f_mu _); [destruct (muh w _); [destruct (_ =? _)%nat|]|]; auto using same_muh, same_refl. }
    destruct S1. apply (ginv_pure w); auto. now apply pure_unlock.
  - (* PReady *)
    pose proof (ginv_obj_ready_time w false (objat (thr w t) j) (rec_of t (thr w t) j) G) as G1.
    pose proof (thr_obj_ready_time w false (objat (thr w t) j) (rec_of t (thr w t) j)) as T1.
    destruct (obj_ready_time w false (objat (thr w t) j) (rec_of t (thr w t) j)) as [w1 nt] eqn:E. simpl in G1, T1. simpl.
    rewrite <- T1. apply (ginv_pure w1 w1); auto using same_refl. rewrite T1. now apply pure_ready.
  - (* PSleep *)
    destruct (c && time_reached mn (clock w)).
    + simpl. apply (ginv_pure w w); auto using same_refl. eapply pure_p_timeout; eauto.
    + destruct (sem w t) as [|k]; [exact G|]. simpl. apply (ginv_pure w); auto using same_sem. eapply pure_p_ok; eauto.
  - (* PDeqPre *)
    destruct (objat (thr w t) j) as [n|n|n].
    + pose proof (ginv_note_deadline w n G) as G1. pose proof (thr_note_deadline w n) as T1.
      destruct (note_deadline w n) as [w1 nt]. simpl in G1, T1. simpl.
      rewrite <- T1. apply (ginv_pure w1 w1); auto using same_refl. rewrite T1. now apply pure_deqpre.
    + simpl. apply (ginv_pure w w); auto using same_refl. now apply pure_deqpre.
    + simpl. apply (ginv_pure w w); auto using same_refl. now apply pure_deqpre.
  - (* PDeq *)
    destruct (obj_dequeue w (objat (thr w t) j) (rec_of t (thr w t) j)) as [w1 ok] eqn:E. simpl. now apply ginv_deq.
  - (* PDeqSpin *)
    destruct (znz (waiting w (rec_of t (thr w t) j))) eqn:E; [exact G|]. simpl. now apply ginv_spin.
  - simpl. apply (ginv_pure w w); auto using same_refl. now apply pure_free.
  - destruct (f_mu (fr (thr w t))) as [m|].
    + destruct (muh w m); [exact G|]. simpl. apply (ginv_pure w); auto using same_muh. now apply pure_lock.
    + simpl. apply (ginv_pure w w); auto using same_refl. now apply pure_lock.
  - simpl. apply (ginv_pure w w); auto using same_refl. now apply pure_ret.
  - (* PWake *)
    destruct (privs w t) as [|r rest] eqn:E.
    + simpl. apply (ginv_control w w); auto using same_refl; simpl; try congruence.
      all: try solve [intros r0 o0 _; apply wins_empty; intros j' _; unfold wnd; simpl; rewrite ?Hpc; simpl; auto].
      all: try solve [intros []].
    + simpl. apply ginv_wstore; auto. simpl. eauto.
  - (* PWakeV *)
    simpl. apply (ginv_control w); auto using same_sem; simpl.
    all: try solve [intros r0 o0 _; apply wins_empty; intros j' _; unfold wnd; simpl; rewrite ?Hpc; simpl; auto; destruct (privs w t); simpl; auto].
    all: try solve [destruct (privs w t); simpl; congruence].
    all: try solve [destruct (privs w t); simpl; auto; congruence].
    all: try solve [unfold in_call; simpl; destruct (privs w t); simpl; intros []].
  - exact G.
Qed.

(* ---------- reachable worlds ---------- *)
Lemma ginv_init_world nts cts progs c0 : init_ok nts cts c0 -> ginv (init nts cts progs c0).
Proof.
  intros [_ [Hn Hc]]. constructor; simpl.
  - intros o r Hin. destruct o as [n|n|n]; simpl in Hin; [rewrite Hn in Hin | destruct (Hc n) as [Hc' _]; rewrite Hc' in Hin |]; destruct Hin.
  - intros u r [].
  - intros o. destruct o as [n|n|n]; simpl; [rewrite Hn | destruct (Hc n) as [Hc' _]; rewrite Hc' |]; constructor.
  - intros u. constructor.
  - intros n _. apply Hn.
  - intros r n [_ [_ [_ D]]]. simpl in D. destruct D.
  - intros t j H. discriminate.
  - intros t j H. discriminate.
  - intros t []. 
Qed.
Definition inv (w : world) : Prop := (forall t, linv (thr w t)) /\ ginv w.
Lemma ginv_tick w d : ginv w -> ginv (next w (Tick d)).
Proof. intros G. apply (ginv_same w); auto. unfold same_but_thr; splits; auto. Qed.
Lemma inv_next w a : inv w -> inv (next w a).
Proof.
  intros [L G]. split; [now apply linv_next|].
  destruct a as [t c|d]; [apply ginv_step; auto | now apply ginv_tick].
Qed.
Lemma inv_reachable nts cts progs c0 sched : init_ok nts cts c0 -> inv (run (init nts cts progs c0) sched).
Proof.
  intros H. apply run_inv; [apply inv_next|]. split; [intros t; apply linv_idle_t | now apply ginv_init_world].
Qed.

(* ---------- C11_clean ---------- *)
Definition past_deq (p : pc) : Prop := p = PFree \/ p = PLock \/ p = PRet.
Lemma clean_of_inv w t j : inv w -> past_deq (pc_ (thr w t)) -> ~ on_some_list w (rec_of t (thr w t) j).
Proof.
  intros [L G] Hp.
  assert (Hnw : ~ wnd (thr w t) j) by (unfold wnd; destruct Hp as [H|[H|H]]; rewrite H; simpl; auto).
  intros [[n H]|[[n H]|[[n H]|[u H]]]].
  - now apply (not_listed w t j (ONote n) G Hnw).
  - now apply (not_listed w t j (OCounter n) G Hnw).
  - now apply (not_listed w t j (OCv n) G Hnw).
  - now apply (not_priv w t j u G Hnw).
Qed.

(* ---------- C13_waker_footprint ---------- *)
Lemma win_alive w r o : win w r o -> ~ rec_dead w r.
Proof.
  intros [A [_ [_ D]]] [Hd|[_ [_ Hd]]]; [lia|].
  destruct Hd as [Hd|Hd]; rewrite Hd in D; simpl in D; auto.
Qed.
Lemma listed_alive w o r : ginv w -> In r (obj_list w o) -> ~ rec_dead w r.
Proof. intros G Hin. destruct (g_list w G _ _ Hin) as [A _]. now apply (win_alive w r o). Qed.
Lemma priv_alive w u r : ginv w -> In r (privs w u) -> ~ rec_dead w r.
Proof. intros G Hin. destruct (g_priv w G _ _ Hin) as [[n A] _]. now apply (win_alive w r (OCv n)). Qed.
Lemma own_alive w t j : (pc_ (thr w t) <> PLock /\ pc_ (thr w t) <> PRet) -> ~ rec_dead w (rec_of t (thr w t) j).
Proof.
  intros [H1 H2] [Hd|[_ [_ Hd]]]; unfold rec_of, owner, rcall in *; simpl in *; [lia|]. destruct Hd; contradiction.
Qed.
Lemma footprint_of_inv w a r : inv w -> In r (snd (do_act w a)) -> ~ rec_dead w r.
Proof.
  intros [L G] Hin. destruct a as [t c|d]; [|destruct Hin].
  simpl in Hin. revert Hin. step_destruct w t; simpl; try (intros []; fail).
  - destruct (note_deadline w n) as [w1 nt]. simpl. apply (listed_alive w (ONote n)); auto.
  - destruct (note_deadline w n) as [w1 nt]. simpl. apply (listed_alive w (ONote n)); auto.
  - destruct (nsync_counter_add_cas1_guard delta); [destruct (ctr_add w n delta) as [[w1 v]|]|]; simpl; try (intros []; fail).
    apply (listed_alive w (OCounter n)); auto.
  - destruct (cvs w n) as [|r0 q] eqn:E; simpl; [intros []|]. intros Hin. apply (listed_alive w (OCv n)); auto. simpl. rewrite E. exact Hin.
  - destruct (cvs w n) as [|r0 q] eqn:E; simpl; [intros []|]. intros Hin. apply (listed_alive w (OCv n)); auto. simpl. rewrite E. exact Hin.
  - destruct (muh w m); simpl; intros [].
  - destruct (obj_ready_time w true _ _) as [w1 nt]. simpl. apply listed_alive; auto.
  - intros [<-|[]]. apply own_alive. rewrite Hpc. split; congruence.
  - destruct (obj_enqueue w _ _) as [w1 ok]. simpl. intros [<-|Hin]; [apply own_alive; rewrite Hpc; split; congruence | eapply listed_alive; eauto].
  - destruct (obj_ready_time w false _ _) as [w1 nt]. simpl. intros [<-|Hin]; [apply own_alive; rewrite Hpc; split; congruence | eapply listed_alive; eauto].
  - destruct (c && _); [simpl; intros []|]. destruct (sem w t); simpl; intros [].
  - destruct (objat (thr w t) j) as [n|n|n]; [destruct (note_deadline w n) as [w1 nt]|..]; simpl; try (intros []; fail).
    apply (listed_alive w (ONote n)); auto.
  - destruct (obj_dequeue w _ _) as [w1 ok]. simpl. intros [<-|Hin]; [apply own_alive; rewrite Hpc; split; congruence | eapply listed_alive; eauto].
  - destruct (znz _); simpl; (intros [<-|[]]; apply own_alive; rewrite Hpc; split; congruence).
  - destruct (f_mu _); [destruct (muh w _)|]; simpl; intros [].
  - destruct (privs w t) as [|r0 rest] eqn:E; simpl; [intros []|]. intros Hin. apply (priv_alive w t); auto. rewrite E. exact Hin.
Qed.

(* ---------- C11_mutex ---------- *)
Lemma mutex_of_linv s : linv s -> pc_ s = PRet ->
  mutex_ok (fun i r => r = false -> S i = count s) (count s) (f_log (fr s)).
Proof.
  intros [_ L] Hpc. rewrite Hpc in L. unfold mutex_ok.
  destruct (f_unlocked (fr s)).
  - destruct L as [[pre [P1 [P2 [P3 P4]]]] [Hl _]]. rewrite P1. splits; auto.
  - destruct L as [P1 P2]. now rewrite P1.
Qed.

(* ====================================================================== *)
(* Part 4: wake-ups are not lost (C11_wakes) and timeouts are real (C11_timeout) *)

(* object o makes the record's dequeue report "not still queued", and stays so while the record is in the window *)
Definition sticky (w : world) (o : oref) (r : rid) : Prop :=
  match o with
  | ONote n => time_pos (nt_time (notes w n)) = false
  | OCounter n => c_value (ctrs w n) = 0
  | OCv n => waiting w r = 0
  end.

(* what a step's effect on the shared objects can be (thread states aside); r0: the record the acting thread may (re)write freely *)
Record eff (r0 ws : option rid) (pp : option nat) (w w1 : world) : Prop := mk_eff {
  e_clock : clock w1 = clock w;
  e_note : forall n, n_expiry (notes w1 n) = n_expiry (notes w n) /\
                     (znz (n_notified (notes w n)) = true -> znz (n_notified (notes w1 n)) = true) /\
                     (znz (n_notified (notes w1 n)) = false -> n_notified (notes w1 n) = n_notified (notes w n));
  e_ctr : forall n, (znz (c_waited (ctrs w n)) = true -> znz (c_waited (ctrs w1 n)) = true) /\
                    (znz (c_waited (ctrs w n)) = true -> c_value (ctrs w n) = 0 -> c_value (ctrs w1 n) = 0);
  e_waiting : forall r, Some r <> r0 -> waiting w1 r = waiting w r \/ waiting w1 r = 0;
  e_cvs : forall r n, In r (cvs w1 n) -> In r (cvs w n) \/ Some r = r0;
  e_sem : forall t, Some t <> pp -> (sem w t <= sem w1 t)%nat;
  e_woken : forall r, woken w1 r = true ->
              woken w r = true \/ Some r = ws \/
              ((sem w (owner r) < sem w1 (owner r))%nat /\ exists o, is_cv o = false /\ In r (obj_list w o) /\ sticky w1 o r)
}.
Lemma eff_refl r0 ws pp w : eff r0 ws pp w w.
Proof. constructor; auto. Qed.
Lemma eff_weaken r0 ws pp w w1 : eff None None None w w1 -> eff r0 ws pp w w1.
Proof.
  intros [A B C D E F G]. constructor; auto.
  - intros r _. apply D. discriminate.
  - intros r n H. destruct (E r n H) as [?|?]; auto. discriminate.
  - intros t _. apply F. discriminate.
  - intros r H. destruct (G r H) as [?|[?|?]]; auto. discriminate.
Qed.
Lemma nt_time_npos_stable w w1 n :
  n_expiry (notes w1 n) = n_expiry (notes w n) -> (znz (n_notified (notes w n)) = true -> znz (n_notified (notes w1 n)) = true) ->
  time_pos (nt_time (notes w n)) = false -> time_pos (nt_time (notes w1 n)) = false.
Proof.
  unfold nt_time. intros He Hn. destruct (znz (n_notified (notes w n))) eqn:E.
  - rewrite Hn by auto. auto.
  - destruct (znz (n_notified (notes w1 n))); auto. now rewrite He.
Qed.

Lemma filter_owner_pos (l : list rid) r : In r l -> (0 < length (filter (fun x => Nat.eqb (owner x) (owner r)) l))%nat.
Proof.
  induction l as [|a l IH]; simpl; [intros []|]. intros [-> | H].
  - rewrite Nat.eqb_refl. simpl. lia.
  - destruct (Nat.eqb (owner a) (owner r)); simpl; [lia | auto].
Qed.
(* wake_all on the list of a note / counter *)
Lemma eff_wake_all w w0 o :
  is_cv o = false -> clock w0 = clock w -> cvs w0 = cvs w -> waiting w0 = waiting w -> sem w0 = sem w -> woken w0 = woken w ->
  (forall n, n_expiry (notes w0 n) = n_expiry (notes w n) /\
             (znz (n_notified (notes w n)) = true -> znz (n_notified (notes w0 n)) = true) /\
             (znz (n_notified (notes w0 n)) = false -> n_notified (notes w0 n) = n_notified (notes w n))) ->
  (forall n, (znz (c_waited (ctrs w n)) = true -> znz (c_waited (ctrs w0 n)) = true) /\
             (znz (c_waited (ctrs w n)) = true -> c_value (ctrs w n) = 0 -> c_value (ctrs w0 n) = 0)) ->
  (forall r, In r (obj_list w o) -> sticky w0 o r) ->
  eff None None None w (wake_all w0 (obj_list w o) 0).
Proof.
  intros Hcv Hc Hq Hw Hs Hk Hn Hct Hst. constructor; simpl; auto.
  - intros r _. destruct (mem r (obj_list w o)); auto. left. now rewrite Hw.
  - intros r n Hin. left. now rewrite <- Hq.
  - intros t _. rewrite Hs. lia.
  - intros r. destruct (mem r (obj_list w o)) eqn:E.
    + intros _. right. right. apply mem_In in E. split.
      * rewrite Hs. pose proof (filter_owner_pos _ _ E). lia.
      * exists o. splits; auto. specialize (Hst r E). destruct o; simpl in *; auto. discriminate.
    + rewrite Hk. auto.
Qed.
Lemma eff_note_do_notify w n : eff None None None w (note_do_notify w n).
Proof.
  unfold note_do_notify. destruct (time_pos (nt_time (notes w n))) eqn:E; [|apply eff_refl].
  destruct c_dequeue_consts as [_ [_ [_ [_ [Hv _]]]]]. rewrite Hv.
  apply (eff_wake_all w _ (ONote n)); auto.
  - intros m. simpl. unfold fupd. destruct (Nat.eqb_spec m n) as [-> | Hne]; simpl; auto.
    splits; auto. intros H. vm_compute in H. discriminate.
  - intros r _. simpl. rewrite fupd_same. reflexivity.
Qed.
Lemma eff_note_deadline w n : eff None None None w (fst (note_deadline w n)).
Proof.
  unfold note_deadline. destruct (znz _); simpl; [apply eff_refl|]. destruct (_ && _); simpl; [apply eff_note_do_notify | apply eff_refl].
Qed.
Lemma notify_equiv w n :
  (let '(w1, nt) := note_deadline w n in if time_pos nt then note_do_notify w1 n else w1) = note_do_notify w n.
Proof.
  unfold note_deadline. destruct (znz (n_notified (notes w n))) eqn:E.
  - simpl. unfold note_do_notify, nt_time. now rewrite E.
  - destruct (time_pos (nt_time (notes w n))) eqn:E1; simpl.
    + destruct (time_reached _ _); simpl; [|now rewrite E1].
      unfold note_do_notify. rewrite E1. reflexivity.
    + rewrite E1. unfold note_do_notify. now rewrite E1.
Qed.

Lemma sticky_set_thr w t s o r : sticky (set_thr w t s) o r <-> sticky w o r.
Proof. destruct o; simpl; tauto. Qed.
Lemma eff_set_thr r0 ws pp w w1 t s : eff r0 ws pp w w1 -> eff r0 ws pp w (set_thr w1 t s).
Proof.
  intros [A B C D E F G]. constructor; auto.
Qed.
Lemma eff_obj_ready_time w f o r : eff None None None w (fst (obj_ready_time w f o r)).
Proof.
  destruct o as [n|n|n]; simpl; [apply eff_note_deadline | | apply eff_refl].
  constructor; simpl; auto.
  intros m. unfold fupd. destruct (Nat.eqb_spec m n) as [-> | Hne]; simpl; auto.
Qed.
Lemma eff_obj_enqueue w o r : eff (Some r) None None w (fst (obj_enqueue w o r)).
Proof.
  destruct o as [n|n|n]; simpl.
  - destruct (time_pos _); simpl; constructor; simpl; auto;
      try (intros m; unfold fupd; destruct (Nat.eqb_spec m n) as [-> | Hne]; simpl; auto; fail);
      try (intros r' Hne; left; apply rupd_other; congruence).
  - destruct (counter_enqueue_store1_guard _); simpl; constructor; simpl; auto;
      try (intros m; unfold fupd; destruct (Nat.eqb_spec m n) as [-> | Hne]; simpl; auto; fail);
      try (intros r' Hne; left; apply rupd_other; congruence).
  - constructor; simpl; auto.
    + intros r' Hne; left; apply rupd_other; congruence.
    + intros r' m. unfold fupd. destruct (Nat.eqb_spec m n) as [-> | Hne]; auto. rewrite In_app1. intros [?| ->]; auto.
Qed.
Lemma eff_obj_dequeue w o r : eff None None None w (fst (obj_dequeue w o r)).
Proof.
  destruct c_dequeue_consts as [H1 [H2 [H3 _]]].
  assert (Hw : forall v, v = 0 -> forall r', rupd (waiting w) r v r' = waiting w r' \/ rupd (waiting w) r v r' = 0).
  { intros v -> r'. unfold rupd. destruct (rid_eqb r' r); auto. }
  destruct o as [n|n|n]; simpl.
  - destruct (time_pos _); simpl; [|apply eff_refl]. constructor; simpl; auto.
    intros m; unfold fupd; destruct (Nat.eqb_spec m n) as [-> | Hne]; simpl; auto.
  - destruct (znz _); simpl; [|apply eff_refl]. constructor; simpl; auto.
    intros m; unfold fupd; destruct (Nat.eqb_spec m n) as [-> | Hne]; simpl; auto.
  - destruct (_ && _); simpl; [|apply eff_refl]. constructor; simpl; auto.
    intros r' m. unfold fupd. destruct (Nat.eqb_spec m n) as [-> | Hne]; auto. rewrite In_remove_r. tauto.
Qed.
Lemma wrap_u_nonneg x : 0 <= wrap_u 32 x.
Proof. pose proof (wrap_u_range 32 x ltac:(lia)) as [H _]. exact H. Qed.
Lemma wrap_u_idem x : wrap_u 32 (wrap_u 32 x) = wrap_u 32 x.
Proof. unfold wrap_u. apply Z.mod_mod. apply Z.pow_nonzero; lia. Qed.
Lemma ctr_add_zero_waited w n d : znz (c_waited (ctrs w n)) = true -> c_value (ctrs w n) = 0 -> ctr_add w n d = None.
Proof.
  intros Hw Hv. unfold ctr_add. rewrite Hv, Hw. unfold nsync_counter_add_cas1_new. simpl (0 + _). rewrite wrap_u_idem.
  destruct (d >? 0); simpl.
  - rewrite Z.eqb_refl. reflexivity.
  - pose proof (wrap_u_nonneg d). destruct (Z.ltb_spec (wrap_u 32 d) 0); auto. lia.
Qed.
Lemma eff_ctr_add w n d w1 v : ctr_add w n d = Some (w1, v) -> eff None None None w w1.
Proof.
  intros H.
  assert (Hnz : ~ (znz (c_waited (ctrs w n)) = true /\ c_value (ctrs w n) = 0)).
  { intros [A B]. rewrite (ctr_add_zero_waited w n d A B) in H. discriminate. }
  unfold ctr_add in H. destruct (if d >? 0 then _ else _); [|discriminate]. inversion H; subst; clear H.
  assert (Hc : forall m c', c_waited c' = c_waited (ctrs w n) ->
     (znz (c_waited (ctrs w m)) = true -> znz (c_waited (fupd (ctrs w) n c' m)) = true) /\
     (znz (c_waited (ctrs w m)) = true -> c_value (ctrs w m) = 0 -> c_value (fupd (ctrs w) n c' m) = 0)).
  { intros m c' Hc'. unfold fupd. destruct (Nat.eqb_spec m n) as [-> | Hne]; auto. rewrite Hc'. split; auto. intros A B. exfalso. auto. }
  destruct (nsync_counter_add_store1_guard d _) eqn:Eg.
  - destruct c_dequeue_consts as [_ [_ [_ [_ [_ [Hv _]]]]]]. rewrite Hv.
    apply (eff_wake_all w _ (OCounter n)); auto.
    + intros m. simpl. auto.
    + intros r _. simpl. rewrite fupd_same. simpl. unfold nsync_counter_add_store1_guard in Eg. apply andb_true_iff in Eg.
      destruct Eg as [_ Eg]. apply Z.eqb_eq in Eg. rewrite Eg. reflexivity.
  - constructor; simpl; auto. 
Qed.
Lemma eff_init_rec w r v : v = 0 -> eff None None None w (init_rec w r v).
Proof.
  intros ->. constructor; simpl; auto.
  - intros r' _. unfold rupd. destruct (rid_eqb r' r); auto.
  - intros r'. unfold rupd. destruct (rid_eqb r' r); auto. discriminate.
Qed.
Lemma eff_take w n q l t : (forall r, In r q -> In r (cvs w n)) -> eff None None None w (set_priv (set_taken (set_cv w n q) l t) t l).
Proof.
  intros Hq. constructor; simpl; auto.
  intros r m. unfold fupd. destruct (Nat.eqb_spec m n) as [-> | Hne]; auto.
Qed.
Lemma eff_wstore w r t rest v : v = 0 -> eff None (Some r) None w (set_priv (wake_store w r v) t rest).
Proof.
  intros ->. constructor; simpl; auto.
  - intros r' _. unfold rupd. destruct (rid_eqb r' r); auto.
  - intros r'. unfold rupd. destruct (rid_eqb r' r) eqn:E; auto. apply rid_eqb_eq in E. subst. auto.
Qed.

Lemma step_eff w u c :
  let s := thr w u in
  eff (match pc_ s with PEnq i => Some (rec_of u s i) | _ => None end)
      (match pc_ s with PWake => hd_error (privs w u) | _ => None end)
      (match pc_ s with PSleep _ => Some u | _ => None end) w (tnext w u c).
Proof.
  intros s. unfold s. step_destruct w u.
  - apply eff_refl.
  - simpl. apply eff_set_thr, eff_refl.
  - pose proof (notify_equiv w n) as Hq. destruct (note_deadline w n) as [w1 nt]. simpl. rewrite Hq. apply eff_set_thr, eff_note_do_notify.
  - pose proof (eff_note_deadline w n) as Hq. destruct (note_deadline w n) as [w1 nt]. simpl in *. now apply eff_set_thr.
  - destruct (nsync_counter_add_cas1_guard delta); [destruct (ctr_add w n delta) as [[w1 v]|] eqn:E|]; simpl; apply eff_set_thr; try apply eff_refl.
    eapply eff_ctr_add; eauto.
  - destruct (cvs w n) as [|r q] eqn:E; simpl; apply eff_set_thr; [apply eff_refl|]. apply eff_take. intros r' Hr. rewrite E. now right.
  - destruct (cvs w n) as [|r q] eqn:E; simpl; apply eff_set_thr; [apply eff_refl|]. apply eff_take. intros r' [].
  - destruct (muh w m); simpl; [apply eff_refl|]. apply eff_set_thr. constructor; auto.
  - simpl. apply eff_set_thr. destruct (muh w m); [destruct (_ =? _)%nat|]; try apply eff_refl. constructor; auto.
  - (* OpStale: a stale post only adds to a semaphore *)
    simpl. apply eff_set_thr. constructor; simpl; auto. intros t _. unfold fupd. destruct (Nat.eqb_spec t tgt) as [-> | Hne]; lia.
  - pose proof (eff_obj_ready_time w true (objat (thr w u) j) (rec_of u (thr w u) j)) as Hq.
    destruct (obj_ready_time w true _ _) as [w1 nt]. simpl in *. now apply eff_set_thr.
  - simpl. apply eff_set_thr. apply eff_init_rec. reflexivity.
  - pose proof (eff_obj_enqueue w (objat (thr w u) i) (rec_of u (thr w u) i)) as Hq.
    destruct (obj_enqueue w _ _) as [w1 ok]. simpl in *. now apply eff_set_thr.
  - simpl. apply eff_set_thr. destruct (f_mu _); [destruct (muh w _); [destruct (_ =? _)%nat|]|]; try apply eff_refl. constructor; auto.
  - pose proof (eff_obj_ready_time w false (objat (thr w u) j) (rec_of u (thr w u) j)) as Hq.
    destruct (obj_ready_time w false _ _) as [w1 nt]. simpl in *. now apply eff_set_thr.
  - destruct (c && _); simpl; [apply eff_set_thr, eff_refl|]. destruct (sem w u) as [|k] eqn:E; simpl; [apply eff_refl|].
    apply eff_set_thr. constructor; simpl; auto. intros t Ht. unfold fupd. destruct (Nat.eqb_spec t u) as [-> | Hne]; [congruence | lia].
  - destruct (objat (thr w u) j) as [n|n|n]; simpl; try (apply eff_set_thr, eff_refl).
    pose proof (eff_note_deadline w n) as Hq. destruct (note_deadline w n) as [w1 nt]. simpl in *. now apply eff_set_thr.
  - pose proof (eff_obj_dequeue w (objat (thr w u) j) (rec_of u (thr w u) j)) as Hq.
    destruct (obj_dequeue w _ _) as [w1 ok]. simpl in *. now apply eff_set_thr.
  - destruct (znz _); simpl; [apply eff_refl | apply eff_set_thr, eff_refl].
  - simpl. apply eff_set_thr, eff_refl.
  - destruct (f_mu _); [destruct (muh w _)|]; simpl; try apply eff_refl; apply eff_set_thr; try apply eff_refl. constructor; auto.
  - simpl. apply eff_set_thr, eff_refl.
  - destruct (privs w u) as [|r rest]; simpl; apply eff_set_thr; [apply eff_refl|]. apply eff_wstore.
    destruct c_dequeue_consts as [_ [_ [_ [H _]]]]. exact H.
  - simpl. apply eff_set_thr. constructor; simpl; auto. intros t _. unfold fupd. destruct (Nat.eqb_spec t s0) as [-> | Hne]; lia.
  - apply eff_refl.
Qed.

(* ---------- how a step of thread u changes u's own window ---------- *)
Lemma wins_ctl_enq_back s i ok r o : linv s -> pc_ s = PEnq i -> wins (ctl_enq s i ok) r o ->
  wins s r o \/ (rcall r = done s /\ ridx r = i).
Proof.
  intros [_ L] Hpc [A [B [C D]]]. rewrite Hpc in L. destruct L as [Li _].
  destruct (fr_ctl_enq s i ok) as [Fo [_ Fd]].
  assert (Hc : count (ctl_enq s i ok) = count s) by (unfold count; now rewrite Fo).
  rewrite Fd in A. rewrite Hc in B. unfold objat in C. rewrite Fo in C.
  apply (wnd_ctl_enq s i ok) in D; auto.
  destruct (Nat.eq_dec (ridx r) i) as [E|E]; [right; auto|]. left. unfold wins. splits; auto. rewrite Hpc. simpl. lia.
Qed.
Lemma wins_after_deq_back w1 t s s0 j b r o : pc_ s0 = PDeq j \/ pc_ s0 = PDeqSpin j -> fr s = fr s0 \/ (exists e, fr s = fr (lg e s0)) -> done s = done s0 ->
  (j < f_i (fr s0))%nat -> wins (after_deq w1 t s j b) r o -> wins s0 r o.
Proof.
  intros Hpc Hf Hd Hj [A [B [C D]]].
  destruct (after_deq_facts w1 t s j b) as [Fo [Fd [Fi [_ [Fw _]]]]].
  assert (Hfo : f_objs (fr s) = f_objs (fr s0) /\ f_i (fr s) = f_i (fr s0)) by (destruct Hf as [-> | [e ->]]; auto).
  destruct Hfo as [Hfo Hfi].
  assert (Hc : count (after_deq w1 t s j b) = count s0) by (unfold count; now rewrite Fo, Hfo).
  rewrite Fd, Hd in A. rewrite Hc in B. unfold objat in C. rewrite Fo, Hfo in C.
  apply Fw in D; [|lia]. unfold wins. splits; auto. rewrite Hfi in D. destruct Hpc as [-> | ->]; simpl; lia.
Qed.

Lemma step_wins_back w u c r o : (forall t, linv (thr w t)) ->
  win (tnext w u c) r o -> win w r o \/ (exists i, pc_ (thr w u) = PEnq i /\ r = rec_of u (thr w u) i).
Proof.
  intros L H. destruct (Nat.eq_dec (owner r) u) as [Ho|Ho]; [|left; unfold win in *; now rewrite step_other in H by auto].
  unfold win in *. rewrite Ho in *. pose proof (L u) as Lu.
  assert (Hpure : forall s2, thr (tnext w u c) u = s2 -> pure_ok (thr w u) s2 -> wins (thr w u) r o).
  { intros s2 E [P _]. rewrite E in H. now apply P. }
  revert H Hpure. step_destruct w u; simpl; intros H Hpure; auto.
  all: try (left; eapply Hpure; [reflexivity|]; rewrite ?fupd_same;
            first [ solve [now apply pure_call] | solve [apply pure_idle; auto] | solve [now apply pure_unlock]
                  | solve [eapply pure_p_timeout; eauto] | solve [eapply pure_p_ok; eauto]
                  | solve [now apply pure_deqpre] | solve [now apply pure_free] | solve [now apply pure_lock] | solve [now apply pure_ret] ]).
  - (* notify *) destruct (note_deadline w n) as [w1 nt]. simpl in *. rewrite fupd_same in *. left. eapply Hpure; [reflexivity|]. apply pure_idle; auto.
  - destruct (note_deadline w n) as [w1 nt]. simpl in *. rewrite fupd_same in *. left. eapply Hpure; [reflexivity|]. apply pure_idle; auto.
  - destruct (nsync_counter_add_cas1_guard delta); [destruct (ctr_add w n delta) as [[w1 v]|]|]; simpl in *; rewrite fupd_same in *;
      left; (eapply Hpure; [reflexivity|]); apply pure_idle; auto.
  - destruct (cvs w n) as [|r0 q]; simpl in *; rewrite fupd_same in *.
    + left. eapply Hpure; [reflexivity|]. apply pure_idle; auto.
    + destruct H as [_ [_ [_ D]]]. simpl in D. destruct D.
  - destruct (cvs w n) as [|r0 q]; simpl in *; rewrite fupd_same in *.
    + left. eapply Hpure; [reflexivity|]. apply pure_idle; auto.
    + destruct H as [_ [_ [_ D]]]. simpl in D. destruct D.
  - destruct (muh w m); simpl in *; auto. rewrite fupd_same in *. left. eapply Hpure; [reflexivity|]. apply pure_idle; auto.
  - (* PFirst *) destruct (obj_ready_time w true _ _) as [w1 nt]. simpl in *. rewrite fupd_same in *.
    destruct (time_pos nt) eqn:E.
    + left. eapply Hpure; [reflexivity|]. now apply pure_first_pos.
    + unfold ctl_first in H. rewrite E in H. destruct H as [_ [_ [_ D]]]. simpl in D. destruct D.
  - (* PInit *) rewrite fupd_same in H. left. destruct H as [A [B [C D]]]. unfold wins. splits; auto. rewrite Hpc. exact D.
  - (* PEnq *) destruct (obj_enqueue w _ _) as [w1 ok]. simpl in *. rewrite fupd_same in *.
    destruct (wins_ctl_enq_back _ _ _ _ _ Lu Hpc H) as [?|[A B]]; auto. right. exists i. split; auto.
    rewrite (rid_eta r). unfold rec_of. congruence.
  - (* PReady *) destruct (obj_ready_time w false _ _) as [w1 nt]. simpl in *. rewrite fupd_same in *.
    left. eapply Hpure; [reflexivity|]. now apply pure_ready.
  - destruct (c && _); simpl in *.
    + rewrite fupd_same in *. left. eapply Hpure; [reflexivity|]. eapply pure_p_timeout; eauto.
    + destruct (sem w u); simpl in *; auto. rewrite fupd_same in *. left. eapply Hpure; [reflexivity|]. eapply pure_p_ok; eauto.
  - destruct (objat (thr w u) j) as [n|n|n]; [destruct (note_deadline w n) as [w1 nt]|..]; simpl in *; rewrite fupd_same in *;
      left; (eapply Hpure; [reflexivity|]); now apply pure_deqpre.
  - (* PDeq *) destruct (obj_dequeue w _ _) as [w1 ok]. simpl in *. rewrite fupd_same in *. left.
    destruct Lu as [_ Lu]. rewrite Hpc in Lu. destruct Lu as [Lj _].
    unfold ctl_deq in H. destruct (is_cv _ && negb ok).
    + destruct H as [A [B [C D]]]. unfold wins. splits; auto. rewrite Hpc. exact D.
    + eapply wins_after_deq_back in H; eauto. 
  - (* PDeqSpin *) destruct (znz _); simpl in *; auto. rewrite fupd_same in *. left.
    destruct Lu as [_ Lu]. rewrite Hpc in Lu. destruct Lu as [Lj _].
    unfold ctl_spin in H. eapply wins_after_deq_back in H; eauto.
  - destruct (f_mu _); [destruct (muh w _)|]; simpl in *; auto; rewrite fupd_same in *; left; (eapply Hpure; [reflexivity|]); now apply pure_lock.
  - destruct (privs w u); simpl in *; rewrite fupd_same in *; destruct H as [_ [_ [_ D]]]; simpl in D; destruct D.
  - rewrite fupd_same in *. destruct H as [_ [_ [_ D]]]. simpl in D. destruct (privs w u); simpl in D; destruct D.
Qed.

(* ---------- every counter of a call past its first loop has `waited` set ---------- *)
Definition past_first (p : pc) (j : nat) : Prop :=
  match p with
  | PFirst k => (j < k)%nat
  | PInit _ | PEnq _ | PUnlock | PReady _ _ | PSleep _ | PDeqPre _ | PDeq _ | PDeqSpin _ => True
  | _ => False
  end.
Definition cw_ok (w : world) (s : tstate) : Prop :=
  forall j n, past_first (pc_ s) j -> (j < count s)%nat -> objat s j = OCounter n -> znz (c_waited (ctrs w n)) = true.

Lemma fobjs_after_first s clk : f_objs (fr (after_first s clk)) = f_objs (fr s).
Proof. apply fr_after_first. Qed.
Lemma fobjs_ctl_first s j nt b clk : f_objs (fr (ctl_first s j nt b clk)) = f_objs (fr s).
Proof. unfold ctl_first. destruct (time_pos nt); [destruct (_ =? _)%nat|]; simpl; auto. now rewrite fobjs_after_first. Qed.
Lemma fobjs_ctl_enq s i ok : f_objs (fr (ctl_enq s i ok)) = f_objs (fr s).
Proof. apply fr_ctl_enq. Qed.
Lemma fobjs_ctl_unlock s : f_objs (fr (ctl_unlock s)) = f_objs (fr s).
Proof. unfold ctl_unlock. now rewrite fr_sleep_start. Qed.
Lemma fobjs_ctl_ready s j mn nt : f_objs (fr (ctl_ready s j mn nt)) = f_objs (fr s).
Proof. unfold ctl_ready. destruct (_ =? _)%nat; [destruct (time_pos _)|]; simpl; auto. now rewrite fr_deq_start. Qed.
Lemma fobjs_ctl_p_timeout s clk : f_objs (fr (ctl_p_timeout s clk)) = f_objs (fr s).
Proof. unfold ctl_p_timeout. now rewrite fr_deq_start. Qed.
Lemma fobjs_ctl_p_ok s : f_objs (fr (ctl_p_ok s)) = f_objs (fr s).
Proof. unfold ctl_p_ok. now rewrite fr_sleep_start. Qed.
Lemma fobjs_after_deq w1 t s j b : f_objs (fr (after_deq w1 t s j b)) = f_objs (fr s).
Proof. apply after_deq_facts. Qed.
Lemma fobjs_ctl_deq w1 t s j ok onl : f_objs (fr (ctl_deq w1 t s j ok onl)) = f_objs (fr s).
Proof. unfold ctl_deq. destruct (_ && _); simpl; auto. now rewrite fobjs_after_deq. Qed.
Lemma fobjs_ctl_spin w t s j v : f_objs (fr (ctl_spin w t s j v)) = f_objs (fr s).
Proof. unfold ctl_spin. now rewrite fobjs_after_deq. Qed.

Lemma cw_same (w w' : world) (s s2 : tstate) :
  (forall n, znz (c_waited (ctrs w n)) = true -> znz (c_waited (ctrs w' n)) = true) ->
  f_objs (fr s2) = f_objs (fr s) -> (forall j, past_first (pc_ s2) j -> past_first (pc_ s) j) -> cw_ok w s -> cw_ok w' s2.
Proof.
  intros Hm Ho Hp H j n A B C. apply Hm. apply (H j n); auto; unfold count, objat in *; now rewrite <- Ho.
Qed.
Lemma cw_none (w' : world) (s2 : tstate) : (forall j, ~ past_first (pc_ s2) j) -> cw_ok w' s2.
Proof. intros H j n A. exfalso. now apply (H j). Qed.
Lemma pf_after_free s j : ~ past_first (pc_ (after_free s)) j.
Proof. destruct (pcs_after_free s) as [H|H]; rewrite H; simpl; auto. Qed.
Lemma pf_after_deqs s j : ~ past_first (pc_ (after_deqs s)) j.
Proof. destruct (pcs_after_deqs s) as [H|[H|H]]; rewrite H; simpl; auto. Qed.

Ltac destruct_step :=
  repeat match goal with
  | |- context [let '(_, _) := ?x in _] => destruct x eqn:?
  | |- context [match ?x with _ => _ end] => destruct x eqn:?
  | |- context [if ?x then _ else _] => destruct x eqn:?
  end.
Lemma cw_step w u c : (forall t, linv (thr w t)) -> (forall t, cw_ok w (thr w t)) -> forall t, cw_ok (tnext w u c) (thr (tnext w u c) t).
Proof.
  intros L H t.
  pose proof (step_eff w u c) as E. simpl in E.
  assert (Hm : forall n, znz (c_waited (ctrs w n)) = true -> znz (c_waited (ctrs (tnext w u c) n)) = true) by (intros n; apply (e_ctr _ _ _ _ _ E n)).
  destruct (Nat.eq_dec t u) as [-> | Hne]; [|rewrite step_other by auto; eapply cw_same; eauto].
  specialize (H u). pose proof (L u) as Lu. clear E. revert Hm. step_destruct w u; try (destruct (obj_ready_time w true _ _) as [w1 nt] eqn:E1).
  all: simpl; intros Hm.
  all: try solve [ unfold ctl_call, ctl_first, ctl_ready, ctl_deq, ctl_enq in *; destruct_step; simpl in *; auto; rewrite ?fupd_same;
    first [ assumption
          | solve [apply cw_none; intros j'; simpl; rewrite ?Hpc; simpl; auto; try apply pf_after_free; try apply pf_after_deqs]
          | solve [eapply (cw_same w _ (thr w u));
                   [ exact Hm
                   | first [reflexivity | apply fobjs_ctl_enq | apply fobjs_ctl_unlock | apply fobjs_ctl_ready | apply fobjs_ctl_p_timeout
                           | apply fobjs_ctl_p_ok | apply fobjs_ctl_deq | apply fobjs_ctl_spin | apply fobjs_after_deq
                           | rewrite fr_after_enq; reflexivity | rewrite fr_deq_start; reflexivity ]
                   | intros j' _; rewrite Hpc; simpl; auto
                   | exact H ] ] ] ].
  - (* call *) rewrite fupd_same. unfold ctl_call. destruct (length os =? 0)%nat eqn:E0.
    + apply Nat.eqb_eq in E0. intros j n _ Hj. unfold count in Hj. rewrite fobjs_after_first in Hj. simpl in Hj. lia.
    + apply cw_none. intros j'. simpl. lia.
  - (* PFirst *) rewrite fupd_same.
    intros j' n A B C. unfold count, objat in B, C. rewrite fobjs_ctl_first in B, C. fold (count (thr w u)) in B. fold (objat (thr w u) j') in C.
    destruct (Nat.eq_dec j' j) as [-> | Hj].
    + rewrite C in E1. simpl in E1. inversion E1; subst. simpl. rewrite fupd_same. reflexivity.
    + apply Hm. apply (H j' n); auto. rewrite Hpc. simpl.
      destruct Lu as [_ Lu]. rewrite Hpc in Lu. destruct Lu as [Lj _].
      unfold ctl_first in A. destruct (time_pos nt); [destruct (S j =? count (thr w u))%nat eqn:E2|]; simpl in A; try lia.
      apply Nat.eqb_eq in E2. lia.
  - (* PDeq *) destruct (obj_dequeue w _ _) as [w1 ok]. simpl in *. rewrite fupd_same.
    eapply (cw_same w _ (thr w u)); [exact Hm | apply fobjs_ctl_deq | intros j' _; rewrite Hpc; simpl; auto | exact H].
Qed.

(* ---------- a record woken by a waker belongs to an object that stays ready while the record is registered ---------- *)
Definition wk_ok (w : world) : Prop := forall r o, win w r o -> woken w r = true -> sticky w o r.

Lemma win_past_first w r o : win w r o -> past_first (pc_ (thr w (owner r))) (ridx r).
Proof. intros [_ [_ [_ D]]]. destruct (pc_ (thr w (owner r))); simpl in *; auto; contradiction. Qed.
Lemma step_wake_waiting w u c r rest : pc_ (thr w u) = PWake -> privs w u = r :: rest -> waiting (tnext w u c) r = 0.
Proof.
  intros Hpc Hp. unfold tnext, step. rewrite Hpc, Hp. simpl. rewrite rupd_same. destruct c_dequeue_consts as [_ [_ [_ [H _]]]]. exact H.
Qed.
Lemma step_wake_pc w u c r rest : pc_ (thr w u) = PWake -> privs w u = r :: rest -> pc_ (thr (tnext w u c) u) = PWakeV (owner r).
Proof. intros Hpc Hp. unfold tnext, step. rewrite Hpc, Hp. simpl. rewrite fupd_same. reflexivity. Qed.
Lemma step_V_sem w u c t : pc_ (thr w u) = PWakeV t -> (sem w t < sem (tnext w u c) t)%nat.
Proof. intros Hpc. unfold tnext, step. rewrite Hpc. simpl. rewrite fupd_same. lia. Qed.

Lemma sticky_stable w u c r o :
  (forall t, linv (thr w t)) -> ginv w -> (forall t, cw_ok w (thr w t)) -> win w r o -> sticky w o r -> sticky (tnext w u c) o r.
Proof.
  intros L G CW Hw Hs. pose proof (step_eff w u c) as E. simpl in E.
  destruct o as [n|n|n]; simpl in *.
  - destruct (e_note _ _ _ _ _ E n) as [A [B _]]. eapply nt_time_npos_stable; eauto.
  - destruct (e_ctr _ _ _ _ _ E n) as [_ B]. apply B; auto.
    destruct Hw as [Hc [Hj [Ho Hd]]]. apply (CW (owner r) (ridx r) n); auto.
    destruct (pc_ (thr w (owner r))); simpl in *; auto; contradiction.
  - assert (Hne : Some r <> match pc_ (thr w u) with PEnq i => Some (rec_of u (thr w u) i) | _ => None end).
    { destruct (pc_ (thr w u)) eqn:Hpc; try discriminate. intros Heq. inversion Heq; subst r.
      destruct Hw as [_ [_ [_ D]]]. unfold owner, ridx, rec_of in D; simpl in D. rewrite Hpc in D. simpl in D. lia. }
    destruct (e_waiting _ _ _ _ _ E r Hne) as [A|A]; congruence.
Qed.

Lemma wk_step w u c : (forall t, linv (thr w t)) -> ginv w -> (forall t, cw_ok w (thr w t)) -> wk_ok w -> wk_ok (tnext w u c).
Proof.
  intros L G CW WK r o Hw' Hk'. pose proof (step_eff w u c) as E. simpl in E.
  destruct (step_wins_back w u c r o L Hw') as [Hw | [i [Hpc ->]]].
  - destruct (e_woken _ _ _ _ _ E r Hk') as [Hk | [Hws | [_ [o' [Hcv [Hin Hst]]]]]].
    + apply sticky_stable; auto.
    + destruct (pc_ (thr w u)) eqn:Hpc; try discriminate.
      destruct (privs w u) as [|r0 rest] eqn:Hp; [discriminate|]. simpl in Hws. inversion Hws; subst r0.
      destruct (g_priv w G u r) as [[n Hn] _]; [rewrite Hp; now left|].
      pose proof (wins_obj_unique _ _ _ _ Hw Hn) as ->. simpl. eapply step_wake_waiting; eauto.
    + destruct (g_list w G _ _ Hin) as [Hw2 _]. pose proof (wins_obj_unique _ _ _ _ Hw Hw2) as ->. exact Hst.
  - exfalso. destruct (e_woken _ _ _ _ _ E _ Hk') as [Hk | [Hws | [_ [o' [Hcv [Hin Hst]]]]]].
    + destruct (g_enq w G u i Hpc) as [_ B]. congruence.
    + rewrite Hpc in Hws. discriminate.
    + eapply (not_listed w u i o'); eauto. unfold wnd. rewrite Hpc. simpl. lia.
Qed.

(* ---------- C11_wakes: a sleeping caller with a woken record has a post, or one is on its way ---------- *)
Definition has_post (w : world) (t : nat) : Prop := (0 < sem w t)%nat \/ v_pending w t.
Definition wake_tr (w : world) (t : nat) (s : tstate) : Prop :=
  match pc_ s with
  | PSleep mn => forall j, (j < count s)%nat -> woken w (rec_of t s j) = true -> has_post w t
  | PReady k mn => time_pos mn = true -> forall j, (j < k)%nat -> woken w (rec_of t s j) = true -> has_post w t
  | _ => True
  end.
Definition wake_ok (w : world) : Prop := forall t, wake_tr w t (thr w t).

Lemma wt_sleep_start w t s : wake_tr w t (sleep_start s).
Proof.
  unfold wake_tr, sleep_start. destruct (count s =? 0)%nat eqn:E; simpl.
  - apply Nat.eqb_eq in E. intros j Hj. unfold count in *. simpl in Hj. lia.
  - intros _ j Hj. lia.
Qed.
Lemma wt_nonregion w t s : (forall mn, pc_ s <> PSleep mn) -> (forall k mn, pc_ s <> PReady k mn) -> wake_tr w t s.
Proof. intros A B. unfold wake_tr. destruct (pc_ s); auto; [exfalso; eapply B; eauto | exfalso; eapply A; eauto]. Qed.
Lemma wt_after_free w t s : wake_tr w t (after_free s).
Proof. apply wt_nonregion; intros; destruct (pcs_after_free s) as [H|H]; rewrite H; congruence. Qed.
Lemma wt_after_deqs w t s : wake_tr w t (after_deqs s).
Proof. apply wt_nonregion; intros; destruct (pcs_after_deqs s) as [H|[H|H]]; rewrite H; congruence. Qed.
Lemma wt_goto_deq w t s j : wake_tr w t (goto_deq s j).
Proof. apply wt_nonregion; intros; destruct (pcs_goto_deq s j) as [H|H]; rewrite H; congruence. Qed.
Lemma wt_deq_start w t s : wake_tr w t (deq_start s).
Proof. unfold deq_start. destruct (_ =? _)%nat; [apply wt_after_deqs | apply wt_goto_deq]. Qed.
Lemma wt_after_enq w t s i : wake_tr w t (after_enq s i).
Proof.
  unfold after_enq. destruct (_ =? _)%nat; [|apply wt_deq_start]. destruct (f_mu _); [|apply wt_sleep_start].
  apply wt_nonregion; simpl; congruence.
Qed.
Lemma wt_after_first w t s clk : wake_tr w t (after_first s clk).
Proof.
  unfold after_first. destruct (time_pos _); [destruct (_ =? _)%nat|]; try apply wt_after_enq; apply wt_nonregion; simpl; congruence.
Qed.
Lemma wt_after_deq w t w1 t' s j b : wake_tr w t (after_deq w1 t' s j b).
Proof. unfold after_deq. destruct (_ =? _)%nat; [apply wt_after_deqs | apply wt_goto_deq]. Qed.

Lemma min_npos nt mn : time_pos mn = true -> time_pos nt = false -> time_pos (if time_lt nt mn then nt else mn) = false.
Proof.
  destruct nt as [x|]; simpl; [|discriminate]. intros Hm Hx. apply Z.ltb_ge in Hx.
  destruct mn as [y|]; simpl; [|now apply Z.ltb_ge].
  simpl in Hm. apply Z.ltb_lt in Hm. destruct (Z.ltb_spec x y); simpl; [now apply Z.ltb_ge | lia].
Qed.
Lemma min_pos nt mn : time_pos (if time_lt nt mn then nt else mn) = true -> time_pos mn = true.
Proof.
  destruct (time_lt nt mn) eqn:E; auto. destruct nt as [x|], mn as [y|]; simpl in *; auto; try discriminate.
  intros H. apply Z.ltb_lt in H, E. apply Z.ltb_lt. lia.
Qed.
Lemma sticky_ready_npos w o r : sticky w o r -> time_pos (snd (obj_ready_time w false o r)) = false.
Proof.
  destruct o as [n|n|n]; simpl.
  - intros H. unfold note_deadline. destruct (znz (n_notified (notes w n))) eqn:E; simpl; auto.
    rewrite H. simpl. exact H.
  - intros ->. reflexivity.
  - intros ->. reflexivity.
Qed.

Lemma has_post_mono w u c t : (t <> u \/ forall mn, pc_ (thr w u) <> PSleep mn) -> has_post w t -> has_post (tnext w u c) t.
Proof.
  intros Hc [Hs | [u0 Hp]]. pose proof (step_eff w u c) as E. simpl in E.
  - left. assert (Hle : (sem w t <= sem (tnext w u c) t)%nat); [|lia].
    apply (e_sem _ _ _ _ _ E). destruct (pc_ (thr w u)) eqn:Hpc; try discriminate.
    intros Heq. inversion Heq; subst t. destruct Hc as [Hc|Hc]; [congruence | eapply Hc; eauto].
  - destruct (Nat.eq_dec u0 u) as [-> | Hne].
    + left. pose proof (step_V_sem w u c t Hp). lia.
    + right. exists u0. rewrite step_other by auto. exact Hp.
Qed.
Lemma woken_new w u c r : ginv w -> woken (tnext w u c) r = true -> woken w r = true \/ has_post (tnext w u c) (owner r).
Proof.
  intros G H. pose proof (step_eff w u c) as E. simpl in E.
  destruct (e_woken _ _ _ _ _ E r H) as [Hk | [Hws | [Hs _]]]; auto.
  - right. right. destruct (pc_ (thr w u)) eqn:Hpc; try discriminate.
    destruct (privs w u) as [|r0 rest] eqn:Hp; [discriminate|]. simpl in Hws. inversion Hws; subst r0.
    exists u. eapply step_wake_pc; eauto.
  - right. left. lia.
Qed.

Lemma wake_step w u c : (forall t, linv (thr w t)) -> ginv w -> (forall t, cw_ok w (thr w t)) -> wk_ok w -> wake_ok w -> wake_ok (tnext w u c).
Proof.
  intros L G CW WK W t. destruct (Nat.eq_dec t u) as [-> | Hne].
  - (* the acting thread *)
    specialize (W u). pose proof (L u) as Lu.
    unfold wake_tr in W.
    assert (Hself : forall w', wake_tr w' u (thr w u) -> True) by auto.
    revert W. step_destruct w u; try (destruct (obj_ready_time w false _ _) as [w1 nt] eqn:E1); simpl; intros W.
    all: try solve [ unfold ctl_call, ctl_first, ctl_enq, ctl_unlock, ctl_p_timeout, ctl_p_ok, ctl_deq, ctl_spin, ctl_free in *; destruct_step; simpl in *;
                     rewrite ?fupd_same;
                     first [ exact W | apply wt_sleep_start | apply wt_deq_start | apply wt_after_enq | apply wt_after_first | apply wt_after_deq
                           | apply wt_after_free | apply wt_after_deqs | apply wt_goto_deq
                           | (apply wt_nonregion; simpl; congruence) ] ].
    + (* PReady *)
      simpl. rewrite fupd_same.
      assert (Hkey : forall mn', mn' = (if time_lt nt mn then nt else mn) -> time_pos mn' = true ->
                forall j', (j' <= j)%nat -> woken w1 (rec_of u (thr w u) j') = true -> has_post (set_thr w1 u (ctl_ready (thr w u) j mn nt)) u).
      { intros mn' -> Hpos j' Hj' Hk'.
        assert (Hw' : set_thr w1 u (ctl_ready (thr w u) j mn nt) = tnext w u c).
        { unfold tnext, step. rewrite Hpc. rewrite E1. reflexivity. }
        rewrite Hw'.
        assert (Hk2 : woken (tnext w u c) (rec_of u (thr w u) j') = true) by (rewrite <- Hw'; exact Hk').
        destruct (woken_new w u c _ G Hk2) as [Hk | Hp]; [|exact Hp].
        pose proof (min_pos _ _ Hpos) as Hmn.
        destruct (Nat.eq_dec j' j) as [-> | Hne'].
        - exfalso. destruct Lu as [_ Lu]. rewrite Hpc in Lu. destruct Lu as [Lj _].
          assert (Hwin : win w (rec_of u (thr w u) j) (objat (thr w u) j)).
          { unfold win. simpl. apply win_rec. splits; auto. rewrite Hpc. exact I. }
          pose proof (sticky_ready_npos _ _ _ (WK _ _ Hwin Hk)) as Hn. rewrite E1 in Hn. simpl in Hn.
          rewrite (min_npos _ _ Hmn Hn) in Hpos. discriminate.
        - apply has_post_mono; [right; intros mn0; rewrite Hpc; discriminate|]. apply (W Hmn j'); auto. lia. }
      unfold ctl_ready. destruct (S j =? count (thr w u))%nat eqn:Ec.
      * pose proof Ec as Ec'. apply Nat.eqb_eq in Ec'. destruct (time_pos (if time_lt nt mn then nt else mn)) eqn:Epos; [|apply wt_deq_start].
        unfold wake_tr. simpl. intros j' Hj' Hk'. autorewrite with cnt in Hj'.
        assert (Hle : (j' <= j)%nat) by lia.
        pose proof (Hkey _ eq_refl Epos j' Hle Hk') as Hp. unfold ctl_ready in Hp. rewrite Ec, Epos in Hp. exact Hp.
      * unfold wake_tr. simpl. intros Epos j' Hj' Hk'.
        assert (Hle : (j' <= j)%nat) by lia.
        pose proof (Hkey _ eq_refl Epos j' Hle Hk') as Hp. unfold ctl_ready in Hp. rewrite Ec in Hp. exact Hp.
    + (* PSleep *)
      destruct (c && time_reached mn (clock w)); simpl; [rewrite fupd_same; apply wt_deq_start|].
      destruct (sem w u); simpl; [unfold wake_tr; rewrite Hpc; exact W | rewrite fupd_same; apply wt_sleep_start].
  - (* another thread *)
    rewrite step_other by auto. specialize (W t). unfold wake_tr in *.
    destruct (pc_ (thr w t)) eqn:Hpc; auto.
    + intros Hmn j' Hj' Hk'. destruct (woken_new w u c _ G Hk') as [Hk | Hp]; [|exact Hp].
      apply has_post_mono; auto. apply (W Hmn j'); auto.
    + intros j' Hj' Hk'. destruct (woken_new w u c _ G Hk') as [Hk | Hp]; [|exact Hp].
      apply has_post_mono; auto. apply (W j'); auto.
Qed.

Definition hinv (w : world) : Prop := (forall t, cw_ok w (thr w t)) /\ wk_ok w /\ wake_ok w.
Lemma hinv_next w a : inv w -> hinv w -> hinv (next w a).
Proof.
  intros [L G] [CW [WK W]]. destruct a as [u c|d].
  - change (next w (Run u c)) with (tnext w u c). unfold hinv. splits.
    + now apply cw_step.
    + now apply wk_step.
    + now apply wake_step.
  - unfold hinv. splits.
    + intros t j n. apply (CW t j n).
    + intros r o Hw Hk. specialize (WK r o Hw Hk). destruct o; exact WK.
    + intros t. specialize (W t). unfold wake_tr in *. simpl thr. destruct (pc_ (thr w t)); auto.
Qed.
Lemma hinv_init nts cts progs c0 : hinv (init nts cts progs c0).
Proof.
  unfold hinv. splits.
  - intros t j n H. simpl in H. destruct H.
  - intros r o [_ [_ [_ D]]]. simpl in D. destruct D.
  - intros t. exact I.
Qed.
Lemma hinv_reachable nts cts progs c0 sched : init_ok nts cts c0 ->
  inv (run (init nts cts progs c0) sched) /\ hinv (run (init nts cts progs c0) sched).
Proof.
  intros H. apply (run_inv (fun w => inv w /\ hinv w)).
  - intros w a [I Hh]. split; [now apply inv_next | now apply hinv_next].
  - split; [|apply hinv_init]. split; [intros t; apply linv_idle_t | now apply ginv_init_world].
Qed.
Lemma wakes_of_hinv w t mn j : hinv w -> pc_ (thr w t) = PSleep mn -> (j < count (thr w t))%nat ->
  woken w (rec_of t (thr w t) j) = true -> (0 < sem w t)%nat \/ v_pending w t.
Proof.
  intros [_ [_ W]] Hpc Hj Hk. specialize (W t). unfold wake_tr in W. rewrite Hpc in W. exact (W j Hj Hk).
Qed.

(* ---------- C11_timeout: `count` is returned only after the deadline ---------- *)
Definition sticky_to (w : world) (o : oref) (r : rid) : Prop :=
  match o with
  | ONote n => time_pos (nt_time (notes w n)) = false \/ time_reached (nt_time (notes w n)) (clock w) = true
  | OCounter n => c_value (ctrs w n) = 0
  | OCv n => waiting w r = 0 \/ ~ In r (cvs w n)
  end.
Definition strong (w : world) (o : oref) (r : rid) : Prop :=
  match o with ONote n => time_pos (nt_time (notes w n)) = false | _ => sticky_to w o r end.
Definition mn_src (w : world) (s : tstate) (mn : time) : Prop :=
  mn = f_dl (fr s) \/ exists j n, (j < count s)%nat /\ objat s j = ONote n /\ n_expiry (notes w n) = mn.
Definition stk (w : world) (t : nat) (s : tstate) (j : nat) : Prop := sticky_to w (objat s j) (rec_of t s j).
Definition to_tr (w : world) (t : nat) (s : tstate) : Prop :=
  f_ready (fr s) = count s ->
  match pc_ s with
  | PInit _ | PEnq _ | PUnlock => time_pos (f_dl (fr s)) = true
  | PReady k mn => time_pos (f_dl (fr s)) = true /\
                   (if time_pos mn then mn_src w s mn else exists j, (j < k)%nat /\ stk w t s j)
  | PSleep mn => time_pos (f_dl (fr s)) = true /\ mn_src w s mn
  | PDeqPre k => f_dl_seen (fr s) = true \/ exists j, (k <= j)%nat /\ (j < f_i (fr s))%nat /\ stk w t s j
  | PDeq k => f_dl_seen (fr s) = true \/ (exists j, (k < j)%nat /\ (j < f_i (fr s))%nat /\ stk w t s j) \/
              strong w (objat s k) (rec_of t s k)
  | PFree | PLock | PRet => f_dl_seen (fr s) = true
  | _ => True
  end.

Lemma strong_of_sticky_nonnote w o r : is_note o = false -> sticky_to w o r -> strong w o r.
Proof. destruct o; simpl; auto. discriminate. Qed.
Lemma tt_after_free w t s : f_dl_seen (fr s) = true -> to_tr w t (after_free s).
Proof. intros H _. destruct (pcs_after_free s) as [E|E]; rewrite E; rewrite fr_after_free; exact H. Qed.
Lemma tt_after_deqs w t s : f_dl_seen (fr s) = true -> to_tr w t (after_deqs s).
Proof. intros H _. destruct (pcs_after_deqs s) as [E|[E|E]]; rewrite E; rewrite fr_after_deqs; exact H. Qed.
Lemma tt_goto_deq w t s k :
  (f_dl_seen (fr s) = true \/ exists j, (k <= j)%nat /\ (j < f_i (fr s))%nat /\ stk w t s j) -> to_tr w t (goto_deq s k).
Proof.
  intros H _. unfold goto_deq. destruct (is_note (objat s k)) eqn:E; simpl; auto.
  destruct H as [H | [j [A [B C]]]]; auto. right.
  destruct (Nat.eq_dec j k) as [-> | Hne]; [right; now apply strong_of_sticky_nonnote | left; exists j; splits; auto; lia].
Qed.
Lemma tt_deq_start w t s :
  (f_dl_seen (fr s) = true \/ exists j, (j < f_i (fr s))%nat /\ stk w t s j) -> to_tr w t (deq_start s).
Proof.
  intros H. unfold deq_start. destruct (f_i (fr s) =? 0)%nat eqn:E.
  - apply Nat.eqb_eq in E. apply tt_after_deqs. destruct H as [H | [j [A _]]]; auto. lia.
  - apply tt_goto_deq. destruct H as [H | [j [A B]]]; auto. right. exists j. splits; auto. lia.
Qed.
Lemma tt_sleep_start w t s : time_pos (f_dl (fr s)) = true -> to_tr w t (sleep_start s).
Proof.
  intros H _. unfold sleep_start. destruct (count s =? 0)%nat; simpl.
  - split; auto. now left.
  - split; auto. rewrite H. now left.
Qed.
Lemma tt_after_enq w t s i :
  time_pos (f_dl (fr s)) = true -> (i <> count s -> exists j, (j < i)%nat /\ stk w t s j) -> to_tr w t (after_enq s i).
Proof.
  intros Hd Hs. unfold after_enq. autorewrite with cnt. destruct (i =? count s)%nat eqn:E.
  - destruct (f_mu (fr (set_i s i))); [intros _; simpl; exact Hd | apply tt_sleep_start; exact Hd].
  - apply Nat.eqb_neq in E. apply tt_deq_start. right. simpl. destruct (Hs E) as [j [A B]]. exists j. split; auto.
Qed.
Lemma tt_after_first w t s clk : 0 <= clk -> to_tr w t (after_first s clk).
Proof.
  intros Hc. unfold after_first. destruct (time_pos (f_dl (fr s))) eqn:E.
  - destruct (count s =? 0)%nat eqn:E0; [|intros _; simpl; exact E].
    apply tt_after_enq; auto. apply Nat.eqb_eq in E0. intros H. congruence.
  - intros _. simpl. destruct (f_dl (fr s)) as [x|]; simpl in *; [|discriminate].
    apply Z.ltb_ge in E. apply orb_true_iff. right. apply Z.leb_le. lia.
Qed.
Lemma tt_other w t s : match pc_ s with PIdle | PFirst _ | PDeqSpin _ | PWake | PWakeV _ | PPanic => True | _ => False end -> to_tr w t s.
Proof. intros H _. destruct (pc_ s); auto; contradiction. Qed.
Lemma tt_notcount w t s : f_ready (fr s) <> count s -> to_tr w t s.
Proof. intros H E. contradiction. Qed.

Lemma sticky_to_set_thr w t s o r : sticky_to (set_thr w t s) o r <-> sticky_to w o r.
Proof. destruct o; simpl; tauto. Qed.
Lemma enq_false_sticky w o r w1 : obj_enqueue w o r = (w1, false) -> sticky_to w1 o r.
Proof.
  destruct o as [n|n|n]; simpl.
  - destruct (time_pos (nt_time (notes w n))) eqn:E; intros H; inversion H; subst. simpl. now left.
  - destruct (counter_enqueue_store1_guard (c_value (ctrs w n))) eqn:E; intros H; inversion H; subst. simpl.
    unfold counter_enqueue_store1_guard in E. apply negb_false_iff, Z.eqb_eq in E. exact E.
  - intros H; inversion H.
Qed.
Lemma notified_npos w n : znz (n_notified (notes w n)) = true -> time_pos (nt_time (notes w n)) = false.
Proof. intros H. unfold nt_time. rewrite H. reflexivity. Qed.
Lemma do_notify_npos w n : time_pos (nt_time (notes (note_do_notify w n) n)) = false.
Proof.
  unfold note_do_notify. destruct (time_pos (nt_time (notes w n))) eqn:E; auto. simpl. rewrite fupd_same. reflexivity.
Qed.
Lemma deadline_npos w n w1 nt : note_deadline w n = (w1, nt) -> time_pos nt = false -> time_pos (nt_time (notes w1 n)) = false.
Proof.
  unfold note_deadline. destruct (znz (n_notified (notes w n))) eqn:E.
  - intros H _; inversion H; subst. now apply notified_npos.
  - destruct (time_pos (nt_time (notes w n)) && time_reached (nt_time (notes w n)) (clock w)) eqn:E2; intros H Hn; inversion H; subst.
    + apply do_notify_npos.
    + exact Hn.
Qed.
Lemma deadline_strong w n : (time_pos (nt_time (notes w n)) = false \/ time_reached (nt_time (notes w n)) (clock w) = true) ->
  time_pos (nt_time (notes (fst (note_deadline w n)) n)) = false.
Proof.
  intros H. unfold note_deadline. destruct (znz (n_notified (notes w n))) eqn:E; simpl.
  - now apply notified_npos.
  - destruct (time_pos (nt_time (notes w n))) eqn:E1; simpl.
    + destruct H as [H|H]; [discriminate|]. rewrite H. simpl. apply do_notify_npos.
    + exact E1.
Qed.
Lemma ready_npos_sticky w o r w1 nt : obj_ready_time w false o r = (w1, nt) -> time_pos nt = false -> sticky_to w1 o r.
Proof.
  destruct o as [n|n|n]; simpl.
  - intros H Hn. left. eapply deadline_npos; eauto.
  - intros H; inversion H; subst. simpl. rewrite fupd_same. simpl. destruct (c_value (ctrs w n) =? 0) eqn:E; [|discriminate].
    intros _. now apply Z.eqb_eq.
  - intros H; inversion H; subst. destruct (znz (waiting w1 r)) eqn:E; [discriminate|]. intros _. left.
    unfold znz in E. now apply negb_false_iff, Z.eqb_eq in E.
Qed.
Lemma ready_pos_src w f o r w1 nt x : obj_ready_time w f o r = (w1, nt) -> nt = Some x -> time_pos nt = true ->
  exists n, o = ONote n /\ n_expiry (notes w1 n) = nt.
Proof.
  destruct o as [n|n|n]; simpl.
  - intros H -> Hp. exists n. split; auto. revert H. unfold note_deadline. destruct (znz (n_notified (notes w n))) eqn:E.
    + intros H; inversion H; subst. discriminate.
    + destruct (_ && _); intros H; inversion H; subst; [discriminate|]. unfold nt_time. now rewrite E.
  - intros H; inversion H; subst. destruct (_ =? _); intros Hx; inversion Hx; subst. discriminate.
  - intros H; inversion H; subst. destruct f; [discriminate|]. destruct (znz _); intros Hx; inversion Hx; subst. discriminate.
Qed.
Lemma strong_deq_false w o r : strong w o r -> snd (obj_dequeue w o r) = false.
Proof.
  destruct o as [n|n|n]; simpl.
  - intros ->. reflexivity.
  - intros ->. reflexivity.
  - intros [H|H].
    + rewrite H. reflexivity.
    + apply mem_false in H. rewrite H. now rewrite andb_false_r.
Qed.

(* stability of the facts used by to_tr under any step of any thread *)
Lemma sticky_to_stable w u c t j :
  let s := thr w t in
  (forall t, cw_ok w (thr w t)) -> past_first (pc_ s) j -> (j < count s)%nat ->
  (forall i, pc_ (thr w u) = PEnq i -> rec_of t s j <> rec_of u (thr w u) i) ->
  sticky_to w (objat s j) (rec_of t s j) -> sticky_to (tnext w u c) (objat s j) (rec_of t s j).
Proof.
  intros s CW Hpf Hj Hne H. pose proof (step_eff w u c) as E. simpl in E.
  destruct (objat s j) as [n|n|n] eqn:Eo; simpl in *.
  - destruct (e_note _ _ _ _ _ E n) as [A [B C]]. rewrite (e_clock _ _ _ _ _ E).
    destruct H as [H|H]; [left; eapply nt_time_npos_stable; eauto|].
    destruct (znz (n_notified (notes (tnext w u c) n))) eqn:E1; [left; now apply notified_npos|].
    right. specialize (C eq_refl). unfold nt_time in *. rewrite E1. rewrite C in E1. rewrite E1 in H. now rewrite A.
  - destruct (e_ctr _ _ _ _ _ E n) as [_ B]. apply B; auto. apply (CW t j n); auto.
  - assert (Hr0 : Some (rec_of t s j) <> match pc_ (thr w u) with PEnq i => Some (rec_of u (thr w u) i) | _ => None end).
    { destruct (pc_ (thr w u)) eqn:Hpc; try discriminate. intros Heq. apply (Hne i eq_refl). congruence. }
    destruct H as [H|H].
    + left. destruct (e_waiting _ _ _ _ _ E _ Hr0) as [A|A]; congruence.
    + right. intros Hin. destruct (e_cvs _ _ _ _ _ E _ _ Hin) as [A|A]; auto.
Qed.
Lemma mn_src_stable w u c s mn : mn_src w s mn -> mn_src (tnext w u c) s mn.
Proof.
  intros [H | [j [n [A [B C]]]]]; [now left|]. right. exists j, n. splits; auto.
  pose proof (step_eff w u c) as E. simpl in E. destruct (e_note _ _ _ _ _ E n) as [X _]. now rewrite X.
Qed.

Lemma fready_after_deq w1 t s j b :
  f_ready (fr (after_deq w1 t s j b)) = (if negb b && (f_ready (fr s) =? count s)%nat then j else f_ready (fr s)) /\
  f_dl_seen (fr (after_deq w1 t s j b)) = f_dl_seen (fr s) /\ count (after_deq w1 t s j b) = count s.
Proof.
  unfold after_deq.
  set (s1 := if negb b && (f_ready (fr s) =? count s)%nat then set_ready s j (obj_ready_now w1 (objat s j) (rec_of t s j)) else s).
  assert (H : f_ready (fr s1) = (if negb b && (f_ready (fr s) =? count s)%nat then j else f_ready (fr s)) /\ f_dl_seen (fr s1) = f_dl_seen (fr s) /\ count s1 = count s).
  { unfold s1. destruct (negb b && _); simpl; auto. }
  destruct (_ =? f_i (fr s1))%nat; [unfold count; rewrite fr_after_deqs | unfold count; rewrite fr_goto_deq]; exact H.
Qed.
Lemma tt_after_deq w t w1 s j b :
  (j < f_i (fr s))%nat -> (f_i (fr s) <= count s)%nat ->
  (b = true -> f_ready (fr s) = count s -> f_dl_seen (fr s) = true \/ exists j', (j < j')%nat /\ (j' < f_i (fr s))%nat /\ stk w t s j') ->
  to_tr w t (after_deq w1 t s j b).
Proof.
  intros Hj Hi H. destruct (fready_after_deq w1 t s j b) as [Fr [Fs Fc]].
  destruct (negb b && (f_ready (fr s) =? count s)%nat) eqn:E.
  - apply tt_notcount. rewrite Fr, Fc. lia.
  - destruct (Nat.eq_dec (f_ready (fr s)) (count s)) as [Er|Er]; [|apply tt_notcount; rewrite Fr, Fc; auto].
    assert (b = true) as -> by (destruct b; auto; simpl in E; apply Nat.eqb_neq in E; contradiction).
    specialize (H eq_refl Er). unfold after_deq. simpl negb. simpl andb. cbv iota.
    destruct (S j =? f_i (fr s))%nat eqn:E2.
    + apply Nat.eqb_eq in E2. apply tt_after_deqs. destruct H as [H | [j' [A [B _]]]]; auto. lia.
    + apply tt_goto_deq. destruct H as [H | [j' [A [B C]]]]; auto. right. exists j'. splits; auto.
Qed.

Definition to_ok (w : world) : Prop := forall t, to_tr w t (thr w t).

Lemma stk_same w t s s2 j : f_objs (fr s2) = f_objs (fr s) -> done s2 = done s -> (stk w t s2 j <-> stk w t s j).
Proof. intros Ho Hd. unfold stk, objat, rec_of. rewrite Ho, Hd. tauto. Qed.

Lemma to_step_other w u c t : t <> u -> (forall t, linv (thr w t)) -> (forall t, cw_ok w (thr w t)) ->
  to_tr w t (thr w t) -> to_tr (tnext w u c) t (thr w t).
Proof.
  intros Hne L CW H Hr. specialize (H Hr). pose proof (L t) as [_ Lt].
  assert (Hst : forall j, past_first (pc_ (thr w t)) j -> (j < count (thr w t))%nat -> stk w t (thr w t) j -> stk (tnext w u c) t (thr w t) j).
  { intros j A B C. apply sticky_to_stable; auto. intros i _ Heq. unfold rec_of in Heq. inversion Heq. auto. }
  destruct (pc_ (thr w t)) eqn:Hpc; auto.
  - destruct Lt as [Lj _]. destruct H as [A B]. split; auto. destruct (time_pos mn); [now apply mn_src_stable|].
    destruct B as [j' [B1 B2]]. exists j'. split; auto. apply Hst; simpl; auto. lia.
  - destruct H as [A B]. split; auto. now apply mn_src_stable.
  - destruct Lt as [Lj [Li _]]. destruct H as [H | [j' [A [B C]]]]; auto. right. exists j'. splits; auto. apply Hst; simpl; auto. lia.
  - destruct Lt as [Lj [Li _]]. destruct H as [H | [[j' [A [B C]]] | H]]; auto.
    + right. left. exists j'. splits; auto. apply Hst; simpl; auto. lia.
    + right. right. unfold strong in *. destruct (objat (thr w t) j) as [n|n|n] eqn:Eo.
      * pose proof (step_eff w u c) as E. simpl in E. destruct (e_note _ _ _ _ _ E n) as [X [Y _]]. eapply nt_time_npos_stable; eauto.
      * pose proof (Hst j I ltac:(lia)) as Hs. unfold stk in Hs. rewrite Eo in Hs. apply Hs. exact H.
      * pose proof (Hst j I ltac:(lia)) as Hs. unfold stk in Hs. rewrite Eo in Hs. apply Hs. exact H.
Qed.

Lemma to_step_self w u c : (forall t, linv (thr w t)) -> ginv w -> (forall t, cw_ok w (thr w t)) -> 0 <= clock w ->
  to_tr w u (thr w u) -> to_tr (tnext w u c) u (thr (tnext w u c) u).
Proof.
  intros L G CW Hclk H. pose proof (L u) as [Lr Lu].
  (* witnesses of the old state carried to the new world *)
  assert (Hst : forall j, past_first (pc_ (thr w u)) j -> (j < count (thr w u))%nat ->
                 (forall i, pc_ (thr w u) <> PEnq i) -> stk w u (thr w u) j -> stk (tnext w u c) u (thr w u) j).
  { intros j A B C D. apply sticky_to_stable; auto. intros i Hi. exfalso. eapply C; eauto. }
  unfold to_tr in H. destruct (pc_ (thr w u)) eqn:Hpc.
  - (* PIdle *)
    unfold tnext, step. rewrite Hpc. destruct (prog (thr w u)) as [|[mu dl os|n|n|n delta|n|n|m|m|tgt] rest] eqn:Hprog; simpl.
    + apply tt_other. rewrite Hpc. exact I.
    + rewrite fupd_same. unfold ctl_call. destruct (length os =? 0)%nat; [now apply tt_after_first | apply tt_other; exact I].
    + destruct (note_deadline w n) as [w1 nt]. simpl. rewrite fupd_same. apply tt_other. simpl. rewrite Hpc. exact I.
    + destruct (note_deadline w n) as [w1 nt]. simpl. rewrite fupd_same. apply tt_other. simpl. rewrite Hpc. exact I.
    + destruct (nsync_counter_add_cas1_guard delta); [destruct (ctr_add w n delta) as [[w1 v]|]|]; simpl; rewrite fupd_same; apply tt_other; simpl; rewrite ?Hpc; exact I.
    + destruct (cvs w n); simpl; rewrite fupd_same; apply tt_other; simpl; rewrite ?Hpc; exact I.
    + destruct (cvs w n); simpl; rewrite fupd_same; apply tt_other; simpl; rewrite ?Hpc; exact I.
    + destruct (muh w m); simpl; [|rewrite fupd_same]; apply tt_other; simpl; rewrite ?Hpc; exact I.
    + rewrite fupd_same. apply tt_other; simpl; rewrite ?Hpc; exact I.
    + (* OpStale *) rewrite fupd_same. apply tt_other; simpl; rewrite ?Hpc; exact I.
  - (* PFirst *)
    unfold tnext, step. rewrite Hpc. destruct (obj_ready_time w true _ _) as [w1 nt]. simpl. rewrite fupd_same.
    destruct Lu as [Lj _]. unfold ctl_first. destruct (time_pos nt).
    + destruct (_ =? _)%nat; [apply tt_after_first; exact Hclk | apply tt_other; exact I].
    + apply tt_notcount. simpl. autorewrite with cnt. lia.
  - (* PInit *)
    unfold tnext, step. rewrite Hpc. simpl. rewrite fupd_same. intros Hr. simpl in *. apply H. exact Hr.
  - (* PEnq *)
    destruct Lu as [Li [Lr' _]]. specialize (H Lr').
    unfold tnext, step. rewrite Hpc. destruct (obj_enqueue w _ _) as [w1 ok] eqn:E1. simpl. rewrite fupd_same.
    unfold ctl_enq. destruct (ok && negb (S i =? count (thr w u))%nat) eqn:E2.
    + intros _. simpl. exact H.
    + apply tt_after_enq; [exact H|]. simpl. autorewrite with cnt. intros Hne. exists i. split; [lia|].
      assert (ok = false) as ->.
      { destruct ok; auto. rewrite andb_true_l in E2. apply negb_false_iff in E2. apply Nat.eqb_eq in E2. contradiction. }
      unfold stk. simpl. apply sticky_to_set_thr. eapply enq_false_sticky; eauto.
  - (* PUnlock *)
    destruct Lu as [_ [Lr' _]]. specialize (H Lr').
    unfold tnext, step. rewrite Hpc. simpl. rewrite fupd_same. unfold ctl_unlock. apply tt_sleep_start. exact H.
  - (* PReady *)
    destruct Lu as [Lj [Li [Lr' _]]]. destruct (H Lr') as [Hd Hs].
    destruct (obj_ready_time w false (objat (thr w u) j) (rec_of u (thr w u) j)) as [w1 nt] eqn:E1.
    assert (Hw' : tnext w u c = set_thr w1 u (ctl_ready (thr w u) j mn nt)) by (unfold tnext, step; rewrite Hpc, E1; reflexivity).
    rewrite Hw'. simpl thr. rewrite fupd_same.
    assert (Hcar : forall j', (j' < j)%nat -> stk w u (thr w u) j' -> stk (set_thr w1 u (ctl_ready (thr w u) j mn nt)) u (thr w u) j').
    { intros j' A B. rewrite <- Hw'. apply Hst; auto; [exact I | lia | congruence]. }
    assert (Hsrc : mn_src w (thr w u) mn -> mn_src (set_thr w1 u (ctl_ready (thr w u) j mn nt)) (thr w u) mn).
    { intros A. rewrite <- Hw'. now apply mn_src_stable. }
    set (mn' := if time_lt nt mn then nt else mn).
    assert (Hnew_npos : time_pos mn' = false -> exists j', (j' < S j)%nat /\ stk (set_thr w1 u (ctl_ready (thr w u) j mn nt)) u (thr w u) j').
    { intros Hn. destruct (time_pos mn) eqn:Em.
      - exists j. split; [lia|]. unfold stk. apply sticky_to_set_thr. eapply ready_npos_sticky; eauto.
        unfold mn' in Hn. destruct (time_lt nt mn) eqn:El; auto. congruence.
      - destruct Hs as [j' [A B]]. exists j'. split; [lia|]. now apply Hcar. }
    assert (Hnew_pos : time_pos mn' = true -> mn_src (set_thr w1 u (ctl_ready (thr w u) j mn nt)) (thr w u) mn').
    { intros Hp. pose proof (min_pos _ _ Hp) as Em. rewrite Em in Hs. unfold mn' in *. destruct (time_lt nt mn) eqn:El; [|now apply Hsrc].
      destruct nt as [x|]; [|discriminate]. destruct (ready_pos_src _ _ _ _ _ _ x E1 eq_refl Hp) as [n [Ho He]].
      right. exists j, n. splits; auto. }
    unfold ctl_ready. fold mn'. destruct (S j =? count (thr w u))%nat eqn:Ec.
    + apply Nat.eqb_eq in Ec. destruct (time_pos mn') eqn:Ep.
      * intros _. simpl. split; auto.
      * apply tt_deq_start. right. simpl. destruct (Hnew_npos eq_refl) as [j' [A B]]. exists j'. split; [lia | exact B].
    + intros _. simpl. split; auto. destruct (time_pos mn') eqn:Ep; [apply Hnew_pos; auto | apply Hnew_npos; auto].
  - (* PSleep *)
    destruct Lu as [Li [Lr' _]]. destruct (H Lr') as [Hd Hs].
    unfold tnext, step. rewrite Hpc. destruct (c && time_reached mn (clock w)) eqn:Et; simpl.
    + rewrite fupd_same. apply andb_true_iff in Et. destruct Et as [_ Et].
      unfold ctl_p_timeout. apply tt_deq_start. simpl. destruct Hs as [-> | [j' [n [A [B C]]]]].
      * left. rewrite Et. apply orb_true_r.
      * right. exists j'. split; [lia|]. unfold stk. simpl. unfold objat in B |- *. simpl. rewrite B. simpl.
        unfold nt_time. destruct (znz (n_notified (notes w n))); [now left|]. right. now rewrite C.
    + destruct (sem w u); simpl.
      * intros _. rewrite Hpc. split; auto.
      * rewrite fupd_same. unfold ctl_p_ok. apply tt_sleep_start. exact Hd.
  - (* PDeqPre *)
    destruct Lu as [Lj [Li _]].
    destruct (Nat.eq_dec (f_ready (fr (thr w u))) (count (thr w u))) as [Er|Er].
    2:{ unfold tnext, step. rewrite Hpc. destruct (objat (thr w u) j) as [n|n|n]; [destruct (note_deadline w n) as [w1 nt]|..]; simpl; rewrite fupd_same; apply tt_notcount; exact Er. }
    specialize (H Er).
    destruct (objat (thr w u) j) as [n|n|n] eqn:Eo.
    + destruct (note_deadline w n) as [w1 nt] eqn:E1.
      assert (Hw' : tnext w u c = set_thr w1 u (ctl_deqpre (thr w u) j)) by (unfold tnext, step; rewrite Hpc, Eo, E1; reflexivity).
      rewrite Hw'. simpl thr. rewrite fupd_same. intros _. simpl.
      destruct H as [H | [j' [A [B C]]]]; auto. right.
      destruct (Nat.eq_dec j' j) as [-> | Hne].
      * right. unfold objat in Eo |- *. simpl. rewrite Eo. simpl. unfold stk in C. unfold objat in C. rewrite Eo in C. simpl in C.
        pose proof (deadline_strong w n C) as Hx. rewrite E1 in Hx. exact Hx.
      * left. exists j'. splits; auto; [lia|]. rewrite <- Hw'. apply (stk_same _ _ (thr w u)); auto. apply Hst; auto; [exact I | lia | congruence].
    + unfold tnext, step. rewrite Hpc, Eo. simpl. rewrite fupd_same. intros _. simpl.
      destruct H as [H | [j' [A [B C]]]]; auto. right.
      destruct (Nat.eq_dec j' j) as [-> | Hne]; [right | left; exists j'; splits; auto; lia].
      unfold objat in Eo |- *. simpl. rewrite Eo. unfold stk, objat in C. rewrite Eo in C. exact C.
    + unfold tnext, step. rewrite Hpc, Eo. simpl. rewrite fupd_same. intros _. simpl.
      destruct H as [H | [j' [A [B C]]]]; auto. right.
      destruct (Nat.eq_dec j' j) as [-> | Hne]; [right | left; exists j'; splits; auto; lia].
      unfold objat in Eo |- *. simpl. rewrite Eo. unfold stk, objat in C. rewrite Eo in C. exact C.
  - (* PDeq *)
    destruct Lu as [Lj [Li _]].
    destruct (obj_dequeue w (objat (thr w u) j) (rec_of u (thr w u) j)) as [w1 ok] eqn:E1.
    assert (Hw' : tnext w u c = set_thr w1 u (ctl_deq w1 u (thr w u) j ok (mem (rec_of u (thr w u) j) (obj_list w (objat (thr w u) j)))))
      by (unfold tnext, step; rewrite Hpc, E1; reflexivity).
    rewrite Hw'. simpl thr. rewrite fupd_same. unfold ctl_deq.
    destruct (is_cv (objat (thr w u) j) && negb ok) eqn:Ecv; [apply tt_other; exact I|].
    apply tt_after_deq; simpl; autorewrite with cnt; auto.
    intros -> Er. specialize (H Er). destruct H as [H | [[j' [A [B C]]] | H]]; auto.
    + right. exists j'. splits; auto.
      assert (X : stk (tnext w u c) u (thr w u) j') by (apply Hst; auto; [exact I | lia | congruence]).
      rewrite Hw' in X. unfold stk in *. apply sticky_to_set_thr in X. apply sticky_to_set_thr. exact X.
    + exfalso. pose proof (strong_deq_false _ _ _ H) as Hx. rewrite E1 in Hx. discriminate.
  - (* PDeqSpin *)
    destruct Lu as [Lj [Li _]].
    unfold tnext, step. rewrite Hpc. destruct (znz _); simpl; [apply tt_other; rewrite Hpc; exact I|].
    rewrite fupd_same. unfold ctl_spin. apply tt_after_deq; simpl; autorewrite with cnt; auto. intros Hx. discriminate.
  - (* PFree *)
    unfold tnext, step. rewrite Hpc. simpl. rewrite fupd_same. unfold ctl_free.
    destruct (Nat.eq_dec (f_ready (fr (thr w u))) (count (thr w u))) as [Er|Er].
    + apply tt_after_free. simpl. exact (H Er).
    + apply tt_notcount. rewrite fr_after_free. exact Er.
  - (* PLock *)
    unfold tnext, step. rewrite Hpc.
    destruct (f_mu _); [destruct (muh w _)|]; simpl; try (rewrite fupd_same; intros Hr; simpl in *; apply H; exact Hr).
    intros Hr. rewrite Hpc. exact (H Hr).
  - (* PRet *) unfold tnext, step. rewrite Hpc. simpl. rewrite fupd_same. apply tt_other. exact I.
  - unfold tnext, step. rewrite Hpc. destruct (privs w u); simpl; rewrite fupd_same; apply tt_other; exact I.
  - unfold tnext, step. rewrite Hpc. simpl. rewrite fupd_same. apply tt_other. simpl. destruct (privs w u); exact I.
  - unfold tnext, step. rewrite Hpc. simpl. apply tt_other. rewrite Hpc. exact I.
Qed.

Lemma time_reached_mono t c c' : c <= c' -> time_reached t c = true -> time_reached t c' = true.
Proof. destruct t as [x|]; simpl; auto. intros H E. apply Z.leb_le in E. apply Z.leb_le. lia. Qed.
Lemma to_tick w d t : to_tr w t (thr w t) -> to_tr (next w (Tick d)) t (thr w t).
Proof.
  intros H Hr. specialize (H Hr).
  assert (Hs : forall o r, sticky_to w o r -> sticky_to (next w (Tick d)) o r).
  { intros o r. destruct o as [n|n|n]; simpl; auto. intros [A|A]; auto. right. eapply time_reached_mono; eauto. lia. }
  assert (Hst : forall o r, strong w o r -> strong (next w (Tick d)) o r).
  { intros o r. destruct o as [n|n|n]; simpl; auto. }
  destruct (pc_ (thr w t)); auto.
  - destruct H as [A B]. split; auto. destruct (time_pos mn); auto. destruct B as [j' [B1 B2]]. exists j'. split; auto. apply Hs. exact B2.
  - destruct H as [H | [j' [A [B C]]]]; auto. right. exists j'. splits; auto. apply Hs. exact C.
  - destruct H as [H | [[j' [A [B C]]] | H]]; auto.
    right. left. exists j'. splits; auto. apply Hs. exact C.
Qed.
Definition hinv2 (w : world) : Prop := to_ok w /\ 0 <= clock w.
Lemma hinv2_next w a : inv w -> hinv w -> hinv2 w -> hinv2 (next w a).
Proof.
  intros [L G] [CW _] [T Hc]. destruct a as [u c|d].
  - change (next w (Run u c)) with (tnext w u c). split.
    + intros t. destruct (Nat.eq_dec t u) as [-> | Hne].
      * apply to_step_self; auto.
      * rewrite step_other by auto. apply to_step_other; auto.
    + pose proof (step_eff w u c) as E. simpl in E. rewrite (e_clock _ _ _ _ _ E). exact Hc.
  - split.
    + intros t. change (thr (next w (Tick d)) t) with (thr w t). apply to_tick. apply T.
    + simpl. lia.
Qed.
Lemma all_reachable nts cts progs c0 sched : init_ok nts cts c0 ->
  let w := run (init nts cts progs c0) sched in inv w /\ hinv w /\ hinv2 w.
Proof.
  intros H. apply (run_inv (fun w => inv w /\ hinv w /\ hinv2 w)).
  - intros w a [I [Hh H2]]. splits; [now apply inv_next | now apply hinv_next | now apply hinv2_next].
  - splits; [|apply hinv_init|].
    + split; [intros t; apply linv_idle_t | now apply ginv_init_world].
    + split; [intros t; exact (fun _ => I) | destruct H as [H _]; exact H].
Qed.
Lemma timeout_of_inv w t : hinv2 w -> pc_ (thr w t) = PRet -> f_ready (fr (thr w t)) = count (thr w t) -> f_dl_seen (fr (thr w t)) = true.
Proof. intros [T _] Hpc Hr. specialize (T t Hr). rewrite Hpc in T. exact T. Qed.

(* ---------- thread-local: while `ready == count`, every dequeue so far reported "still queued" ---------- *)
Definition dq (s : tstate) : Prop :=
  f_ready (fr s) = count s -> forall j r onl, In (EvDeq j r onl) (f_log (fr s)) -> r = true \/ pc_ s = PDeqSpin j.
Definition fsame (s2 s : tstate) : Prop :=
  f_ready (fr s2) = f_ready (fr s) /\ f_objs (fr s2) = f_objs (fr s) /\ f_log (fr s2) = f_log (fr s).
Definition nospin (s : tstate) : Prop := forall j, pc_ s <> PDeqSpin j.
Lemma fsame_of_fr s2 s : fr s2 = fr s -> fsame s2 s.
Proof. intros H. unfold fsame. rewrite H. auto. Qed.
Lemma fsame_trans a b c : fsame a b -> fsame b c -> fsame a c.
Proof. intros [A1 [A2 A3]] [B1 [B2 B3]]. unfold fsame. splits; congruence. Qed.
Lemma fs_after_free s : fsame (after_free s) s /\ nospin (after_free s).
Proof. split; [apply fsame_of_fr; reflexivity|]. intros j. destruct (pcs_after_free s) as [H|H]; rewrite H; congruence. Qed.
Lemma fs_after_deqs s : fsame (after_deqs s) s /\ nospin (after_deqs s).
Proof. split; [apply fsame_of_fr, fr_after_deqs|]. destruct (ns_after_deqs s) as [H _]; exact H. Qed.
Lemma fs_goto_deq s k : fsame (goto_deq s k) s /\ nospin (goto_deq s k).
Proof. split; [apply fsame_of_fr; reflexivity|]. intros j. destruct (pcs_goto_deq s k) as [H|H]; rewrite H; congruence. Qed.
Lemma fs_deq_start s : fsame (deq_start s) s /\ nospin (deq_start s).
Proof. split; [apply fsame_of_fr, fr_deq_start|]. destruct (ns_deq_start s) as [H _]; exact H. Qed.
Lemma fs_sleep_start s : fsame (sleep_start s) s /\ nospin (sleep_start s).
Proof. split; [apply fsame_of_fr, fr_sleep_start|]. destruct (ns_sleep_start s) as [H _]; exact H. Qed.
Lemma fs_after_enq s i : fsame (after_enq s i) s /\ nospin (after_enq s i).
Proof. split; [|destruct (ns_after_enq s i) as [H _]; exact H]. unfold fsame. rewrite fr_after_enq. simpl. auto. Qed.
Lemma fs_after_first s clk : fsame (after_first s clk) s /\ nospin (after_first s clk).
Proof.
  split; [|destruct (ns_after_first s clk) as [H _]; exact H]. unfold after_first. destruct (time_pos _); [destruct (_ =? _)%nat|].
  - apply fs_after_enq.
  - apply fsame_of_fr. reflexivity.
  - unfold fsame. simpl. auto.
Qed.
Lemma dq_ext s s2 e : (forall j r onl, e <> EvDeq j r onl) -> f_ready (fr s2) = f_ready (fr s) -> f_objs (fr s2) = f_objs (fr s) ->
  f_log (fr s2) = e :: f_log (fr s) -> nospin s -> dq s -> dq s2.
Proof.
  intros He Hr Ho Hl Hn H Hc j r onl Hin. left. rewrite Hl in Hin. destruct Hin as [Hin|Hin]; [exfalso; eapply He; eauto|].
  unfold count in *. rewrite Hr, Ho in Hc. destruct (H Hc j r onl Hin) as [?|Hp]; auto. exfalso. eapply Hn; eauto.
Qed.
Lemma dq_fsame s s2 : fsame s2 s -> nospin s -> dq s -> dq s2.
Proof.
  intros [Hr [Ho Hl]] Hn H Hc j r onl Hin. left. rewrite Hl in Hin.
  unfold count in *. rewrite Hr, Ho in Hc. destruct (H Hc j r onl Hin) as [?|Hp]; auto. exfalso. eapply Hn; eauto.
Qed.
Lemma dq_lg_helper s e h : (forall j r onl, e <> EvDeq j r onl) -> fsame h (lg e s) -> nospin s -> dq s -> dq h.
Proof.
  intros He [Hr [Ho Hl]] Hn H. apply (dq_ext s h e); auto.
Qed.
Lemma dq_notcount s : f_ready (fr s) <> count s -> dq s.
Proof. intros H Hc. contradiction. Qed.
Ltac nd := let j := fresh in let r := fresh in let o := fresh in intros j r o; discriminate.

Lemma dq_ctl_call s mu dl os rest clk held : dq (ctl_call s mu dl os rest clk held).
Proof.
  unfold ctl_call. set (s1 := mk_t PIdle rest (new_frame mu dl os held) (done s) (results s)).
  assert (H1 : dq s1) by (intros _ j r onl [Hin|[]]; discriminate).
  assert (N1 : nospin s1) by (intros j; simpl; congruence).
  destruct (_ =? _)%nat; [|apply (dq_fsame s1); auto; apply fsame_of_fr; reflexivity].
  apply (dq_fsame s1); auto. apply fs_after_first.
Qed.
Lemma dq_ctl_first s j nt b clk : linv s -> pc_ s = PFirst j -> dq s -> dq (ctl_first s j nt b clk).
Proof.
  intros [_ L] Hpc H. rewrite Hpc in L. destruct L as [Lj _].
  assert (N : nospin s) by (intros k; rewrite Hpc; congruence).
  unfold ctl_first. destruct (time_pos nt); [destruct (_ =? _)%nat|].
  - eapply (dq_lg_helper s (EvReady true j nt)); eauto; [nd | apply fs_after_first].
  - eapply (dq_lg_helper s (EvReady true j nt)); eauto; [nd | apply fsame_of_fr; reflexivity].
  - apply dq_notcount. simpl. autorewrite with cnt. lia.
Qed.
Lemma dq_ctl_init s i v : pc_ s = PInit i -> dq s -> dq (ctl_init s i v).
Proof.
  intros Hpc H. assert (N : nospin s) by (intros k; rewrite Hpc; congruence).
  unfold ctl_init. eapply (dq_lg_helper s (EvInit i v)); eauto; [nd | apply fsame_of_fr; reflexivity].
Qed.
Lemma dq_ctl_enq s i ok : pc_ s = PEnq i -> dq s -> dq (ctl_enq s i ok).
Proof.
  intros Hpc H. assert (N : nospin s) by (intros k; rewrite Hpc; congruence).
  unfold ctl_enq. destruct (_ && _).
  - eapply (dq_lg_helper s (EvEnq i ok)); eauto; [nd | apply fsame_of_fr; reflexivity].
  - eapply (dq_lg_helper s (EvEnq i ok)); eauto; [nd | apply fs_after_enq].
Qed.
Lemma dq_ctl_unlock s : pc_ s = PUnlock -> dq s -> dq (ctl_unlock s).
Proof.
  intros Hpc H. assert (N : nospin s) by (intros k; rewrite Hpc; congruence).
  unfold ctl_unlock. eapply (dq_lg_helper s EvUnlock); eauto; [nd|].
  eapply fsame_trans; [apply fs_sleep_start|]. unfold fsame; simpl; auto.
Qed.
Lemma dq_ctl_ready s j mn nt : pc_ s = PReady j mn -> dq s -> dq (ctl_ready s j mn nt).
Proof.
  intros Hpc H. assert (N : nospin s) by (intros k; rewrite Hpc; congruence).
  unfold ctl_ready. destruct (_ =? _)%nat; [destruct (time_pos _)|].
  - eapply (dq_lg_helper s (EvReady false j nt)); eauto; [nd | apply fsame_of_fr; reflexivity].
  - eapply (dq_lg_helper s (EvReady false j nt)); eauto; [nd | apply fs_deq_start].
  - eapply (dq_lg_helper s (EvReady false j nt)); eauto; [nd | apply fsame_of_fr; reflexivity].
Qed.
Lemma dq_ctl_p_timeout s mn clk : pc_ s = PSleep mn -> dq s -> dq (ctl_p_timeout s clk).
Proof.
  intros Hpc H. assert (N : nospin s) by (intros k; rewrite Hpc; congruence).
  unfold ctl_p_timeout. eapply (dq_lg_helper s (EvP PTimeout)); eauto; [nd|].
  eapply fsame_trans; [apply fs_deq_start|]. unfold fsame; simpl; auto.
Qed.
Lemma dq_ctl_p_ok s mn : pc_ s = PSleep mn -> dq s -> dq (ctl_p_ok s).
Proof.
  intros Hpc H. assert (N : nospin s) by (intros k; rewrite Hpc; congruence).
  unfold ctl_p_ok. eapply (dq_lg_helper s (EvP POk)); eauto; [nd | apply fs_sleep_start].
Qed.
Lemma dq_ctl_deqpre s j : pc_ s = PDeqPre j -> dq s -> dq (ctl_deqpre s j).
Proof.
  intros Hpc H. assert (N : nospin s) by (intros k; rewrite Hpc; congruence).
  unfold ctl_deqpre. eapply (dq_lg_helper s (EvDeqPre j)); eauto; [nd | apply fsame_of_fr; reflexivity].
Qed.
Lemma dq_after_deq_false w1 t s j : (j < f_i (fr s))%nat -> (f_i (fr s) <= count s)%nat -> dq (after_deq w1 t s j false).
Proof.
  intros Hj Hi. apply dq_notcount. destruct (fready_after_deq w1 t s j false) as [Fr [_ Fc]]. rewrite Fr, Fc. simpl.
  destruct (f_ready (fr s) =? count s)%nat eqn:E; [lia | now apply Nat.eqb_neq in E].
Qed.
Lemma dq_ctl_deq w1 t s j ok onl : linv s -> pc_ s = PDeq j -> dq s -> dq (ctl_deq w1 t s j ok onl).
Proof.
  intros [_ L] Hpc H. rewrite Hpc in L. destruct L as [Lj [Li _]].
  assert (N : nospin s) by (intros k; rewrite Hpc; congruence).
  unfold ctl_deq. destruct (is_cv (objat s j) && negb ok) eqn:E.
  - intros Hc j' r onl' [Hin|Hin].
    + inversion Hin; subst. right. reflexivity.
    + left. destruct (H Hc j' r onl' Hin) as [?|Hp]; auto. exfalso. eapply N; eauto.
  - destruct ok.
    + destruct (after_deq_facts w1 t (lg (EvDeq j true onl) s) j true) as [Fo [_ [_ [[Ns _] _]]]].
      destruct (fready_after_deq w1 t (lg (EvDeq j true onl) s) j true) as [Fr _]. simpl in Fr, Fo.
      intros Hc j' r onl' Hin. left.
      assert (Hl : f_log (fr (after_deq w1 t (lg (EvDeq j true onl) s) j true)) = EvDeq j true onl :: f_log (fr s)).
      { unfold after_deq. simpl negb. simpl andb. cbv iota. destruct (_ =? _)%nat; [rewrite fr_after_deqs | rewrite fr_goto_deq]; reflexivity. }
      rewrite Hl in Hin. destruct Hin as [Hin|Hin]; [inversion Hin; auto|].
      unfold count in Hc. rewrite Fr, Fo in Hc. destruct (H Hc j' r onl' Hin) as [?|Hp]; auto. exfalso. eapply N; eauto.
    + apply dq_after_deq_false; simpl; autorewrite with cnt; auto.
Qed.
Lemma dq_ctl_spin w t s j v : linv s -> pc_ s = PDeqSpin j -> dq (ctl_spin w t s j v).
Proof.
  intros [_ L] Hpc. rewrite Hpc in L. destruct L as [Lj [Li _]].
  unfold ctl_spin. apply dq_after_deq_false; simpl; autorewrite with cnt; auto.
Qed.
Lemma dq_ctl_free s : pc_ s = PFree -> dq s -> dq (ctl_free s).
Proof.
  intros Hpc H. assert (N : nospin s) by (intros k; rewrite Hpc; congruence).
  unfold ctl_free. eapply (dq_lg_helper s EvFree); eauto; [nd | apply fs_after_free].
Qed.
Lemma dq_ctl_lock s : pc_ s = PLock -> dq s -> dq (ctl_lock s).
Proof.
  intros Hpc H. assert (N : nospin s) by (intros k; rewrite Hpc; congruence).
  unfold ctl_lock. eapply (dq_lg_helper s (EvLock true)); eauto; [nd | apply fsame_of_fr; reflexivity].
Qed.
Lemma dq_ctl_ret s : pc_ s = PRet -> dq s -> dq (ctl_ret s).
Proof.
  intros Hpc H. assert (N : nospin s) by (intros k; rewrite Hpc; congruence).
  unfold ctl_ret. apply (dq_ext s _ (EvRet (f_ready (fr s)))); auto. nd.
Qed.
Lemma dq_idle s s2 : fr s2 = fr s -> nospin s -> dq s -> dq s2.
Proof. intros Hf N H. apply (dq_fsame s); auto. now apply fsame_of_fr. Qed.

Lemma dq_step w t c : linv (thr w t) -> dq (thr w t) -> dq (thr (tnext w t c) t).
Proof.
  intros L H. step_destruct w t; simpl; auto; eff_destruct; rewrite ?fupd_same; auto;
    try (apply (dq_idle (thr w t)); [reflexivity | intros k; rewrite Hpc; congruence | exact H]);
    eauto using dq_ctl_call, dq_ctl_first, dq_ctl_init, dq_ctl_enq, dq_ctl_unlock, dq_ctl_ready, dq_ctl_p_timeout, dq_ctl_p_ok,
      dq_ctl_deqpre, dq_ctl_deq, dq_ctl_spin, dq_ctl_free, dq_ctl_lock, dq_ctl_ret.
Qed.
Lemma dq_reachable nts cts progs c0 sched t : dq (thr (run (init nts cts progs c0) sched) t).
Proof.
  assert (H : forall t, linv (thr (run (init nts cts progs c0) sched) t) /\ dq (thr (run (init nts cts progs c0) sched) t)); [|apply H].
  apply run_inv with (P := fun w => forall t, linv (thr w t) /\ dq (thr w t)).
  - intros w a H t'. split; [apply linv_next; intros x; apply H|].
    destruct a as [u c|d]; [|apply H].
    change (next w (Run u c)) with (tnext w u c).
    destruct (Nat.eq_dec t' u) as [-> | Hn]; [apply dq_step; apply H | rewrite step_other by auto; apply H].
  - intros t'. split; [apply linv_idle_t|]. intros _ j r onl [Hin|[]]. discriminate.
Qed.
Lemma deq_results_of_dq s : dq s -> pc_ s = PRet -> f_ready (fr s) = count s -> forall j r onl, In (EvDeq j r onl) (f_log (fr s)) -> r = true.
Proof. intros H Hpc Hr j r onl Hin. destruct (H Hr j r onl Hin) as [?|Hp]; auto. rewrite Hpc in Hp. discriminate. Qed.
