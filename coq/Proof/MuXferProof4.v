(* MuXferProof4: the "places" invariant of Model/MuXferModel.v -- every waiter with its waiting flag set is in exactly
   one place.  MuProof2's list invariant QL (mutex queue + wake lists of nsync_mu_unlock_slow_: no duplicates, pairwise
   disjoint, members have waiting = 1 and are asleep in nsync_mu_lock_slow_) lifted to the wrapper, where
     - a member of the mutex queue / of a wake list may also be a TRANSFERRED cv waiter (cv_mu == NULL) parked in
       nsync_cv_wait (possibly still inside its own nsync_mu_unlock), and
     - the cv side has the same shape: the cv queue + the to_wake_lists of the threads inside wake_waiters; members
       have waiting = 1, are parked in nsync_cv_wait and are NOT transferred.
   Part 1  the abstract list invariant QLx and its three preservation lemmas
   Part 2  what one step of mu.c does to queue / wake list / waiting flags (four shapes), and QLx over it
   Part 3  selection (nsync_cv_signal / broadcast) and transfer (wake_waiters) split their list
   Part 4  PInv over the wrapper and its preservation by every step. *)
From NsyncBase Require Import CSem.
From NsyncGen Require Import Consts Sites.
From NsyncModel Require Import MuModel MuSpec.
From NsyncProof Require Import WordView MuProof MuProof2.
From NsyncModel Require Import MuXferModel.
From NsyncProof Require Import MuXferProof MuXferProof2 MuXferProof3.
From Coq Require Import List ZArith Bool Lia PeanoNat Permutation.
Import ListNotations.
Local Open Scope Z_scope.

(* ================================================================== *)
(* Part 1: the abstract list invariant                                 *)
(* ================================================================== *)
(* q = a queue, ls t = the private list of thread t, wt = waiting flags, sl = "is parked in the matching way" *)
Definition QLx (q : list nat) (wt sl : nat -> bool) (ls : nat -> list nat) : Prop :=
  NoDup q /\
  (forall p, In p q -> wt p = true /\ sl p = true) /\
  (forall t, NoDup (ls t)) /\
  (forall t p, In p (ls t) -> wt p = true /\ sl p = true /\ ~ In p q) /\
  (forall t1 t2 p, In p (ls t1) -> In p (ls t2) -> t1 = t2).

Lemma NoDup_app_parts_inv {A} (a b : list A) : NoDup a -> NoDup b -> (forall x, In x a -> ~ In x b) -> NoDup (a ++ b).
Proof.
  induction a as [|y a IH]; cbn [app]; intros Na Nb D; [exact Nb|].
  apply NoDup_cons_iff in Na. destruct Na as [Hy Na]. constructor.
  - intros H. apply in_app_or in H. destruct H as [H | H]; [contradiction | apply (D y); [now left | exact H]].
  - apply IH; auto. intros x Hx. apply D. now right.
Qed.

(* the lists shrink (or stay), the remaining members keep their two flags *)
Lemma QLx_sub q wt sl ls q' wt' sl' ls' : QLx q wt sl ls ->
  NoDup q' -> incl q' q -> (forall t, NoDup (ls' t)) -> (forall t, incl (ls' t) (ls t)) ->
  (forall p, In p q' -> wt' p = true /\ sl' p = true) ->
  (forall t p, In p (ls' t) -> wt' p = true /\ sl' p = true) ->
  QLx q' wt' sl' ls'.
Proof.
  intros (N & Hq & Hn & Hw & Hd) N' I' Hn' Il Hq' Hw'.
  split; [exact N'|]. split; [exact Hq'|]. split; [exact Hn'|]. split.
  - intros t p Hp. destruct (Hw' t p Hp) as [a b]. split; [exact a | split; [exact b|]].
    intros Hin. destruct (Hw t p (Il t p Hp)) as (_ & _ & c). apply c, I', Hin.
  - intros t1 t2 p H1 H2. apply (Hd t1 t2 p); [apply (Il t1), H1 | apply (Il t2), H2].
Qed.

Lemma QLx_ext q wt sl ls wt' sl' ls' : QLx q wt sl ls ->
  (forall p, wt p = true -> sl p = true -> wt' p = true /\ sl' p = true) -> (forall t, ls' t = ls t) ->
  QLx q wt' sl' ls'.
Proof.
  intros H F E. pose proof H as (N & Hq & Hn & Hw & Hd).
  apply (QLx_sub q wt sl ls); auto.
  - apply incl_refl.
  - intros t. rewrite E. apply Hn.
  - intros t. rewrite E. apply incl_refl.
  - intros p Hp. destruct (Hq p Hp). auto.
  - intros t p Hp. rewrite E in Hp. destruct (Hw t p Hp) as (a & b & _). auto.
Qed.

(* new members mv, not parked so far, join the queue *)
Lemma QLx_add q wt sl ls q' wt' sl' ls' mv : QLx q wt sl ls ->
  Permutation q' (mv ++ q) -> NoDup mv ->
  (forall p, In p mv -> sl p = false /\ wt' p = true /\ sl' p = true) ->
  (forall p, wt p = true -> sl p = true -> wt' p = true /\ sl' p = true) ->
  (forall t, ls' t = ls t) ->
  QLx q' wt' sl' ls'.
Proof.
  intros (N & Hq & Hn & Hw & Hd) P Nm Hm F E.
  assert (forall x, In x q' <-> In x mv \/ In x q) as Iq.
  { intros x. split; intros H.
    - apply (Permutation_in _ P), in_app_or in H. exact H.
    - apply (Permutation_in _ (Permutation_sym P)), in_or_app. exact H. }
  split; [|split; [|split; [|split]]].
  - apply (Permutation_NoDup (Permutation_sym P)). apply NoDup_app_parts_inv; auto.
    intros x Hx Hx'. destruct (Hm x Hx) as (a & _). destruct (Hq x Hx'). congruence.
  - intros p Hp. apply Iq in Hp. destruct Hp as [Hp | Hp].
    + destruct (Hm p Hp) as (_ & a & b). auto.
    + destruct (Hq p Hp). auto.
  - intros t. rewrite E. apply Hn.
  - intros t p Hp. rewrite E in Hp. destruct (Hw t p Hp) as (a & b & c). destruct (F p a b) as [a' b'].
    split; [exact a' | split; [exact b'|]]. rewrite Iq. intros [Hx | Hx]; [|contradiction].
    destruct (Hm p Hx) as (s & _). congruence.
  - intros t1 t2 p. rewrite !E. apply Hd.
Qed.

(* thread t, with an empty private list, splits the queue into its new private list wk and the remaining queue keep *)
Lemma QLx_scan q wt sl ls wt' sl' ls' t wk keep : QLx q wt sl ls ->
  ls t = [] -> Permutation (wk ++ keep) q ->
  (forall p, wt p = true -> sl p = true -> wt' p = true /\ sl' p = true) ->
  ls' t = wk -> (forall t', t' <> t -> ls' t' = ls t') ->
  QLx keep wt' sl' ls'.
Proof.
  intros (N & Hq & Hn & Hw & Hd) W0 P F W1 E.
  pose proof (Permutation_NoDup (Permutation_sym P) N) as N2.
  destruct (NoDup_app_parts _ _ N2) as (Nwk & Nkeep & Dj).
  assert (forall x, In x wk -> In x q) as Iwk by (intros x H; apply (Permutation_in _ P), in_or_app; now left).
  assert (forall x, In x keep -> In x q) as Ikp by (intros x H; apply (Permutation_in _ P), in_or_app; now right).
  split; [exact Nkeep|]. split; [|split; [|split]].
  - intros p Hp. destruct (Hq p (Ikp p Hp)) as [a b]. auto.
  - intros t'. destruct (Nat.eq_dec t' t) as [->|Nt]; [rewrite W1; exact Nwk | rewrite E by exact Nt; apply Hn].
  - intros t' p. destruct (Nat.eq_dec t' t) as [->|Nt].
    + rewrite W1. intros Hp. destruct (Hq p (Iwk p Hp)) as [a b]. destruct (F p a b) as [a' b'].
      split; [exact a' | split; [exact b' | exact (Dj p Hp)]].
    + rewrite E by exact Nt. intros Hp. destruct (Hw _ _ Hp) as (a & b & c). destruct (F p a b) as [a' b'].
      split; [exact a' | split; [exact b' | intros Hk; apply c, Ikp, Hk]].
  - intros t1 t2 p. destruct (Nat.eq_dec t1 t) as [->|N1], (Nat.eq_dec t2 t) as [->|N2']; auto.
    + rewrite W1, (E _ N2'). intros H1 H2. destruct (Hw _ _ H2) as (_ & _ & c). elim c. auto.
    + rewrite W1, (E _ N1). intros H1 H2. destruct (Hw _ _ H1) as (_ & _ & c). elim c. auto.
    + rewrite (E _ N1), (E _ N2'). apply Hd.
Qed.

(* thread t takes the head x off its private list and clears x's waiting flag *)
Lemma QLx_pop q wt sl ls sl' ls' t x rest : QLx q wt sl ls ->
  ls t = x :: rest -> ls' t = rest -> (forall t', t' <> t -> ls' t' = ls t') ->
  (forall p, p <> x -> wt p = true -> sl p = true -> sl' p = true) ->
  QLx q (fupd wt x false) sl' ls'.
Proof.
  intros H W0 W1 E F. pose proof H as (N & Hq & Hn & Hw & Hd).
  assert (In x (ls t)) as Hx by (rewrite W0; now left).
  pose proof (Hn t) as Nt. rewrite W0 in Nt. apply NoDup_cons_iff in Nt. destruct Nt as [Nxr Nrest].
  apply (QLx_sub q wt sl ls); auto.
  - apply incl_refl.
  - intros t'. destruct (Nat.eq_dec t' t) as [->|Nt]; [rewrite W1; exact Nrest | rewrite E by exact Nt; apply Hn].
  - intros t'. destruct (Nat.eq_dec t' t) as [->|Nt]; [rewrite W1, W0; apply incl_tl, incl_refl | rewrite E by exact Nt; apply incl_refl].
  - intros p Hp. destruct (Hq p Hp) as [a b].
    assert (p <> x) as Npx by (intros ->; destruct (Hw _ _ Hx) as (_ & _ & c); contradiction).
    rewrite fupd_other by exact Npx. auto.
  - intros t' p. destruct (Nat.eq_dec t' t) as [->|Nt].
    + rewrite W1. intros Hp. assert (In p (ls t)) as Hp' by (rewrite W0; now right).
      destruct (Hw _ _ Hp') as (a & b & _).
      assert (p <> x) as Npx by (intros ->; contradiction).
      rewrite fupd_other by exact Npx. auto.
    + rewrite E by exact Nt. intros Hp. destruct (Hw _ _ Hp) as (a & b & _).
      assert (p <> x) as Npx by (intros ->; elim Nt; apply (Hd _ _ x Hp Hx)).
      rewrite fupd_other by exact Npx. auto.
Qed.

(* a flag of somebody who is not parked here is cleared *)
Lemma QLx_clear_other q wt sl ls x : QLx q wt sl ls -> sl x = false -> QLx q (fupd wt x false) sl ls.
Proof.
  intros H Sx. pose proof H as (N & Hq & Hn & Hw & Hd).
  apply (QLx_sub q wt sl ls); auto; try apply incl_refl; try (intros; apply incl_refl).
  - intros p Hp. destruct (Hq p Hp) as [a b]. rewrite fupd_other by congruence. auto.
  - intros t p Hp. destruct (Hw t p Hp) as (a & b & _). rewrite fupd_other by congruence. auto.
Qed.

(* ================================================================== *)
(* Part 2: one step of mu.c on queue, wake list and waiting flags      *)
(* ================================================================== *)
Definition shape (w w' : world) (t : nat) : Prop :=
  let r := kof w t in let r' := kof w' t in
  (queue w' = queue w /\ waiting w' = waiting w /\ (wl r' = wl r \/ wl r' = []) /\
   (isq r' = isq r \/ (isq r' = false /\ waiting w t = false))) \/
  (isq r = false /\ wl r = [] /\ isq r' = true /\ wl r' = [] /\
   (exists m l, t_pc (get w t) = LsStoreWaiting m l) /\
   Permutation (queue w') ([t] ++ queue w) /\ waiting w' = fupd (waiting w) t true) \/
  (isq r = false /\ wl r = [] /\ isq r' = false /\ Permutation (wl r' ++ queue w') (queue w) /\ waiting w' = waiting w) \/
  (exists x rest, wl r = x :: rest /\ wl r' = rest /\ isq r = false /\ isq r' = false /\ queue w' = queue w /\
                  waiting w' = fupd (waiting w) x false).

Ltac brk3 := repeat (match goal with
  | |- context [if ?c then _ else _] => destruct c
  | |- context [match wake ?u with _ => _ end] => let Wk := fresh "Wk" in destruct (wake u) eqn:Wk
  end; cbv beta iota).

Lemma step_shape_core w t : begin_op w t = w -> (t < length (thr w))%nat -> shape w (fst (step w t)) t.
Proof.
  intros HB Ht. unfold shape, kof, step. rewrite HB. cbv zeta.
  destruct (get w t) as [p ops h sl lt] eqn:Hs. unfold get in Hs. cbn [t_pc].
  Local Ltac shA := left; repeat split; auto.
  destruct p;
    try (unfold cas; brk3; cbn [fst]; normt Hs Ht; cbn [role_of wl isq];
         try match goal with H : wake _ = _ |- _ => rewrite ?H end; shA; fail).
  - (* LsStoreWaiting *) cbn [fst]. normt Hs Ht. cbn [role_of wl isq]. right; left.
    split; [reflexivity|]. split; [reflexivity|]. split; [reflexivity|]. split; [reflexivity|].
    split; [eauto|]. split; [|reflexivity].
    destruct (wcount l =? 0); [apply Permutation_sym, Permutation_cons_append | apply Permutation_refl].
  - (* UsCasSpin *) unfold cas. destruct (word w =? old); cbv beta iota.
    + destruct (us_after_scan (set_word w _)) as [u keep] eqn:E. apply us_after_scan_facts in E.
      destruct E as (P & _). cbn [queue set_word] in P.
      cbn [fst]. normt Hs Ht. cbn [role_of wl isq]. right; right; left. repeat split; auto.
    + cbn [fst]. normt Hs Ht. cbn [role_of wl isq]. shA.
  - (* UsWakeStore *) destruct (wake u) as [|p rest] eqn:Wk; cbn [fst]; normt Hs Ht; cbn [role_of wl isq wake]; rewrite ?Wk.
    + shA.
    + right; right; right. exists p, rest. repeat split; auto.
Qed.

Lemma begin_op_kof w t t' : kof (begin_op w t) t' = kof w t'.
Proof.
  unfold kof. destruct (Nat.eq_dec t' t) as [->|N]; [apply role_begin | now rewrite begin_op_frame].
Qed.

Lemma shape_refl w t : shape w w t.
Proof. left. repeat split; auto. Qed.

Lemma step_shape w t : shape w (fst (step w t)) t.
Proof.
  destruct (Nat.lt_ge_cases t (length (thr w))) as [L|G].
  - rewrite step_begin.
    pose proof (step_shape_core (begin_op w t) t (begin_op_idem w t) ltac:(rewrite begin_op_length; exact L)) as H.
    unfold shape in *. rewrite begin_op_queue, begin_op_waiting, !begin_op_kof in H.
    destruct H as [H | [H | [H | H]]]; [left; exact H | right; left | right; right; left; exact H | right; right; right; exact H].
    destruct H as (a & b & c & d & (m & l & e) & g & h).
    assert (t_pc (get w t) <> Idle) as NI.
    { intros E. unfold begin_op in e. cbv zeta in e. rewrite E in e.
      destruct (t_ops (get w t)) as [|o rest]; [rewrite E in e; discriminate e|].
      rewrite get_set_t_same in e by exact L. cbn [t_pc] in e.
      destruct o, (held (get w t)); discriminate e. }
    rewrite (begin_op_nonidle _ _ NI) in e. repeat split; eauto.
  - assert (step w t = (w, EvNone)) as ->.
    { unfold step, begin_op. cbv zeta. rewrite (get_oob _ _ G). cbn [t_pc t_ops dflt_t]. rewrite (get_oob _ _ G). reflexivity. }
    apply shape_refl.
Qed.

(* "parked on the mutex": asleep in nsync_mu_lock_slow_, or (xa) a transferred cv waiter parked in nsync_cv_wait *)
Definition slpf (w : world) (xa : nat -> bool) (p : nat) : bool := isq (kof w p) || xa p.

Lemma kof_step_other w t t' : t' <> t -> kof (fst (step w t)) t' = kof w t'.
Proof. intros N. unfold kof. now rewrite step_frame. Qed.

Lemma step_qlx w t xa :
  QLx (queue w) (waiting w) (slpf w xa) (wlt w) ->
  (forall m l, t_pc (get w t) = LsStoreWaiting m l -> xa t = false) ->
  QLx (queue (fst (step w t))) (waiting (fst (step w t))) (slpf (fst (step w t)) xa) (wlt (fst (step w t))).
Proof.
  intros H HX. pose proof (step_shape w t) as S. pose proof (kof_step_other w t) as F.
  set (w' := fst (step w t)) in *. unfold shape in S. cbv zeta in S.
  assert (forall t', t' <> t -> wlt w' t' = wlt w t') as FL by (intros t' N; unfold wlt; fold (kof w' t'); fold (kof w t'); now rewrite F).
  assert (forall p, p <> t -> slpf w' xa p = slpf w xa p) as FS by (intros p N; unfold slpf; now rewrite F).
  pose proof H as (N & Hq & Hn & Hw & Hd).
  destruct S as [(Eq & Ew & Wl & Iq) | [(I0 & W0 & I1 & W1 & (m & l & Pc) & Pq & Ew) | [(I0 & W0 & I1 & Pq & Ew) | (x & rest & W0 & W1 & I0 & I1 & Eq & Ew)]]].
  - (* A *) rewrite Eq, Ew.
    assert (forall p, waiting w p = true -> slpf w xa p = true -> slpf w' xa p = true) as FA.
    { intros p Wp Sp. destruct (Nat.eq_dec p t) as [->|Np]; [|now rewrite FS].
      unfold slpf in *. destruct Iq as [-> | [_ Wf]]; [exact Sp | congruence]. }
    apply (QLx_sub _ _ _ _ _ _ _ _ H); auto.
    + apply incl_refl.
    + intros t'. destruct (Nat.eq_dec t' t) as [->|Nt]; [|rewrite FL by exact Nt; apply Hn].
      unfold wlt at 1. fold (kof w' t). destruct Wl as [-> | ->]; [apply Hn | constructor].
    + intros t'. destruct (Nat.eq_dec t' t) as [->|Nt]; [|rewrite FL by exact Nt; apply incl_refl].
      unfold wlt at 1. fold (kof w' t). destruct Wl as [-> | ->]; [apply incl_refl | intros ? []].
    + intros p Hp. destruct (Hq p Hp). auto.
    + intros t' p Hp.
      assert (In p (wlt w t')) as Hp'.
      { destruct (Nat.eq_dec t' t) as [->|Nt]; [|now rewrite <- FL].
        unfold wlt in Hp at 1. fold (kof w' t) in Hp. destruct Wl as [E | E]; rewrite E in Hp; [exact Hp | destruct Hp]. }
      destruct (Hw _ _ Hp') as (a & b & _). auto.
  - (* B *) apply (QLx_add _ _ _ _ _ _ _ _ [t] H Pq).
    + constructor; [intros [] | constructor].
    + intros p [<- | []]. unfold slpf. rewrite I0, I1, (HX _ _ Pc), Ew, fupd_same. auto.
    + intros p Wp Sp. rewrite Ew. destruct (Nat.eq_dec p t) as [->|Np].
      * unfold slpf in *. rewrite I0, (HX _ _ Pc) in Sp. discriminate Sp.
      * rewrite fupd_other, FS by exact Np. auto.
    + intros t'. destruct (Nat.eq_dec t' t) as [->|Nt]; [|now apply FL].
      unfold wlt. fold (kof w' t). fold (kof w t). now rewrite W0, W1.
  - (* C *) rewrite Ew. apply (QLx_scan _ _ _ _ _ _ _ t (wl (kof w' t)) _ H); auto.
    intros p Wp Sp. split; [exact Wp|]. destruct (Nat.eq_dec p t) as [->|Np]; [|now rewrite FS].
    unfold slpf in *. now rewrite I1, <- I0.
  - (* D *) rewrite Eq, Ew. apply (QLx_pop _ _ _ _ _ _ t x rest H); auto.
    intros p _ Wp Sp. destruct (Nat.eq_dec p t) as [->|Np]; [|now rewrite FS].
    unfold slpf in *. now rewrite I1, <- I0.
Qed.

(* a waiting flag that a step of mu.c clears belonged to a member of the stepping thread's wake list *)
Lemma step_clears w t p : waiting w p = true -> waiting (fst (step w t)) p = false -> In p (wlt w t).
Proof.
  intros Wp Wp'. pose proof (step_shape w t) as S. unfold shape in S. cbv zeta in S.
  destruct S as [(Eq & Ew & _) | [(_ & _ & _ & _ & _ & _ & Ew) | [(_ & _ & _ & _ & Ew) | (x & rest & W0 & _ & _ & _ & _ & Ew)]]];
    rewrite Ew in Wp'; try congruence.
  - unfold fupd in Wp'. destruct (Nat.eqb p t); congruence.
  - unfold fupd in Wp'. destruct (Nat.eqb_spec p x) as [->|]; [|congruence].
    unfold wlt. fold (kof w t). rewrite W0. now left.
Qed.

(* ================================================================== *)
(* Part 3: selection and transfer split their list                     *)
(* ================================================================== *)
Lemma sig_scan_perm (ty : nat -> bool) q : forall ww, Permutation (fst (fst (sig_scan ty q ww)) ++ snd (fst (sig_scan ty q ww))) q.
Proof.
  induction q as [|p rest IH]; intros ww; cbn [sig_scan]; [constructor|].
  destruct (ty p).
  - specialize (IH ww). destruct (sig_scan ty rest ww) as [[wk kp] w2]. cbn [fst snd] in *. now constructor.
  - destruct (negb ww).
    + specialize (IH true). destruct (sig_scan ty rest true) as [[wk kp] w2]. cbn [fst snd] in *. now constructor.
    + specialize (IH ww). destruct (sig_scan ty rest ww) as [[wk kp] w2]. cbn [fst snd] in *.
      apply Permutation_sym, Permutation_cons_app, Permutation_sym, IH.
Qed.

Lemma sel_signal_perm (ty : nat -> bool) q : Permutation (fst (fst (sel_signal ty q)) ++ snd (fst (sel_signal ty q))) q.
Proof.
  unfold sel_signal. destruct q as [|f rest]; [constructor|].
  destruct (ty f).
  - pose proof (sig_scan_perm ty rest false) as IH. destruct (sig_scan ty rest false) as [[wk kp] w2].
    cbn [fst snd] in *. now constructor.
  - cbn [fst snd app]. apply Permutation_refl.
Qed.

Lemma sel_broadcast_perm (ty : nat -> bool) q : Permutation (fst (fst (sel_broadcast ty q)) ++ snd (fst (sel_broadcast ty q))) q.
Proof. unfold sel_broadcast. cbn [fst snd]. rewrite app_nil_r. apply Permutation_refl. Qed.

Lemma xfer_rest_perm nn ty fca fw q : forall a b,
  Permutation (fst (fst (fst (xfer_rest nn ty fca fw q a b))) ++ snd (fst (fst (xfer_rest nn ty fca fw q a b)))) q.
Proof.
  induction q as [|p rest IH]; intros a b; cbn [xfer_rest]; [constructor|].
  destruct (nn p); [|destruct (fca || fw || mode_eqb (ty p) W)].
  - specialize (IH a b).
    destruct (xfer_rest nn ty fca fw rest a b) as [[[m s] a'] b']. cbn [fst snd] in *.
    apply Permutation_sym, Permutation_cons_app, Permutation_sym, IH.
  - specialize (IH (a || mode_eqb (ty p) W) b).
    destruct (xfer_rest nn ty fca fw rest (a || mode_eqb (ty p) W) b) as [[[m s] a'] b']. cbn [fst snd] in *. now constructor.
  - specialize (IH a (b || negb (mode_eqb (ty p) W))).
    destruct (xfer_rest nn ty fca fw rest a (b || negb (mode_eqb (ty p) W))) as [[[m s] a'] b']. cbn [fst snd] in *.
    apply Permutation_sym, Permutation_cons_app, Permutation_sym, IH.
Qed.

Lemma xfer_perm nn ty fca wk : Permutation (fst (fst (xfer nn ty fca wk)) ++ snd (fst (xfer nn ty fca wk))) wk.
Proof.
  unfold xfer. destruct wk as [|f rest]; [constructor|].
  pose proof (xfer_rest_perm nn ty fca (mode_eqb (ty f) W) rest (if fca then mode_eqb (ty f) W else false)
                (if fca then false else negb (mode_eqb (ty f) W))) as IH.
  destruct (xfer_rest nn ty fca (mode_eqb (ty f) W) rest (if fca then mode_eqb (ty f) W else false)
              (if fca then false else negb (mode_eqb (ty f) W))) as [[[m s] a] b].
  cbn [fst snd] in *. destruct fca.
  - now constructor.
  - apply Permutation_sym, Permutation_cons_app, Permutation_sym, IH.
Qed.

(* wake_waiters moves native waiters only: `p_w == NULL` records stay on the to_wake_list (the first element is a
   native waiter: pmu != NULL) *)
Lemma xfer_rest_native nn ty fca fw q : forall a b p,
  In p (fst (fst (fst (xfer_rest nn ty fca fw q a b)))) -> nn p = false.
Proof.
  induction q as [|x rest IH]; intros a b p; cbn [xfer_rest]; [intros []|].
  destruct (nn x) eqn:Nx; [|destruct (fca || fw || mode_eqb (ty x) W)].
  - specialize (IH a b p). destruct (xfer_rest nn ty fca fw rest a b) as [[[m s] a'] b']. cbn [fst snd] in *. exact IH.
  - specialize (IH (a || mode_eqb (ty x) W) b p).
    destruct (xfer_rest nn ty fca fw rest (a || mode_eqb (ty x) W) b) as [[[m s] a'] b']. cbn [fst snd] in *.
    intros [<- | H]; [exact Nx | exact (IH H)].
  - specialize (IH a (b || negb (mode_eqb (ty x) W)) p).
    destruct (xfer_rest nn ty fca fw rest a (b || negb (mode_eqb (ty x) W))) as [[[m s] a'] b']. cbn [fst snd] in *. exact IH.
Qed.

Lemma xfer_moved_cases nn ty fca wk p :
  In p (fst (fst (xfer nn ty fca wk))) -> hd_error wk = Some p \/ nn p = false.
Proof.
  unfold xfer. destruct wk as [|f rest]; [intros []|].
  pose proof (xfer_rest_native nn ty fca (mode_eqb (ty f) W) rest (if fca then mode_eqb (ty f) W else false)
                (if fca then false else negb (mode_eqb (ty f) W)) p) as IH.
  destruct (xfer_rest nn ty fca (mode_eqb (ty f) W) rest (if fca then mode_eqb (ty f) W else false)
              (if fca then false else negb (mode_eqb (ty f) W))) as [[[m s] a] b].
  cbn [fst snd hd_error] in *. destruct fca; [|intros H; right; exact (IH H)].
  intros [<- | H]; [left; reflexivity | right; exact (IH H)].
Qed.

Lemma xfer_moved_native nn ty fca wk p :
  (forall f, hd_error wk = Some f -> nn f = false) -> In p (fst (fst (xfer nn ty fca wk))) -> nn p = false.
Proof.
  unfold xfer. destruct wk as [|f rest]; [intros _ []|]. intros Hf.
  pose proof (xfer_rest_native nn ty fca (mode_eqb (ty f) W) rest (if fca then mode_eqb (ty f) W else false)
                (if fca then false else negb (mode_eqb (ty f) W)) p) as IH.
  destruct (xfer_rest nn ty fca (mode_eqb (ty f) W) rest (if fca then mode_eqb (ty f) W else false)
              (if fca then false else negb (mode_eqb (ty f) W))) as [[[m s] a] b].
  cbn [fst snd] in *. destruct fca; [|exact IH].
  intros [<- | H]; [apply Hf; reflexivity | exact (IH H)].
Qed.

Lemma remove_id_in r l x : In x (remove_id r l) <-> In x l /\ x <> r.
Proof.
  induction l as [|a l IH]; cbn [remove_id In]; [tauto|].
  destruct (Nat.eqb_spec a r) as [->|N]; cbn [In]; rewrite IH; split; intros H.
  - tauto.
  - destruct H as [[<- | H] H2]; tauto.
  - destruct H as [<- | H]; tauto.
  - tauto.
Qed.

Lemma remove_id_nodup r l : NoDup l -> NoDup (remove_id r l).
Proof.
  induction l as [|a l IH]; cbn [remove_id]; intros H; [constructor|].
  apply NoDup_cons_iff in H. destruct H as [Ha H]. destruct (Nat.eqb a r); [auto|].
  constructor; [|auto]. rewrite remove_id_in. tauto.
Qed.

Lemma mem_id_in r l : mem_id r l = true <-> In r l.
Proof.
  induction l as [|a l IH]; cbn [mem_id In]; [split; [discriminate | tauto]|].
  destruct (Nat.eqb_spec a r) as [->|N]; [tauto|]. rewrite IH. split; [tauto | intros [H | H]; [contradiction | exact H]].
Qed.

Lemma set_all_other f l v p : ~ In p l -> set_all f l v p = f p.
Proof.
  revert f. induction l as [|a l IH]; intros f H; cbn [set_all]; [reflexivity|].
  rewrite IH by (intros X; apply H; now right). apply fupd_other. intros ->. apply H. now left.
Qed.

Lemma set_all_in f l p : In p l -> set_all f l true p = true.
Proof.
  revert f. induction l as [|a l IH]; intros f H; cbn [set_all]; [destruct H|].
  destruct (in_dec Nat.eq_dec p l) as [I|NI]; [now apply IH|].
  destruct H as [->|H]; [|contradiction]. rewrite set_all_other by exact NI. apply fupd_same.
Qed.

(* ================================================================== *)
(* Part 4: the places invariant over the wrapper                       *)
(* ================================================================== *)
(* parked in nsync_cv_wait: enqueued on the cv, has not yet seen waiting == 0 *)
Definition wph2 (xp : xpc) : bool :=
  match xp with XwUnlock _ | XwLoop _ | XwSem _ | XwLoad6 _ | XwConfirm _ | XwLoad13 _ => true | _ => false end.
(* between the store waiting = 1 and the enqueue on the cv *)
Definition preq (xp : xpc) : bool := match xp with XwLoadMu _ | XwEnq _ => true | _ => false end.
(* to_wake_list of a thread inside nsync_cv_signal / broadcast / wake_waiters *)
Definition kwl (xp : xpc) : list nat :=
  match xp with
  | XvLoad1 k | XvCas1 k _ | XvLoad3 k | XvCas2 k _ | XvLoad5 k | XvStore k | XvV k _ => k_wake k
  | _ => []
  end.
Definition xaf (xw : xworld) (p : nat) : bool := wph2 (x_pc (xget xw p)) && xferred xw p.
(* parked on the cv side: a native waiter that has not been transferred, or the record of an nsync_wait_n call *)
Definition cvs (xw : xworld) (p : nat) : bool :=
  (wph2 (x_pc (xget xw p)) && negb (xferred xw p)) || xn_rec (x_pc (xget xw p)).
Definition slp (xw : xworld) (p : nat) : bool := slpf (mw xw) (xaf xw) p.
Definition kws (xw : xworld) (t : nat) : list nat := kwl (x_pc (xget xw t)).
Definition FLg (xw : xworld) : Prop :=
  forall t, preq (x_pc (xget xw t)) = true -> waiting (mw xw) t = true /\ xferred xw t = false.
(* wake_waiters with pmu != NULL (before / at its acquiring CAS): the first element of its to_wake_list is a native waiter *)
Definition vhd (xp : xpc) : option nat :=
  match xp with XvLoad1 k | XvCas1 k _ => hd_error (k_wake k) | _ => None end.
Definition NHd (xw : xworld) : Prop :=
  forall t f, vhd (x_pc (xget xw t)) = Some f -> xn_rec (x_pc (xget xw f)) = false.
Definition PInv3 (xw : xworld) : Prop :=
  QLx (queue (mw xw)) (waiting (mw xw)) (slp xw) (wlt (mw xw)) /\
  QLx (cvq xw) (waiting (mw xw)) (cvs xw) (kws xw) /\ FLg xw.
Definition PInv (xw : xworld) : Prop :=
  QLx (queue (mw xw)) (waiting (mw xw)) (slp xw) (wlt (mw xw)) /\
  QLx (cvq xw) (waiting (mw xw)) (cvs xw) (kws xw) /\ FLg xw /\ NHd xw.
Lemma PInv_split xw : PInv xw <-> PInv3 xw /\ NHd xw.
Proof. unfold PInv, PInv3. tauto. Qed.

Lemma xn_rec_pc n xw p : XInv n xw -> xn_rec (x_pc (xget xw p)) = true ->
  (t_pc (get (mw xw) p) = Idle \/ is_unl_pc (t_pc (get (mw xw) p)) = true) /\ wph2 (x_pc (xget xw p)) = false /\
  preq (x_pc (xget xw p)) = false.
Proof.
  intros (_ & _ & HT) H. destruct (HT p) as [Hp _]. destruct (x_pc (xget xw p)); try discriminate H; cbn [xpc_ok] in Hp;
    (split; [tauto | split; reflexivity]).
Qed.

Lemma wph2_pc n xw p : XInv n xw -> wph2 (x_pc (xget xw p)) = true ->
  t_pc (get (mw xw) p) = Idle \/ is_unl_pc (t_pc (get (mw xw) p)) = true.
Proof.
  intros (_ & _ & HT) H. destruct (HT p) as [Hp _]. destruct (x_pc (xget xw p)); try discriminate H; cbn [xpc_ok] in Hp; tauto.
Qed.
Lemma wph2_not_isq n xw p : XInv n xw -> wph2 (x_pc (xget xw p)) = true -> isq (kof (mw xw) p) = false.
Proof.
  intros HI H. unfold kof. destruct (wph2_pc n xw p HI H) as [-> | U]; [reflexivity|].
  destruct (t_pc (get (mw xw) p)); try discriminate U; reflexivity.
Qed.
Lemma preq_pc n xw p : XInv n xw -> preq (x_pc (xget xw p)) = true -> t_pc (get (mw xw) p) = Idle.
Proof.
  intros (_ & _ & HT) H. destruct (HT p) as [Hp _]. destruct (x_pc (xget xw p)); try discriminate H; cbn [xpc_ok] in Hp; tauto.
Qed.
Lemma cvs_not_slp n xw p : XInv n xw -> cvs xw p = true -> slp xw p = false.
Proof.
  intros HI H. unfold cvs in H. apply orb_prop in H. destruct H as [H | H].
  - apply andb_prop in H. destruct H as [A B]. apply negb_true_iff in B.
    unfold slp, slpf, xaf. now rewrite (wph2_not_isq n xw p HI A), A, B.
  - destruct (xn_rec_pc n xw p HI H) as (Pc & W2 & _). unfold slp, slpf, xaf, kof. rewrite W2.
    destruct Pc as [-> | U]; [reflexivity|]. destruct (t_pc (get (mw xw) p)); try discriminate U; reflexivity.
Qed.
(* a native waiter parked on the cv *)
Lemma cvs_native xw p : cvs xw p = true -> xn_rec (x_pc (xget xw p)) = false ->
  wph2 (x_pc (xget xw p)) = true /\ xferred xw p = false.
Proof.
  unfold cvs. intros H N. rewrite N, orb_false_r in H. apply andb_prop in H. destruct H as [A B].
  apply negb_true_iff in B. auto.
Qed.
Lemma preq_not_slp n xw p : XInv n xw -> preq (x_pc (xget xw p)) = true -> slp xw p = false /\ cvs xw p = false.
Proof.
  intros HI H. unfold slp, slpf, xaf, cvs, kof. rewrite (preq_pc n xw p HI H).
  destruct (x_pc (xget xw p)); try discriminate H; auto.
Qed.

Lemma lupd_nth_same {A} (l : list A) t d : (t < length l)%nat -> lupd l t (nth t l d) = l.
Proof.
  revert t. induction l as [|a l IH]; intros [|t] H; cbn [lupd nth length] in *; try lia; [reflexivity|].
  f_equal. apply IH. lia.
Qed.

(* a step that changes neither a list, nor a waiting / transferred flag, nor the class of a pc *)
Lemma PInv_local xw m' t xs' : PInv3 xw -> (t < length (xthr xw))%nat ->
  queue m' = queue (mw xw) -> waiting m' = waiting (mw xw) -> (forall u, kof m' u = kof (mw xw) u) ->
  wph2 (x_pc xs') = wph2 (x_pc (xget xw t)) -> kwl (x_pc xs') = kwl (x_pc (xget xw t)) ->
  (preq (x_pc xs') = true -> preq (x_pc (xget xw t)) = true) ->
  xn_rec (x_pc xs') = xn_rec (x_pc (xget xw t)) ->
  PInv3 (mk_xw m' (cvq xw) (xferred xw) (lupd (xthr xw) t xs')).
Proof.
  intros (HM & HC & HF) Ht Eq Ew Ek Ewp Ekw Epr Enr.
  set (xw' := mk_xw m' (cvq xw) (xferred xw) (lupd (xthr xw) t xs')).
  assert (forall p, wph2 (x_pc (xget xw' p)) = wph2 (x_pc (xget xw p))) as W.
  { intros p. destruct (Nat.eq_dec p t) as [->|N]; [unfold xw'; now rewrite xget_lupd_same | unfold xw'; now rewrite xget_lupd_other]. }
  assert (forall p, xn_rec (x_pc (xget xw' p)) = xn_rec (x_pc (xget xw p))) as WN.
  { intros p. destruct (Nat.eq_dec p t) as [->|N]; [unfold xw'; now rewrite xget_lupd_same | unfold xw'; now rewrite xget_lupd_other]. }
  assert (forall p, xaf xw' p = xaf xw p) as XA by (intros p; unfold xaf; now rewrite W).
  assert (forall p, cvs xw' p = cvs xw p) as XC by (intros p; unfold cvs; now rewrite W, WN).
  assert (forall p, slp xw' p = slp xw p) as XS by (intros p; unfold slp, slpf; cbn [mw xw']; now rewrite Ek, XA).
  assert (forall u, kws xw' u = kws xw u) as XK.
  { intros u. unfold kws. destruct (Nat.eq_dec u t) as [->|N]; [unfold xw'; now rewrite xget_lupd_same | unfold xw'; now rewrite xget_lupd_other]. }
  split; [|split]; cbn [mw cvq xw'].
  - rewrite Eq, Ew. apply (QLx_ext _ _ _ _ _ _ _ HM).
    + intros p a b. now rewrite XS.
    + intros u. unfold wlt. fold (kof m' u). fold (kof (mw xw) u). now rewrite Ek.
  - rewrite Ew. apply (QLx_ext _ _ _ _ _ _ _ HC); [intros p a b; now rewrite XC | exact XK].
  - intros u Hu. cbn [mw xferred xw']. rewrite Ew. apply HF.
    destruct (Nat.eq_dec u t) as [->|N]; [unfold xw' in Hu; rewrite xget_lupd_same in Hu by exact Ht; auto
                                         | unfold xw' in Hu; now rewrite xget_lupd_other in Hu].
Qed.

Section PlacesInvariant.
Variable n : nat.
Hypothesis Hn : Z.of_nat n < 16777215.

(* a step of mu.c by thread t *)
Lemma PInv_mu xw t xs' : XInv n xw -> PInv3 xw -> (t < length (xthr xw))%nat ->
  wph2 (x_pc xs') = wph2 (x_pc (xget xw t)) -> kwl (x_pc xs') = kwl (x_pc (xget xw t)) -> preq (x_pc xs') = false ->
  xn_rec (x_pc xs') = xn_rec (x_pc (xget xw t)) ->
  PInv3 (mk_xw (fst (step (mw xw) t)) (cvq xw) (xferred xw) (lupd (xthr xw) t xs')).
Proof.
  intros HI (HM & HC & HF) Ht Ewp Ekw Epr Enr.
  set (xw' := mk_xw (fst (step (mw xw) t)) (cvq xw) (xferred xw) (lupd (xthr xw) t xs')).
  assert (forall p, wph2 (x_pc (xget xw' p)) = wph2 (x_pc (xget xw p))) as W.
  { intros p. destruct (Nat.eq_dec p t) as [->|N]; [unfold xw'; now rewrite xget_lupd_same | unfold xw'; now rewrite xget_lupd_other]. }
  assert (forall p, xn_rec (x_pc (xget xw' p)) = xn_rec (x_pc (xget xw p))) as WN.
  { intros p. destruct (Nat.eq_dec p t) as [->|N]; [unfold xw'; now rewrite xget_lupd_same | unfold xw'; now rewrite xget_lupd_other]. }
  assert (forall p, xaf xw' p = xaf xw p) as XA by (intros p; unfold xaf; now rewrite W).
  assert (forall p, cvs xw' p = cvs xw p) as XC by (intros p; unfold cvs; now rewrite W, WN).
  assert (forall u, kws xw' u = kws xw u) as XK.
  { intros u. unfold kws. destruct (Nat.eq_dec u t) as [->|N]; [unfold xw'; now rewrite xget_lupd_same | unfold xw'; now rewrite xget_lupd_other]. }
  assert (forall p, waiting (mw xw) p = true -> slp xw p = false -> waiting (fst (step (mw xw) t)) p = true) as KW.
  { intros p Wp Sp. destruct (waiting (fst (step (mw xw) t)) p) eqn:E; [reflexivity | exfalso].
    pose proof (step_clears _ _ _ Wp E) as Hin. destruct HM as (_ & _ & _ & Hw & _).
    destruct (Hw _ _ Hin) as (_ & b & _). congruence. }
  split; [|split]; cbn [mw cvq xw'].
  - assert (QLx (queue (fst (step (mw xw) t))) (waiting (fst (step (mw xw) t))) (slpf (fst (step (mw xw) t)) (xaf xw))
                (wlt (fst (step (mw xw) t)))) as H1.
    { apply step_qlx; [exact HM|]. intros m l Pc. unfold xaf.
      destruct (wph2 (x_pc (xget xw t))) eqn:E; [|reflexivity].
      destruct (wph2_pc n xw t HI E) as [X | X]; rewrite Pc in X; discriminate X. }
    apply (QLx_ext _ _ _ _ _ _ _ H1); [|reflexivity].
    intros p a b. split; [exact a|]. unfold slp, slpf. cbn [mw xw']. unfold slpf in b. now rewrite XA.
  - apply (QLx_ext _ _ _ _ _ _ _ HC); [|exact XK].
    intros p a b. rewrite XC. split; [|exact b]. apply KW; [exact a | apply (cvs_not_slp n); assumption].
  - intros u Hu. cbn [mw xferred xw'].
    assert (u <> t) as N by (intros ->; unfold xw' in Hu; rewrite xget_lupd_same in Hu by exact Ht; congruence).
    unfold xw' in Hu. rewrite xget_lupd_other in Hu by exact N. destruct (HF u Hu) as [a b].
    split; [|exact b]. apply KW; [exact a | apply (preq_not_slp n); assumption].
Qed.

Lemma PInv_mu0 xw t : XInv n xw -> PInv3 xw -> (t < length (xthr xw))%nat -> preq (x_pc (xget xw t)) = false ->
  PInv3 (mk_xw (fst (step (mw xw) t)) (cvq xw) (xferred xw) (xthr xw)).
Proof.
  intros HI HP Ht Hp.
  replace (mk_xw (fst (step (mw xw) t)) (cvq xw) (xferred xw) (xthr xw))
    with (mk_xw (fst (step (mw xw) t)) (cvq xw) (xferred xw) (lupd (xthr xw) t (xget xw t)))
    by (unfold xget; now rewrite lupd_nth_same).
  apply PInv_mu; auto.
Qed.
End PlacesInvariant.

Lemma kof_push_op w t o u : kof (push_op w t o) u = kof w u.
Proof.
  unfold kof. destruct (Nat.eq_dec u t) as [->|N]; [now rewrite xkr_push_op|].
  unfold push_op. now rewrite get_set_t_other.
Qed.

Lemma kof_set_pc_other w t pc' u : u <> t -> kof (set_pc w t pc') u = kof w u.
Proof. intros N. unfold kof. now rewrite get_set_pc_other. Qed.

(* flags of the threads other than the stepping one *)
Lemma flags_other xw m' q' f' t xs' p : p <> t -> f' p = xferred xw p -> kof m' p = kof (mw xw) p ->
  let xw' := mk_xw m' q' f' (lupd (xthr xw) t xs') in
  slp xw' p = slp xw p /\ cvs xw' p = cvs xw p /\ kws xw' p = kws xw p /\ xaf xw' p = xaf xw p.
Proof.
  intros N Ef Ek. cbv zeta. unfold slp, slpf, cvs, kws, xaf. cbn [mw xferred].
  rewrite (xget_lupd_other xw m' q' f' t xs' p N), Ef, Ek. auto.
Qed.

(* lists shrink or stay; the remaining members keep their flags *)
Lemma PInv_shrink xw xw' : PInv3 xw ->
  queue (mw xw') = queue (mw xw) -> (forall u, wlt (mw xw') u = wlt (mw xw) u) ->
  NoDup (cvq xw') -> incl (cvq xw') (cvq xw) -> (forall u, NoDup (kws xw' u)) -> (forall u, incl (kws xw' u) (kws xw u)) ->
  (forall p, waiting (mw xw) p = true -> slp xw p = true -> waiting (mw xw') p = true /\ slp xw' p = true) ->
  (forall p, (In p (cvq xw') \/ exists u, In p (kws xw' u)) -> waiting (mw xw) p = true -> cvs xw p = true ->
             waiting (mw xw') p = true /\ cvs xw' p = true) ->
  FLg xw' -> PInv3 xw'.
Proof.
  intros (HM & HC & HF) Eq El Nq Iq Nk Ik FM FC HF'. split; [|split; [|exact HF']].
  - rewrite Eq. apply (QLx_ext _ _ _ _ _ _ _ HM FM El).
  - pose proof HC as (_ & Hq & _ & Hw & _). apply (QLx_sub _ _ _ _ _ _ _ _ HC); auto.
    + intros p Hp. destruct (Hq p (Iq p Hp)) as [a b]. apply FC; auto.
    + intros u p Hp. destruct (Hw u p (Ik u p Hp)) as (a & b & _). apply FC; eauto.
Qed.

(* nsync_cv_signal / broadcast: thread t unlinks the waiters wk from the cv queue *)
Lemma PInv_select xw t xs' wk kp : PInv3 xw -> (t < length (xthr xw))%nat ->
  kws xw t = [] -> Permutation (wk ++ kp) (cvq xw) ->
  wph2 (x_pc (xget xw t)) = false -> preq (x_pc (xget xw t)) = false -> xn_rec (x_pc (xget xw t)) = false ->
  wph2 (x_pc xs') = false -> preq (x_pc xs') = false -> xn_rec (x_pc xs') = false -> kwl (x_pc xs') = wk ->
  PInv3 (mk_xw (mw xw) kp (xferred xw) (lupd (xthr xw) t xs')).
Proof.
  intros (HM & HC & HF) Ht K0 P W0 P0 N0 W1 P1 N1 K1.
  set (xw' := mk_xw (mw xw) kp (xferred xw) (lupd (xthr xw) t xs')).
  assert (forall q, wph2 (x_pc (xget xw' q)) = wph2 (x_pc (xget xw q))) as W.
  { intros q. destruct (Nat.eq_dec q t) as [->|N]; [unfold xw'; rewrite xget_lupd_same by exact Ht; congruence
                                                    | unfold xw'; now rewrite xget_lupd_other]. }
  assert (forall q, xn_rec (x_pc (xget xw' q)) = xn_rec (x_pc (xget xw q))) as WN.
  { intros q. destruct (Nat.eq_dec q t) as [->|N]; [unfold xw'; rewrite xget_lupd_same by exact Ht; congruence
                                                    | unfold xw'; now rewrite xget_lupd_other]. }
  assert (forall q, slp xw' q = slp xw q) as XS by (intros q; unfold slp, slpf, xaf; cbn [mw xferred xw']; now rewrite W).
  assert (forall q, cvs xw' q = cvs xw q) as XC by (intros q; unfold cvs; cbn [xferred xw']; now rewrite W, WN).
  split; [|split]; cbn [mw cvq xw'].
  - apply (QLx_ext _ _ _ _ _ _ _ HM); [|intros; reflexivity]. intros q a b. rewrite XS. auto.
  - apply (QLx_scan _ _ _ _ _ _ _ t wk kp HC K0 P).
    + intros q a b. rewrite XC. auto.
    + unfold kws, xw'. now rewrite xget_lupd_same.
    + intros u N. unfold kws, xw'. now rewrite xget_lupd_other.
  - intros u Hu. cbn [mw xferred xw'].
    assert (u <> t) as N by (intros ->; unfold xw' in Hu; rewrite xget_lupd_same in Hu by exact Ht; congruence).
    unfold xw' in Hu. rewrite xget_lupd_other in Hu by exact N. apply (HF u Hu).
Qed.

(* wake_waiters: thread t moves the waiters [moved] of its to_wake_list to the mutex queue and marks them transferred *)
Lemma PInv_transfer n xw m' t xs' moved stay : XInv n xw -> PInv3 xw -> (t < length (xthr xw))%nat ->
  Permutation (moved ++ stay) (kws xw t) ->
  (forall p, In p moved -> xn_rec (x_pc (xget xw p)) = false) ->
  wph2 (x_pc (xget xw t)) = false -> preq (x_pc (xget xw t)) = false -> xn_rec (x_pc (xget xw t)) = false ->
  wph2 (x_pc xs') = false -> preq (x_pc xs') = false -> xn_rec (x_pc xs') = false -> kwl (x_pc xs') = stay ->
  queue m' = queue (mw xw) ++ moved -> waiting m' = waiting (mw xw) -> (forall u, kof m' u = kof (mw xw) u) ->
  PInv3 (mk_xw m' (cvq xw) (set_all (xferred xw) moved true) (lupd (xthr xw) t xs')).
Proof.
  intros HI (HM & HC & HF) Ht P HNat W0 P0 N0 W1 P1 N1 K1 Eq Ew Ek.
  set (xw' := mk_xw m' (cvq xw) (set_all (xferred xw) moved true) (lupd (xthr xw) t xs')).
  pose proof HC as (Nq & Hq & Hn & Hw & Hd).
  pose proof (Permutation_NoDup (Permutation_sym P) (Hn t)) as N2.
  destruct (NoDup_app_parts _ _ N2) as (Nm & Ns & Dj).
  assert (forall x, In x moved -> In x (kws xw t)) as Im by (intros x H; apply (Permutation_in _ P), in_or_app; now left).
  assert (forall x, In x stay -> In x (kws xw t)) as Is by (intros x H; apply (Permutation_in _ P), in_or_app; now right).
  assert (forall q, wph2 (x_pc (xget xw' q)) = wph2 (x_pc (xget xw q))) as W.
  { intros q. destruct (Nat.eq_dec q t) as [->|N]; [unfold xw'; rewrite xget_lupd_same by exact Ht; congruence
                                                    | unfold xw'; now rewrite xget_lupd_other]. }
  assert (forall q, xn_rec (x_pc (xget xw' q)) = xn_rec (x_pc (xget xw q))) as WN.
  { intros q. destruct (Nat.eq_dec q t) as [->|N]; [unfold xw'; rewrite xget_lupd_same by exact Ht; congruence
                                                    | unfold xw'; now rewrite xget_lupd_other]. }
  assert (forall q, ~ In q moved -> cvs xw' q = cvs xw q) as XC.
  { intros q Nq'. unfold cvs. cbn [xferred xw']. now rewrite W, WN, set_all_other. }
  assert (kws xw' t = stay) as Kt by (unfold kws, xw'; now rewrite xget_lupd_same).
  assert (forall u, u <> t -> kws xw' u = kws xw u) as KO by (intros u N; unfold kws, xw'; now rewrite xget_lupd_other).
  split; [|split]; cbn [mw cvq xw'].
  - rewrite Eq, Ew. apply (QLx_add _ _ _ _ _ _ _ _ moved HM); [apply Permutation_app_comm | exact Nm | | |].
    + intros p Hp. destruct (Hw t p (Im p Hp)) as (a & b & _).
      split; [apply (cvs_not_slp n); assumption|]. split; [exact a|].
      unfold slp, slpf, xaf. cbn [mw xferred xw']. rewrite W, set_all_in by exact Hp.
      destruct (cvs_native xw p b (HNat p Hp)) as [b1 _]. rewrite b1. apply orb_true_r.
    + intros p a b. split; [exact a|]. unfold slp, slpf, xaf in *. cbn [mw xferred xw']. rewrite Ek, W.
      apply orb_prop in b. destruct b as [-> | b]; [reflexivity|]. apply andb_prop in b. destruct b as [-> b].
      destruct (in_dec Nat.eq_dec p moved) as [I|NI]; [rewrite set_all_in by exact I | rewrite set_all_other, b by exact NI];
        apply orb_true_r.
    + intros u. unfold wlt. fold (kof m' u). fold (kof (mw xw) u). now rewrite Ek.
  - rewrite Ew. apply (QLx_sub _ _ _ _ _ _ _ _ HC); auto.
    + apply incl_refl.
    + intros u. destruct (Nat.eq_dec u t) as [->|N]; [rewrite Kt; exact Ns | rewrite KO by exact N; apply Hn].
    + intros u. destruct (Nat.eq_dec u t) as [->|N]; [rewrite Kt; exact Is | rewrite KO by exact N; apply incl_refl].
    + intros p Hp. destruct (Hq p Hp) as [a b]. rewrite XC; [auto|].
      intros Hm. destruct (Hw t p (Im p Hm)) as (_ & _ & c). contradiction.
    + intros u p Hp. destruct (Nat.eq_dec u t) as [->|N].
      * rewrite Kt in Hp. destruct (Hw t p (Is p Hp)) as (a & b & _). rewrite XC; [auto|].
        intros Hm. exact (Dj p Hm Hp).
      * rewrite KO in Hp by exact N. destruct (Hw u p Hp) as (a & b & _). rewrite XC; [auto|].
        intros Hm. apply N. apply (Hd u t p Hp (Im p Hm)).
  - intros u Hu. cbn [mw xferred xw']. rewrite Ew.
    assert (u <> t) as N by (intros ->; unfold xw' in Hu; rewrite xget_lupd_same in Hu by exact Ht; congruence).
    unfold xw' in Hu. rewrite xget_lupd_other in Hu by exact N. destruct (HF u Hu) as [a b]. split; [exact a|].
    rewrite set_all_other; [exact b|]. intros Hm. destruct (Hw t u (Im u Hm)) as (_ & c & _).
    destruct (preq_not_slp n xw u HI Hu) as [_ X]. congruence.
Qed.

(* ---- the first element of wake_waiters' list, while pmu != NULL is in use, is a native waiter ---- *)
Lemma vhd_in xp f : vhd xp = Some f -> In f (kwl xp) /\ xn_rec xp = false.
Proof.
  destruct xp; try discriminate; cbn [vhd kwl xn_rec]; destruct (k_wake k); try discriminate; intros E; inversion E; split; auto; now left.
Qed.

(* thread t changes its wrapper state: the new head (if any) is native; t itself does not become an nsync_wait_n record
   while it is the head of somebody's list *)
Lemma NHd_upd xw m' q' f' t xs' : NHd xw -> PInv3 xw -> (t < length (xthr xw))%nat ->
  (forall f, vhd (x_pc xs') = Some f -> f <> t -> xn_rec (x_pc (xget xw f)) = false) ->
  xn_rec (x_pc xs') = false \/ xn_rec (x_pc (xget xw t)) = true \/ cvs xw t = false ->
  NHd (mk_xw m' q' f' (lupd (xthr xw) t xs')).
Proof.
  intros HN (_ & HC & _) Ht Hnew Hself u f Hv.
  destruct (Nat.eq_dec u t) as [->|Nu].
  - rewrite xget_lupd_same in Hv by exact Ht.
    destruct (Nat.eq_dec f t) as [->|Nf]; [rewrite xget_lupd_same by exact Ht; apply (vhd_in _ _ Hv)|].
    rewrite xget_lupd_other by exact Nf. apply Hnew; assumption.
  - rewrite xget_lupd_other in Hv by exact Nu.
    destruct (Nat.eq_dec f t) as [->|Nf]; [|rewrite xget_lupd_other by exact Nf; apply (HN u f Hv)].
    rewrite xget_lupd_same by exact Ht.
    destruct Hself as [E | [E | E]]; [exact E | rewrite (HN u t Hv) in E; discriminate E|].
    destruct HC as (_ & _ & _ & Hw & _). destruct (Hw u t (proj1 (vhd_in _ _ Hv))) as (_ & b & _). congruence.
Qed.

Lemma NHd_xthr xw xw' : xthr xw' = xthr xw -> NHd xw -> NHd xw'.
Proof. intros E HN u f. unfold xget. rewrite E. apply HN. Qed.

Lemma xbegin_nhd xw t : NHd xw -> NHd (xbegin xw t).
Proof.
  intros H0. unfold xbegin. cbv zeta.
  destruct (xget xw t) as [xp xo xr] eqn:Hx. cbn [x_pc x_ops x_rets].
  destruct xp; try exact H0. destruct xo as [|o rest]; try exact H0.
  destruct (mu_idle (mw xw) t) eqn:MI; try exact H0.
  assert (t < length (xthr xw))%nat as Ht by (apply xget_inb; rewrite Hx; discriminate).
  assert (forall m' q' f' p, (forall f, vhd p <> Some f) -> xn_rec p = false ->
            NHd (mk_xw m' q' f' (lupd (xthr xw) t (mk_xt p rest xr)))) as GEN.
  { intros m' q' f' p Hv Hn u f Hu. destruct (Nat.eq_dec u t) as [->|Nu].
    - rewrite xget_lupd_same in Hu by exact Ht. now elim (Hv f).
    - rewrite xget_lupd_other in Hu by exact Nu.
      destruct (Nat.eq_dec f t) as [->|Nf]; [rewrite xget_lupd_same by exact Ht; exact Hn|].
      rewrite xget_lupd_other by exact Nf. apply (H0 u f Hu). }
  unfold xget in Hx.
  destruct o as [o'|m| | |[m|]|m]; xnorm; rewrite ?Hx; cbn [x_pc x_ops x_rets]; rewrite ?nth_lupd_same by exact Ht; cbn [x_pc x_ops x_rets];
    try (apply GEN; [intros f; discriminate | reflexivity]).
  all: destruct (held (get (mw xw) t)) as [m'|]; [destruct (mode_eqb m m')|]; apply GEN; try (intros f; discriminate); reflexivity.
Qed.

Section PlacesInvariant2.
Variable n : nat.
Hypothesis Hn : Z.of_nat n < 16777215.

Ltac xnorm :=
  unfold set_xpc, add_xret, set_xt, set_mw, set_cvq, set_xferred, xget; cbn [mw cvq xferred xthr];
  rewrite ?lupd_lupd.
Ltac xn Hx := xnorm; rewrite ?Hx; cbn [x_pc x_ops x_rets].

Lemma xbegin_pinv3 xw t : PInv3 xw -> PInv3 (xbegin xw t).
Proof.
  intros H0. unfold xbegin. cbv zeta.
  destruct (xget xw t) as [xp xo xr] eqn:Hx. cbn [x_pc x_ops x_rets].
  destruct xp; try exact H0. destruct xo as [|o rest]; try exact H0.
  destruct (mu_idle (mw xw) t) eqn:MI; try exact H0.
  assert (t < length (xthr xw))%nat as Ht by (apply xget_inb; rewrite Hx; discriminate).
  pose proof Hx as Hx'. unfold xget in Hx.
  destruct o as [o'|m| | |[m|]|m]; xn Hx; rewrite ?nth_lupd_same by exact Ht; cbn [x_pc x_ops x_rets];
    (apply PInv_local; [exact H0 | exact Ht | reflexivity | reflexivity | | | | | ]);
    rewrite ?Hx'; cbn [x_pc wph2 kwl preq xn_rec]; try reflexivity; try discriminate;
    try (intros u; first [apply kof_push_op | reflexivity]).
  all: destruct (held (get (mw xw) t)) as [m'|]; [destruct (mode_eqb m m')|]; cbn [wph2 kwl preq xn_rec]; first [reflexivity | discriminate].
Qed.

Ltac ploc H1 Ht Hx' :=
  apply PInv_local; [exact H1 | exact Ht | reflexivity | reflexivity | intros; reflexivity
                    | rewrite Hx'; cbn [x_pc wph2]; try reflexivity | rewrite Hx'; cbn [x_pc kwl]; try reflexivity
                    | rewrite Hx'; cbn [x_pc preq]; first [discriminate | intros _; reflexivity | idtac]
                    | rewrite Hx'; cbn [x_pc xn_rec]; try reflexivity ].

(* thread t, parked nowhere before and after the step, changes its own waiting flag (of its nsync_wait_n record) and
   its own next MuModel pc (to one with the role of Idle) *)
Lemma PInv_ownflag xw m' t xs' : XInv n xw -> PInv3 xw -> (t < length (xthr xw))%nat ->
  queue m' = queue (mw xw) -> (forall p, p <> t -> waiting m' p = waiting (mw xw) p) -> (forall u, kof m' u = kof (mw xw) u) ->
  slp xw t = false -> cvs xw t = false -> preq (x_pc (xget xw t)) = false -> kws xw t = [] ->
  wph2 (x_pc xs') = false -> xn_rec (x_pc xs') = false -> preq (x_pc xs') = false -> kwl (x_pc xs') = [] ->
  PInv3 (mk_xw m' (cvq xw) (xferred xw) (lupd (xthr xw) t xs')).
Proof.
  intros HI H1 Ht Eq Ew EK St Ct Pt Kt0 W1 N1 P1 K1. pose proof H1 as (HM & HC & HF).
  set (xw' := mk_xw m' (cvq xw) (xferred xw) (lupd (xthr xw) t xs')).
  assert (forall p, p <> t -> slp xw' p = slp xw p /\ cvs xw' p = cvs xw p /\ kws xw' p = kws xw p /\ xaf xw' p = xaf xw p) as FO.
  { intros p N. apply flags_other; [exact N | reflexivity | apply EK]. }
  assert (kws xw' t = []) as Kt by (unfold kws, xw'; rewrite xget_lupd_same by exact Ht; exact K1).
  apply (PInv_shrink xw xw' H1).
  - exact Eq.
  - intros u. unfold wlt. fold (kof (mw xw') u). fold (kof (mw xw) u). cbn [mw xw']. now rewrite EK.
  - apply HC.
  - apply incl_refl.
  - intros u. destruct (Nat.eq_dec u t) as [->|N]; [rewrite Kt; constructor | rewrite (proj1 (proj2 (proj2 (FO u N)))); apply HC].
  - intros u. destruct (Nat.eq_dec u t) as [->|N]; [rewrite Kt; intros ? [] | rewrite (proj1 (proj2 (proj2 (FO u N)))); apply incl_refl].
  - intros p Wp Sp. assert (p <> t) as N by congruence. cbn [mw xw']. rewrite Ew by exact N. rewrite (proj1 (FO p N)). auto.
  - intros p _ Wp Cp. assert (p <> t) as N by congruence. cbn [mw xw']. rewrite Ew by exact N. rewrite (proj1 (proj2 (FO p N))). auto.
  - intros u Hu. cbn [mw xferred xw'].
    assert (u <> t) as N by (intros ->; unfold xw' in Hu; rewrite xget_lupd_same in Hu by exact Ht; congruence).
    unfold xw' in Hu. rewrite xget_lupd_other in Hu by exact N. rewrite Ew by exact N. apply (HF u Hu).
Qed.

Lemma xstep_thr_pinv3 xw0 t c : XInv n xw0 -> NHd xw0 -> PInv3 xw0 -> PInv3 (fst (xstep_thr xw0 t c)).
Proof.
  intros HI0 HN0 H0. pose proof (xbegin_pinv3 _ t H0) as H1.
  assert (NHd (xbegin xw0 t)) as HN1 by (apply xbegin_nhd; exact HN0). clear HN0.
  apply (xbegin_inv n Hn _ t) in HI0. clear H0.
  unfold xstep_thr. set (xw := xbegin xw0 t) in *. clearbody xw. clear xw0. cbv zeta.
  pose proof HI0 as (HI & HL & HT). destruct (HT t) as [Hp _].
  pose proof H1 as (HM & HC & HF).
  destruct (xget xw t) as [xp xo xr] eqn:Hx. cbn [x_pc x_ops x_rets] in *.
  assert (xp <> XIdle -> (t < length (xthr xw))%nat) as HtN.
  { intros NE. apply xget_inb. rewrite Hx. intros E. inversion E. contradiction. }
  assert (Hlen : length (thr (mw xw)) = length (xthr xw)) by (rewrite HL; apply HI).
  pose proof Hx as Hx'. unfold xget in Hx.
  destruct xp.
  - (* XIdle *) unfold mu_step. destruct (step (mw xw) t) as [m' e] eqn:E. cbn [fst]. xnorm.
    assert (m' = fst (step (mw xw) t)) as -> by now rewrite E.
    destruct (Nat.lt_ge_cases t (length (xthr xw))) as [Ht|Ht].
    + apply (PInv_mu0 n); auto. rewrite Hx'. reflexivity.
    + assert (step (mw xw) t = (mw xw, EvNone)) as ->.
      { assert (length (thr (mw xw)) <= t)%nat as G by lia.
        unfold step, begin_op. cbv zeta. rewrite (get_oob _ _ G). cbn [t_pc t_ops dflt_t]. rewrite (get_oob _ _ G). reflexivity. }
      cbn [fst]. destruct xw; exact H1.
  - exact H1.
  - (* XwStore *) assert (t < length (xthr xw))%nat as Ht by (apply HtN; discriminate). cbn [fst]. xn Hx.
    change (negb (nsync_cv_wait_with_deadline_generic_store1_new =? 0)) with true.
    set (xs' := {| x_pc := XwLoadMu m; x_ops := xo; x_rets := xr |}).
    set (xw' := mk_xw (set_waiting (mw xw) t true) (cvq xw) (fupd (xferred xw) t false) (lupd (xthr xw) t xs')).
    assert (forall p, p <> t -> slp xw' p = slp xw p /\ cvs xw' p = cvs xw p /\ kws xw' p = kws xw p /\ xaf xw' p = xaf xw p) as FO.
    { intros p N. apply flags_other; [exact N | now apply fupd_other | reflexivity]. }
    assert (slp xw t = false /\ cvs xw t = false) as [St Ct].
    { unfold slp, slpf, cvs, xaf, kof. rewrite Hx'. cbn [x_pc wph2 xn_rec]. rewrite (proj1 Hp). split; reflexivity. }
    assert (kws xw' t = []) as Kt by (unfold kws, xw'; rewrite xget_lupd_same by exact Ht; reflexivity).
    apply (PInv_shrink xw xw' H1).
    + reflexivity.
    + intros; reflexivity.
    + apply HC.
    + apply incl_refl.
    + intros u. destruct (Nat.eq_dec u t) as [->|N]; [rewrite Kt; constructor | rewrite (proj1 (proj2 (proj2 (FO u N)))); apply HC].
    + intros u. destruct (Nat.eq_dec u t) as [->|N]; [rewrite Kt; intros ? [] | rewrite (proj1 (proj2 (proj2 (FO u N)))); apply incl_refl].
    + intros p Wp Sp. assert (p <> t) as N by congruence. cbn [mw xw' waiting set_waiting].
      rewrite fupd_other by exact N. rewrite (proj1 (FO p N)). auto.
    + intros p _ Wp Cp. assert (p <> t) as N by congruence. cbn [mw xw' waiting set_waiting].
      rewrite fupd_other by exact N. rewrite (proj1 (proj2 (FO p N))). auto.
    + intros u Hu. cbn [mw xferred xw' waiting set_waiting]. destruct (Nat.eq_dec u t) as [->|N].
      * rewrite !fupd_same. auto.
      * unfold xw' in Hu. rewrite xget_lupd_other in Hu by exact N. destruct (HF u Hu).
        rewrite !fupd_other by exact N. auto.
  - (* XwLoadMu *) assert (t < length (xthr xw))%nat as Ht by (apply HtN; discriminate).
    destruct (has (word (mw xw)) MU_WHELD_IF_NON_ZERO), (has (word (mw xw)) MU_RHELD_IF_NON_ZERO); cbn [fst]; xn Hx;
      ploc H1 Ht Hx'.
  - (* XwEnq *) assert (t < length (xthr xw))%nat as Ht by (apply HtN; discriminate). destruct Hp as (PI & _).
    cbn [fst]. xn Hx.
    set (xs' := {| x_pc := XwUnlock l; x_ops := xo; x_rets := xr |}).
    set (m' := set_pc (mw xw) t (UlFast (w_lm l))).
    set (xw' := mk_xw m' (cvq xw ++ [t]) (xferred xw) (lupd (xthr xw) t xs')).
    destruct (HF t ltac:(rewrite Hx'; reflexivity)) as [Wt Xt].
    assert (forall u, kof m' u = kof (mw xw) u) as EK.
    { intros u. destruct (Nat.eq_dec u t) as [->|N]; [|unfold m'; now rewrite kof_set_pc_other].
      unfold kof, m'. rewrite get_set_pc_same by (rewrite Hlen; exact Ht). cbn [t_pc]. now rewrite PI. }
    assert (forall p, p <> t -> slp xw' p = slp xw p /\ cvs xw' p = cvs xw p /\ kws xw' p = kws xw p /\ xaf xw' p = xaf xw p) as FO.
    { intros p N. apply flags_other; [exact N | reflexivity | apply EK]. }
    assert (kws xw' t = [] /\ kws xw t = []) as [Kt Kt0].
    { unfold kws, xw'. rewrite xget_lupd_same by exact Ht. rewrite Hx'. split; reflexivity. }
    assert (slp xw' t = false /\ slp xw t = false /\ cvs xw' t = true /\ cvs xw t = false) as (S1 & S0 & C1 & C0).
    { unfold slp, slpf, cvs, xaf. cbn [mw xferred xw']. rewrite EK. unfold xw'. rewrite xget_lupd_same by exact Ht.
      rewrite Hx', Xt. unfold kof. rewrite PI. cbn. auto. }
    split; [|split]; cbn [mw cvq xw'].
    + apply (QLx_ext _ _ _ _ _ _ _ HM).
      * intros q a b. split; [exact a|]. destruct (Nat.eq_dec q t) as [->|N]; [congruence | now rewrite (proj1 (FO q N))].
      * intros u. unfold wlt. fold (kof m' u). fold (kof (mw xw) u). now rewrite EK.
    + apply (QLx_add _ _ _ _ _ _ _ _ [t] HC); [apply Permutation_app_comm | constructor; [intros [] | constructor] | | |].
      * intros p [<- | []]. auto.
      * intros q a b. split; [exact a|]. destruct (Nat.eq_dec q t) as [->|N]; [congruence | now rewrite (proj1 (proj2 (FO q N)))].
      * intros u. destruct (Nat.eq_dec u t) as [->|N]; [congruence | apply (FO u N)].
    + intros u Hu. cbn [mw xferred xw'].
      assert (u <> t) as N by (intros ->; unfold xw' in Hu; rewrite xget_lupd_same in Hu by exact Ht; discriminate Hu).
      unfold xw' in Hu. rewrite xget_lupd_other in Hu by exact N. apply (HF u Hu).
  - (* XwUnlock *) assert (t < length (xthr xw))%nat as Ht by (apply HtN; discriminate).
    unfold mu_step. destruct (step (mw xw) t) as [m' e] eqn:E. xnorm.
    assert (m' = fst (step (mw xw) t)) as Em by now rewrite E.
    cbn [mw]. destruct (mu_pc_idle m' t); cbn [fst]; xn Hx; rewrite Em.
    + apply (PInv_mu n); auto; rewrite Hx'; reflexivity.
    + apply (PInv_mu0 n); auto. rewrite Hx'. reflexivity.
  - (* XwLoop *) assert (t < length (xthr xw))%nat as Ht by (apply HtN; discriminate). destruct Hp as (PI & _).
    destruct (waiting (mw xw) t) eqn:Wt; cbn [fst]; xn Hx.
    + destruct (w_so l); ploc H1 Ht Hx'.
    + set (xs' := {| x_pc := XwReacq l; x_ops := xo; x_rets := xr |}).
      set (m' := set_pc (set_wtype (mw xw) t (w_lm l)) t (if xferred xw t then LsLoad (w_lm l) (ls_desig (w_lm l)) else LkFast (w_lm l))).
      set (xw' := mk_xw m' (cvq xw) (xferred xw) (lupd (xthr xw) t xs')).
      assert (forall u, kof m' u = kof (mw xw) u) as EK.
      { intros u. destruct (Nat.eq_dec u t) as [->|N]; [|unfold m'; now rewrite kof_set_pc_other].
        unfold kof, m'. rewrite get_set_pc_same by (cbn [thr set_wtype]; rewrite Hlen; exact Ht). cbn [t_pc].
        rewrite PI. destruct (xferred xw t); reflexivity. }
      assert (forall p, p <> t -> slp xw' p = slp xw p /\ cvs xw' p = cvs xw p /\ kws xw' p = kws xw p /\ xaf xw' p = xaf xw p) as FO.
      { intros p N. apply flags_other; [exact N | reflexivity | apply EK]. }
      assert (kws xw' t = [] /\ kws xw t = []) as [Kt Kt0].
      { unfold kws, xw'. rewrite xget_lupd_same by exact Ht. rewrite Hx'. split; reflexivity. }
      apply (PInv_shrink xw xw' H1).
      * reflexivity.
      * intros u. unfold wlt. fold (kof (mw xw') u). fold (kof (mw xw) u). cbn [mw xw']. now rewrite EK.
      * apply HC.
      * apply incl_refl.
      * intros u. destruct (Nat.eq_dec u t) as [->|N]; [rewrite Kt; constructor | rewrite (proj1 (proj2 (proj2 (FO u N)))); apply HC].
      * intros u. destruct (Nat.eq_dec u t) as [->|N]; [rewrite Kt; intros ? [] | rewrite (proj1 (proj2 (proj2 (FO u N)))); apply incl_refl].
      * intros p Wp Sp. assert (p <> t) as N by congruence. rewrite (proj1 (FO p N)). auto.
      * intros p _ Wp Cp. assert (p <> t) as N by congruence. rewrite (proj1 (proj2 (FO p N))). auto.
      * intros u Hu. cbn [mw xferred xw'].
        assert (u <> t) as N by (intros ->; unfold xw' in Hu; rewrite xget_lupd_same in Hu by exact Ht; discriminate Hu).
        unfold xw' in Hu. rewrite xget_lupd_other in Hu by exact N. apply (HF u Hu).
  - (* XwSem *) assert (t < length (xthr xw))%nat as Ht by (apply HtN; discriminate).
    destruct c; [destruct (0 <? sem (mw xw) t)|]; cbn [fst]; try exact H1; xn Hx; ploc H1 Ht Hx'.
  - (* XwLoad6 *) assert (t < length (xthr xw))%nat as Ht by (apply HtN; discriminate).
    destruct (waiting (mw xw) t); cbn [fst]; xn Hx; ploc H1 Ht Hx'.
  - (* XwConfirm *) assert (t < length (xthr xw))%nat as Ht by (apply HtN; discriminate).
    destruct (mem_id t (cvq xw)) eqn:Mi; cbn [fst]; xn Hx; [|ploc H1 Ht Hx'].
    change (negb (nsync_cv_wait_with_deadline_generic_store3_new =? 0)) with false.
    apply mem_id_in in Mi.
    set (xs' := {| x_pc := XwLoad13 (wl_set_out l (w_so l)); x_ops := xo; x_rets := xr |}).
    set (xw' := mk_xw (set_waiting (mw xw) t false) (remove_id t (cvq xw)) (xferred xw) (lupd (xthr xw) t xs')).
    assert (forall p, p <> t -> slp xw' p = slp xw p /\ cvs xw' p = cvs xw p /\ kws xw' p = kws xw p /\ xaf xw' p = xaf xw p) as FO.
    { intros p N. apply flags_other; [exact N | reflexivity | reflexivity]. }
    assert (kws xw' t = [] /\ kws xw t = []) as [Kt Kt0].
    { unfold kws, xw'. rewrite xget_lupd_same by exact Ht. rewrite Hx'. split; reflexivity. }
    pose proof HC as (Nq & Hq & _ & Hw & _). destruct (Hq t Mi) as [Wt Ct].
    pose proof (cvs_not_slp n xw t HI0 Ct) as St.
    assert (forall u, ~ In t (kws xw u)) as NK by (intros u Hu; destruct (Hw u t Hu) as (_ & _ & X); contradiction).
    apply (PInv_shrink xw xw' H1).
    + reflexivity.
    + intros; reflexivity.
    + apply remove_id_nodup, Nq.
    + intros x Hx0. cbn [cvq xw'] in Hx0. apply remove_id_in in Hx0. apply Hx0.
    + intros u. destruct (Nat.eq_dec u t) as [->|N]; [rewrite Kt; constructor | rewrite (proj1 (proj2 (proj2 (FO u N)))); apply HC].
    + intros u. destruct (Nat.eq_dec u t) as [->|N]; [rewrite Kt; intros ? [] | rewrite (proj1 (proj2 (proj2 (FO u N)))); apply incl_refl].
    + intros p Wp Sp. assert (p <> t) as N by congruence. cbn [mw xw' waiting set_waiting].
      rewrite fupd_other by exact N. rewrite (proj1 (FO p N)). auto.
    + intros p Hin Wp Cp. assert (p <> t) as N.
      { intros ->. destruct Hin as [Hin | [u Hin]].
        - cbn [cvq xw'] in Hin. apply remove_id_in in Hin. now apply (proj2 Hin).
        - destruct (Nat.eq_dec u t) as [->|Nu]; [rewrite Kt in Hin; destruct Hin|].
          rewrite (proj1 (proj2 (proj2 (FO u Nu)))) in Hin. exact (NK u Hin). }
      cbn [mw xw' waiting set_waiting]. rewrite fupd_other by exact N. rewrite (proj1 (proj2 (FO p N))). auto.
    + intros u Hu. cbn [mw xferred xw' waiting set_waiting].
      assert (u <> t) as N by (intros ->; unfold xw' in Hu; rewrite xget_lupd_same in Hu by exact Ht; discriminate Hu).
      unfold xw' in Hu. rewrite xget_lupd_other in Hu by exact N. rewrite fupd_other by exact N. apply (HF u Hu).
  - (* XwLoad13 *) assert (t < length (xthr xw))%nat as Ht by (apply HtN; discriminate).
    cbn [fst]; xn Hx; ploc H1 Ht Hx'.
  - (* XwReacq *) assert (t < length (xthr xw))%nat as Ht by (apply HtN; discriminate).
    unfold mu_step. destruct (step (mw xw) t) as [m' e] eqn:E. xnorm.
    assert (m' = fst (step (mw xw) t)) as Em by now rewrite E.
    cbn [mw]. destruct (mu_pc_idle m' t); cbn [fst]; xn Hx.
    + rewrite nth_lupd_same by exact Ht. cbn [x_ops x_rets]. rewrite Em.
      apply (PInv_mu n); auto; rewrite Hx'; reflexivity.
    + rewrite Em. apply (PInv_mu0 n); auto. rewrite Hx'. reflexivity.
  - (* XkLoad *) assert (t < length (xthr xw))%nat as Ht by (apply HtN; discriminate).
    destruct c; [|destruct (cvq xw)]; cbn [fst]; try exact H1; xn Hx; ploc H1 Ht Hx'.
  - (* XkSelect *) assert (t < length (xthr xw))%nat as Ht by (apply HtN; discriminate).
    assert (Permutation (fst (fst (if bc then sel_broadcast (xrd xw) (cvq xw) else sel_signal (xrd xw) (cvq xw))) ++
                         snd (fst (if bc then sel_broadcast (xrd xw) (cvq xw) else sel_signal (xrd xw) (cvq xw))))
                        (cvq xw)) as P by (destruct bc; [apply sel_broadcast_perm | apply sel_signal_perm]).
    destruct (if bc then sel_broadcast (xrd xw) (cvq xw) else sel_signal (xrd xw) (cvq xw)) as [[wk kp] allr].
    cbn [fst snd] in P.
    destruct wk as [|f wk']; [|destruct (nrec xw f)]; cbn [fst]; xn Hx;
      (eapply PInv_select; [exact H1 | exact Ht | unfold kws; rewrite Hx'; reflexivity | exact P
                                          | rewrite Hx'; reflexivity | rewrite Hx'; reflexivity | rewrite Hx'; reflexivity
                                          | reflexivity | reflexivity | reflexivity | reflexivity]).
  - (* XvLoad1 *) assert (t < length (xthr xw))%nat as Ht by (apply HtN; discriminate).
    destruct (xfer_wanted (wtype (mw xw)) (word (mw xw)) k); cbn [fst]; xn Hx;
      [|unfold wake_loop; destruct (k_wake k) eqn:Ek]; ploc H1 Ht Hx'; now rewrite Ek.
  - (* XvCas1 *) assert (t < length (xthr xw))%nat as Ht by (apply HtN; discriminate).
    unfold cas. destruct (word (mw xw) =? wake_waiters_cas1_old old); cbv beta iota.
    + pose proof (xfer_perm (nrec xw) (wtype (mw xw)) (first_cant_acquire (wtype (mw xw)) old (k_wake k)) (k_wake k)) as P.
      assert (forall p, In p (fst (fst (xfer (nrec xw) (wtype (mw xw)) (first_cant_acquire (wtype (mw xw)) old (k_wake k)) (k_wake k)))) ->
                        xn_rec (x_pc (xget xw p)) = false) as MN.
      { intros p Hpm. destruct (xfer_moved_cases _ _ _ _ _ Hpm) as [Hd | Nn].
        - apply (HN1 t p). rewrite Hx'. exact Hd.
        - unfold nrec in Nn. apply orb_false_elim in Nn. apply Nn. }
      destruct (xfer (nrec xw) (wtype (mw xw)) (first_cant_acquire (wtype (mw xw)) old (k_wake k)) (k_wake k)) as [[moved stay] set_on].
      cbn [fst snd] in P, MN. cbn [fst]. xn Hx.
      apply (PInv_transfer n) with (stay := stay); auto; try (rewrite Hx'; reflexivity).
      unfold kws. rewrite Hx'. exact P.
    + cbn [fst]. xn Hx. unfold wake_loop; destruct (k_wake k) eqn:Ek; ploc H1 Ht Hx'; now rewrite Ek.
  - (* XvLoad3 *) assert (t < length (xthr xw))%nat as Ht by (apply HtN; discriminate).
    cbn [fst]; xn Hx; ploc H1 Ht Hx'.
  - (* XvCas2 *) assert (t < length (xthr xw))%nat as Ht by (apply HtN; discriminate).
    unfold cas. destruct (word (mw xw) =? wake_waiters_cas2_old old); cbv beta iota; cbn [fst]; xn Hx;
      [unfold wake_loop; destruct (k_wake k) eqn:Ek|]; ploc H1 Ht Hx'; now rewrite Ek.
  - (* XvLoad5 *) assert (t < length (xthr xw))%nat as Ht by (apply HtN; discriminate).
    cbn [fst]; xn Hx; ploc H1 Ht Hx'.
  - (* XvStore *) assert (t < length (xthr xw))%nat as Ht by (apply HtN; discriminate).
    destruct (k_wake k) as [|p rest] eqn:Ek; cbn [fst]; xn Hx; [ploc H1 Ht Hx'; now rewrite Ek|].
    change (negb (wake_waiters_store1_new =? 0)) with false.
    set (xs' := {| x_pc := XvV (mk_kl rest (k_allr k) (k_set k) (k_clr k)) p; x_ops := xo; x_rets := xr |}).
    set (xw' := mk_xw (set_waiting (mw xw) p false) (cvq xw) (xferred xw) (lupd (xthr xw) t xs')).
    assert (forall q, wph2 (x_pc (xget xw' q)) = wph2 (x_pc (xget xw q))) as W.
    { intros q. destruct (Nat.eq_dec q t) as [->|N]; [unfold xw'; rewrite xget_lupd_same by exact Ht; now rewrite Hx'
                                                      | unfold xw'; now rewrite xget_lupd_other]. }
    assert (forall q, xn_rec (x_pc (xget xw' q)) = xn_rec (x_pc (xget xw q))) as WN.
    { intros q. destruct (Nat.eq_dec q t) as [->|N]; [unfold xw'; rewrite xget_lupd_same by exact Ht; now rewrite Hx'
                                                      | unfold xw'; now rewrite xget_lupd_other]. }
    assert (forall q, slp xw' q = slp xw q) as XS by (intros q; unfold slp, slpf, xaf; cbn [mw xferred xw']; now rewrite W).
    assert (forall q, cvs xw' q = cvs xw q) as XC by (intros q; unfold cvs; cbn [xferred xw']; now rewrite W, WN).
    assert (kws xw t = p :: rest) as Kt0 by (unfold kws; rewrite Hx'; exact Ek).
    assert (kws xw' t = rest) as Kt by (unfold kws, xw'; rewrite xget_lupd_same by exact Ht; reflexivity).
    assert (forall u, u <> t -> kws xw' u = kws xw u) as KO by (intros u N; unfold kws, xw'; now rewrite xget_lupd_other).
    pose proof HC as (_ & _ & _ & Hw & _).
    destruct (Hw t p ltac:(rewrite Kt0; now left)) as (Wp & Cp & _).
    pose proof (cvs_not_slp n xw p HI0 Cp) as Sp.
    split; [|split]; cbn [mw cvq xw' queue waiting set_waiting].
    + assert (QLx (queue (mw xw)) (fupd (waiting (mw xw)) p false) (slp xw) (wlt (mw xw))) as H2
        by (apply QLx_clear_other; assumption).
      apply (QLx_ext _ _ _ _ _ _ _ H2); [|intros; reflexivity]. intros q a b. rewrite XS. auto.
    + apply (QLx_pop _ _ _ _ _ _ t p rest HC Kt0 Kt KO). intros q _ _ b. now rewrite XC.
    + intros u Hu. cbn [mw xferred xw' waiting set_waiting].
      assert (u <> t) as N by (intros ->; unfold xw' in Hu; rewrite xget_lupd_same in Hu by exact Ht; discriminate Hu).
      unfold xw' in Hu. rewrite xget_lupd_other in Hu by exact N. destruct (HF u Hu) as [a b]. split; [|exact b].
      rewrite fupd_other; [exact a|]. intros ->. destruct (preq_not_slp n xw p HI0 Hu) as [_ X]. congruence.
  - (* XvV *) assert (t < length (xthr xw))%nat as Ht by (apply HtN; discriminate).
    cbn [fst]; xn Hx; unfold wake_loop; destruct (k_wake k) eqn:Ek; ploc H1 Ht Hx'; now rewrite Ek.
  - (* XnStore0 *) assert (t < length (xthr xw))%nat as Ht by (apply HtN; discriminate). cbn [fst]. xn Hx.
    apply (PInv_ownflag xw); auto; try (rewrite Hx'; reflexivity); try (unfold kws; rewrite Hx'; reflexivity).
    + intros p N. cbn [waiting set_waiting]. now apply fupd_other.
    + unfold slp, slpf, xaf, kof. rewrite Hx'. cbn [x_pc wph2]. rewrite (proj1 Hp). reflexivity.
    + unfold cvs. rewrite Hx'. reflexivity.
  - (* XnEnq *) assert (t < length (xthr xw))%nat as Ht by (apply HtN; discriminate). destruct Hp as (PI & _).
    change (negb (cv_enqueue_store1_new =? 0)) with true.
    assert (forall m' xs', (forall u, kof m' u = kof (mw xw) u) -> queue m' = queue (mw xw) -> waiting m' = fupd (waiting (mw xw)) t true ->
              xn_rec (x_pc xs') = true -> kwl (x_pc xs') = [] -> preq (x_pc xs') = false -> wph2 (x_pc xs') = false ->
              PInv3 (mk_xw m' (cvq xw ++ [t]) (xferred xw) (lupd (xthr xw) t xs'))) as GEN.
    { intros m' xs' EK Eq Ew N1 K1 P1 W1.
      set (xw' := mk_xw m' (cvq xw ++ [t]) (xferred xw) (lupd (xthr xw) t xs')).
      assert (forall p, p <> t -> slp xw' p = slp xw p /\ cvs xw' p = cvs xw p /\ kws xw' p = kws xw p /\ xaf xw' p = xaf xw p) as FO.
      { intros p N. apply flags_other; [exact N | reflexivity | apply EK]. }
      assert (kws xw' t = [] /\ kws xw t = []) as [Kt Kt0].
      { unfold kws, xw'. rewrite xget_lupd_same by exact Ht. rewrite Hx'. split; [exact K1 | reflexivity]. }
      assert (slp xw' t = false /\ slp xw t = false /\ cvs xw' t = true /\ cvs xw t = false) as (S1 & S0 & C1 & C0).
      { unfold slp, slpf, cvs, xaf. cbn [mw xferred xw']. rewrite EK. unfold xw'. rewrite xget_lupd_same by exact Ht.
        rewrite Hx', N1, W1. unfold kof. rewrite PI. cbn. auto. }
      split; [|split]; cbn [mw cvq xw'].
      + rewrite Eq, Ew. apply (QLx_ext _ _ _ _ _ _ _ HM).
        * intros q a b. destruct (Nat.eq_dec q t) as [->|N]; [congruence|]. rewrite fupd_other by exact N.
          split; [exact a | now rewrite (proj1 (FO q N))].
        * intros u. unfold wlt. fold (kof m' u). fold (kof (mw xw) u). now rewrite EK.
      + rewrite Ew. apply (QLx_add _ _ _ _ _ _ _ _ [t] HC); [apply Permutation_app_comm | constructor; [intros [] | constructor] | | |].
        * intros p [<- | []]. rewrite fupd_same. auto.
        * intros q a b. destruct (Nat.eq_dec q t) as [->|N]; [congruence|]. rewrite fupd_other by exact N.
          split; [exact a | now rewrite (proj1 (proj2 (FO q N)))].
        * intros u. destruct (Nat.eq_dec u t) as [->|N]; [congruence | apply (FO u N)].
      + intros u Hu. cbn [mw xferred xw'].
        assert (u <> t) as N by (intros ->; unfold xw' in Hu; rewrite xget_lupd_same in Hu by exact Ht; congruence).
        unfold xw' in Hu. rewrite xget_lupd_other in Hu by exact N. rewrite Ew, fupd_other by exact N. apply (HF u Hu). }
    destruct om as [m|]; cbn [fst]; xn Hx; apply GEN; try reflexivity.
    intros u. destruct (Nat.eq_dec u t) as [->|N]; [|now rewrite kof_set_pc_other].
    unfold kof. rewrite get_set_pc_same by (cbn [thr set_waiting]; rewrite Hlen; exact Ht). cbn [t_pc].
    change (get (set_waiting (mw xw) t true) t) with (get (mw xw) t). now rewrite PI.
  - (* XnUnlock *) assert (t < length (xthr xw))%nat as Ht by (apply HtN; discriminate).
    unfold mu_step. destruct (step (mw xw) t) as [m' e] eqn:E. xnorm.
    assert (m' = fst (step (mw xw) t)) as Em by now rewrite E.
    cbn [mw]. destruct (mu_pc_idle m' t); cbn [fst]; xn Hx; rewrite Em.
    + apply (PInv_mu n); auto; rewrite Hx'; reflexivity.
    + apply (PInv_mu0 n); auto. rewrite Hx'. reflexivity.
  - (* XnReady *) assert (t < length (xthr xw))%nat as Ht by (apply HtN; discriminate).
    destruct (cv_ready_time_load1_guard (b2z (waiting (mw xw) t))); cbn [fst]; xn Hx; ploc H1 Ht Hx'.
  - (* XnSem *) assert (t < length (xthr xw))%nat as Ht by (apply HtN; discriminate).
    destruct c; [destruct (0 <? sem (mw xw) t)|]; cbn [fst]; try exact H1; xn Hx; ploc H1 Ht Hx'.
  - (* XnDeq *) assert (t < length (xthr xw))%nat as Ht by (apply HtN; discriminate). destruct Hp as (PI & _).
    destruct (waiting (mw xw) t && cv_dequeue_store1_guard (b2z (mem_id t (cvq xw)))) eqn:Dq; [|cbn [fst]; xn Hx; ploc H1 Ht Hx'].
    change (negb (cv_dequeue_store1_new =? 0)) with false.
    apply andb_prop in Dq. destruct Dq as [Wt Mi].
    assert (In t (cvq xw)) as Mi' by (apply mem_id_in; destruct (mem_id t (cvq xw)); [reflexivity | discriminate Mi]).
    assert (forall m' xs', (forall u, kof m' u = kof (mw xw) u) -> queue m' = queue (mw xw) -> waiting m' = fupd (waiting (mw xw)) t false ->
              xn_rec (x_pc xs') = false -> kwl (x_pc xs') = [] -> preq (x_pc xs') = false -> wph2 (x_pc xs') = false ->
              PInv3 (mk_xw m' (remove_id t (cvq xw)) (xferred xw) (lupd (xthr xw) t xs'))) as GEN.
    { intros m' xs' EK Eq Ew N1 K1 P1 W1.
      set (xw' := mk_xw m' (remove_id t (cvq xw)) (xferred xw) (lupd (xthr xw) t xs')).
      assert (forall p, p <> t -> slp xw' p = slp xw p /\ cvs xw' p = cvs xw p /\ kws xw' p = kws xw p /\ xaf xw' p = xaf xw p) as FO.
      { intros p N. apply flags_other; [exact N | reflexivity | apply EK]. }
      assert (kws xw' t = [] /\ kws xw t = []) as [Kt Kt0].
      { unfold kws, xw'. rewrite xget_lupd_same by exact Ht. rewrite Hx'. split; [exact K1 | reflexivity]. }
      pose proof HC as (Nq & Hq & _ & Hw & _). destruct (Hq t Mi') as [_ Ct].
      pose proof (cvs_not_slp n xw t HI0 Ct) as St.
      assert (forall u, ~ In t (kws xw u)) as NK by (intros u Hu; destruct (Hw u t Hu) as (_ & _ & X); contradiction).
      apply (PInv_shrink xw xw' H1).
      + exact Eq.
      + intros u. unfold wlt. fold (kof (mw xw') u). fold (kof (mw xw) u). cbn [mw xw']. now rewrite EK.
      + apply remove_id_nodup, Nq.
      + intros x Hx0. cbn [cvq xw'] in Hx0. apply remove_id_in in Hx0. apply Hx0.
      + intros u. destruct (Nat.eq_dec u t) as [->|N]; [rewrite Kt; constructor | rewrite (proj1 (proj2 (proj2 (FO u N)))); apply HC].
      + intros u. destruct (Nat.eq_dec u t) as [->|N]; [rewrite Kt; intros ? [] | rewrite (proj1 (proj2 (proj2 (FO u N)))); apply incl_refl].
      + intros p Wp Sp. assert (p <> t) as N by congruence. cbn [mw xw']. rewrite Ew.
        rewrite fupd_other by exact N. rewrite (proj1 (FO p N)). auto.
      + intros p Hin Wp Cp. assert (p <> t) as N.
        { intros ->. destruct Hin as [Hin | [u Hin]].
          - cbn [cvq xw'] in Hin. apply remove_id_in in Hin. now apply (proj2 Hin).
          - destruct (Nat.eq_dec u t) as [->|Nu]; [rewrite Kt in Hin; destruct Hin|].
            rewrite (proj1 (proj2 (proj2 (FO u Nu)))) in Hin. exact (NK u Hin). }
        cbn [mw xw']. rewrite Ew, fupd_other by exact N. rewrite (proj1 (proj2 (FO p N))). auto.
      + intros u Hu. cbn [mw xferred xw'].
        assert (u <> t) as N by (intros ->; unfold xw' in Hu; rewrite xget_lupd_same in Hu by exact Ht; congruence).
        unfold xw' in Hu. rewrite xget_lupd_other in Hu by exact N. rewrite Ew, fupd_other by exact N. apply (HF u Hu). }
    destruct om as [m|]; cbn [fst]; xn Hx; apply GEN; try reflexivity.
    intros u. destruct (Nat.eq_dec u t) as [->|N]; [|now rewrite kof_set_pc_other].
    unfold kof. rewrite get_set_pc_same by (cbn [thr set_waiting]; rewrite Hlen; exact Ht). cbn [t_pc].
    change (get (set_waiting (mw xw) t false) t) with (get (mw xw) t). now rewrite PI.
  - (* XnSpin *) assert (t < length (xthr xw))%nat as Ht by (apply HtN; discriminate). destruct Hp as (PI & _).
    destruct (waiting (mw xw) t) eqn:Wt; [cbn [fst]; exact H1|].
    assert (forall m' xs', (forall u, kof m' u = kof (mw xw) u) -> queue m' = queue (mw xw) -> waiting m' = waiting (mw xw) ->
              xn_rec (x_pc xs') = false -> kwl (x_pc xs') = [] -> preq (x_pc xs') = false -> wph2 (x_pc xs') = false ->
              PInv3 (mk_xw m' (cvq xw) (xferred xw) (lupd (xthr xw) t xs'))) as GEN.
    { intros m' xs' EK Eq Ew N1 K1 P1 W1.
      set (xw' := mk_xw m' (cvq xw) (xferred xw) (lupd (xthr xw) t xs')).
      assert (forall p, p <> t -> slp xw' p = slp xw p /\ cvs xw' p = cvs xw p /\ kws xw' p = kws xw p /\ xaf xw' p = xaf xw p) as FO.
      { intros p N. apply flags_other; [exact N | reflexivity | apply EK]. }
      assert (kws xw' t = [] /\ kws xw t = []) as [Kt Kt0].
      { unfold kws, xw'. rewrite xget_lupd_same by exact Ht. rewrite Hx'. split; [exact K1 | reflexivity]. }
      apply (PInv_shrink xw xw' H1).
      + exact Eq.
      + intros u. unfold wlt. fold (kof (mw xw') u). fold (kof (mw xw) u). cbn [mw xw']. now rewrite EK.
      + apply HC.
      + apply incl_refl.
      + intros u. destruct (Nat.eq_dec u t) as [->|N]; [rewrite Kt; constructor | rewrite (proj1 (proj2 (proj2 (FO u N)))); apply HC].
      + intros u. destruct (Nat.eq_dec u t) as [->|N]; [rewrite Kt; intros ? [] | rewrite (proj1 (proj2 (proj2 (FO u N)))); apply incl_refl].
      + intros p Wp Sp. assert (p <> t) as N by congruence. cbn [mw xw']. rewrite Ew. rewrite (proj1 (FO p N)). auto.
      + intros p _ Wp Cp. assert (p <> t) as N by congruence. cbn [mw xw']. rewrite Ew. rewrite (proj1 (proj2 (FO p N))). auto.
      + intros u Hu. cbn [mw xferred xw'].
        assert (u <> t) as N by (intros ->; unfold xw' in Hu; rewrite xget_lupd_same in Hu by exact Ht; congruence).
        unfold xw' in Hu. rewrite xget_lupd_other in Hu by exact N. rewrite Ew. apply (HF u Hu). }
    destruct om as [m|]; cbn [fst]; xn Hx; apply GEN; try reflexivity.
    intros u. destruct (Nat.eq_dec u t) as [->|N]; [|now rewrite kof_set_pc_other].
    unfold kof. rewrite get_set_pc_same by (rewrite Hlen; exact Ht). cbn [t_pc]. now rewrite PI.
  - (* XnReacq *) assert (t < length (xthr xw))%nat as Ht by (apply HtN; discriminate).
    unfold mu_step. destruct (step (mw xw) t) as [m' e] eqn:E. xnorm.
    assert (m' = fst (step (mw xw) t)) as Em by now rewrite E.
    cbn [mw]. destruct (mu_pc_idle m' t); cbn [fst]; xn Hx.
    + rewrite nth_lupd_same by exact Ht. cbn [x_ops x_rets]. rewrite Em.
      apply (PInv_mu n); auto; rewrite Hx'; reflexivity.
    + rewrite Em. apply (PInv_mu0 n); auto. rewrite Hx'. reflexivity.
  - (* XgStore *) assert (t < length (xthr xw))%nat as Ht by (apply HtN; discriminate). cbn [fst]. xn Hx.
    change (negb (nsync_cv_wait_with_deadline_generic_store1_new =? 0)) with true.
    set (xs' := {| x_pc := XwEnq (mk_xwl m m false false true); x_ops := xo; x_rets := xr |}).
    set (xw' := mk_xw (set_waiting (mw xw) t true) (cvq xw) (fupd (xferred xw) t false) (lupd (xthr xw) t xs')).
    assert (forall p, p <> t -> slp xw' p = slp xw p /\ cvs xw' p = cvs xw p /\ kws xw' p = kws xw p /\ xaf xw' p = xaf xw p) as FO.
    { intros p N. apply flags_other; [exact N | now apply fupd_other | reflexivity]. }
    assert (slp xw t = false /\ cvs xw t = false) as [St Ct].
    { unfold slp, slpf, cvs, xaf, kof. rewrite Hx'. cbn [x_pc wph2 xn_rec]. rewrite (proj1 Hp). split; reflexivity. }
    assert (kws xw' t = []) as Kt by (unfold kws, xw'; rewrite xget_lupd_same by exact Ht; reflexivity).
    apply (PInv_shrink xw xw' H1).
    + reflexivity.
    + intros; reflexivity.
    + apply HC.
    + apply incl_refl.
    + intros u. destruct (Nat.eq_dec u t) as [->|N]; [rewrite Kt; constructor | rewrite (proj1 (proj2 (proj2 (FO u N)))); apply HC].
    + intros u. destruct (Nat.eq_dec u t) as [->|N]; [rewrite Kt; intros ? [] | rewrite (proj1 (proj2 (proj2 (FO u N)))); apply incl_refl].
    + intros p Wp Sp. assert (p <> t) as N by congruence. cbn [mw xw' waiting set_waiting].
      rewrite fupd_other by exact N. rewrite (proj1 (FO p N)). auto.
    + intros p _ Wp Cp. assert (p <> t) as N by congruence. cbn [mw xw' waiting set_waiting].
      rewrite fupd_other by exact N. rewrite (proj1 (proj2 (FO p N))). auto.
    + intros u Hu. cbn [mw xferred xw' waiting set_waiting]. destruct (Nat.eq_dec u t) as [->|N].
      * rewrite !fupd_same. auto.
      * unfold xw' in Hu. rewrite xget_lupd_other in Hu by exact N. destruct (HF u Hu).
        rewrite !fupd_other by exact N. auto.
Qed.
End PlacesInvariant2.

Section HeadInvariant.
Variable n : nat.
Hypothesis Hn : Z.of_nat n < 16777215.

Ltac xnorm :=
  unfold set_xpc, add_xret, set_xt, set_mw, set_cvq, set_xferred, xget; cbn [mw cvq xferred xthr];
  rewrite ?lupd_lupd.
Ltac xn Hx := xnorm; rewrite ?Hx; cbn [x_pc x_ops x_rets].

Lemma xstep_thr_nhd xw0 t c : XInv n xw0 -> PInv3 xw0 -> NHd xw0 -> NHd (fst (xstep_thr xw0 t c)).
Proof.
  intros HI0 H0 HN0. pose proof (xbegin_pinv3 _ t H0) as H1. pose proof (xbegin_nhd _ t HN0) as HN1.
  apply (xbegin_inv n Hn _ t) in HI0. clear H0 HN0.
  unfold xstep_thr. set (xw := xbegin xw0 t) in *. clearbody xw. clear xw0. cbv zeta.
  destruct (xget xw t) as [xp xo xr] eqn:Hx. cbn [x_pc x_ops x_rets] in *.
  assert (xp <> XIdle -> (t < length (xthr xw))%nat) as HtN.
  { intros NE. apply xget_inb. rewrite Hx. intros E. inversion E. contradiction. }
  pose proof Hx as Hx'. unfold xget in Hx.
  Local Ltac nh HN1 H1 Ht Hx' :=
    first [ exact HN1
          | apply (NHd_xthr _ _ eq_refl HN1)
          | apply NHd_upd;
            [ exact HN1 | exact H1 | exact Ht
            | let f := fresh "f" in let Hv := fresh "Hv" in let Nf := fresh "Nf" in
              intros f Hv Nf; cbn [x_pc vhd] in Hv; try discriminate Hv
            | cbn [x_pc xn_rec]; first [ left; reflexivity | right; left; rewrite Hx'; reflexivity | idtac ] ] ].
  destruct xp.
  - (* XIdle *) unfold mu_step. destruct (step (mw xw) t) as [m' e]. cbn [fst]. xnorm. nh HN1 H1 Ht Hx'.
  - exact HN1.
  - (* XwStore *) assert (t < length (xthr xw))%nat as Ht by (apply HtN; discriminate). cbn [fst]. xn Hx. nh HN1 H1 Ht Hx'.
  - (* XwLoadMu *) assert (t < length (xthr xw))%nat as Ht by (apply HtN; discriminate).
    destruct (has (word (mw xw)) MU_WHELD_IF_NON_ZERO), (has (word (mw xw)) MU_RHELD_IF_NON_ZERO); cbn [fst]; xn Hx; nh HN1 H1 Ht Hx'.
  - (* XwEnq *) assert (t < length (xthr xw))%nat as Ht by (apply HtN; discriminate). cbn [fst]. xn Hx. nh HN1 H1 Ht Hx'.
  - (* XwUnlock *) assert (t < length (xthr xw))%nat as Ht by (apply HtN; discriminate).
    unfold mu_step. destruct (step (mw xw) t) as [m' e]. xnorm. cbn [mw].
    destruct (mu_pc_idle m' t); cbn [fst]; xn Hx; nh HN1 H1 Ht Hx'.
  - (* XwLoop *) assert (t < length (xthr xw))%nat as Ht by (apply HtN; discriminate).
    destruct (waiting (mw xw) t); cbn [fst]; xn Hx; [destruct (w_so l)|]; nh HN1 H1 Ht Hx'.
  - (* XwSem *) assert (t < length (xthr xw))%nat as Ht by (apply HtN; discriminate).
    destruct c; [destruct (0 <? sem (mw xw) t)|]; cbn [fst]; xn Hx; nh HN1 H1 Ht Hx'.
  - (* XwLoad6 *) assert (t < length (xthr xw))%nat as Ht by (apply HtN; discriminate).
    destruct (waiting (mw xw) t); cbn [fst]; xn Hx; nh HN1 H1 Ht Hx'.
  - (* XwConfirm *) assert (t < length (xthr xw))%nat as Ht by (apply HtN; discriminate).
    destruct (mem_id t (cvq xw)); cbn [fst]; xn Hx; nh HN1 H1 Ht Hx'.
  - (* XwLoad13 *) assert (t < length (xthr xw))%nat as Ht by (apply HtN; discriminate). cbn [fst]. xn Hx. nh HN1 H1 Ht Hx'.
  - (* XwReacq *) assert (t < length (xthr xw))%nat as Ht by (apply HtN; discriminate).
    unfold mu_step. destruct (step (mw xw) t) as [m' e]. xnorm. cbn [mw].
    destruct (mu_pc_idle m' t); cbn [fst]; xn Hx; rewrite ?lupd_lupd; nh HN1 H1 Ht Hx'.
  - (* XkLoad *) assert (t < length (xthr xw))%nat as Ht by (apply HtN; discriminate).
    destruct c; [|destruct (cvq xw)]; cbn [fst]; xn Hx; nh HN1 H1 Ht Hx'.
  - (* XkSelect *) assert (t < length (xthr xw))%nat as Ht by (apply HtN; discriminate).
    destruct (if bc then sel_broadcast (xrd xw) (cvq xw) else sel_signal (xrd xw) (cvq xw)) as [[wk kp] allr].
    destruct wk as [|f wk']; [|destruct (nrec xw f) eqn:Nf0]; cbn [fst]; xn Hx; nh HN1 H1 Ht Hx'.
    cbn [k_wake hd_error] in Hv. inversion Hv. subst. unfold nrec in Nf0. apply orb_false_elim in Nf0. apply Nf0.
  - (* XvLoad1 *) assert (t < length (xthr xw))%nat as Ht by (apply HtN; discriminate).
    destruct (xfer_wanted (wtype (mw xw)) (word (mw xw)) k); cbn [fst]; xn Hx;
      [|unfold wake_loop; destruct (k_wake k)]; nh HN1 H1 Ht Hx'.
    apply (HN1 t f). rewrite Hx'. exact Hv.
  - (* XvCas1 *) assert (t < length (xthr xw))%nat as Ht by (apply HtN; discriminate).
    unfold cas. destruct (word (mw xw) =? wake_waiters_cas1_old old); cbv beta iota.
    + destruct (xfer (nrec xw) (wtype (mw xw)) (first_cant_acquire (wtype (mw xw)) old (k_wake k)) (k_wake k)) as [[moved stay] set_on].
      cbn [fst]. xn Hx. nh HN1 H1 Ht Hx'.
    + cbn [fst]. xn Hx. unfold wake_loop; destruct (k_wake k); nh HN1 H1 Ht Hx'.
  - (* XvLoad3 *) assert (t < length (xthr xw))%nat as Ht by (apply HtN; discriminate). cbn [fst]. xn Hx. nh HN1 H1 Ht Hx'.
  - (* XvCas2 *) assert (t < length (xthr xw))%nat as Ht by (apply HtN; discriminate).
    unfold cas. destruct (word (mw xw) =? wake_waiters_cas2_old old); cbv beta iota; cbn [fst]; xn Hx;
      [unfold wake_loop; destruct (k_wake k)|]; nh HN1 H1 Ht Hx'.
  - (* XvLoad5 *) assert (t < length (xthr xw))%nat as Ht by (apply HtN; discriminate). cbn [fst]. xn Hx. nh HN1 H1 Ht Hx'.
  - (* XvStore *) assert (t < length (xthr xw))%nat as Ht by (apply HtN; discriminate).
    destruct (k_wake k) as [|p rest]; cbn [fst]; xn Hx; nh HN1 H1 Ht Hx'.
  - (* XvV *) assert (t < length (xthr xw))%nat as Ht by (apply HtN; discriminate).
    cbn [fst]; xn Hx; unfold wake_loop; destruct (k_wake k); nh HN1 H1 Ht Hx'.
  - (* XnStore0 *) assert (t < length (xthr xw))%nat as Ht by (apply HtN; discriminate). cbn [fst]. xn Hx. nh HN1 H1 Ht Hx'.
  - (* XnEnq *) assert (t < length (xthr xw))%nat as Ht by (apply HtN; discriminate).
    destruct om as [m|]; cbn [fst]; xn Hx; nh HN1 H1 Ht Hx'; right; right; unfold cvs; rewrite Hx'; reflexivity.
  - (* XnUnlock *) assert (t < length (xthr xw))%nat as Ht by (apply HtN; discriminate).
    unfold mu_step. destruct (step (mw xw) t) as [m' e]. xnorm. cbn [mw].
    destruct (mu_pc_idle m' t); cbn [fst]; xn Hx; nh HN1 H1 Ht Hx'.
  - (* XnReady *) assert (t < length (xthr xw))%nat as Ht by (apply HtN; discriminate).
    destruct (cv_ready_time_load1_guard (b2z (waiting (mw xw) t))); cbn [fst]; xn Hx; nh HN1 H1 Ht Hx'.
  - (* XnSem *) assert (t < length (xthr xw))%nat as Ht by (apply HtN; discriminate).
    destruct c; [destruct (0 <? sem (mw xw) t)|]; cbn [fst]; xn Hx; nh HN1 H1 Ht Hx'.
  - (* XnDeq *) assert (t < length (xthr xw))%nat as Ht by (apply HtN; discriminate).
    destruct (waiting (mw xw) t && cv_dequeue_store1_guard (b2z (mem_id t (cvq xw)))); [destruct om as [m|]|]; cbn [fst]; xn Hx;
      nh HN1 H1 Ht Hx'.
  - (* XnSpin *) assert (t < length (xthr xw))%nat as Ht by (apply HtN; discriminate).
    destruct (waiting (mw xw) t); [|destruct om as [m|]]; cbn [fst]; xn Hx; nh HN1 H1 Ht Hx'.
  - (* XnReacq *) assert (t < length (xthr xw))%nat as Ht by (apply HtN; discriminate).
    unfold mu_step. destruct (step (mw xw) t) as [m' e]. xnorm. cbn [mw].
    destruct (mu_pc_idle m' t); cbn [fst]; xn Hx; rewrite ?lupd_lupd; nh HN1 H1 Ht Hx'.
  - (* XgStore *) assert (t < length (xthr xw))%nat as Ht by (apply HtN; discriminate). cbn [fst]. xn Hx. nh HN1 H1 Ht Hx'.
Qed.

Lemma xstep_thr_pinv xw0 t c : XInv n xw0 -> PInv xw0 -> PInv (fst (xstep_thr xw0 t c)).
Proof.
  intros HI H0. apply PInv_split in H0. destruct H0 as [H3 HN]. apply PInv_split. split.
  - apply (xstep_thr_pinv3 n Hn); assumption.
  - apply xstep_thr_nhd; assumption.
Qed.
End HeadInvariant.

Lemma xbegin_pinv xw t : PInv xw -> PInv (xbegin xw t).
Proof.
  intros H0. apply PInv_split in H0. destruct H0 as [H3 HN]. apply PInv_split. split; [apply xbegin_pinv3, H3 | apply xbegin_nhd, HN].
Qed.

Section PlacesRun.
Variable n : nat.
Hypothesis Hn : Z.of_nat n < 16777215.

Lemma xstep_pinv xw a : XInv n xw -> PInv xw -> PInv (fst (xstep xw a)).
Proof.
  destruct a as [t c|p]; [apply xstep_thr_pinv; exact Hn|]. intros _ H0. exact H0.
Qed.

Lemma xrun_pinv sched : forall xw, XInv n xw -> PInv xw -> XInv n (xrun xw sched) /\ PInv (xrun xw sched).
Proof.
  unfold xrun. induction sched as [|a rest IH]; intros xw H HS; cbn [fold_left]; [split; assumption|].
  apply IH; [apply xstep_inv; assumption | apply xstep_pinv; assumption].
Qed.
End PlacesRun.

Lemma xinit_pcs progs : (forall t, x_pc (xget (xinit progs) t) = XIdle) /\ (forall t, t_pc (get (mw (xinit progs)) t) = Idle).
Proof.
  split; intros t.
  - unfold xget, xinit; cbn [xthr]. change dflt_xt with ((fun p => mk_xt XIdle p []) []). now rewrite map_nth.
  - unfold get, xinit, init; cbn [mw thr]. rewrite map_map.
    change dflt_t with ((fun _ : list xop => mk_t Idle [] None 0 None) []). now rewrite map_nth.
Qed.

Lemma xinit_pinv progs : PInv (xinit progs).
Proof.
  destruct (xinit_pcs progs) as [PX PM].
  split; [|split].
  - change (queue (mw (xinit progs))) with (@nil nat).
    split; [constructor|]. split; [intros p []|].
    assert (forall t, wlt (mw (xinit progs)) t = []) as K by (intros t; unfold wlt; now rewrite PM).
    split; [intros t; rewrite K; constructor|]. split; [intros t p; rewrite K; intros [] | intros t1 t2 p; rewrite K; intros []].
  - change (cvq (xinit progs)) with (@nil nat).
    split; [constructor|]. split; [intros p []|].
    assert (forall t, kws (xinit progs) t = []) as K by (intros t; unfold kws; now rewrite PX).
    split; [intros t; rewrite K; constructor|]. split; [intros t p; rewrite K; intros [] | intros t1 t2 p; rewrite K; intros []].
  - split; [intros t Ht; rewrite PX in Ht; discriminate Ht|].
    intros t f Hv. rewrite PX in Hv. discriminate Hv.
Qed.

Lemma xreachable_pinv progs sched :
  Z.of_nat (length progs) < 2 ^ 24 - 1 -> PInv (xrun (xinit progs) sched).
Proof. intros H. apply (xrun_pinv (length progs) H); [apply xinit_inv | apply xinit_pinv]. Qed.
