(* Extraction of CounterModel for replay/counter_replay.ml (same conventions as Extract.v: only ExtrOcamlBasic;
   Z, positive and nat stay the Coq datatypes). *)
From Coq Require Extraction.
From Coq Require Import ExtrOcamlBasic.
From NsyncGen Require Consts Sites.
From NsyncModel Require CounterModel CounterReplay.
Extraction Language OCaml.
Set Extraction AccessOpaque.
Cd "_extract_counter".
Separate Extraction CounterModel.step CounterModel.init CounterModel.clock CounterModel.value CounterModel.broken
  CounterReplay.push_op CounterReplay.init_n CounterReplay.pc_class CounterReplay.calls_left CounterReplay.returned
  CounterReplay.sem_of CounterReplay.lock_free CounterReplay.nwaiters
  Sites.nsync_counter_new_store1_new Consts.ETIMEDOUT.
