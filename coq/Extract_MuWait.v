(* Extraction of MuWaitModel for replay/muwait_replay.ml (same conventions as Extract.v: only ExtrOcamlBasic;
   Z, positive and nat stay the Coq datatypes). *)
From Coq Require Extraction.
From Coq Require Import ExtrOcamlBasic.
From NsyncGen Require Consts Sites.
From NsyncModel Require MuWaitModel MuWaitReplay.
Extraction Language OCaml.
Set Extraction AccessOpaque.
Cd "_extract_muwait".
Separate Extraction MuWaitModel.step MuWaitModel.init MuWaitModel.word MuWaitModel.queue MuWaitModel.get
  MuWaitModel.waiting MuWaitModel.sem MuWaitModel.scp MuWaitModel.scn MuWaitModel.clock MuWaitModel.note
  MuWaitModel.rcount
  MuWaitReplay.push_op MuWaitReplay.is_idle MuWaitReplay.init_n MuWaitReplay.pc_code MuWaitReplay.crash_why
  MuWaitReplay.unstable_queue MuWaitReplay.ret_code MuWaitReplay.in_call MuWaitReplay.clear_ret
  MuWaitReplay.timeout_enabled MuWaitReplay.cancel_enabled MuWaitReplay.bad_evals MuWaitReplay.nevals
  Consts.ETIMEDOUT Consts.ECANCELED Consts.MU_SPINLOCK.
