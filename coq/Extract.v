(* Extraction of the executable models for the correspondence checks.
   Only ExtrOcamlBasic's directives are used (bool, option, unit, list, prod, sumbool, sumor);
   Z, positive, N and nat stay the Coq datatypes. *)
From Coq Require Extraction.
From Coq Require Import ExtrOcamlBasic.
From NsyncModel Require MuModel MuReplay.
Extraction Language OCaml.
Set Extraction AccessOpaque.
Cd "_extract".
Separate Extraction MuModel.step MuModel.init MuReplay.push_op MuReplay.is_idle MuReplay.init_n MuModel.word MuModel.queue
  MuModel.get MuModel.waiting MuModel.sem.
