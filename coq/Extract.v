(* Extraction of the executable models for the correspondence checks.
   Only ExtrOcamlBasic's directives are used (bool, option, unit, list, prod, sumbool, sumor);
   Z, positive, N and nat stay the Coq datatypes. *)
From Coq Require Extraction.
From Coq Require Import ExtrOcamlBasic.
From NsyncModel Require MuModel MuReplay SemModel SemReplay OnceModel OnceReplay.
Extraction Language OCaml.
Set Extraction AccessOpaque.
Cd "_extract".
Separate Extraction MuModel.step MuModel.init MuReplay.push_op MuReplay.is_idle MuReplay.init_n MuModel.word MuModel.queue
  MuModel.get MuModel.waiting MuModel.sem
  SemModel.step SemModel.init SemModel.clock SemReplay.push_call SemReplay.add_post SemReplay.poster_idle
  SemReplay.expected_ts SemReplay.last_code SemReplay.timeout_due
  OnceModel.step OnceModel.init OnceModel.early OnceReplay.push_call.
