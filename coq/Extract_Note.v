(* Extraction of NoteModel for replay/note_replay.ml (same directives as Extract.v; Z, positive, N and nat stay the Coq datatypes). *)
From Coq Require Extraction.
From Coq Require Import ExtrOcamlBasic.
From NsyncModel Require NoteModel NoteReplay.
Extraction Language OCaml.
Set Extraction AccessOpaque.
Cd "_extract_note".
Separate Extraction NoteModel.step NoteModel.tick NoteModel.touches NoteModel.clock NoteModel.nnext
  NoteReplay.push_op NoteReplay.init_n NoteReplay.expects NoteReplay.pc_code NoteReplay.sleep_due NoteReplay.last_res
  NoteReplay.ncalls_done NoteReplay.idle NoteReplay.flags NoteReplay.lock_is_free NoteReplay.note_flag.
