(* Semantics of the C integer fragment used by the translator (gen/c2coq.py).
   Every arithmetic result is wrapped to the width and signedness clang
   reports for the expression; theorems that need "no overflow" state it. *)
From Coq Require Export ZArith Bool List Lia.
Export ListNotations.
Local Open Scope Z_scope.

Definition wrap_u (w : Z) (x : Z) : Z := x mod 2 ^ w.
Definition wrap_s (w : Z) (x : Z) : Z := (x + 2 ^ (w - 1)) mod 2 ^ w - 2 ^ (w - 1).
Definition b2z (b : bool) : Z := if b then 1 else 0.
Definition znz (x : Z) : bool := negb (x =? 0).      (* C truth value *)

(* integer ranges *)
Definition in_s (w x : Z) : Prop := - 2 ^ (w - 1) <= x < 2 ^ (w - 1).
Definition in_u (w x : Z) : Prop := 0 <= x < 2 ^ w.

Lemma wrap_s_id w x : 0 < w -> in_s w x -> wrap_s w x = x.
Proof.
  unfold wrap_s, in_s; intros Hw H.
  assert (2 ^ w = 2 * 2 ^ (w - 1)) as E.
  { replace w with (Z.succ (w - 1)) at 1 by lia. rewrite Z.pow_succ_r by lia. reflexivity. }
  rewrite Z.mod_small by lia. lia.
Qed.

Lemma wrap_u_id w x : in_u w x -> wrap_u w x = x.
Proof. unfold wrap_u, in_u; intros H. apply Z.mod_small; lia. Qed.

Lemma wrap_u_range w x : 0 < w -> in_u w (wrap_u w x).
Proof. unfold wrap_u, in_u; intros. apply Z.mod_pos_bound. apply Z.pow_pos_nonneg; lia. Qed.

Lemma wrap_s_range w x : 0 < w -> in_s w (wrap_s w x).
Proof.
  unfold wrap_s, in_s; intros Hw.
  assert (2 ^ w = 2 * 2 ^ (w - 1)) as E.
  { replace w with (Z.succ (w - 1)) at 1 by lia. rewrite Z.pow_succ_r by lia. reflexivity. }
  assert (0 < 2 ^ (w-1)) by (apply Z.pow_pos_nonneg; lia).
  pose proof (Z.mod_pos_bound (x + 2 ^ (w - 1)) (2 ^ w) ltac:(lia)). lia.
Qed.

(* functional maps used as heaps: total, updated pointwise *)
Definition upd {A} (h : Z -> A) (a : Z) (v : A) : Z -> A :=
  fun a' => if a' =? a then v else h a'.
Lemma upd_same {A} (h : Z -> A) a v : upd h a v a = v.
Proof. unfold upd. now rewrite Z.eqb_refl. Qed.
Lemma upd_other {A} (h : Z -> A) a v a' : a' <> a -> upd h a v a' = h a'.
Proof. unfold upd. intros H. destruct (Z.eqb_spec a' a); congruence. Qed.
