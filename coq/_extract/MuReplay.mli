open Datatypes
open List
open MuModel

val push_op : world -> nat -> op -> world

val is_idle : world -> nat -> bool

val init_n : nat -> world
