open BinNums
open BinPos

module N =
 struct
  (** val succ_pos : coq_N -> positive **)

  let succ_pos = function
  | N0 -> Coq_xH
  | Npos p -> Pos.succ p

  (** val coq_lor : coq_N -> coq_N -> coq_N **)

  let coq_lor n m =
    match n with
    | N0 -> m
    | Npos p -> (match m with
                 | N0 -> n
                 | Npos q -> Npos (Pos.coq_lor p q))

  (** val coq_land : coq_N -> coq_N -> coq_N **)

  let coq_land n m =
    match n with
    | N0 -> N0
    | Npos p -> (match m with
                 | N0 -> N0
                 | Npos q -> Pos.coq_land p q)

  (** val ldiff : coq_N -> coq_N -> coq_N **)

  let ldiff n m =
    match n with
    | N0 -> N0
    | Npos p -> (match m with
                 | N0 -> n
                 | Npos q -> Pos.ldiff p q)

  (** val coq_lxor : coq_N -> coq_N -> coq_N **)

  let coq_lxor n m =
    match n with
    | N0 -> m
    | Npos p -> (match m with
                 | N0 -> n
                 | Npos q -> Pos.coq_lxor p q)
 end
