open BinNums

(** val coq_MU_WLOCK : coq_Z **)

let coq_MU_WLOCK =
  Zpos Coq_xH

(** val coq_MU_SPINLOCK : coq_Z **)

let coq_MU_SPINLOCK =
  Zpos (Coq_xO Coq_xH)

(** val coq_MU_WAITING : coq_Z **)

let coq_MU_WAITING =
  Zpos (Coq_xO (Coq_xO Coq_xH))

(** val coq_MU_DESIG_WAKER : coq_Z **)

let coq_MU_DESIG_WAKER =
  Zpos (Coq_xO (Coq_xO (Coq_xO Coq_xH)))

(** val coq_MU_CONDITION : coq_Z **)

let coq_MU_CONDITION =
  Zpos (Coq_xO (Coq_xO (Coq_xO (Coq_xO Coq_xH))))

(** val coq_MU_WRITER_WAITING : coq_Z **)

let coq_MU_WRITER_WAITING =
  Zpos (Coq_xO (Coq_xO (Coq_xO (Coq_xO (Coq_xO Coq_xH)))))

(** val coq_MU_LONG_WAIT : coq_Z **)

let coq_MU_LONG_WAIT =
  Zpos (Coq_xO (Coq_xO (Coq_xO (Coq_xO (Coq_xO (Coq_xO Coq_xH))))))

(** val coq_MU_ALL_FALSE : coq_Z **)

let coq_MU_ALL_FALSE =
  Zpos (Coq_xO (Coq_xO (Coq_xO (Coq_xO (Coq_xO (Coq_xO (Coq_xO Coq_xH)))))))

(** val coq_MU_RLOCK_FIELD : coq_Z **)

let coq_MU_RLOCK_FIELD =
  Zpos (Coq_xO (Coq_xO (Coq_xO (Coq_xO (Coq_xO (Coq_xO (Coq_xO (Coq_xO
    (Coq_xI (Coq_xI (Coq_xI (Coq_xI (Coq_xI (Coq_xI (Coq_xI (Coq_xI (Coq_xI
    (Coq_xI (Coq_xI (Coq_xI (Coq_xI (Coq_xI (Coq_xI (Coq_xI (Coq_xI (Coq_xI
    (Coq_xI (Coq_xI (Coq_xI (Coq_xI (Coq_xI
    Coq_xH)))))))))))))))))))))))))))))))

(** val coq_LONG_WAIT_THRESHOLD : coq_Z **)

let coq_LONG_WAIT_THRESHOLD =
  Zpos (Coq_xO (Coq_xI (Coq_xI (Coq_xI Coq_xH))))

(** val coq_ETIMEDOUT : coq_Z **)

let coq_ETIMEDOUT =
  Zpos (Coq_xO (Coq_xI (Coq_xI (Coq_xI (Coq_xO (Coq_xI Coq_xH))))))

(** val coq_EINTR : coq_Z **)

let coq_EINTR =
  Zpos (Coq_xO (Coq_xO Coq_xH))

(** val coq_EAGAIN : coq_Z **)

let coq_EAGAIN =
  Zpos (Coq_xI (Coq_xI (Coq_xO Coq_xH)))

(** val coq_EINVAL : coq_Z **)

let coq_EINVAL =
  Zpos (Coq_xO (Coq_xI (Coq_xI (Coq_xO Coq_xH))))

(** val writer_type_zero_to_acquire : coq_Z **)

let writer_type_zero_to_acquire =
  Zpos (Coq_xI (Coq_xO (Coq_xO (Coq_xO (Coq_xO (Coq_xO (Coq_xI (Coq_xO
    (Coq_xI (Coq_xI (Coq_xI (Coq_xI (Coq_xI (Coq_xI (Coq_xI (Coq_xI (Coq_xI
    (Coq_xI (Coq_xI (Coq_xI (Coq_xI (Coq_xI (Coq_xI (Coq_xI (Coq_xI (Coq_xI
    (Coq_xI (Coq_xI (Coq_xI (Coq_xI (Coq_xI
    Coq_xH)))))))))))))))))))))))))))))))

(** val writer_type_add_to_acquire : coq_Z **)

let writer_type_add_to_acquire =
  Zpos Coq_xH

(** val writer_type_held_if_non_zero : coq_Z **)

let writer_type_held_if_non_zero =
  Zpos Coq_xH

(** val writer_type_set_when_waiting : coq_Z **)

let writer_type_set_when_waiting =
  Zpos (Coq_xO (Coq_xO (Coq_xI (Coq_xO (Coq_xO Coq_xH)))))

(** val writer_type_clear_on_acquire : coq_Z **)

let writer_type_clear_on_acquire =
  Zpos (Coq_xO (Coq_xO (Coq_xO (Coq_xO (Coq_xO Coq_xH)))))

(** val writer_type_clear_on_uncontended_release : coq_Z **)

let writer_type_clear_on_uncontended_release =
  Zpos (Coq_xO (Coq_xO (Coq_xO (Coq_xO (Coq_xO (Coq_xO (Coq_xO Coq_xH)))))))

(** val reader_type_zero_to_acquire : coq_Z **)

let reader_type_zero_to_acquire =
  Zpos (Coq_xI (Coq_xO (Coq_xO (Coq_xO (Coq_xO (Coq_xI Coq_xH))))))

(** val reader_type_add_to_acquire : coq_Z **)

let reader_type_add_to_acquire =
  Zpos (Coq_xO (Coq_xO (Coq_xO (Coq_xO (Coq_xO (Coq_xO (Coq_xO (Coq_xO
    Coq_xH))))))))

(** val reader_type_held_if_non_zero : coq_Z **)

let reader_type_held_if_non_zero =
  Zpos (Coq_xO (Coq_xO (Coq_xO (Coq_xO (Coq_xO (Coq_xO (Coq_xO (Coq_xO
    (Coq_xI (Coq_xI (Coq_xI (Coq_xI (Coq_xI (Coq_xI (Coq_xI (Coq_xI (Coq_xI
    (Coq_xI (Coq_xI (Coq_xI (Coq_xI (Coq_xI (Coq_xI (Coq_xI (Coq_xI (Coq_xI
    (Coq_xI (Coq_xI (Coq_xI (Coq_xI (Coq_xI
    Coq_xH)))))))))))))))))))))))))))))))

(** val reader_type_set_when_waiting : coq_Z **)

let reader_type_set_when_waiting =
  Zpos (Coq_xO (Coq_xO Coq_xH))

(** val reader_type_clear_on_acquire : coq_Z **)

let reader_type_clear_on_acquire =
  Z0

(** val reader_type_clear_on_uncontended_release : coq_Z **)

let reader_type_clear_on_uncontended_release =
  Z0

(** val time_no_deadline_sec : coq_Z **)

let time_no_deadline_sec =
  Zpos (Coq_xI (Coq_xI (Coq_xI (Coq_xI (Coq_xI (Coq_xI (Coq_xI (Coq_xI
    (Coq_xI (Coq_xI (Coq_xI (Coq_xI (Coq_xI (Coq_xI (Coq_xI (Coq_xI (Coq_xI
    (Coq_xI (Coq_xI (Coq_xI (Coq_xI (Coq_xI (Coq_xI (Coq_xI (Coq_xI (Coq_xI
    (Coq_xI (Coq_xI (Coq_xI (Coq_xI (Coq_xI (Coq_xI (Coq_xI (Coq_xI (Coq_xI
    (Coq_xI (Coq_xI (Coq_xI (Coq_xI (Coq_xI (Coq_xI (Coq_xI (Coq_xI (Coq_xI
    (Coq_xI (Coq_xI (Coq_xI (Coq_xI (Coq_xI (Coq_xI (Coq_xI (Coq_xI (Coq_xI
    (Coq_xI (Coq_xI (Coq_xI (Coq_xI (Coq_xI (Coq_xI (Coq_xI (Coq_xI (Coq_xI
    Coq_xH))))))))))))))))))))))))))))))))))))))))))))))))))))))))))))))

(** val time_no_deadline_nsec : coq_Z **)

let time_no_deadline_nsec =
  Zpos (Coq_xI (Coq_xI (Coq_xI (Coq_xI (Coq_xI (Coq_xI (Coq_xI (Coq_xI
    (Coq_xI (Coq_xO (Coq_xO (Coq_xI (Coq_xO (Coq_xO (Coq_xI (Coq_xI (Coq_xO
    (Coq_xI (Coq_xO (Coq_xI (Coq_xI (Coq_xO (Coq_xO (Coq_xI (Coq_xI (Coq_xI
    (Coq_xO (Coq_xI (Coq_xI Coq_xH)))))))))))))))))))))))))))))
