open BinInt
open BinNums
open CSem
open Consts
open Datatypes
open List
open PeanoNat
open Sites

type mode =
| W
| R

(** val mode_eqb : mode -> mode -> bool **)

let mode_eqb a b =
  match a with
  | W -> (match b with
          | W -> true
          | R -> false)
  | R -> (match b with
          | W -> false
          | R -> true)

(** val lt_of : mode -> lock_type **)

let lt_of = function
| W ->
  { lt_zero_to_acquire = writer_type_zero_to_acquire; lt_add_to_acquire =
    writer_type_add_to_acquire; lt_held_if_non_zero =
    writer_type_held_if_non_zero; lt_set_when_waiting =
    writer_type_set_when_waiting; lt_clear_on_acquire =
    writer_type_clear_on_acquire; lt_clear_on_uncontended_release =
    writer_type_clear_on_uncontended_release }
| R ->
  { lt_zero_to_acquire = reader_type_zero_to_acquire; lt_add_to_acquire =
    reader_type_add_to_acquire; lt_held_if_non_zero =
    reader_type_held_if_non_zero; lt_set_when_waiting =
    reader_type_set_when_waiting; lt_clear_on_acquire =
    reader_type_clear_on_acquire; lt_clear_on_uncontended_release =
    reader_type_clear_on_uncontended_release }

(** val band : coq_Z -> coq_Z -> coq_Z **)

let band =
  Z.coq_land

(** val bor : coq_Z -> coq_Z -> coq_Z **)

let bor =
  Z.coq_lor

(** val bnot32 : coq_Z -> coq_Z **)

let bnot32 a =
  Z.sub (Zpos (Coq_xI (Coq_xI (Coq_xI (Coq_xI (Coq_xI (Coq_xI (Coq_xI (Coq_xI
    (Coq_xI (Coq_xI (Coq_xI (Coq_xI (Coq_xI (Coq_xI (Coq_xI (Coq_xI (Coq_xI
    (Coq_xI (Coq_xI (Coq_xI (Coq_xI (Coq_xI (Coq_xI (Coq_xI (Coq_xI (Coq_xI
    (Coq_xI (Coq_xI (Coq_xI (Coq_xI (Coq_xI
    Coq_xH)))))))))))))))))))))))))))))))) a

(** val has : coq_Z -> coq_Z -> bool **)

let has w m =
  negb (Z.eqb (band w m) Z0)

type coq_lsl = { zta : coq_Z; clr : coq_Z; longw : coq_Z; wcount : coq_Z }

type usl = { wake : nat list; set_on : coq_Z; clear_on : coq_Z; late : coq_Z }

type pc =
| Idle
| LkFast of mode
| LkLoad of mode
| LkCas2 of mode * coq_Z
| TryFast of mode
| TryLoad of mode
| TryCas2 of mode * coq_Z
| LsLoad of mode * coq_lsl
| LsCasAcq of mode * coq_lsl * coq_Z
| LsCasEnq of mode * coq_lsl * coq_Z
| LsStoreWaiting of mode * coq_lsl
| LsRelLoad of mode * coq_lsl
| LsRelCas of mode * coq_lsl * coq_Z
| LsWaitLoad of mode * coq_lsl
| LsSemP of mode * coq_lsl
| UlFast of mode
| UlLoad of mode
| UlCas2 of mode * coq_Z
| UsLoad of mode
| UsCasRel of mode * coq_Z
| UsCasSpin of mode * coq_Z
| UsRelLoad of mode * usl
| UsRelCas of mode * usl * coq_Z
| UsWakeStore of mode * usl
| UsWakeV of mode * nat * usl
| Crash of coq_Z

type op =
| OLock of mode
| OTry of mode
| OUnlock

type tstate = { t_pc : pc; t_ops : op list; held : mode option;
                sleeps : coq_Z; last_try : bool option }

type world = { word : coq_Z; queue : nat list; waiting : (nat -> bool);
               sem : (nat -> coq_Z); wtype : (nat -> mode); thr : tstate list }

(** val word : world -> coq_Z **)

let word w =
  w.word

(** val queue : world -> nat list **)

let queue w =
  w.queue

(** val waiting : world -> nat -> bool **)

let waiting w =
  w.waiting

(** val sem : world -> nat -> coq_Z **)

let sem w =
  w.sem

(** val fupd : (nat -> 'a1) -> nat -> 'a1 -> nat -> 'a1 **)

let fupd f k v x =
  if Nat.eqb x k then v else f x

(** val lupd : 'a1 list -> nat -> 'a1 -> 'a1 list **)

let rec lupd l k v =
  match l with
  | [] -> []
  | x :: t -> (match k with
               | O -> v :: t
               | S k' -> x :: (lupd t k' v))

(** val dflt_t : tstate **)

let dflt_t =
  { t_pc = Idle; t_ops = []; held = None; sleeps = Z0; last_try = None }

(** val get : world -> nat -> tstate **)

let get w t =
  nth t w.thr dflt_t

(** val set_t : world -> nat -> tstate -> world **)

let set_t w t s =
  { word = w.word; queue = w.queue; waiting = w.waiting; sem = w.sem; wtype =
    w.wtype; thr = (lupd w.thr t s) }

(** val set_pc : world -> nat -> pc -> world **)

let set_pc w t p =
  let s = get w t in
  set_t w t { t_pc = p; t_ops = s.t_ops; held = s.held; sleeps = s.sleeps;
    last_try = s.last_try }

(** val set_word : world -> coq_Z -> world **)

let set_word w v =
  { word = v; queue = w.queue; waiting = w.waiting; sem = w.sem; wtype =
    w.wtype; thr = w.thr }

(** val set_queue : world -> nat list -> world **)

let set_queue w q =
  { word = w.word; queue = q; waiting = w.waiting; sem = w.sem; wtype =
    w.wtype; thr = w.thr }

(** val set_waiting : world -> nat -> bool -> world **)

let set_waiting w t b =
  { word = w.word; queue = w.queue; waiting = (fupd w.waiting t b); sem =
    w.sem; wtype = w.wtype; thr = w.thr }

(** val set_sem : world -> nat -> coq_Z -> world **)

let set_sem w t v =
  { word = w.word; queue = w.queue; waiting = w.waiting; sem =
    (fupd w.sem t v); wtype = w.wtype; thr = w.thr }

(** val set_wtype : world -> nat -> mode -> world **)

let set_wtype w t m =
  { word = w.word; queue = w.queue; waiting = w.waiting; sem = w.sem; wtype =
    (fupd w.wtype t m); thr = w.thr }

(** val acquire : world -> nat -> mode -> world **)

let acquire w t m =
  let s = get w t in
  set_t w t { t_pc = Idle; t_ops = s.t_ops; held = (Some m); sleeps = Z0;
    last_try = s.last_try }

(** val released : world -> nat -> world **)

let released w t =
  let s = get w t in
  set_t w t { t_pc = s.t_pc; t_ops = s.t_ops; held = None; sleeps = s.sleeps;
    last_try = s.last_try }

(** val set_try : world -> nat -> bool -> world **)

let set_try w t b =
  let s = get w t in
  set_t w t { t_pc = s.t_pc; t_ops = s.t_ops; held = s.held; sleeps =
    s.sleeps; last_try = (Some b) }

type ev =
| EvCas of coq_Z * coq_Z * coq_Z * bool
| EvLoad of coq_Z * coq_Z
| EvStoreWaiting of nat * coq_Z
| EvLoadWaiting of coq_Z
| EvP
| EvV of nat
| EvBlocked
| EvNone
| EvCrash

(** val fid_lock : mode -> coq_Z **)

let fid_lock = function
| W -> Zpos (Coq_xO (Coq_xO (Coq_xI (Coq_xO (Coq_xO (Coq_xI Coq_xH))))))
| R ->
  Zpos (Coq_xO (Coq_xO (Coq_xO (Coq_xI (Coq_xO (Coq_xO (Coq_xI Coq_xH)))))))

(** val fid_try : mode -> coq_Z **)

let fid_try = function
| W ->
  Zpos (Coq_xO (Coq_xO (Coq_xI (Coq_xI (Coq_xO (Coq_xI (Coq_xO (Coq_xO
    Coq_xH))))))))
| R ->
  Zpos (Coq_xO (Coq_xO (Coq_xO (Coq_xO (Coq_xI (Coq_xO (Coq_xO (Coq_xI
    Coq_xH))))))))

(** val fid_unlock : mode -> coq_Z **)

let fid_unlock = function
| W ->
  Zpos (Coq_xO (Coq_xO (Coq_xI (Coq_xI (Coq_xI (Coq_xI (Coq_xO (Coq_xI
    (Coq_xO Coq_xH)))))))))
| R ->
  Zpos (Coq_xO (Coq_xO (Coq_xO (Coq_xO (Coq_xO (Coq_xI (Coq_xO (Coq_xO
    (Coq_xI Coq_xH)))))))))

(** val fast_new : mode -> coq_Z **)

let fast_new = function
| W -> nsync_mu_lock_cas1_new
| R -> nsync_mu_rlock_cas1_new

(** val fast_guard2 : mode -> coq_Z -> bool **)

let fast_guard2 m old =
  match m with
  | W -> nsync_mu_lock_cas2_guard old
  | R -> nsync_mu_rlock_cas2_guard old

(** val fast_new2 : mode -> coq_Z -> coq_Z **)

let fast_new2 m old =
  match m with
  | W -> nsync_mu_lock_cas2_new old
  | R -> nsync_mu_rlock_cas2_new old

(** val try_new : mode -> coq_Z **)

let try_new = function
| W -> nsync_mu_trylock_cas1_new
| R -> nsync_mu_rtrylock_cas1_new

(** val try_guard2 : mode -> coq_Z -> bool **)

let try_guard2 m old =
  match m with
  | W -> nsync_mu_trylock_cas2_guard old
  | R -> nsync_mu_rtrylock_cas2_guard old

(** val try_new2 : mode -> coq_Z -> coq_Z **)

let try_new2 m old =
  match m with
  | W -> nsync_mu_trylock_cas2_new old
  | R -> nsync_mu_rtrylock_cas2_new old

(** val ufast_old : mode -> coq_Z **)

let ufast_old = function
| W -> nsync_mu_unlock_cas1_old
| R -> nsync_mu_runlock_cas1_old

(** val ls_init : mode -> coq_lsl **)

let ls_init m =
  { zta = (lt_of m).lt_zero_to_acquire; clr = Z0; longw = Z0; wcount = Z0 }

(** val unlock_bad : mode -> coq_Z -> bool **)

let unlock_bad m old =
  match m with
  | W ->
    has
      (band (band (Z.sub old coq_MU_WLOCK) (bnot32 coq_MU_ALL_FALSE))
        (bor coq_MU_RLOCK_FIELD coq_MU_WLOCK)) (Zpos (Coq_xI (Coq_xI (Coq_xI
      (Coq_xI (Coq_xI (Coq_xI (Coq_xI (Coq_xI (Coq_xI (Coq_xI (Coq_xI (Coq_xI
      (Coq_xI (Coq_xI (Coq_xI (Coq_xI (Coq_xI (Coq_xI (Coq_xI (Coq_xI (Coq_xI
      (Coq_xI (Coq_xI (Coq_xI (Coq_xI (Coq_xI (Coq_xI (Coq_xI (Coq_xI (Coq_xI
      (Coq_xI Coq_xH))))))))))))))))))))))))))))))))
  | R ->
    Z.eqb
      (band (Z.coq_lxor old coq_MU_WLOCK)
        (bor coq_MU_WLOCK coq_MU_RLOCK_FIELD)) Z0

(** val unlock_try_cas2 : mode -> coq_Z -> bool **)

let unlock_try_cas2 m old =
  match m with
  | W -> nsync_mu_unlock_cas2_guard old
  | R -> nsync_mu_runlock_cas2_guard old

(** val ufast_new : mode -> coq_Z **)

let ufast_new = function
| W -> nsync_mu_unlock_cas1_new
| R -> nsync_mu_runlock_cas1_new

(** val unlock_new2 : mode -> coq_Z -> coq_Z **)

let unlock_new2 m old =
  match m with
  | W -> nsync_mu_unlock_cas2_new old
  | R -> nsync_mu_runlock_cas2_new old

(** val scan :
    (nat -> mode) -> nat list -> mode option -> nat list -> nat list -> coq_Z
    -> (nat list * nat list) * coq_Z **)

let rec scan ty q wake_type wake0 keep set_on0 =
  match q with
  | [] -> ((wake0, keep), set_on0)
  | p :: rest ->
    (match wake_type with
     | Some m ->
       (match m with
        | W ->
          ((wake0, (app keep q)), (band set_on0 (bnot32 coq_MU_ALL_FALSE)))
        | R ->
          if match wake_type with
             | Some _ -> mode_eqb (ty p) R
             | None -> true
          then scan ty rest (Some (ty p)) (app wake0 (p :: [])) keep set_on0
          else scan ty rest wake_type wake0 (app keep (p :: []))
                 (band (bor set_on0 coq_MU_WRITER_WAITING)
                   (bnot32 coq_MU_ALL_FALSE)))
     | None ->
       if match wake_type with
          | Some _ -> mode_eqb (ty p) R
          | None -> true
       then scan ty rest (Some (ty p)) (app wake0 (p :: [])) keep set_on0
       else scan ty rest wake_type wake0 (app keep (p :: []))
              (band (bor set_on0 coq_MU_WRITER_WAITING)
                (bnot32 coq_MU_ALL_FALSE)))

(** val us_after_scan : world -> usl * nat list **)

let us_after_scan w =
  let (p, set_on0) = scan w.wtype w.queue None [] [] coq_MU_ALL_FALSE in
  let (wk, keep) = p in
  let c1 =
    match wk with
    | [] -> bor coq_MU_SPINLOCK coq_MU_DESIG_WAKER
    | _ :: _ -> coq_MU_SPINLOCK
  in
  let c2 =
    if Z.eqb (band set_on0 coq_MU_ALL_FALSE) Z0
    then bor c1 coq_MU_ALL_FALSE
    else c1
  in
  let c3 =
    match keep with
    | [] ->
      bor c2
        (bor
          (bor (bor coq_MU_WAITING coq_MU_WRITER_WAITING) coq_MU_CONDITION)
          coq_MU_ALL_FALSE)
    | _ :: _ -> c2
  in
  ({ wake = wk; set_on = set_on0; clear_on = c3; late = Z0 }, keep)

(** val cas : world -> coq_Z -> coq_Z -> world * bool **)

let cas w expect new0 =
  if Z.eqb w.word expect then ((set_word w new0), true) else (w, false)

(** val begin_op : world -> nat -> world **)

let begin_op w t =
  let s = get w t in
  (match s.t_pc with
   | Idle ->
     (match s.t_ops with
      | [] -> w
      | o :: rest ->
        let p =
          match o with
          | OLock m ->
            (match s.held with
             | Some _ -> Crash (Zpos (Coq_xO (Coq_xO Coq_xH)))
             | None -> LkFast m)
          | OTry m ->
            (match s.held with
             | Some _ -> Crash (Zpos (Coq_xO (Coq_xO Coq_xH)))
             | None -> TryFast m)
          | OUnlock ->
            (match s.held with
             | Some m -> UlFast m
             | None -> Crash (Zpos Coq_xH))
        in
        set_t w t { t_pc = p; t_ops = rest; held = s.held; sleeps = Z0;
          last_try = s.last_try })
   | _ -> w)

(** val step : world -> nat -> world * ev **)

let step w0 t =
  let w = begin_op w0 t in
  let s = get w t in
  (match s.t_pc with
   | Idle -> (w, EvNone)
   | LkFast m ->
     let (w1, ok) = cas w Z0 (fast_new m) in
     if ok
     then ((acquire w1 t m), (EvCas ((Z.add (fid_lock m) (Zpos Coq_xH)), Z0,
            (fast_new m), true)))
     else ((set_pc w1 t (LkLoad m)), (EvCas
            ((Z.add (fid_lock m) (Zpos Coq_xH)), Z0, (fast_new m), false)))
   | LkLoad m ->
     let old = w.word in
     if fast_guard2 m old
     then ((set_pc w t (LkCas2 (m, old))), (EvLoad
            ((Z.add (fid_lock m) (Zpos (Coq_xO Coq_xH))), old)))
     else ((set_pc (set_wtype w t m) t (LsLoad (m, (ls_init m)))), (EvLoad
            ((Z.add (fid_lock m) (Zpos (Coq_xO Coq_xH))), old)))
   | LkCas2 (m, old) ->
     let (w1, ok) = cas w old (fast_new2 m old) in
     if ok
     then ((acquire w1 t m), (EvCas
            ((Z.add (fid_lock m) (Zpos (Coq_xI Coq_xH))), old,
            (fast_new2 m old), true)))
     else ((set_pc (set_wtype w1 t m) t (LsLoad (m, (ls_init m)))), (EvCas
            ((Z.add (fid_lock m) (Zpos (Coq_xI Coq_xH))), old,
            (fast_new2 m old), false)))
   | TryFast m ->
     let (w1, ok) = cas w Z0 (try_new m) in
     if ok
     then ((set_try (acquire w1 t m) t true), (EvCas
            ((Z.add (fid_try m) (Zpos Coq_xH)), Z0, (try_new m), true)))
     else ((set_pc w1 t (TryLoad m)), (EvCas
            ((Z.add (fid_try m) (Zpos Coq_xH)), Z0, (try_new m), false)))
   | TryLoad m ->
     let old = w.word in
     if try_guard2 m old
     then ((set_pc w t (TryCas2 (m, old))), (EvLoad
            ((Z.add (fid_try m) (Zpos (Coq_xO Coq_xH))), old)))
     else ((set_try (set_pc w t Idle) t false), (EvLoad
            ((Z.add (fid_try m) (Zpos (Coq_xO Coq_xH))), old)))
   | TryCas2 (m, old) ->
     let (w1, ok) = cas w old (try_new2 m old) in
     if ok
     then ((set_try (acquire w1 t m) t true), (EvCas
            ((Z.add (fid_try m) (Zpos (Coq_xI Coq_xH))), old,
            (try_new2 m old), true)))
     else ((set_try (set_pc w1 t Idle) t false), (EvCas
            ((Z.add (fid_try m) (Zpos (Coq_xI Coq_xH))), old,
            (try_new2 m old), false)))
   | LsLoad (m, l) ->
     let old = w.word in
     if nsync_mu_lock_slow_cas1_guard old l.zta
     then ((set_pc w t (LsCasAcq (m, l, old))), (EvLoad ((Zpos (Coq_xI
            (Coq_xO (Coq_xI (Coq_xO (Coq_xI (Coq_xI (Coq_xI (Coq_xI
            Coq_xH))))))))), old)))
     else if nsync_mu_lock_slow_cas2_guard old l.zta
          then ((set_pc w t (LsCasEnq (m, l, old))), (EvLoad ((Zpos (Coq_xI
                 (Coq_xO (Coq_xI (Coq_xO (Coq_xI (Coq_xI (Coq_xI (Coq_xI
                 Coq_xH))))))))), old)))
          else (w, (EvLoad ((Zpos (Coq_xI (Coq_xO (Coq_xI (Coq_xO (Coq_xI
                 (Coq_xI (Coq_xI (Coq_xI Coq_xH))))))))), old)))
   | LsCasAcq (m, l, old) ->
     let new0 = nsync_mu_lock_slow_cas1_new old (lt_of m) l.clr l.longw in
     let (w1, ok) = cas w old new0 in
     if ok
     then ((acquire w1 t m), (EvCas ((Zpos (Coq_xO (Coq_xI (Coq_xI (Coq_xO
            (Coq_xI (Coq_xI (Coq_xI (Coq_xI Coq_xH))))))))), old, new0,
            true)))
     else ((set_pc w1 t (LsLoad (m, l))), (EvCas ((Zpos (Coq_xO (Coq_xI
            (Coq_xI (Coq_xO (Coq_xI (Coq_xI (Coq_xI (Coq_xI Coq_xH))))))))),
            old, new0, false)))
   | LsCasEnq (m, l, old) ->
     let new0 = nsync_mu_lock_slow_cas2_new old l.longw (lt_of m) l.clr in
     let (w1, ok) = cas w old new0 in
     if ok
     then ((set_pc w1 t (LsStoreWaiting (m, l))), (EvCas ((Zpos (Coq_xI
            (Coq_xI (Coq_xI (Coq_xO (Coq_xI (Coq_xI (Coq_xI (Coq_xI
            Coq_xH))))))))), old, new0, true)))
     else ((set_pc w1 t (LsLoad (m, l))), (EvCas ((Zpos (Coq_xI (Coq_xI
            (Coq_xI (Coq_xO (Coq_xI (Coq_xI (Coq_xI (Coq_xI Coq_xH))))))))),
            old, new0, false)))
   | LsStoreWaiting (m, l) ->
     let w1 = set_waiting w t true in
     let q =
       if Z.eqb l.wcount Z0 then app w1.queue (t :: []) else t :: w1.queue
     in
     ((set_pc (set_queue w1 q) t (LsRelLoad (m, l))), (EvStoreWaiting (t,
     (Zpos Coq_xH))))
   | LsRelLoad (m, l) ->
     ((set_pc w t (LsRelCas (m, l, w.word))), (EvLoad ((Zpos (Coq_xI (Coq_xO
       (Coq_xO (Coq_xI (Coq_xI (Coq_xO (Coq_xI (Coq_xO (Coq_xO
       Coq_xH)))))))))), w.word)))
   | LsRelCas (m, l, old) ->
     let new0 = mu_release_spinlock_cas1_new old in
     let (w1, ok) = cas w old new0 in
     if ok
     then ((set_pc w1 t (LsWaitLoad (m, l))), (EvCas ((Zpos (Coq_xO (Coq_xI
            (Coq_xO (Coq_xI (Coq_xI (Coq_xO (Coq_xI (Coq_xO (Coq_xO
            Coq_xH)))))))))), old, new0, true)))
     else ((set_pc w1 t (LsRelLoad (m, l))), (EvCas ((Zpos (Coq_xO (Coq_xI
            (Coq_xO (Coq_xI (Coq_xI (Coq_xO (Coq_xI (Coq_xO (Coq_xO
            Coq_xH)))))))))), old, new0, false)))
   | LsWaitLoad (m, l) ->
     if w.waiting t
     then ((set_pc w t (LsSemP (m, l))), (EvLoadWaiting (Zpos Coq_xH)))
     else let wc =
            wrap_u (Zpos (Coq_xO (Coq_xO (Coq_xO (Coq_xO (Coq_xO Coq_xH))))))
              (Z.add l.wcount (Zpos Coq_xH))
          in
          let lw =
            if Z.eqb wc coq_LONG_WAIT_THRESHOLD
            then coq_MU_LONG_WAIT
            else l.longw
          in
          let l' = { zta =
            (band l.zta (bnot32 (bor coq_MU_WRITER_WAITING coq_MU_LONG_WAIT)));
            clr = coq_MU_DESIG_WAKER; longw = lw; wcount = wc }
          in
          ((set_pc w t (LsLoad (m, l'))), (EvLoadWaiting Z0))
   | LsSemP (m, l) ->
     if Z.ltb Z0 (w.sem t)
     then let s1 = get w t in
          ((set_t (set_sem w t (Z.sub (w.sem t) (Zpos Coq_xH))) t { t_pc =
             (LsWaitLoad (m, l)); t_ops = s1.t_ops; held = s1.held; sleeps =
             (Z.add s1.sleeps (Zpos Coq_xH)); last_try = s1.last_try }), EvP)
     else (w, EvBlocked)
   | UlFast m ->
     let (w1, ok) = cas w (ufast_old m) (ufast_new m) in
     if ok
     then ((released (set_pc w1 t Idle) t), (EvCas
            ((Z.add (fid_unlock m) (Zpos Coq_xH)), (ufast_old m),
            (ufast_new m), true)))
     else ((set_pc w1 t (UlLoad m)), (EvCas
            ((Z.add (fid_unlock m) (Zpos Coq_xH)), (ufast_old m),
            (ufast_new m), false)))
   | UlLoad m ->
     let old = w.word in
     if unlock_try_cas2 m old
     then ((set_pc w t (UlCas2 (m, old))), (EvLoad
            ((Z.add (fid_unlock m) (Zpos (Coq_xO Coq_xH))), old)))
     else if unlock_bad m old
          then ((set_pc w t (Crash (Zpos (Coq_xO Coq_xH)))), (EvLoad
                 ((Z.add (fid_unlock m) (Zpos (Coq_xO Coq_xH))), old)))
          else ((set_pc w t (UsLoad m)), (EvLoad
                 ((Z.add (fid_unlock m) (Zpos (Coq_xO Coq_xH))), old)))
   | UlCas2 (m, old) ->
     let new0 = unlock_new2 m old in
     let (w1, ok) = cas w old new0 in
     if ok
     then ((released (set_pc w1 t Idle) t), (EvCas
            ((Z.add (fid_unlock m) (Zpos (Coq_xI Coq_xH))), old, new0, true)))
     else ((set_pc w1 t (UsLoad m)), (EvCas
            ((Z.add (fid_unlock m) (Zpos (Coq_xI Coq_xH))), old, new0,
            false)))
   | UsLoad m ->
     let old = w.word in
     if has old coq_MU_CONDITION
     then ((set_pc w t (Crash (Zpos (Coq_xI Coq_xH)))), (EvLoad ((Zpos
            (Coq_xI (Coq_xO (Coq_xI (Coq_xO (Coq_xO (Coq_xO (Coq_xO (Coq_xI
            (Coq_xI Coq_xH)))))))))), old)))
     else if nsync_mu_unlock_slow_cas1_guard old
          then ((set_pc w t (UsCasRel (m, old))), (EvLoad ((Zpos (Coq_xI
                 (Coq_xO (Coq_xI (Coq_xO (Coq_xO (Coq_xO (Coq_xO (Coq_xI
                 (Coq_xI Coq_xH)))))))))), old)))
          else if nsync_mu_unlock_slow_cas2_guard old
               then ((set_pc w t (UsCasSpin (m, old))), (EvLoad ((Zpos
                      (Coq_xI (Coq_xO (Coq_xI (Coq_xO (Coq_xO (Coq_xO (Coq_xO
                      (Coq_xI (Coq_xI Coq_xH)))))))))), old)))
               else (w, (EvLoad ((Zpos (Coq_xI (Coq_xO (Coq_xI (Coq_xO
                      (Coq_xO (Coq_xO (Coq_xO (Coq_xI (Coq_xI
                      Coq_xH)))))))))), old)))
   | UsCasRel (m, old) ->
     let new0 = nsync_mu_unlock_slow_cas1_new old (lt_of m) in
     let (w1, ok) = cas w old new0 in
     if ok
     then ((released (set_pc w1 t Idle) t), (EvCas ((Zpos (Coq_xO (Coq_xI
            (Coq_xI (Coq_xO (Coq_xO (Coq_xO (Coq_xO (Coq_xI (Coq_xI
            Coq_xH)))))))))), old, new0, true)))
     else ((set_pc w1 t (UsLoad m)), (EvCas ((Zpos (Coq_xO (Coq_xI (Coq_xI
            (Coq_xO (Coq_xO (Coq_xO (Coq_xO (Coq_xI (Coq_xI Coq_xH)))))))))),
            old, new0, false)))
   | UsCasSpin (m, old) ->
     let new0 = nsync_mu_unlock_slow_cas2_new old (lt_of m).lt_add_to_acquire
     in
     let (w1, ok) = cas w old new0 in
     if ok
     then let (u, keep) = us_after_scan w1 in
          ((released (set_pc (set_queue w1 keep) t (UsRelLoad (m, u))) t),
          (EvCas ((Zpos (Coq_xI (Coq_xI (Coq_xI (Coq_xO (Coq_xO (Coq_xO
          (Coq_xO (Coq_xI (Coq_xI Coq_xH)))))))))), old, new0, true)))
     else ((set_pc w1 t (UsLoad m)), (EvCas ((Zpos (Coq_xI (Coq_xI (Coq_xI
            (Coq_xO (Coq_xO (Coq_xO (Coq_xO (Coq_xI (Coq_xI Coq_xH)))))))))),
            old, new0, false)))
   | UsRelLoad (m, u) ->
     ((set_pc w t (UsRelCas (m, u, w.word))), (EvLoad ((Zpos (Coq_xO (Coq_xO
       (Coq_xO (Coq_xI (Coq_xO (Coq_xO (Coq_xO (Coq_xI (Coq_xI
       Coq_xH)))))))))), w.word)))
   | UsRelCas (m, u, old) ->
     let new0 = nsync_mu_unlock_slow_cas3_new old u.late u.set_on u.clear_on
     in
     let (w1, ok) = cas w old new0 in
     if ok
     then ((set_pc w1 t
             (match u.wake with
              | [] -> Idle
              | _ :: _ -> UsWakeStore (m, u))), (EvCas ((Zpos (Coq_xI (Coq_xO
            (Coq_xO (Coq_xI (Coq_xO (Coq_xO (Coq_xO (Coq_xI (Coq_xI
            Coq_xH)))))))))), old, new0, true)))
     else ((set_pc w1 t (UsRelLoad (m, u))), (EvCas ((Zpos (Coq_xI (Coq_xO
            (Coq_xO (Coq_xI (Coq_xO (Coq_xO (Coq_xO (Coq_xI (Coq_xI
            Coq_xH)))))))))), old, new0, false)))
   | UsWakeStore (m, u) ->
     (match u.wake with
      | [] -> ((set_pc w t Idle), EvNone)
      | p :: rest ->
        ((set_pc (set_waiting w p false) t (UsWakeV (m, p, { wake = rest;
           set_on = u.set_on; clear_on = u.clear_on; late = u.late }))),
          (EvStoreWaiting (p, Z0))))
   | UsWakeV (m, p, u) ->
     ((set_pc (set_sem w p (Z.add (w.sem p) (Zpos Coq_xH))) t
        (match u.wake with
         | [] -> Idle
         | _ :: _ -> UsWakeStore (m, u))), (EvV p))
   | Crash _ -> (w, EvCrash))

(** val init : op list list -> world **)

let init progs =
  { word = Z0; queue = []; waiting = (fun _ -> false); sem = (fun _ -> Z0);
    wtype = (fun _ -> W); thr =
    (map (fun p -> { t_pc = Idle; t_ops = p; held = None; sleeps = Z0;
      last_try = None }) progs) }
