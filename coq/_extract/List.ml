open Datatypes

(** val nth : nat -> 'a1 list -> 'a1 -> 'a1 **)

let rec nth n l default =
  match n with
  | O -> (match l with
          | [] -> default
          | x :: _ -> x)
  | S m -> (match l with
            | [] -> default
            | _ :: t -> nth m t default)

(** val nth_error : 'a1 list -> nat -> 'a1 option **)

let rec nth_error l = function
| O -> (match l with
        | [] -> None
        | x :: _ -> Some x)
| S n0 -> (match l with
           | [] -> None
           | _ :: l0 -> nth_error l0 n0)

(** val map : ('a1 -> 'a2) -> 'a1 list -> 'a2 list **)

let rec map f = function
| [] -> []
| a :: t -> (f a) :: (map f t)

(** val repeat : 'a1 -> nat -> 'a1 list **)

let rec repeat x = function
| O -> []
| S k -> x :: (repeat x k)
