open BinInt
open BinNums
open Consts
open Datatypes
open List
open Sites

type tm = { t_sec : coq_Z; t_nsec : coq_Z }

(** val tm_ns : tm -> coq_Z **)

let tm_ns t =
  Z.add
    (Z.mul t.t_sec (Zpos (Coq_xO (Coq_xO (Coq_xO (Coq_xO (Coq_xO (Coq_xO
      (Coq_xO (Coq_xO (Coq_xO (Coq_xI (Coq_xO (Coq_xI (Coq_xO (Coq_xO (Coq_xI
      (Coq_xI (Coq_xO (Coq_xI (Coq_xO (Coq_xI (Coq_xI (Coq_xO (Coq_xO (Coq_xI
      (Coq_xI (Coq_xI (Coq_xO (Coq_xI (Coq_xI
      Coq_xH))))))))))))))))))))))))))))))) t.t_nsec

(** val is_no_deadline : tm -> bool **)

let is_no_deadline t =
  (&&) (Z.eqb t.t_sec time_no_deadline_sec)
    (Z.eqb t.t_nsec time_no_deadline_nsec)

(** val ts_valid : tm -> bool **)

let ts_valid t =
  (&&) ((&&) (Z.leb Z0 t.t_sec) (Z.leb Z0 t.t_nsec))
    (Z.ltb t.t_nsec (Zpos (Coq_xO (Coq_xO (Coq_xO (Coq_xO (Coq_xO (Coq_xO
      (Coq_xO (Coq_xO (Coq_xO (Coq_xI (Coq_xO (Coq_xI (Coq_xO (Coq_xO (Coq_xI
      (Coq_xI (Coq_xO (Coq_xI (Coq_xO (Coq_xI (Coq_xI (Coq_xO (Coq_xO (Coq_xI
      (Coq_xI (Coq_xI (Coq_xO (Coq_xI (Coq_xI
      Coq_xH)))))))))))))))))))))))))))))))

(** val ts_of : tm -> tm option **)

let ts_of d =
  if is_no_deadline d
  then None
  else Some (if Z.ltb d.t_sec Z0 then { t_sec = Z0; t_nsec = Z0 } else d)

type opc =
| OIdle
| PLoad
| PFutex
| PSleep
| PCas of coq_Z
| TLoad of tm
| TFutex of tm
| TSleep of tm
| TClock of tm
| TCas of tm * coq_Z
| OCrash

type ppc =
| VIdle
| VLoad
| VCas of coq_Z
| VWake

type ores =
| RNone
| ROk
| RTimedOut

type world = { word : coq_Z; clock : coq_Z; owner : opc;
               oprog : tm option list; last : ores;
               posters : (ppc * nat) list; nP : coq_Z; nV : coq_Z;
               ret0 : coq_Z; early : coq_Z }

(** val clock : world -> coq_Z **)

let clock w =
  w.clock

type actor =
| Owner
| Poster of nat
| Tick of coq_Z

type choice =
| CNormal
| CEintr
| CEarlyTimeout

type ev =
| EvLoad of coq_Z * coq_Z
| EvCas of coq_Z * coq_Z * coq_Z * bool
| EvFutexWait of coq_Z
| EvFutexTs of tm option
| EvWake of coq_Z
| EvClock
| EvRet of coq_Z
| EvTick
| EvNone
| EvCrash

(** val set_owner : world -> opc -> world **)

let set_owner w o =
  { word = w.word; clock = w.clock; owner = o; oprog = w.oprog; last =
    w.last; posters = w.posters; nP = w.nP; nV = w.nV; ret0 = w.ret0; early =
    w.early }

(** val set_word : world -> coq_Z -> world **)

let set_word w v =
  { word = v; clock = w.clock; owner = w.owner; oprog = w.oprog; last =
    w.last; posters = w.posters; nP = w.nP; nV = w.nV; ret0 = w.ret0; early =
    w.early }

(** val lupd : 'a1 list -> nat -> 'a1 -> 'a1 list **)

let rec lupd l k v =
  match l with
  | [] -> []
  | x :: t -> (match k with
               | O -> v :: t
               | S k' -> x :: (lupd t k' v))

(** val set_poster : world -> nat -> (ppc * nat) -> world **)

let set_poster w k p =
  { word = w.word; clock = w.clock; owner = w.owner; oprog = w.oprog; last =
    w.last; posters = (lupd w.posters k p); nP = w.nP; nV = w.nV; ret0 =
    w.ret0; early = w.early }

(** val ret_ok : world -> world **)

let ret_ok w =
  { word = w.word; clock = w.clock; owner = OIdle; oprog = w.oprog; last =
    ROk; posters = w.posters; nP = w.nP; nV = w.nV; ret0 =
    (Z.add w.ret0 (Zpos Coq_xH)); early = w.early }

(** val ret_timeout : world -> tm -> world **)

let ret_timeout w d =
  { word = w.word; clock = w.clock; owner = OIdle; oprog = w.oprog; last =
    RTimedOut; posters = w.posters; nP = w.nP; nV = w.nV; ret0 = w.ret0;
    early =
    (if Z.ltb w.clock (tm_ns d) then Z.add w.early (Zpos Coq_xH) else w.early) }

(** val incP : world -> world **)

let incP w =
  { word = w.word; clock = w.clock; owner = w.owner; oprog = w.oprog; last =
    w.last; posters = w.posters; nP = (Z.add w.nP (Zpos Coq_xH)); nV = w.nV;
    ret0 = w.ret0; early = w.early }

(** val incV : world -> world **)

let incV w =
  { word = w.word; clock = w.clock; owner = w.owner; oprog = w.oprog; last =
    w.last; posters = w.posters; nP = w.nP; nV = (Z.add w.nV (Zpos Coq_xH));
    ret0 = w.ret0; early = w.early }

(** val owner_asleep : world -> bool **)

let owner_asleep w =
  match w.owner with
  | PSleep -> true
  | TSleep _ -> true
  | _ -> false

(** val begin_owner : world -> world **)

let begin_owner w =
  match w.owner with
  | OIdle ->
    (match w.oprog with
     | [] -> w
     | o :: rest ->
       (match o with
        | Some d ->
          { word = w.word; clock = w.clock; owner = (TLoad d); oprog = rest;
            last = w.last; posters = w.posters; nP = w.nP; nV = w.nV; ret0 =
            w.ret0; early = w.early }
        | None ->
          { word = w.word; clock = w.clock; owner = PLoad; oprog = rest;
            last = w.last; posters = w.posters; nP = w.nP; nV = w.nV; ret0 =
            w.ret0; early = w.early }))
  | _ -> w

(** val step_owner : world -> choice -> world * ev **)

let step_owner w0 c =
  let w = begin_owner w0 in
  (match w.owner with
   | OIdle -> (w, EvNone)
   | PLoad ->
     let i = w.word in
     if nsync_mu_semaphore_p_cas1_guard i
     then ((set_owner w (PCas i)), (EvLoad ((Zpos (Coq_xI (Coq_xO (Coq_xI
            (Coq_xO (Coq_xO (Coq_xI Coq_xH))))))), i)))
     else ((set_owner w PFutex), (EvLoad ((Zpos (Coq_xI (Coq_xO (Coq_xI
            (Coq_xO (Coq_xO (Coq_xI Coq_xH))))))), i)))
   | PFutex ->
     if negb (Z.eqb w.word Z0)
     then ((set_owner w PLoad), (EvFutexWait coq_EAGAIN))
     else (match c with
           | CEintr -> ((set_owner w PLoad), (EvFutexWait coq_EINTR))
           | _ -> ((set_owner w PSleep), (EvFutexWait Z0)))
   | PSleep ->
     (match c with
      | CEintr -> ((set_owner w PLoad), (EvFutexWait coq_EINTR))
      | _ -> (w, EvNone))
   | PCas i ->
     let new0 = nsync_mu_semaphore_p_cas1_new i in
     if Z.eqb w.word i
     then ((ret_ok (incP (set_word w new0))), (EvCas ((Zpos (Coq_xO (Coq_xI
            (Coq_xI (Coq_xO (Coq_xO (Coq_xI Coq_xH))))))), i, new0, true)))
     else ((set_owner w PLoad), (EvCas ((Zpos (Coq_xO (Coq_xI (Coq_xI (Coq_xO
            (Coq_xO (Coq_xI Coq_xH))))))), i, new0, false)))
   | TLoad d ->
     let i = w.word in
     if nsync_mu_semaphore_p_with_deadline_cas1_guard Z0 i
     then ((set_owner w (TCas (d, i))), (EvLoad ((Zpos (Coq_xI (Coq_xO
            (Coq_xO (Coq_xI (Coq_xO (Coq_xO (Coq_xI Coq_xH)))))))), i)))
     else ((set_owner w (TFutex d)), (EvLoad ((Zpos (Coq_xI (Coq_xO (Coq_xO
            (Coq_xI (Coq_xO (Coq_xO (Coq_xI Coq_xH)))))))), i)))
   | TFutex d ->
     (match ts_of d with
      | Some ts ->
        if negb (ts_valid ts)
        then ((set_owner w OCrash), (EvFutexWait coq_EINVAL))
        else if negb (Z.eqb w.word Z0)
             then ((set_owner w (TLoad d)), (EvFutexWait coq_EAGAIN))
             else (match c with
                   | CNormal ->
                     if Z.leb (tm_ns ts) w.clock
                     then ((set_owner w (TClock d)), (EvFutexWait
                            coq_ETIMEDOUT))
                     else ((set_owner w (TSleep d)), (EvFutexWait Z0))
                   | CEintr ->
                     ((set_owner w (TLoad d)), (EvFutexWait coq_EINTR))
                   | CEarlyTimeout ->
                     ((set_owner w (TClock d)), (EvFutexWait coq_ETIMEDOUT)))
      | None ->
        if negb (Z.eqb w.word Z0)
        then ((set_owner w (TLoad d)), (EvFutexWait coq_EAGAIN))
        else (match c with
              | CEintr -> ((set_owner w (TLoad d)), (EvFutexWait coq_EINTR))
              | _ -> ((set_owner w (TSleep d)), (EvFutexWait Z0))))
   | TSleep d ->
     (match c with
      | CNormal ->
        (match ts_of d with
         | Some ts ->
           if Z.leb (tm_ns ts) w.clock
           then ((set_owner w (TClock d)), (EvFutexWait coq_ETIMEDOUT))
           else (w, EvNone)
         | None -> (w, EvNone))
      | CEintr -> ((set_owner w (TLoad d)), (EvFutexWait coq_EINTR))
      | CEarlyTimeout ->
        (match ts_of d with
         | Some _ -> ((set_owner w (TClock d)), (EvFutexWait coq_ETIMEDOUT))
         | None -> (w, EvNone)))
   | TClock d ->
     if Z.leb (tm_ns d) w.clock
     then ((ret_timeout w d), (EvRet coq_ETIMEDOUT))
     else ((set_owner w (TLoad d)), EvClock)
   | TCas (d, i) ->
     let new0 = nsync_mu_semaphore_p_with_deadline_cas1_new i in
     if Z.eqb w.word i
     then ((ret_ok (incP (set_word w new0))), (EvCas ((Zpos (Coq_xO (Coq_xI
            (Coq_xO (Coq_xI (Coq_xO (Coq_xO (Coq_xI Coq_xH)))))))), i, new0,
            true)))
     else ((set_owner w (TLoad d)), (EvCas ((Zpos (Coq_xO (Coq_xI (Coq_xO
            (Coq_xI (Coq_xO (Coq_xO (Coq_xI Coq_xH)))))))), i, new0, false)))
   | OCrash -> (w, EvCrash))

(** val wake_owner : world -> world **)

let wake_owner w =
  match w.owner with
  | PSleep -> set_owner w PLoad
  | TSleep d -> set_owner w (TLoad d)
  | _ -> w

(** val step_poster : world -> nat -> world * ev **)

let step_poster w k =
  match nth_error w.posters k with
  | Some p ->
    let (p0, n) = p in
    (match p0 with
     | VIdle ->
       (match n with
        | O -> (w, EvNone)
        | S n0 ->
          ((set_poster w k ((VCas w.word), n0)), (EvLoad ((Zpos (Coq_xI
            (Coq_xO (Coq_xI (Coq_xI (Coq_xO (Coq_xI (Coq_xO (Coq_xO
            Coq_xH))))))))), w.word))))
     | VLoad ->
       ((set_poster w k ((VCas w.word), n)), (EvLoad ((Zpos (Coq_xI (Coq_xO
         (Coq_xI (Coq_xI (Coq_xO (Coq_xI (Coq_xO (Coq_xO Coq_xH))))))))),
         w.word)))
     | VCas old ->
       let new0 = nsync_mu_semaphore_v_cas1_new old in
       if Z.eqb w.word old
       then ((incV (set_poster (set_word w new0) k (VWake, n))), (EvCas
              ((Zpos (Coq_xO (Coq_xI (Coq_xI (Coq_xI (Coq_xO (Coq_xI (Coq_xO
              (Coq_xO Coq_xH))))))))), old, new0, true)))
       else ((set_poster w k (VLoad, n)), (EvCas ((Zpos (Coq_xO (Coq_xI
              (Coq_xI (Coq_xI (Coq_xO (Coq_xI (Coq_xO (Coq_xO
              Coq_xH))))))))), old, new0, false)))
     | VWake ->
       ((set_poster (wake_owner w) k (VIdle, n)), (EvWake
         (if owner_asleep w then Zpos Coq_xH else Z0))))
  | None -> (w, EvNone)

(** val step : world -> actor -> choice -> world * ev **)

let step w a c =
  match a with
  | Owner -> step_owner w c
  | Poster k -> step_poster w k
  | Tick dt ->
    if Z.leb Z0 dt
    then ({ word = w.word; clock = (Z.add w.clock dt); owner = w.owner;
           oprog = w.oprog; last = w.last; posters = w.posters; nP = w.nP;
           nV = w.nV; ret0 = w.ret0; early = w.early }, EvTick)
    else (w, EvNone)

(** val init : tm option list -> nat list -> coq_Z -> world **)

let init prog posts clock0 =
  { word = Z0; clock = clock0; owner = OIdle; oprog = prog; last = RNone;
    posters = (map (fun n -> (VIdle, n)) posts); nP = Z0; nV = Z0; ret0 = Z0;
    early = Z0 }
