open BinInt
open BinNums

val wrap_u : coq_Z -> coq_Z -> coq_Z

val wrap_s : coq_Z -> coq_Z -> coq_Z
