open Datatypes

module Nat =
 struct
  (** val eqb : nat -> nat -> bool **)

  let rec eqb n m =
    match n with
    | O -> (match m with
            | O -> true
            | S _ -> false)
    | S n' -> (match m with
               | O -> false
               | S m' -> eqb n' m')
 end
