open BinInt
open BinNums
open CSem
open Consts
open Datatypes
open List
open PeanoNat
open Sites

type mode =
| W
| R

val mode_eqb : mode -> mode -> bool

val lt_of : mode -> lock_type

val band : coq_Z -> coq_Z -> coq_Z

val bor : coq_Z -> coq_Z -> coq_Z

val bnot32 : coq_Z -> coq_Z

val has : coq_Z -> coq_Z -> bool

type coq_lsl = { zta : coq_Z; clr : coq_Z; longw : coq_Z; wcount : coq_Z }

type usl = { wake : nat list; set_on : coq_Z; clear_on : coq_Z; late : coq_Z }

type pc =
| Idle
| LkFast of mode
| LkLoad of mode
| LkCas2 of mode * coq_Z
| TryFast of mode
| TryLoad of mode
| TryCas2 of mode * coq_Z
| LsLoad of mode * coq_lsl
| LsCasAcq of mode * coq_lsl * coq_Z
| LsCasEnq of mode * coq_lsl * coq_Z
| LsStoreWaiting of mode * coq_lsl
| LsRelLoad of mode * coq_lsl
| LsRelCas of mode * coq_lsl * coq_Z
| LsWaitLoad of mode * coq_lsl
| LsSemP of mode * coq_lsl
| UlFast of mode
| UlLoad of mode
| UlCas2 of mode * coq_Z
| UsLoad of mode
| UsCasRel of mode * coq_Z
| UsCasSpin of mode * coq_Z
| UsRelLoad of mode * usl
| UsRelCas of mode * usl * coq_Z
| UsWakeStore of mode * usl
| UsWakeV of mode * nat * usl
| Crash of coq_Z

type op =
| OLock of mode
| OTry of mode
| OUnlock

type tstate = { t_pc : pc; t_ops : op list; held : mode option;
                sleeps : coq_Z; last_try : bool option }

type world = { word : coq_Z; queue : nat list; waiting : (nat -> bool);
               sem : (nat -> coq_Z); wtype : (nat -> mode); thr : tstate list }

val word : world -> coq_Z

val queue : world -> nat list

val waiting : world -> nat -> bool

val sem : world -> nat -> coq_Z

val fupd : (nat -> 'a1) -> nat -> 'a1 -> nat -> 'a1

val lupd : 'a1 list -> nat -> 'a1 -> 'a1 list

val dflt_t : tstate

val get : world -> nat -> tstate

val set_t : world -> nat -> tstate -> world

val set_pc : world -> nat -> pc -> world

val set_word : world -> coq_Z -> world

val set_queue : world -> nat list -> world

val set_waiting : world -> nat -> bool -> world

val set_sem : world -> nat -> coq_Z -> world

val set_wtype : world -> nat -> mode -> world

val acquire : world -> nat -> mode -> world

val released : world -> nat -> world

val set_try : world -> nat -> bool -> world

type ev =
| EvCas of coq_Z * coq_Z * coq_Z * bool
| EvLoad of coq_Z * coq_Z
| EvStoreWaiting of nat * coq_Z
| EvLoadWaiting of coq_Z
| EvP
| EvV of nat
| EvBlocked
| EvNone
| EvCrash

val fid_lock : mode -> coq_Z

val fid_try : mode -> coq_Z

val fid_unlock : mode -> coq_Z

val fast_new : mode -> coq_Z

val fast_guard2 : mode -> coq_Z -> bool

val fast_new2 : mode -> coq_Z -> coq_Z

val try_new : mode -> coq_Z

val try_guard2 : mode -> coq_Z -> bool

val try_new2 : mode -> coq_Z -> coq_Z

val ufast_old : mode -> coq_Z

val ls_init : mode -> coq_lsl

val unlock_bad : mode -> coq_Z -> bool

val unlock_try_cas2 : mode -> coq_Z -> bool

val ufast_new : mode -> coq_Z

val unlock_new2 : mode -> coq_Z -> coq_Z

val scan :
  (nat -> mode) -> nat list -> mode option -> nat list -> nat list -> coq_Z
  -> (nat list * nat list) * coq_Z

val us_after_scan : world -> usl * nat list

val cas : world -> coq_Z -> coq_Z -> world * bool

val begin_op : world -> nat -> world

val step : world -> nat -> world * ev

val init : op list list -> world
