open BinInt
open BinNums

(** val wrap_u : coq_Z -> coq_Z -> coq_Z **)

let wrap_u w x =
  Z.modulo x (Z.pow (Zpos (Coq_xO Coq_xH)) w)

(** val wrap_s : coq_Z -> coq_Z -> coq_Z **)

let wrap_s w x =
  Z.sub
    (Z.modulo
      (Z.add x (Z.pow (Zpos (Coq_xO Coq_xH)) (Z.sub w (Zpos Coq_xH))))
      (Z.pow (Zpos (Coq_xO Coq_xH)) w))
    (Z.pow (Zpos (Coq_xO Coq_xH)) (Z.sub w (Zpos Coq_xH)))
