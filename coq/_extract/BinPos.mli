open BinNums
open Datatypes

module Pos :
 sig
  val succ : positive -> positive

  val add : positive -> positive -> positive

  val add_carry : positive -> positive -> positive

  val pred_double : positive -> positive

  val pred_N : positive -> coq_N

  val mul : positive -> positive -> positive

  val iter : ('a1 -> 'a1) -> 'a1 -> positive -> 'a1

  val div2 : positive -> positive

  val div2_up : positive -> positive

  val compare_cont : comparison -> positive -> positive -> comparison

  val compare : positive -> positive -> comparison

  val eqb : positive -> positive -> bool

  val coq_Nsucc_double : coq_N -> coq_N

  val coq_Ndouble : coq_N -> coq_N

  val coq_lor : positive -> positive -> positive

  val coq_land : positive -> positive -> coq_N

  val ldiff : positive -> positive -> coq_N

  val coq_lxor : positive -> positive -> coq_N
 end
