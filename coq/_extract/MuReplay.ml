open Datatypes
open List
open MuModel

(** val push_op : world -> nat -> op -> world **)

let push_op w t o =
  let s = get w t in
  set_t w t { t_pc = s.t_pc; t_ops = (app s.t_ops (o :: [])); held = s.held;
    sleeps = s.sleeps; last_try = s.last_try }

(** val is_idle : world -> nat -> bool **)

let is_idle w t =
  match (get w t).t_pc with
  | Idle -> true
  | _ -> false

(** val init_n : nat -> world **)

let init_n n =
  init (repeat [] n)
