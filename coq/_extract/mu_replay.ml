(* Lock-step replay of an implementation trace (harness/rt/vrt.c format) against the
   extracted MuModel: every atomic step of the real mu.c must be the step the model
   takes for that thread, with the same values read and written and the same queue. *)
open MuModel

let rec z_of_int (i : int) : BinNums.coq_Z =
  if i = 0 then BinNums.Z0
  else if i > 0 then BinNums.Zpos (pos_of_int i)
  else BinNums.Zneg (pos_of_int (-i))
and pos_of_int (i : int) : BinNums.positive =
  if i = 1 then BinNums.Coq_xH
  else if i land 1 = 1 then BinNums.Coq_xI (pos_of_int (i lsr 1))
  else BinNums.Coq_xO (pos_of_int (i lsr 1))
let rec int_of_pos = function
  | BinNums.Coq_xH -> 1
  | BinNums.Coq_xI p -> 2 * int_of_pos p + 1
  | BinNums.Coq_xO p -> 2 * int_of_pos p
let int_of_z = function BinNums.Z0 -> 0 | BinNums.Zpos p -> int_of_pos p | BinNums.Zneg p -> - (int_of_pos p)
let rec nat_of_int i = if i <= 0 then Datatypes.O else Datatypes.S (nat_of_int (i - 1))
let rec int_of_nat = function Datatypes.O -> 0 | Datatypes.S n -> 1 + int_of_nat n

(* site table: file:line -> (function, ordinal) read from Gen/Sites.json *)
let sites : (string * int, string * int) Hashtbl.t = Hashtbl.create 256

let load_sites path =
  let ic = open_in path in
  let n = in_channel_length ic in
  let s = really_input_string ic n in
  close_in ic;
  (* tiny ad-hoc parser: objects are flat, fields "file","fn","ord","line" *)
  let re_obj = Str.regexp "{[^}]*}" in
  let field o name =
    let re = Str.regexp ("\"" ^ name ^ "\": *\\(\"[^\"]*\"\\|[0-9]+\\)") in
    ignore (Str.search_forward re o 0);
    let v = Str.matched_group 1 o in
    if String.length v > 0 && v.[0] = '"' then String.sub v 1 (String.length v - 2) else v in
  let pos = ref 0 in
  (try
     while true do
       let p = Str.search_forward re_obj s !pos in
       let o = Str.matched_string s in
       pos := p + String.length o;
       (try Hashtbl.replace sites (field o "file", int_of_string (field o "line")) (field o "fn", int_of_string (field o "ord"))
        with Not_found -> ())
     done
   with Not_found -> ())

let fid = function
  | "nsync_mu_lock" -> 100 | "nsync_mu_rlock" -> 200 | "nsync_mu_trylock" -> 300 | "nsync_mu_rtrylock" -> 400
  | "nsync_mu_lock_slow_" -> 500 | "mu_release_spinlock" -> 600 | "nsync_mu_unlock" -> 700
  | "nsync_mu_runlock" -> 800 | "nsync_mu_unlock_slow_" -> 900 | _ -> -1

exception Mismatch of string

let () =
  let trace = Sys.argv.(1) and sites_json = Sys.argv.(2) in
  load_sites sites_json;
  let ic = open_in trace in
  let nthreads = ref 12 in
  let w = ref (MuReplay.init_n (nat_of_int !nthreads)) in
  let blk_of_thread : (int, string) Hashtbl.t = Hashtbl.create 16 in
  let thread_of_blk : (string, int) Hashtbl.t = Hashtbl.create 16 in
  let steps = ref 0 and skipped = ref 0 and snaps = ref 0 in
  let covered : (int, int) Hashtbl.t = Hashtbl.create 64 in
  let last_ev = ref "" in
  let blk_of obj = try String.sub obj 0 (String.index obj '+') with Not_found -> obj in
  let fail msg = raise (Mismatch (Printf.sprintf "%s (at trace event: %s)" msg !last_ev)) in
  let note_site k = Hashtbl.replace covered k (1 + try Hashtbl.find covered k with Not_found -> 0) in
  let do_step t expect =
    let (w', ev) = MuModel.step !w (nat_of_int t) in
    w := w'; incr steps;
    expect ev in
  let ensure_op t o = if MuReplay.is_idle !w (nat_of_int t) then w := MuReplay.push_op !w (nat_of_int t) o in
  (try
     while true do
       let line = input_line ic in
       if String.length line > 2 && line.[0] = 'E' then begin
         last_ev := line;
         match String.split_on_char ' ' line with
         | [_; _step; tid; kind; _order; where; obj; a; b; ok; _now] ->
           let t = int_of_string tid and a = int_of_string a and b = int_of_string b and ok = (ok = "1") in
           let file, ln = (match String.split_on_char ':' where with [f; l] -> f, (try int_of_string l with _ -> 0) | _ -> where, 0) in
           if file = "mu.c" then begin
             let (fn, ord) = try Hashtbl.find sites (file, ln) with Not_found -> fail "trace site not in Gen/Sites" in
             let f = fid fn in
             if fn = "nsync_remove_from_mu_queue_" then incr skipped   (* remove_count bookkeeping: a stutter step here *)
             else begin
             if f < 0 then fail ("function outside MuModel: " ^ fn);
             (* entry of a call: tell the model which operation the thread starts *)
             (match f, ord with
              | 100, 1 -> ensure_op t (OLock W) | 200, 1 -> ensure_op t (OLock R)
              | 300, 1 -> ensure_op t (OTry W) | 400, 1 -> ensure_op t (OTry R)
              | 700, 1 | 800, 1 -> ensure_op t OUnlock
              | _ -> ());
             let key = (match f, ord with 600, 3 -> 601 | 900, 6 -> 904 | _ -> f + ord) in
             note_site key;
             do_step t (fun ev ->
               match kind, ev with
               | "cas", EvCas (s, o, n, k) ->
                 if int_of_z s <> key then fail (Printf.sprintf "model is at site %d, implementation at %d" (int_of_z s) key);
                 if int_of_z o <> a || int_of_z n <> b then fail (Printf.sprintf "CAS values differ: model %d->%d, implementation %d->%d" (int_of_z o) (int_of_z n) a b);
                 if k <> ok then fail "CAS outcome differs"
               | "load", EvLoad (s, v) ->
                 if int_of_z s <> key then fail (Printf.sprintf "model is at site %d, implementation at %d" (int_of_z s) key);
                 if int_of_z v <> a then fail (Printf.sprintf "load value differs: model %d implementation %d" (int_of_z v) a)
               | "store", EvStoreWaiting (p, v) ->
                 let blk = blk_of obj in
                 if key = 504 then begin Hashtbl.replace blk_of_thread t blk; Hashtbl.replace thread_of_blk blk t end;
                 let tp = (try Hashtbl.find thread_of_blk blk with Not_found -> fail "store to unknown waiter") in
                 if int_of_nat p <> tp then fail (Printf.sprintf "waiting store targets thread %d in the model, %d in the implementation" (int_of_nat p) tp);
                 if int_of_z v <> b then fail "waiting store value differs"
               | "load", EvLoadWaiting v ->
                 if key <> 505 then fail "model reads waiting, implementation elsewhere";
                 if int_of_z v <> a then fail (Printf.sprintf "waiting flag differs: model %d implementation %d" (int_of_z v) a)
               | _, EvBlocked -> fail "model thread is blocked on its semaphore but the implementation thread moved"
               | _, _ -> fail ("event kinds differ (implementation " ^ kind ^ ")"))
             end
           end else if file = "nsync_semaphore_futex.c" && kind = "cas" && ok then begin
             let (fn, _) = try Hashtbl.find sites (file, ln) with Not_found -> fail "semaphore site not in Gen/Sites" in
             if fn = "nsync_mu_semaphore_p" then
               do_step t (fun ev -> match ev with EvP -> () | EvBlocked -> fail "P succeeded in the implementation but the model's count is 0" | _ -> fail "implementation completed P, model elsewhere")
             else if fn = "nsync_mu_semaphore_v" then
               do_step t (fun ev -> match ev with
                 | EvV p ->
                   let tp = (try Hashtbl.find thread_of_blk (blk_of obj) with Not_found -> fail "V on unknown waiter") in
                   if int_of_nat p <> tp then fail "V targets a different waiter"
                 | _ -> fail "implementation completed V, model elsewhere")
             else incr skipped
           end else incr skipped
         | _ -> ()
       end else if String.length line > 2 && line.[0] = 'S' && !steps > 0 then begin
         (* snapshot of the real queue after the step *)
         match String.split_on_char ' ' line with
         | _ :: "Q" :: blks ->
           incr snaps;
           let real = Stdlib.List.map (fun b -> try Hashtbl.find thread_of_blk (blk_of b) with Not_found -> -1) (Stdlib.List.filter (fun s -> s <> "") blks) in
           let model = Stdlib.List.map int_of_nat (MuModel.queue !w) in
           (* while some thread owns the queue spinlock the list is private to it (unlock_slow swaps it out
              between two of its atomic sites): compare only when the spinlock is free *)
           let spin_held = (int_of_z (MuModel.word !w)) land (int_of_z Consts.coq_MU_SPINLOCK) <> 0 in
           if (not spin_held) && real <> model then
             fail (Printf.sprintf "queue differs: model [%s] implementation [%s]"
                     (String.concat ";" (Stdlib.List.map string_of_int model)) (String.concat ";" (Stdlib.List.map string_of_int real)))
         | _ -> ()
       end
     done
   with
   | End_of_file -> ()
   | Mismatch m -> Printf.printf "MISMATCH %s\n" m; exit 1);
  let cov = Hashtbl.fold (fun k v acc -> Printf.sprintf "%d:%d" k v :: acc) covered [] in
  Printf.printf "OK steps=%d skipped=%d snapshots=%d sites=%s\n" !steps !skipped !snaps (String.concat "," (Stdlib.List.sort compare cov))
