open Datatypes

val nth : nat -> 'a1 list -> 'a1 -> 'a1

val map : ('a1 -> 'a2) -> 'a1 list -> 'a2 list

val repeat : 'a1 -> nat -> 'a1 list
