open Datatypes

val nth : nat -> 'a1 list -> 'a1 -> 'a1

val nth_error : 'a1 list -> nat -> 'a1 option

val map : ('a1 -> 'a2) -> 'a1 list -> 'a2 list

val repeat : 'a1 -> nat -> 'a1 list
