open BinInt
open BinNums
open Consts
open Datatypes
open List
open Sites

type tm = { t_sec : coq_Z; t_nsec : coq_Z }

val tm_ns : tm -> coq_Z

val is_no_deadline : tm -> bool

val ts_valid : tm -> bool

val ts_of : tm -> tm option

type opc =
| OIdle
| PLoad
| PFutex
| PSleep
| PCas of coq_Z
| TLoad of tm
| TFutex of tm
| TSleep of tm
| TClock of tm
| TCas of tm * coq_Z
| OCrash

type ppc =
| VIdle
| VLoad
| VCas of coq_Z
| VWake

type ores =
| RNone
| ROk
| RTimedOut

type world = { word : coq_Z; clock : coq_Z; owner : opc;
               oprog : tm option list; last : ores;
               posters : (ppc * nat) list; nP : coq_Z; nV : coq_Z;
               ret0 : coq_Z; early : coq_Z }

val clock : world -> coq_Z

type actor =
| Owner
| Poster of nat
| Tick of coq_Z

type choice =
| CNormal
| CEintr
| CEarlyTimeout

type ev =
| EvLoad of coq_Z * coq_Z
| EvCas of coq_Z * coq_Z * coq_Z * bool
| EvFutexWait of coq_Z
| EvFutexTs of tm option
| EvWake of coq_Z
| EvClock
| EvRet of coq_Z
| EvTick
| EvNone
| EvCrash

val set_owner : world -> opc -> world

val set_word : world -> coq_Z -> world

val lupd : 'a1 list -> nat -> 'a1 -> 'a1 list

val set_poster : world -> nat -> (ppc * nat) -> world

val ret_ok : world -> world

val ret_timeout : world -> tm -> world

val incP : world -> world

val incV : world -> world

val owner_asleep : world -> bool

val begin_owner : world -> world

val step_owner : world -> choice -> world * ev

val wake_owner : world -> world

val step_poster : world -> nat -> world * ev

val step : world -> actor -> choice -> world * ev

val init : tm option list -> nat list -> coq_Z -> world
