
(** val negb : bool -> bool **)

let negb = function
| true -> false
| false -> true

type nat =
| O
| S of nat

(** val app : 'a1 list -> 'a1 list -> 'a1 list **)

let rec app l m =
  match l with
  | [] -> m
  | a :: l1 -> a :: (app l1 m)

type comparison =
| Eq
| Lt
| Gt

(** val coq_CompOpp : comparison -> comparison **)

let coq_CompOpp = function
| Eq -> Eq
| Lt -> Gt
| Gt -> Lt
