open BinInt
open BinNums
open Consts
open Datatypes
open List
open SemModel

val push_call : world -> tm option -> world

val add_post : world -> nat -> world

val poster_idle : world -> nat -> bool

val expected_ts : world -> tm option option

val last_code : world -> coq_Z

val timeout_due : world -> bool
