open Datatypes

module Nat :
 sig
  val eqb : nat -> nat -> bool
 end
