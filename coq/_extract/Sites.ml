open BinInt
open BinNums
open CSem
open Datatypes

type lock_type = { lt_zero_to_acquire : coq_Z; lt_add_to_acquire : coq_Z;
                   lt_held_if_non_zero : coq_Z; lt_set_when_waiting : 
                   coq_Z; lt_clear_on_acquire : coq_Z;
                   lt_clear_on_uncontended_release : coq_Z }

(** val mu_release_spinlock_cas1_new : coq_Z -> coq_Z **)

let mu_release_spinlock_cas1_new old_word =
  wrap_u (Zpos (Coq_xO (Coq_xO (Coq_xO (Coq_xO (Coq_xO Coq_xH))))))
    (Z.coq_land old_word
      (Z.sub (Zpos (Coq_xI (Coq_xI (Coq_xI (Coq_xI (Coq_xI (Coq_xI (Coq_xI
        (Coq_xI (Coq_xI (Coq_xI (Coq_xI (Coq_xI (Coq_xI (Coq_xI (Coq_xI
        (Coq_xI (Coq_xI (Coq_xI (Coq_xI (Coq_xI (Coq_xI (Coq_xI (Coq_xI
        (Coq_xI (Coq_xI (Coq_xI (Coq_xI (Coq_xI (Coq_xI (Coq_xI (Coq_xI
        Coq_xH))))))))))))))))))))))))))))))))
        (wrap_u (Zpos (Coq_xO (Coq_xO (Coq_xO (Coq_xO (Coq_xO Coq_xH))))))
          (wrap_s (Zpos (Coq_xO (Coq_xO (Coq_xO (Coq_xO (Coq_xO Coq_xH))))))
            (Z.shiftl (Zpos Coq_xH) (Zpos Coq_xH))))))

(** val nsync_mu_lock_slow_cas1_new :
    coq_Z -> lock_type -> coq_Z -> coq_Z -> coq_Z **)

let nsync_mu_lock_slow_cas1_new old_word l_type clear long_wait =
  wrap_u (Zpos (Coq_xO (Coq_xO (Coq_xO (Coq_xO (Coq_xO Coq_xH))))))
    (Z.coq_land
      (wrap_u (Zpos (Coq_xO (Coq_xO (Coq_xO (Coq_xO (Coq_xO Coq_xH))))))
        (Z.add old_word l_type.lt_add_to_acquire))
      (Z.sub (Zpos (Coq_xI (Coq_xI (Coq_xI (Coq_xI (Coq_xI (Coq_xI (Coq_xI
        (Coq_xI (Coq_xI (Coq_xI (Coq_xI (Coq_xI (Coq_xI (Coq_xI (Coq_xI
        (Coq_xI (Coq_xI (Coq_xI (Coq_xI (Coq_xI (Coq_xI (Coq_xI (Coq_xI
        (Coq_xI (Coq_xI (Coq_xI (Coq_xI (Coq_xI (Coq_xI (Coq_xI (Coq_xI
        Coq_xH))))))))))))))))))))))))))))))))
        (wrap_u (Zpos (Coq_xO (Coq_xO (Coq_xO (Coq_xO (Coq_xO Coq_xH))))))
          (Z.coq_lor
            (wrap_u (Zpos (Coq_xO (Coq_xO (Coq_xO (Coq_xO (Coq_xO
              Coq_xH)))))) (Z.coq_lor clear long_wait))
            l_type.lt_clear_on_acquire))))

(** val nsync_mu_lock_slow_cas1_guard : coq_Z -> coq_Z -> bool **)

let nsync_mu_lock_slow_cas1_guard old_word zero_to_acquire =
  Z.eqb
    (wrap_u (Zpos (Coq_xO (Coq_xO (Coq_xO (Coq_xO (Coq_xO Coq_xH))))))
      (Z.coq_land old_word zero_to_acquire))
    (wrap_u (Zpos (Coq_xO (Coq_xO (Coq_xO (Coq_xO (Coq_xO Coq_xH)))))) Z0)

(** val nsync_mu_lock_slow_cas2_new :
    coq_Z -> coq_Z -> lock_type -> coq_Z -> coq_Z **)

let nsync_mu_lock_slow_cas2_new old_word long_wait l_type clear =
  wrap_u (Zpos (Coq_xO (Coq_xO (Coq_xO (Coq_xO (Coq_xO Coq_xH))))))
    (Z.coq_land
      (wrap_u (Zpos (Coq_xO (Coq_xO (Coq_xO (Coq_xO (Coq_xO Coq_xH))))))
        (Z.coq_lor
          (wrap_u (Zpos (Coq_xO (Coq_xO (Coq_xO (Coq_xO (Coq_xO Coq_xH))))))
            (Z.coq_lor
              (wrap_u (Zpos (Coq_xO (Coq_xO (Coq_xO (Coq_xO (Coq_xO
                Coq_xH))))))
                (Z.coq_lor old_word
                  (wrap_u (Zpos (Coq_xO (Coq_xO (Coq_xO (Coq_xO (Coq_xO
                    Coq_xH))))))
                    (wrap_s (Zpos (Coq_xO (Coq_xO (Coq_xO (Coq_xO (Coq_xO
                      Coq_xH)))))) (Z.shiftl (Zpos Coq_xH) (Zpos Coq_xH))))))
              long_wait)) l_type.lt_set_when_waiting))
      (Z.sub (Zpos (Coq_xI (Coq_xI (Coq_xI (Coq_xI (Coq_xI (Coq_xI (Coq_xI
        (Coq_xI (Coq_xI (Coq_xI (Coq_xI (Coq_xI (Coq_xI (Coq_xI (Coq_xI
        (Coq_xI (Coq_xI (Coq_xI (Coq_xI (Coq_xI (Coq_xI (Coq_xI (Coq_xI
        (Coq_xI (Coq_xI (Coq_xI (Coq_xI (Coq_xI (Coq_xI (Coq_xI (Coq_xI
        Coq_xH))))))))))))))))))))))))))))))))
        (wrap_u (Zpos (Coq_xO (Coq_xO (Coq_xO (Coq_xO (Coq_xO Coq_xH))))))
          (Z.coq_lor clear
            (wrap_u (Zpos (Coq_xO (Coq_xO (Coq_xO (Coq_xO (Coq_xO
              Coq_xH))))))
              (wrap_s (Zpos (Coq_xO (Coq_xO (Coq_xO (Coq_xO (Coq_xO
                Coq_xH))))))
                (Z.shiftl (Zpos Coq_xH) (Zpos (Coq_xI (Coq_xI Coq_xH))))))))))

(** val nsync_mu_lock_slow_cas2_guard : coq_Z -> coq_Z -> bool **)

let nsync_mu_lock_slow_cas2_guard old_word zero_to_acquire =
  (&&)
    (negb
      (Z.eqb
        (wrap_u (Zpos (Coq_xO (Coq_xO (Coq_xO (Coq_xO (Coq_xO Coq_xH))))))
          (Z.coq_land old_word zero_to_acquire))
        (wrap_u (Zpos (Coq_xO (Coq_xO (Coq_xO (Coq_xO (Coq_xO Coq_xH)))))) Z0)))
    (Z.eqb
      (wrap_u (Zpos (Coq_xO (Coq_xO (Coq_xO (Coq_xO (Coq_xO Coq_xH))))))
        (Z.coq_land old_word
          (wrap_u (Zpos (Coq_xO (Coq_xO (Coq_xO (Coq_xO (Coq_xO Coq_xH))))))
            (wrap_s (Zpos (Coq_xO (Coq_xO (Coq_xO (Coq_xO (Coq_xO
              Coq_xH)))))) (Z.shiftl (Zpos Coq_xH) (Zpos Coq_xH))))))
      (wrap_u (Zpos (Coq_xO (Coq_xO (Coq_xO (Coq_xO (Coq_xO Coq_xH)))))) Z0))

(** val nsync_mu_trylock_cas1_new : coq_Z **)

let nsync_mu_trylock_cas1_new =
  wrap_u (Zpos (Coq_xO (Coq_xO (Coq_xO (Coq_xO (Coq_xO Coq_xH))))))
    (wrap_s (Zpos (Coq_xO (Coq_xO (Coq_xO (Coq_xO (Coq_xO Coq_xH))))))
      (Z.shiftl (Zpos Coq_xH) Z0))

(** val nsync_mu_trylock_cas2_new : coq_Z -> coq_Z **)

let nsync_mu_trylock_cas2_new old_word =
  wrap_u (Zpos (Coq_xO (Coq_xO (Coq_xO (Coq_xO (Coq_xO Coq_xH))))))
    (Z.coq_land
      (wrap_u (Zpos (Coq_xO (Coq_xO (Coq_xO (Coq_xO (Coq_xO Coq_xH))))))
        (Z.add old_word
          (wrap_u (Zpos (Coq_xO (Coq_xO (Coq_xO (Coq_xO (Coq_xO Coq_xH))))))
            (wrap_s (Zpos (Coq_xO (Coq_xO (Coq_xO (Coq_xO (Coq_xO
              Coq_xH)))))) (Z.shiftl (Zpos Coq_xH) Z0)))))
      (Z.sub (Zpos (Coq_xI (Coq_xI (Coq_xI (Coq_xI (Coq_xI (Coq_xI (Coq_xI
        (Coq_xI (Coq_xI (Coq_xI (Coq_xI (Coq_xI (Coq_xI (Coq_xI (Coq_xI
        (Coq_xI (Coq_xI (Coq_xI (Coq_xI (Coq_xI (Coq_xI (Coq_xI (Coq_xI
        (Coq_xI (Coq_xI (Coq_xI (Coq_xI (Coq_xI (Coq_xI (Coq_xI (Coq_xI
        Coq_xH))))))))))))))))))))))))))))))))
        (wrap_u (Zpos (Coq_xO (Coq_xO (Coq_xO (Coq_xO (Coq_xO Coq_xH))))))
          (wrap_s (Zpos (Coq_xO (Coq_xO (Coq_xO (Coq_xO (Coq_xO Coq_xH))))))
            (Z.shiftl (Zpos Coq_xH) (Zpos (Coq_xI (Coq_xO Coq_xH))))))))

(** val nsync_mu_trylock_cas2_guard : coq_Z -> bool **)

let nsync_mu_trylock_cas2_guard old_word =
  Z.eqb
    (wrap_u (Zpos (Coq_xO (Coq_xO (Coq_xO (Coq_xO (Coq_xO Coq_xH))))))
      (Z.coq_land old_word
        (wrap_u (Zpos (Coq_xO (Coq_xO (Coq_xO (Coq_xO (Coq_xO Coq_xH))))))
          (Z.coq_lor
            (wrap_u (Zpos (Coq_xO (Coq_xO (Coq_xO (Coq_xO (Coq_xO
              Coq_xH))))))
              (Z.coq_lor
                (wrap_u (Zpos (Coq_xO (Coq_xO (Coq_xO (Coq_xO (Coq_xO
                  Coq_xH))))))
                  (wrap_s (Zpos (Coq_xO (Coq_xO (Coq_xO (Coq_xO (Coq_xO
                    Coq_xH)))))) (Z.shiftl (Zpos Coq_xH) Z0)))
                (Z.sub (Zpos (Coq_xI (Coq_xI (Coq_xI (Coq_xI (Coq_xI (Coq_xI
                  (Coq_xI (Coq_xI (Coq_xI (Coq_xI (Coq_xI (Coq_xI (Coq_xI
                  (Coq_xI (Coq_xI (Coq_xI (Coq_xI (Coq_xI (Coq_xI (Coq_xI
                  (Coq_xI (Coq_xI (Coq_xI (Coq_xI (Coq_xI (Coq_xI (Coq_xI
                  (Coq_xI (Coq_xI (Coq_xI (Coq_xI
                  Coq_xH))))))))))))))))))))))))))))))))
                  (wrap_u (Zpos (Coq_xO (Coq_xO (Coq_xO (Coq_xO (Coq_xO
                    Coq_xH))))))
                    (Z.sub
                      (wrap_u (Zpos (Coq_xO (Coq_xO (Coq_xO (Coq_xO (Coq_xO
                        Coq_xH))))))
                        (wrap_s (Zpos (Coq_xO (Coq_xO (Coq_xO (Coq_xO (Coq_xO
                          Coq_xH))))))
                          (Z.shiftl (Zpos Coq_xH) (Zpos (Coq_xO (Coq_xO
                            (Coq_xO Coq_xH)))))))
                      (wrap_u (Zpos (Coq_xO (Coq_xO (Coq_xO (Coq_xO (Coq_xO
                        Coq_xH)))))) (Zpos Coq_xH)))))))
            (wrap_u (Zpos (Coq_xO (Coq_xO (Coq_xO (Coq_xO (Coq_xO
              Coq_xH))))))
              (wrap_s (Zpos (Coq_xO (Coq_xO (Coq_xO (Coq_xO (Coq_xO
                Coq_xH))))))
                (Z.shiftl (Zpos Coq_xH) (Zpos (Coq_xO (Coq_xI Coq_xH))))))))))
    (wrap_u (Zpos (Coq_xO (Coq_xO (Coq_xO (Coq_xO (Coq_xO Coq_xH)))))) Z0)

(** val nsync_mu_lock_cas1_new : coq_Z **)

let nsync_mu_lock_cas1_new =
  wrap_u (Zpos (Coq_xO (Coq_xO (Coq_xO (Coq_xO (Coq_xO Coq_xH))))))
    (wrap_s (Zpos (Coq_xO (Coq_xO (Coq_xO (Coq_xO (Coq_xO Coq_xH))))))
      (Z.shiftl (Zpos Coq_xH) Z0))

(** val nsync_mu_lock_cas2_new : coq_Z -> coq_Z **)

let nsync_mu_lock_cas2_new old_word =
  wrap_u (Zpos (Coq_xO (Coq_xO (Coq_xO (Coq_xO (Coq_xO Coq_xH))))))
    (Z.coq_land
      (wrap_u (Zpos (Coq_xO (Coq_xO (Coq_xO (Coq_xO (Coq_xO Coq_xH))))))
        (Z.add old_word
          (wrap_u (Zpos (Coq_xO (Coq_xO (Coq_xO (Coq_xO (Coq_xO Coq_xH))))))
            (wrap_s (Zpos (Coq_xO (Coq_xO (Coq_xO (Coq_xO (Coq_xO
              Coq_xH)))))) (Z.shiftl (Zpos Coq_xH) Z0)))))
      (Z.sub (Zpos (Coq_xI (Coq_xI (Coq_xI (Coq_xI (Coq_xI (Coq_xI (Coq_xI
        (Coq_xI (Coq_xI (Coq_xI (Coq_xI (Coq_xI (Coq_xI (Coq_xI (Coq_xI
        (Coq_xI (Coq_xI (Coq_xI (Coq_xI (Coq_xI (Coq_xI (Coq_xI (Coq_xI
        (Coq_xI (Coq_xI (Coq_xI (Coq_xI (Coq_xI (Coq_xI (Coq_xI (Coq_xI
        Coq_xH))))))))))))))))))))))))))))))))
        (wrap_u (Zpos (Coq_xO (Coq_xO (Coq_xO (Coq_xO (Coq_xO Coq_xH))))))
          (wrap_s (Zpos (Coq_xO (Coq_xO (Coq_xO (Coq_xO (Coq_xO Coq_xH))))))
            (Z.shiftl (Zpos Coq_xH) (Zpos (Coq_xI (Coq_xO Coq_xH))))))))

(** val nsync_mu_lock_cas2_guard : coq_Z -> bool **)

let nsync_mu_lock_cas2_guard old_word =
  negb
    (negb
      (Z.eqb
        (wrap_u (Zpos (Coq_xO (Coq_xO (Coq_xO (Coq_xO (Coq_xO Coq_xH))))))
          (Z.coq_land old_word
            (wrap_u (Zpos (Coq_xO (Coq_xO (Coq_xO (Coq_xO (Coq_xO
              Coq_xH))))))
              (Z.coq_lor
                (wrap_u (Zpos (Coq_xO (Coq_xO (Coq_xO (Coq_xO (Coq_xO
                  Coq_xH))))))
                  (Z.coq_lor
                    (wrap_u (Zpos (Coq_xO (Coq_xO (Coq_xO (Coq_xO (Coq_xO
                      Coq_xH))))))
                      (wrap_s (Zpos (Coq_xO (Coq_xO (Coq_xO (Coq_xO (Coq_xO
                        Coq_xH)))))) (Z.shiftl (Zpos Coq_xH) Z0)))
                    (Z.sub (Zpos (Coq_xI (Coq_xI (Coq_xI (Coq_xI (Coq_xI
                      (Coq_xI (Coq_xI (Coq_xI (Coq_xI (Coq_xI (Coq_xI (Coq_xI
                      (Coq_xI (Coq_xI (Coq_xI (Coq_xI (Coq_xI (Coq_xI (Coq_xI
                      (Coq_xI (Coq_xI (Coq_xI (Coq_xI (Coq_xI (Coq_xI (Coq_xI
                      (Coq_xI (Coq_xI (Coq_xI (Coq_xI (Coq_xI
                      Coq_xH))))))))))))))))))))))))))))))))
                      (wrap_u (Zpos (Coq_xO (Coq_xO (Coq_xO (Coq_xO (Coq_xO
                        Coq_xH))))))
                        (Z.sub
                          (wrap_u (Zpos (Coq_xO (Coq_xO (Coq_xO (Coq_xO
                            (Coq_xO Coq_xH))))))
                            (wrap_s (Zpos (Coq_xO (Coq_xO (Coq_xO (Coq_xO
                              (Coq_xO Coq_xH))))))
                              (Z.shiftl (Zpos Coq_xH) (Zpos (Coq_xO (Coq_xO
                                (Coq_xO Coq_xH)))))))
                          (wrap_u (Zpos (Coq_xO (Coq_xO (Coq_xO (Coq_xO
                            (Coq_xO Coq_xH)))))) (Zpos Coq_xH)))))))
                (wrap_u (Zpos (Coq_xO (Coq_xO (Coq_xO (Coq_xO (Coq_xO
                  Coq_xH))))))
                  (wrap_s (Zpos (Coq_xO (Coq_xO (Coq_xO (Coq_xO (Coq_xO
                    Coq_xH))))))
                    (Z.shiftl (Zpos Coq_xH) (Zpos (Coq_xO (Coq_xI Coq_xH))))))))))
        (wrap_u (Zpos (Coq_xO (Coq_xO (Coq_xO (Coq_xO (Coq_xO Coq_xH)))))) Z0)))

(** val nsync_mu_rtrylock_cas1_new : coq_Z **)

let nsync_mu_rtrylock_cas1_new =
  wrap_u (Zpos (Coq_xO (Coq_xO (Coq_xO (Coq_xO (Coq_xO Coq_xH))))))
    (wrap_s (Zpos (Coq_xO (Coq_xO (Coq_xO (Coq_xO (Coq_xO Coq_xH))))))
      (Z.shiftl (Zpos Coq_xH) (Zpos (Coq_xO (Coq_xO (Coq_xO Coq_xH))))))

(** val nsync_mu_rtrylock_cas2_new : coq_Z -> coq_Z **)

let nsync_mu_rtrylock_cas2_new old_word =
  wrap_u (Zpos (Coq_xO (Coq_xO (Coq_xO (Coq_xO (Coq_xO Coq_xH))))))
    (Z.coq_land
      (wrap_u (Zpos (Coq_xO (Coq_xO (Coq_xO (Coq_xO (Coq_xO Coq_xH))))))
        (Z.add old_word
          (wrap_u (Zpos (Coq_xO (Coq_xO (Coq_xO (Coq_xO (Coq_xO Coq_xH))))))
            (wrap_s (Zpos (Coq_xO (Coq_xO (Coq_xO (Coq_xO (Coq_xO
              Coq_xH))))))
              (Z.shiftl (Zpos Coq_xH) (Zpos (Coq_xO (Coq_xO (Coq_xO
                Coq_xH)))))))))
      (Z.sub (Zpos (Coq_xI (Coq_xI (Coq_xI (Coq_xI (Coq_xI (Coq_xI (Coq_xI
        (Coq_xI (Coq_xI (Coq_xI (Coq_xI (Coq_xI (Coq_xI (Coq_xI (Coq_xI
        (Coq_xI (Coq_xI (Coq_xI (Coq_xI (Coq_xI (Coq_xI (Coq_xI (Coq_xI
        (Coq_xI (Coq_xI (Coq_xI (Coq_xI (Coq_xI (Coq_xI (Coq_xI (Coq_xI
        Coq_xH))))))))))))))))))))))))))))))))
        (wrap_u (Zpos (Coq_xO (Coq_xO (Coq_xO (Coq_xO (Coq_xO Coq_xH)))))) Z0)))

(** val nsync_mu_rtrylock_cas2_guard : coq_Z -> bool **)

let nsync_mu_rtrylock_cas2_guard old_word =
  Z.eqb
    (wrap_u (Zpos (Coq_xO (Coq_xO (Coq_xO (Coq_xO (Coq_xO Coq_xH))))))
      (Z.coq_land old_word
        (wrap_u (Zpos (Coq_xO (Coq_xO (Coq_xO (Coq_xO (Coq_xO Coq_xH))))))
          (Z.coq_lor
            (wrap_u (Zpos (Coq_xO (Coq_xO (Coq_xO (Coq_xO (Coq_xO
              Coq_xH))))))
              (Z.coq_lor
                (wrap_u (Zpos (Coq_xO (Coq_xO (Coq_xO (Coq_xO (Coq_xO
                  Coq_xH))))))
                  (wrap_s (Zpos (Coq_xO (Coq_xO (Coq_xO (Coq_xO (Coq_xO
                    Coq_xH)))))) (Z.shiftl (Zpos Coq_xH) Z0)))
                (wrap_u (Zpos (Coq_xO (Coq_xO (Coq_xO (Coq_xO (Coq_xO
                  Coq_xH))))))
                  (wrap_s (Zpos (Coq_xO (Coq_xO (Coq_xO (Coq_xO (Coq_xO
                    Coq_xH))))))
                    (Z.shiftl (Zpos Coq_xH) (Zpos (Coq_xI (Coq_xO Coq_xH))))))))
            (wrap_u (Zpos (Coq_xO (Coq_xO (Coq_xO (Coq_xO (Coq_xO
              Coq_xH))))))
              (wrap_s (Zpos (Coq_xO (Coq_xO (Coq_xO (Coq_xO (Coq_xO
                Coq_xH))))))
                (Z.shiftl (Zpos Coq_xH) (Zpos (Coq_xO (Coq_xI Coq_xH))))))))))
    (wrap_u (Zpos (Coq_xO (Coq_xO (Coq_xO (Coq_xO (Coq_xO Coq_xH)))))) Z0)

(** val nsync_mu_rlock_cas1_new : coq_Z **)

let nsync_mu_rlock_cas1_new =
  wrap_u (Zpos (Coq_xO (Coq_xO (Coq_xO (Coq_xO (Coq_xO Coq_xH))))))
    (wrap_s (Zpos (Coq_xO (Coq_xO (Coq_xO (Coq_xO (Coq_xO Coq_xH))))))
      (Z.shiftl (Zpos Coq_xH) (Zpos (Coq_xO (Coq_xO (Coq_xO Coq_xH))))))

(** val nsync_mu_rlock_cas2_new : coq_Z -> coq_Z **)

let nsync_mu_rlock_cas2_new old_word =
  wrap_u (Zpos (Coq_xO (Coq_xO (Coq_xO (Coq_xO (Coq_xO Coq_xH))))))
    (Z.coq_land
      (wrap_u (Zpos (Coq_xO (Coq_xO (Coq_xO (Coq_xO (Coq_xO Coq_xH))))))
        (Z.add old_word
          (wrap_u (Zpos (Coq_xO (Coq_xO (Coq_xO (Coq_xO (Coq_xO Coq_xH))))))
            (wrap_s (Zpos (Coq_xO (Coq_xO (Coq_xO (Coq_xO (Coq_xO
              Coq_xH))))))
              (Z.shiftl (Zpos Coq_xH) (Zpos (Coq_xO (Coq_xO (Coq_xO
                Coq_xH)))))))))
      (Z.sub (Zpos (Coq_xI (Coq_xI (Coq_xI (Coq_xI (Coq_xI (Coq_xI (Coq_xI
        (Coq_xI (Coq_xI (Coq_xI (Coq_xI (Coq_xI (Coq_xI (Coq_xI (Coq_xI
        (Coq_xI (Coq_xI (Coq_xI (Coq_xI (Coq_xI (Coq_xI (Coq_xI (Coq_xI
        (Coq_xI (Coq_xI (Coq_xI (Coq_xI (Coq_xI (Coq_xI (Coq_xI (Coq_xI
        Coq_xH))))))))))))))))))))))))))))))))
        (wrap_u (Zpos (Coq_xO (Coq_xO (Coq_xO (Coq_xO (Coq_xO Coq_xH)))))) Z0)))

(** val nsync_mu_rlock_cas2_guard : coq_Z -> bool **)

let nsync_mu_rlock_cas2_guard old_word =
  negb
    (negb
      (Z.eqb
        (wrap_u (Zpos (Coq_xO (Coq_xO (Coq_xO (Coq_xO (Coq_xO Coq_xH))))))
          (Z.coq_land old_word
            (wrap_u (Zpos (Coq_xO (Coq_xO (Coq_xO (Coq_xO (Coq_xO
              Coq_xH))))))
              (Z.coq_lor
                (wrap_u (Zpos (Coq_xO (Coq_xO (Coq_xO (Coq_xO (Coq_xO
                  Coq_xH))))))
                  (Z.coq_lor
                    (wrap_u (Zpos (Coq_xO (Coq_xO (Coq_xO (Coq_xO (Coq_xO
                      Coq_xH))))))
                      (wrap_s (Zpos (Coq_xO (Coq_xO (Coq_xO (Coq_xO (Coq_xO
                        Coq_xH)))))) (Z.shiftl (Zpos Coq_xH) Z0)))
                    (wrap_u (Zpos (Coq_xO (Coq_xO (Coq_xO (Coq_xO (Coq_xO
                      Coq_xH))))))
                      (wrap_s (Zpos (Coq_xO (Coq_xO (Coq_xO (Coq_xO (Coq_xO
                        Coq_xH))))))
                        (Z.shiftl (Zpos Coq_xH) (Zpos (Coq_xI (Coq_xO
                          Coq_xH))))))))
                (wrap_u (Zpos (Coq_xO (Coq_xO (Coq_xO (Coq_xO (Coq_xO
                  Coq_xH))))))
                  (wrap_s (Zpos (Coq_xO (Coq_xO (Coq_xO (Coq_xO (Coq_xO
                    Coq_xH))))))
                    (Z.shiftl (Zpos Coq_xH) (Zpos (Coq_xO (Coq_xI Coq_xH))))))))))
        (wrap_u (Zpos (Coq_xO (Coq_xO (Coq_xO (Coq_xO (Coq_xO Coq_xH)))))) Z0)))

(** val nsync_mu_unlock_slow_cas1_new : coq_Z -> lock_type -> coq_Z **)

let nsync_mu_unlock_slow_cas1_new old_word l_type =
  wrap_u (Zpos (Coq_xO (Coq_xO (Coq_xO (Coq_xO (Coq_xO Coq_xH))))))
    (Z.coq_land
      (wrap_u (Zpos (Coq_xO (Coq_xO (Coq_xO (Coq_xO (Coq_xO Coq_xH))))))
        (Z.sub old_word l_type.lt_add_to_acquire))
      (Z.sub (Zpos (Coq_xI (Coq_xI (Coq_xI (Coq_xI (Coq_xI (Coq_xI (Coq_xI
        (Coq_xI (Coq_xI (Coq_xI (Coq_xI (Coq_xI (Coq_xI (Coq_xI (Coq_xI
        (Coq_xI (Coq_xI (Coq_xI (Coq_xI (Coq_xI (Coq_xI (Coq_xI (Coq_xI
        (Coq_xI (Coq_xI (Coq_xI (Coq_xI (Coq_xI (Coq_xI (Coq_xI (Coq_xI
        Coq_xH))))))))))))))))))))))))))))))))
        l_type.lt_clear_on_uncontended_release))

(** val nsync_mu_unlock_slow_cas1_guard : coq_Z -> bool **)

let nsync_mu_unlock_slow_cas1_guard old_word =
  (||)
    ((||)
      ((||)
        (Z.eqb
          (wrap_u (Zpos (Coq_xO (Coq_xO (Coq_xO (Coq_xO (Coq_xO Coq_xH))))))
            (Z.coq_land old_word
              (wrap_u (Zpos (Coq_xO (Coq_xO (Coq_xO (Coq_xO (Coq_xO
                Coq_xH))))))
                (wrap_s (Zpos (Coq_xO (Coq_xO (Coq_xO (Coq_xO (Coq_xO
                  Coq_xH))))))
                  (Z.shiftl (Zpos Coq_xH) (Zpos (Coq_xO Coq_xH)))))))
          (wrap_u (Zpos (Coq_xO (Coq_xO (Coq_xO (Coq_xO (Coq_xO Coq_xH))))))
            Z0))
        (negb
          (Z.eqb
            (wrap_u (Zpos (Coq_xO (Coq_xO (Coq_xO (Coq_xO (Coq_xO
              Coq_xH))))))
              (Z.coq_land old_word
                (wrap_u (Zpos (Coq_xO (Coq_xO (Coq_xO (Coq_xO (Coq_xO
                  Coq_xH))))))
                  (wrap_s (Zpos (Coq_xO (Coq_xO (Coq_xO (Coq_xO (Coq_xO
                    Coq_xH))))))
                    (Z.shiftl (Zpos Coq_xH) (Zpos (Coq_xI Coq_xH)))))))
            (wrap_u (Zpos (Coq_xO (Coq_xO (Coq_xO (Coq_xO (Coq_xO
              Coq_xH)))))) Z0))))
      (Z.gtb
        (wrap_u (Zpos (Coq_xO (Coq_xO (Coq_xO (Coq_xO (Coq_xO Coq_xH))))))
          (Z.coq_land old_word
            (Z.sub (Zpos (Coq_xI (Coq_xI (Coq_xI (Coq_xI (Coq_xI (Coq_xI
              (Coq_xI (Coq_xI (Coq_xI (Coq_xI (Coq_xI (Coq_xI (Coq_xI (Coq_xI
              (Coq_xI (Coq_xI (Coq_xI (Coq_xI (Coq_xI (Coq_xI (Coq_xI (Coq_xI
              (Coq_xI (Coq_xI (Coq_xI (Coq_xI (Coq_xI (Coq_xI (Coq_xI (Coq_xI
              (Coq_xI Coq_xH))))))))))))))))))))))))))))))))
              (wrap_u (Zpos (Coq_xO (Coq_xO (Coq_xO (Coq_xO (Coq_xO
                Coq_xH))))))
                (Z.sub
                  (wrap_u (Zpos (Coq_xO (Coq_xO (Coq_xO (Coq_xO (Coq_xO
                    Coq_xH))))))
                    (wrap_s (Zpos (Coq_xO (Coq_xO (Coq_xO (Coq_xO (Coq_xO
                      Coq_xH))))))
                      (Z.shiftl (Zpos Coq_xH) (Zpos (Coq_xO (Coq_xO (Coq_xO
                        Coq_xH)))))))
                  (wrap_u (Zpos (Coq_xO (Coq_xO (Coq_xO (Coq_xO (Coq_xO
                    Coq_xH)))))) (Zpos Coq_xH)))))))
        (wrap_u (Zpos (Coq_xO (Coq_xO (Coq_xO (Coq_xO (Coq_xO Coq_xH))))))
          (wrap_s (Zpos (Coq_xO (Coq_xO (Coq_xO (Coq_xO (Coq_xO Coq_xH))))))
            (Z.shiftl (Zpos Coq_xH) (Zpos (Coq_xO (Coq_xO (Coq_xO Coq_xH)))))))))
    (Z.eqb
      (wrap_u (Zpos (Coq_xO (Coq_xO (Coq_xO (Coq_xO (Coq_xO Coq_xH))))))
        (Z.coq_land old_word
          (wrap_u (Zpos (Coq_xO (Coq_xO (Coq_xO (Coq_xO (Coq_xO Coq_xH))))))
            (Z.coq_lor
              (wrap_u (Zpos (Coq_xO (Coq_xO (Coq_xO (Coq_xO (Coq_xO
                Coq_xH))))))
                (wrap_s (Zpos (Coq_xO (Coq_xO (Coq_xO (Coq_xO (Coq_xO
                  Coq_xH))))))
                  (Z.shiftl (Zpos Coq_xH) (Zpos (Coq_xO (Coq_xO (Coq_xO
                    Coq_xH)))))))
              (wrap_u (Zpos (Coq_xO (Coq_xO (Coq_xO (Coq_xO (Coq_xO
                Coq_xH))))))
                (wrap_s (Zpos (Coq_xO (Coq_xO (Coq_xO (Coq_xO (Coq_xO
                  Coq_xH))))))
                  (Z.shiftl (Zpos Coq_xH) (Zpos (Coq_xI (Coq_xI Coq_xH))))))))))
      (wrap_u (Zpos (Coq_xO (Coq_xO (Coq_xO (Coq_xO (Coq_xO Coq_xH))))))
        (Z.coq_lor
          (wrap_u (Zpos (Coq_xO (Coq_xO (Coq_xO (Coq_xO (Coq_xO Coq_xH))))))
            (wrap_s (Zpos (Coq_xO (Coq_xO (Coq_xO (Coq_xO (Coq_xO
              Coq_xH))))))
              (Z.shiftl (Zpos Coq_xH) (Zpos (Coq_xO (Coq_xO (Coq_xO
                Coq_xH)))))))
          (wrap_u (Zpos (Coq_xO (Coq_xO (Coq_xO (Coq_xO (Coq_xO Coq_xH))))))
            (wrap_s (Zpos (Coq_xO (Coq_xO (Coq_xO (Coq_xO (Coq_xO
              Coq_xH))))))
              (Z.shiftl (Zpos Coq_xH) (Zpos (Coq_xI (Coq_xI Coq_xH)))))))))

(** val nsync_mu_unlock_slow_cas2_new : coq_Z -> coq_Z -> coq_Z **)

let nsync_mu_unlock_slow_cas2_new old_word early_release_mu =
  wrap_u (Zpos (Coq_xO (Coq_xO (Coq_xO (Coq_xO (Coq_xO Coq_xH))))))
    (Z.coq_lor
      (wrap_u (Zpos (Coq_xO (Coq_xO (Coq_xO (Coq_xO (Coq_xO Coq_xH))))))
        (Z.coq_lor
          (wrap_u (Zpos (Coq_xO (Coq_xO (Coq_xO (Coq_xO (Coq_xO Coq_xH))))))
            (Z.sub old_word early_release_mu))
          (wrap_u (Zpos (Coq_xO (Coq_xO (Coq_xO (Coq_xO (Coq_xO Coq_xH))))))
            (wrap_s (Zpos (Coq_xO (Coq_xO (Coq_xO (Coq_xO (Coq_xO
              Coq_xH)))))) (Z.shiftl (Zpos Coq_xH) (Zpos Coq_xH))))))
      (wrap_u (Zpos (Coq_xO (Coq_xO (Coq_xO (Coq_xO (Coq_xO Coq_xH))))))
        (wrap_s (Zpos (Coq_xO (Coq_xO (Coq_xO (Coq_xO (Coq_xO Coq_xH))))))
          (Z.shiftl (Zpos Coq_xH) (Zpos (Coq_xI Coq_xH))))))

(** val nsync_mu_unlock_slow_cas2_guard : coq_Z -> bool **)

let nsync_mu_unlock_slow_cas2_guard old_word =
  (&&)
    (negb
      ((||)
        ((||)
          ((||)
            (Z.eqb
              (wrap_u (Zpos (Coq_xO (Coq_xO (Coq_xO (Coq_xO (Coq_xO
                Coq_xH))))))
                (Z.coq_land old_word
                  (wrap_u (Zpos (Coq_xO (Coq_xO (Coq_xO (Coq_xO (Coq_xO
                    Coq_xH))))))
                    (wrap_s (Zpos (Coq_xO (Coq_xO (Coq_xO (Coq_xO (Coq_xO
                      Coq_xH))))))
                      (Z.shiftl (Zpos Coq_xH) (Zpos (Coq_xO Coq_xH)))))))
              (wrap_u (Zpos (Coq_xO (Coq_xO (Coq_xO (Coq_xO (Coq_xO
                Coq_xH)))))) Z0))
            (negb
              (Z.eqb
                (wrap_u (Zpos (Coq_xO (Coq_xO (Coq_xO (Coq_xO (Coq_xO
                  Coq_xH))))))
                  (Z.coq_land old_word
                    (wrap_u (Zpos (Coq_xO (Coq_xO (Coq_xO (Coq_xO (Coq_xO
                      Coq_xH))))))
                      (wrap_s (Zpos (Coq_xO (Coq_xO (Coq_xO (Coq_xO (Coq_xO
                        Coq_xH))))))
                        (Z.shiftl (Zpos Coq_xH) (Zpos (Coq_xI Coq_xH)))))))
                (wrap_u (Zpos (Coq_xO (Coq_xO (Coq_xO (Coq_xO (Coq_xO
                  Coq_xH)))))) Z0))))
          (Z.gtb
            (wrap_u (Zpos (Coq_xO (Coq_xO (Coq_xO (Coq_xO (Coq_xO
              Coq_xH))))))
              (Z.coq_land old_word
                (Z.sub (Zpos (Coq_xI (Coq_xI (Coq_xI (Coq_xI (Coq_xI (Coq_xI
                  (Coq_xI (Coq_xI (Coq_xI (Coq_xI (Coq_xI (Coq_xI (Coq_xI
                  (Coq_xI (Coq_xI (Coq_xI (Coq_xI (Coq_xI (Coq_xI (Coq_xI
                  (Coq_xI (Coq_xI (Coq_xI (Coq_xI (Coq_xI (Coq_xI (Coq_xI
                  (Coq_xI (Coq_xI (Coq_xI (Coq_xI
                  Coq_xH))))))))))))))))))))))))))))))))
                  (wrap_u (Zpos (Coq_xO (Coq_xO (Coq_xO (Coq_xO (Coq_xO
                    Coq_xH))))))
                    (Z.sub
                      (wrap_u (Zpos (Coq_xO (Coq_xO (Coq_xO (Coq_xO (Coq_xO
                        Coq_xH))))))
                        (wrap_s (Zpos (Coq_xO (Coq_xO (Coq_xO (Coq_xO (Coq_xO
                          Coq_xH))))))
                          (Z.shiftl (Zpos Coq_xH) (Zpos (Coq_xO (Coq_xO
                            (Coq_xO Coq_xH)))))))
                      (wrap_u (Zpos (Coq_xO (Coq_xO (Coq_xO (Coq_xO (Coq_xO
                        Coq_xH)))))) (Zpos Coq_xH)))))))
            (wrap_u (Zpos (Coq_xO (Coq_xO (Coq_xO (Coq_xO (Coq_xO
              Coq_xH))))))
              (wrap_s (Zpos (Coq_xO (Coq_xO (Coq_xO (Coq_xO (Coq_xO
                Coq_xH))))))
                (Z.shiftl (Zpos Coq_xH) (Zpos (Coq_xO (Coq_xO (Coq_xO
                  Coq_xH)))))))))
        (Z.eqb
          (wrap_u (Zpos (Coq_xO (Coq_xO (Coq_xO (Coq_xO (Coq_xO Coq_xH))))))
            (Z.coq_land old_word
              (wrap_u (Zpos (Coq_xO (Coq_xO (Coq_xO (Coq_xO (Coq_xO
                Coq_xH))))))
                (Z.coq_lor
                  (wrap_u (Zpos (Coq_xO (Coq_xO (Coq_xO (Coq_xO (Coq_xO
                    Coq_xH))))))
                    (wrap_s (Zpos (Coq_xO (Coq_xO (Coq_xO (Coq_xO (Coq_xO
                      Coq_xH))))))
                      (Z.shiftl (Zpos Coq_xH) (Zpos (Coq_xO (Coq_xO (Coq_xO
                        Coq_xH)))))))
                  (wrap_u (Zpos (Coq_xO (Coq_xO (Coq_xO (Coq_xO (Coq_xO
                    Coq_xH))))))
                    (wrap_s (Zpos (Coq_xO (Coq_xO (Coq_xO (Coq_xO (Coq_xO
                      Coq_xH))))))
                      (Z.shiftl (Zpos Coq_xH) (Zpos (Coq_xI (Coq_xI Coq_xH))))))))))
          (wrap_u (Zpos (Coq_xO (Coq_xO (Coq_xO (Coq_xO (Coq_xO Coq_xH))))))
            (Z.coq_lor
              (wrap_u (Zpos (Coq_xO (Coq_xO (Coq_xO (Coq_xO (Coq_xO
                Coq_xH))))))
                (wrap_s (Zpos (Coq_xO (Coq_xO (Coq_xO (Coq_xO (Coq_xO
                  Coq_xH))))))
                  (Z.shiftl (Zpos Coq_xH) (Zpos (Coq_xO (Coq_xO (Coq_xO
                    Coq_xH)))))))
              (wrap_u (Zpos (Coq_xO (Coq_xO (Coq_xO (Coq_xO (Coq_xO
                Coq_xH))))))
                (wrap_s (Zpos (Coq_xO (Coq_xO (Coq_xO (Coq_xO (Coq_xO
                  Coq_xH))))))
                  (Z.shiftl (Zpos Coq_xH) (Zpos (Coq_xI (Coq_xI Coq_xH)))))))))))
    (Z.eqb
      (wrap_u (Zpos (Coq_xO (Coq_xO (Coq_xO (Coq_xO (Coq_xO Coq_xH))))))
        (Z.coq_land old_word
          (wrap_u (Zpos (Coq_xO (Coq_xO (Coq_xO (Coq_xO (Coq_xO Coq_xH))))))
            (wrap_s (Zpos (Coq_xO (Coq_xO (Coq_xO (Coq_xO (Coq_xO
              Coq_xH)))))) (Z.shiftl (Zpos Coq_xH) (Zpos Coq_xH))))))
      (wrap_u (Zpos (Coq_xO (Coq_xO (Coq_xO (Coq_xO (Coq_xO Coq_xH)))))) Z0))

(** val nsync_mu_unlock_slow_cas3_new :
    coq_Z -> coq_Z -> coq_Z -> coq_Z -> coq_Z **)

let nsync_mu_unlock_slow_cas3_new old_word late_release_mu set_on_release clear_on_release =
  wrap_u (Zpos (Coq_xO (Coq_xO (Coq_xO (Coq_xO (Coq_xO Coq_xH))))))
    (Z.coq_land
      (wrap_u (Zpos (Coq_xO (Coq_xO (Coq_xO (Coq_xO (Coq_xO Coq_xH))))))
        (Z.coq_lor
          (wrap_u (Zpos (Coq_xO (Coq_xO (Coq_xO (Coq_xO (Coq_xO Coq_xH))))))
            (Z.sub old_word late_release_mu)) set_on_release))
      (Z.sub (Zpos (Coq_xI (Coq_xI (Coq_xI (Coq_xI (Coq_xI (Coq_xI (Coq_xI
        (Coq_xI (Coq_xI (Coq_xI (Coq_xI (Coq_xI (Coq_xI (Coq_xI (Coq_xI
        (Coq_xI (Coq_xI (Coq_xI (Coq_xI (Coq_xI (Coq_xI (Coq_xI (Coq_xI
        (Coq_xI (Coq_xI (Coq_xI (Coq_xI (Coq_xI (Coq_xI (Coq_xI (Coq_xI
        Coq_xH)))))))))))))))))))))))))))))))) clear_on_release))

(** val nsync_mu_unlock_cas1_new : coq_Z **)

let nsync_mu_unlock_cas1_new =
  wrap_u (Zpos (Coq_xO (Coq_xO (Coq_xO (Coq_xO (Coq_xO Coq_xH)))))) Z0

(** val nsync_mu_unlock_cas1_old : coq_Z **)

let nsync_mu_unlock_cas1_old =
  wrap_u (Zpos (Coq_xO (Coq_xO (Coq_xO (Coq_xO (Coq_xO Coq_xH))))))
    (wrap_s (Zpos (Coq_xO (Coq_xO (Coq_xO (Coq_xO (Coq_xO Coq_xH))))))
      (Z.shiftl (Zpos Coq_xH) Z0))

(** val nsync_mu_unlock_cas2_new : coq_Z -> coq_Z **)

let nsync_mu_unlock_cas2_new old_word =
  wrap_u (Zpos (Coq_xO (Coq_xO (Coq_xO (Coq_xO (Coq_xO Coq_xH))))))
    (Z.coq_land
      (wrap_u (Zpos (Coq_xO (Coq_xO (Coq_xO (Coq_xO (Coq_xO Coq_xH))))))
        (Z.sub old_word
          (wrap_u (Zpos (Coq_xO (Coq_xO (Coq_xO (Coq_xO (Coq_xO Coq_xH))))))
            (wrap_s (Zpos (Coq_xO (Coq_xO (Coq_xO (Coq_xO (Coq_xO
              Coq_xH)))))) (Z.shiftl (Zpos Coq_xH) Z0)))))
      (Z.sub (Zpos (Coq_xI (Coq_xI (Coq_xI (Coq_xI (Coq_xI (Coq_xI (Coq_xI
        (Coq_xI (Coq_xI (Coq_xI (Coq_xI (Coq_xI (Coq_xI (Coq_xI (Coq_xI
        (Coq_xI (Coq_xI (Coq_xI (Coq_xI (Coq_xI (Coq_xI (Coq_xI (Coq_xI
        (Coq_xI (Coq_xI (Coq_xI (Coq_xI (Coq_xI (Coq_xI (Coq_xI (Coq_xI
        Coq_xH))))))))))))))))))))))))))))))))
        (wrap_u (Zpos (Coq_xO (Coq_xO (Coq_xO (Coq_xO (Coq_xO Coq_xH))))))
          (wrap_s (Zpos (Coq_xO (Coq_xO (Coq_xO (Coq_xO (Coq_xO Coq_xH))))))
            (Z.shiftl (Zpos Coq_xH) (Zpos (Coq_xI (Coq_xI Coq_xH))))))))

(** val nsync_mu_unlock_cas2_guard : coq_Z -> bool **)

let nsync_mu_unlock_cas2_guard old_word =
  (&&)
    (negb
      (negb
        (Z.eqb
          (wrap_u (Zpos (Coq_xO (Coq_xO (Coq_xO (Coq_xO (Coq_xO Coq_xH))))))
            (Z.coq_land
              (wrap_u (Zpos (Coq_xO (Coq_xO (Coq_xO (Coq_xO (Coq_xO
                Coq_xH))))))
                (Z.coq_land
                  (wrap_u (Zpos (Coq_xO (Coq_xO (Coq_xO (Coq_xO (Coq_xO
                    Coq_xH))))))
                    (Z.sub old_word
                      (wrap_u (Zpos (Coq_xO (Coq_xO (Coq_xO (Coq_xO (Coq_xO
                        Coq_xH))))))
                        (wrap_s (Zpos (Coq_xO (Coq_xO (Coq_xO (Coq_xO (Coq_xO
                          Coq_xH)))))) (Z.shiftl (Zpos Coq_xH) Z0)))))
                  (Z.sub (Zpos (Coq_xI (Coq_xI (Coq_xI (Coq_xI (Coq_xI
                    (Coq_xI (Coq_xI (Coq_xI (Coq_xI (Coq_xI (Coq_xI (Coq_xI
                    (Coq_xI (Coq_xI (Coq_xI (Coq_xI (Coq_xI (Coq_xI (Coq_xI
                    (Coq_xI (Coq_xI (Coq_xI (Coq_xI (Coq_xI (Coq_xI (Coq_xI
                    (Coq_xI (Coq_xI (Coq_xI (Coq_xI (Coq_xI
                    Coq_xH))))))))))))))))))))))))))))))))
                    (wrap_u (Zpos (Coq_xO (Coq_xO (Coq_xO (Coq_xO (Coq_xO
                      Coq_xH))))))
                      (wrap_s (Zpos (Coq_xO (Coq_xO (Coq_xO (Coq_xO (Coq_xO
                        Coq_xH))))))
                        (Z.shiftl (Zpos Coq_xH) (Zpos (Coq_xI (Coq_xI
                          Coq_xH)))))))))
              (wrap_u (Zpos (Coq_xO (Coq_xO (Coq_xO (Coq_xO (Coq_xO
                Coq_xH))))))
                (Z.coq_lor
                  (Z.sub (Zpos (Coq_xI (Coq_xI (Coq_xI (Coq_xI (Coq_xI
                    (Coq_xI (Coq_xI (Coq_xI (Coq_xI (Coq_xI (Coq_xI (Coq_xI
                    (Coq_xI (Coq_xI (Coq_xI (Coq_xI (Coq_xI (Coq_xI (Coq_xI
                    (Coq_xI (Coq_xI (Coq_xI (Coq_xI (Coq_xI (Coq_xI (Coq_xI
                    (Coq_xI (Coq_xI (Coq_xI (Coq_xI (Coq_xI
                    Coq_xH))))))))))))))))))))))))))))))))
                    (wrap_u (Zpos (Coq_xO (Coq_xO (Coq_xO (Coq_xO (Coq_xO
                      Coq_xH))))))
                      (Z.sub
                        (wrap_u (Zpos (Coq_xO (Coq_xO (Coq_xO (Coq_xO (Coq_xO
                          Coq_xH))))))
                          (wrap_s (Zpos (Coq_xO (Coq_xO (Coq_xO (Coq_xO
                            (Coq_xO Coq_xH))))))
                            (Z.shiftl (Zpos Coq_xH) (Zpos (Coq_xO (Coq_xO
                              (Coq_xO Coq_xH)))))))
                        (wrap_u (Zpos (Coq_xO (Coq_xO (Coq_xO (Coq_xO (Coq_xO
                          Coq_xH)))))) (Zpos Coq_xH)))))
                  (wrap_u (Zpos (Coq_xO (Coq_xO (Coq_xO (Coq_xO (Coq_xO
                    Coq_xH))))))
                    (wrap_s (Zpos (Coq_xO (Coq_xO (Coq_xO (Coq_xO (Coq_xO
                      Coq_xH)))))) (Z.shiftl (Zpos Coq_xH) Z0)))))))
          (wrap_u (Zpos (Coq_xO (Coq_xO (Coq_xO (Coq_xO (Coq_xO Coq_xH))))))
            Z0))))
    (negb
      (Z.eqb
        (wrap_u (Zpos (Coq_xO (Coq_xO (Coq_xO (Coq_xO (Coq_xO Coq_xH))))))
          (Z.coq_land old_word
            (wrap_u (Zpos (Coq_xO (Coq_xO (Coq_xO (Coq_xO (Coq_xO
              Coq_xH))))))
              (Z.coq_lor
                (wrap_u (Zpos (Coq_xO (Coq_xO (Coq_xO (Coq_xO (Coq_xO
                  Coq_xH))))))
                  (wrap_s (Zpos (Coq_xO (Coq_xO (Coq_xO (Coq_xO (Coq_xO
                    Coq_xH))))))
                    (Z.shiftl (Zpos Coq_xH) (Zpos (Coq_xO Coq_xH)))))
                (wrap_u (Zpos (Coq_xO (Coq_xO (Coq_xO (Coq_xO (Coq_xO
                  Coq_xH))))))
                  (wrap_s (Zpos (Coq_xO (Coq_xO (Coq_xO (Coq_xO (Coq_xO
                    Coq_xH))))))
                    (Z.shiftl (Zpos Coq_xH) (Zpos (Coq_xI Coq_xH)))))))))
        (wrap_u (Zpos (Coq_xO (Coq_xO (Coq_xO (Coq_xO (Coq_xO Coq_xH))))))
          (wrap_s (Zpos (Coq_xO (Coq_xO (Coq_xO (Coq_xO (Coq_xO Coq_xH))))))
            (Z.shiftl (Zpos Coq_xH) (Zpos (Coq_xO Coq_xH)))))))

(** val nsync_mu_runlock_cas1_new : coq_Z **)

let nsync_mu_runlock_cas1_new =
  wrap_u (Zpos (Coq_xO (Coq_xO (Coq_xO (Coq_xO (Coq_xO Coq_xH)))))) Z0

(** val nsync_mu_runlock_cas1_old : coq_Z **)

let nsync_mu_runlock_cas1_old =
  wrap_u (Zpos (Coq_xO (Coq_xO (Coq_xO (Coq_xO (Coq_xO Coq_xH))))))
    (wrap_s (Zpos (Coq_xO (Coq_xO (Coq_xO (Coq_xO (Coq_xO Coq_xH))))))
      (Z.shiftl (Zpos Coq_xH) (Zpos (Coq_xO (Coq_xO (Coq_xO Coq_xH))))))

(** val nsync_mu_runlock_cas2_new : coq_Z -> coq_Z **)

let nsync_mu_runlock_cas2_new old_word =
  wrap_u (Zpos (Coq_xO (Coq_xO (Coq_xO (Coq_xO (Coq_xO Coq_xH))))))
    (Z.sub old_word
      (wrap_u (Zpos (Coq_xO (Coq_xO (Coq_xO (Coq_xO (Coq_xO Coq_xH))))))
        (wrap_s (Zpos (Coq_xO (Coq_xO (Coq_xO (Coq_xO (Coq_xO Coq_xH))))))
          (Z.shiftl (Zpos Coq_xH) (Zpos (Coq_xO (Coq_xO (Coq_xO Coq_xH))))))))

(** val nsync_mu_runlock_cas2_guard : coq_Z -> bool **)

let nsync_mu_runlock_cas2_guard old_word =
  (&&)
    (negb
      (Z.eqb
        (wrap_u (Zpos (Coq_xO (Coq_xO (Coq_xO (Coq_xO (Coq_xO Coq_xH))))))
          (Z.coq_land
            (wrap_u (Zpos (Coq_xO (Coq_xO (Coq_xO (Coq_xO (Coq_xO
              Coq_xH))))))
              (Z.coq_lxor old_word
                (wrap_u (Zpos (Coq_xO (Coq_xO (Coq_xO (Coq_xO (Coq_xO
                  Coq_xH))))))
                  (wrap_s (Zpos (Coq_xO (Coq_xO (Coq_xO (Coq_xO (Coq_xO
                    Coq_xH)))))) (Z.shiftl (Zpos Coq_xH) Z0)))))
            (wrap_u (Zpos (Coq_xO (Coq_xO (Coq_xO (Coq_xO (Coq_xO
              Coq_xH))))))
              (Z.coq_lor
                (wrap_u (Zpos (Coq_xO (Coq_xO (Coq_xO (Coq_xO (Coq_xO
                  Coq_xH))))))
                  (wrap_s (Zpos (Coq_xO (Coq_xO (Coq_xO (Coq_xO (Coq_xO
                    Coq_xH)))))) (Z.shiftl (Zpos Coq_xH) Z0)))
                (Z.sub (Zpos (Coq_xI (Coq_xI (Coq_xI (Coq_xI (Coq_xI (Coq_xI
                  (Coq_xI (Coq_xI (Coq_xI (Coq_xI (Coq_xI (Coq_xI (Coq_xI
                  (Coq_xI (Coq_xI (Coq_xI (Coq_xI (Coq_xI (Coq_xI (Coq_xI
                  (Coq_xI (Coq_xI (Coq_xI (Coq_xI (Coq_xI (Coq_xI (Coq_xI
                  (Coq_xI (Coq_xI (Coq_xI (Coq_xI
                  Coq_xH))))))))))))))))))))))))))))))))
                  (wrap_u (Zpos (Coq_xO (Coq_xO (Coq_xO (Coq_xO (Coq_xO
                    Coq_xH))))))
                    (Z.sub
                      (wrap_u (Zpos (Coq_xO (Coq_xO (Coq_xO (Coq_xO (Coq_xO
                        Coq_xH))))))
                        (wrap_s (Zpos (Coq_xO (Coq_xO (Coq_xO (Coq_xO (Coq_xO
                          Coq_xH))))))
                          (Z.shiftl (Zpos Coq_xH) (Zpos (Coq_xO (Coq_xO
                            (Coq_xO Coq_xH)))))))
                      (wrap_u (Zpos (Coq_xO (Coq_xO (Coq_xO (Coq_xO (Coq_xO
                        Coq_xH)))))) (Zpos Coq_xH)))))))))
        (wrap_u (Zpos (Coq_xO (Coq_xO (Coq_xO (Coq_xO (Coq_xO Coq_xH)))))) Z0)))
    (negb
      ((&&)
        (Z.eqb
          (wrap_u (Zpos (Coq_xO (Coq_xO (Coq_xO (Coq_xO (Coq_xO Coq_xH))))))
            (Z.coq_land old_word
              (wrap_u (Zpos (Coq_xO (Coq_xO (Coq_xO (Coq_xO (Coq_xO
                Coq_xH))))))
                (Z.coq_lor
                  (wrap_u (Zpos (Coq_xO (Coq_xO (Coq_xO (Coq_xO (Coq_xO
                    Coq_xH))))))
                    (wrap_s (Zpos (Coq_xO (Coq_xO (Coq_xO (Coq_xO (Coq_xO
                      Coq_xH))))))
                      (Z.shiftl (Zpos Coq_xH) (Zpos (Coq_xO Coq_xH)))))
                  (wrap_u (Zpos (Coq_xO (Coq_xO (Coq_xO (Coq_xO (Coq_xO
                    Coq_xH))))))
                    (wrap_s (Zpos (Coq_xO (Coq_xO (Coq_xO (Coq_xO (Coq_xO
                      Coq_xH))))))
                      (Z.shiftl (Zpos Coq_xH) (Zpos (Coq_xI Coq_xH)))))))))
          (wrap_u (Zpos (Coq_xO (Coq_xO (Coq_xO (Coq_xO (Coq_xO Coq_xH))))))
            (wrap_s (Zpos (Coq_xO (Coq_xO (Coq_xO (Coq_xO (Coq_xO
              Coq_xH)))))) (Z.shiftl (Zpos Coq_xH) (Zpos (Coq_xO Coq_xH))))))
        (Z.eqb
          (wrap_u (Zpos (Coq_xO (Coq_xO (Coq_xO (Coq_xO (Coq_xO Coq_xH))))))
            (Z.coq_land old_word
              (wrap_u (Zpos (Coq_xO (Coq_xO (Coq_xO (Coq_xO (Coq_xO
                Coq_xH))))))
                (Z.coq_lor
                  (Z.sub (Zpos (Coq_xI (Coq_xI (Coq_xI (Coq_xI (Coq_xI
                    (Coq_xI (Coq_xI (Coq_xI (Coq_xI (Coq_xI (Coq_xI (Coq_xI
                    (Coq_xI (Coq_xI (Coq_xI (Coq_xI (Coq_xI (Coq_xI (Coq_xI
                    (Coq_xI (Coq_xI (Coq_xI (Coq_xI (Coq_xI (Coq_xI (Coq_xI
                    (Coq_xI (Coq_xI (Coq_xI (Coq_xI (Coq_xI
                    Coq_xH))))))))))))))))))))))))))))))))
                    (wrap_u (Zpos (Coq_xO (Coq_xO (Coq_xO (Coq_xO (Coq_xO
                      Coq_xH))))))
                      (Z.sub
                        (wrap_u (Zpos (Coq_xO (Coq_xO (Coq_xO (Coq_xO (Coq_xO
                          Coq_xH))))))
                          (wrap_s (Zpos (Coq_xO (Coq_xO (Coq_xO (Coq_xO
                            (Coq_xO Coq_xH))))))
                            (Z.shiftl (Zpos Coq_xH) (Zpos (Coq_xO (Coq_xO
                              (Coq_xO Coq_xH)))))))
                        (wrap_u (Zpos (Coq_xO (Coq_xO (Coq_xO (Coq_xO (Coq_xO
                          Coq_xH)))))) (Zpos Coq_xH)))))
                  (wrap_u (Zpos (Coq_xO (Coq_xO (Coq_xO (Coq_xO (Coq_xO
                    Coq_xH))))))
                    (wrap_s (Zpos (Coq_xO (Coq_xO (Coq_xO (Coq_xO (Coq_xO
                      Coq_xH))))))
                      (Z.shiftl (Zpos Coq_xH) (Zpos (Coq_xI (Coq_xI Coq_xH))))))))))
          (wrap_u (Zpos (Coq_xO (Coq_xO (Coq_xO (Coq_xO (Coq_xO Coq_xH))))))
            (wrap_s (Zpos (Coq_xO (Coq_xO (Coq_xO (Coq_xO (Coq_xO
              Coq_xH))))))
              (Z.shiftl (Zpos Coq_xH) (Zpos (Coq_xO (Coq_xO (Coq_xO
                Coq_xH))))))))))

(** val nsync_mu_semaphore_p_cas1_new : coq_Z -> coq_Z **)

let nsync_mu_semaphore_p_cas1_new i =
  wrap_u (Zpos (Coq_xO (Coq_xO (Coq_xO (Coq_xO (Coq_xO Coq_xH))))))
    (wrap_s (Zpos (Coq_xO (Coq_xO (Coq_xO (Coq_xO (Coq_xO Coq_xH))))))
      (Z.sub i (Zpos Coq_xH)))

(** val nsync_mu_semaphore_p_cas1_guard : coq_Z -> bool **)

let nsync_mu_semaphore_p_cas1_guard i =
  negb (Z.eqb i Z0)

(** val nsync_mu_semaphore_p_with_deadline_cas1_new : coq_Z -> coq_Z **)

let nsync_mu_semaphore_p_with_deadline_cas1_new i =
  wrap_u (Zpos (Coq_xO (Coq_xO (Coq_xO (Coq_xO (Coq_xO Coq_xH))))))
    (wrap_s (Zpos (Coq_xO (Coq_xO (Coq_xO (Coq_xO (Coq_xO Coq_xH))))))
      (Z.sub i (Zpos Coq_xH)))

(** val nsync_mu_semaphore_p_with_deadline_cas1_guard :
    coq_Z -> coq_Z -> bool **)

let nsync_mu_semaphore_p_with_deadline_cas1_guard result i =
  (&&) (Z.eqb result Z0) (negb (Z.eqb i Z0))

(** val nsync_mu_semaphore_v_cas1_new : coq_Z -> coq_Z **)

let nsync_mu_semaphore_v_cas1_new old_value =
  wrap_u (Zpos (Coq_xO (Coq_xO (Coq_xO (Coq_xO (Coq_xO Coq_xH))))))
    (Z.add old_value
      (wrap_u (Zpos (Coq_xO (Coq_xO (Coq_xO (Coq_xO (Coq_xO Coq_xH))))))
        (Zpos Coq_xH)))

(** val nsync_run_once_impl_cas1_new : coq_Z **)

let nsync_run_once_impl_cas1_new =
  wrap_u (Zpos (Coq_xO (Coq_xO (Coq_xO (Coq_xO (Coq_xO Coq_xH)))))) (Zpos
    Coq_xH)

(** val nsync_run_once_impl_cas1_old : coq_Z **)

let nsync_run_once_impl_cas1_old =
  wrap_u (Zpos (Coq_xO (Coq_xO (Coq_xO (Coq_xO (Coq_xO Coq_xH)))))) Z0

(** val nsync_run_once_impl_cas1_guard : coq_Z -> bool **)

let nsync_run_once_impl_cas1_guard o =
  (&&)
    (negb
      (Z.eqb o
        (wrap_u (Zpos (Coq_xO (Coq_xO (Coq_xO (Coq_xO (Coq_xO Coq_xH))))))
          (Zpos (Coq_xO Coq_xH)))))
    (Z.eqb o
      (wrap_u (Zpos (Coq_xO (Coq_xO (Coq_xO (Coq_xO (Coq_xO Coq_xH)))))) Z0))

(** val nsync_run_once_impl_load2_guard : coq_Z -> bool **)

let nsync_run_once_impl_load2_guard o =
  negb
    (Z.eqb o
      (wrap_u (Zpos (Coq_xO (Coq_xO (Coq_xO (Coq_xO (Coq_xO Coq_xH))))))
        (Zpos (Coq_xO Coq_xH))))

(** val nsync_run_once_impl_store1_new : coq_Z **)

let nsync_run_once_impl_store1_new =
  wrap_u (Zpos (Coq_xO (Coq_xO (Coq_xO (Coq_xO (Coq_xO Coq_xH)))))) (Zpos
    (Coq_xO Coq_xH))
