open BinNums
open BinPos

module N :
 sig
  val succ_pos : coq_N -> positive

  val coq_lor : coq_N -> coq_N -> coq_N

  val coq_land : coq_N -> coq_N -> coq_N

  val ldiff : coq_N -> coq_N -> coq_N

  val coq_lxor : coq_N -> coq_N -> coq_N
 end
