
val negb : bool -> bool

type nat =
| O
| S of nat

val app : 'a1 list -> 'a1 list -> 'a1 list

type comparison =
| Eq
| Lt
| Gt

val coq_CompOpp : comparison -> comparison
