open BinInt
open BinNums
open CSem
open Datatypes

type lock_type = { lt_zero_to_acquire : coq_Z; lt_add_to_acquire : coq_Z;
                   lt_held_if_non_zero : coq_Z; lt_set_when_waiting : 
                   coq_Z; lt_clear_on_acquire : coq_Z;
                   lt_clear_on_uncontended_release : coq_Z }

val mu_release_spinlock_cas1_new : coq_Z -> coq_Z

val nsync_mu_lock_slow_cas1_new :
  coq_Z -> lock_type -> coq_Z -> coq_Z -> coq_Z

val nsync_mu_lock_slow_cas1_guard : coq_Z -> coq_Z -> bool

val nsync_mu_lock_slow_cas2_new :
  coq_Z -> coq_Z -> lock_type -> coq_Z -> coq_Z

val nsync_mu_lock_slow_cas2_guard : coq_Z -> coq_Z -> bool

val nsync_mu_trylock_cas1_new : coq_Z

val nsync_mu_trylock_cas2_new : coq_Z -> coq_Z

val nsync_mu_trylock_cas2_guard : coq_Z -> bool

val nsync_mu_lock_cas1_new : coq_Z

val nsync_mu_lock_cas2_new : coq_Z -> coq_Z

val nsync_mu_lock_cas2_guard : coq_Z -> bool

val nsync_mu_rtrylock_cas1_new : coq_Z

val nsync_mu_rtrylock_cas2_new : coq_Z -> coq_Z

val nsync_mu_rtrylock_cas2_guard : coq_Z -> bool

val nsync_mu_rlock_cas1_new : coq_Z

val nsync_mu_rlock_cas2_new : coq_Z -> coq_Z

val nsync_mu_rlock_cas2_guard : coq_Z -> bool

val nsync_mu_unlock_slow_cas1_new : coq_Z -> lock_type -> coq_Z

val nsync_mu_unlock_slow_cas1_guard : coq_Z -> bool

val nsync_mu_unlock_slow_cas2_new : coq_Z -> coq_Z -> coq_Z

val nsync_mu_unlock_slow_cas2_guard : coq_Z -> bool

val nsync_mu_unlock_slow_cas3_new : coq_Z -> coq_Z -> coq_Z -> coq_Z -> coq_Z

val nsync_mu_unlock_cas1_new : coq_Z

val nsync_mu_unlock_cas1_old : coq_Z

val nsync_mu_unlock_cas2_new : coq_Z -> coq_Z

val nsync_mu_unlock_cas2_guard : coq_Z -> bool

val nsync_mu_runlock_cas1_new : coq_Z

val nsync_mu_runlock_cas1_old : coq_Z

val nsync_mu_runlock_cas2_new : coq_Z -> coq_Z

val nsync_mu_runlock_cas2_guard : coq_Z -> bool

val nsync_mu_semaphore_p_cas1_new : coq_Z -> coq_Z

val nsync_mu_semaphore_p_cas1_guard : coq_Z -> bool

val nsync_mu_semaphore_p_with_deadline_cas1_new : coq_Z -> coq_Z

val nsync_mu_semaphore_p_with_deadline_cas1_guard : coq_Z -> coq_Z -> bool

val nsync_mu_semaphore_v_cas1_new : coq_Z -> coq_Z

val nsync_run_once_impl_cas1_new : coq_Z

val nsync_run_once_impl_cas1_old : coq_Z

val nsync_run_once_impl_cas1_guard : coq_Z -> bool

val nsync_run_once_impl_load2_guard : coq_Z -> bool

val nsync_run_once_impl_store1_new : coq_Z
