open BinNums
open Datatypes

module Pos =
 struct
  (** val succ : positive -> positive **)

  let rec succ = function
  | Coq_xI p -> Coq_xO (succ p)
  | Coq_xO p -> Coq_xI p
  | Coq_xH -> Coq_xO Coq_xH

  (** val add : positive -> positive -> positive **)

  let rec add x y =
    match x with
    | Coq_xI p ->
      (match y with
       | Coq_xI q -> Coq_xO (add_carry p q)
       | Coq_xO q -> Coq_xI (add p q)
       | Coq_xH -> Coq_xO (succ p))
    | Coq_xO p ->
      (match y with
       | Coq_xI q -> Coq_xI (add p q)
       | Coq_xO q -> Coq_xO (add p q)
       | Coq_xH -> Coq_xI p)
    | Coq_xH ->
      (match y with
       | Coq_xI q -> Coq_xO (succ q)
       | Coq_xO q -> Coq_xI q
       | Coq_xH -> Coq_xO Coq_xH)

  (** val add_carry : positive -> positive -> positive **)

  and add_carry x y =
    match x with
    | Coq_xI p ->
      (match y with
       | Coq_xI q -> Coq_xI (add_carry p q)
       | Coq_xO q -> Coq_xO (add_carry p q)
       | Coq_xH -> Coq_xI (succ p))
    | Coq_xO p ->
      (match y with
       | Coq_xI q -> Coq_xO (add_carry p q)
       | Coq_xO q -> Coq_xI (add p q)
       | Coq_xH -> Coq_xO (succ p))
    | Coq_xH ->
      (match y with
       | Coq_xI q -> Coq_xI (succ q)
       | Coq_xO q -> Coq_xO (succ q)
       | Coq_xH -> Coq_xI Coq_xH)

  (** val pred_double : positive -> positive **)

  let rec pred_double = function
  | Coq_xI p -> Coq_xI (Coq_xO p)
  | Coq_xO p -> Coq_xI (pred_double p)
  | Coq_xH -> Coq_xH

  (** val pred_N : positive -> coq_N **)

  let pred_N = function
  | Coq_xI p -> Npos (Coq_xO p)
  | Coq_xO p -> Npos (pred_double p)
  | Coq_xH -> N0

  (** val mul : positive -> positive -> positive **)

  let rec mul x y =
    match x with
    | Coq_xI p -> add y (Coq_xO (mul p y))
    | Coq_xO p -> Coq_xO (mul p y)
    | Coq_xH -> y

  (** val iter : ('a1 -> 'a1) -> 'a1 -> positive -> 'a1 **)

  let rec iter f x = function
  | Coq_xI n' -> f (iter f (iter f x n') n')
  | Coq_xO n' -> iter f (iter f x n') n'
  | Coq_xH -> f x

  (** val div2 : positive -> positive **)

  let div2 = function
  | Coq_xI p0 -> p0
  | Coq_xO p0 -> p0
  | Coq_xH -> Coq_xH

  (** val div2_up : positive -> positive **)

  let div2_up = function
  | Coq_xI p0 -> succ p0
  | Coq_xO p0 -> p0
  | Coq_xH -> Coq_xH

  (** val compare_cont : comparison -> positive -> positive -> comparison **)

  let rec compare_cont r x y =
    match x with
    | Coq_xI p ->
      (match y with
       | Coq_xI q -> compare_cont r p q
       | Coq_xO q -> compare_cont Gt p q
       | Coq_xH -> Gt)
    | Coq_xO p ->
      (match y with
       | Coq_xI q -> compare_cont Lt p q
       | Coq_xO q -> compare_cont r p q
       | Coq_xH -> Gt)
    | Coq_xH -> (match y with
                 | Coq_xH -> r
                 | _ -> Lt)

  (** val compare : positive -> positive -> comparison **)

  let compare =
    compare_cont Eq

  (** val eqb : positive -> positive -> bool **)

  let rec eqb p q =
    match p with
    | Coq_xI p0 -> (match q with
                    | Coq_xI q0 -> eqb p0 q0
                    | _ -> false)
    | Coq_xO p0 -> (match q with
                    | Coq_xO q0 -> eqb p0 q0
                    | _ -> false)
    | Coq_xH -> (match q with
                 | Coq_xH -> true
                 | _ -> false)

  (** val coq_Nsucc_double : coq_N -> coq_N **)

  let coq_Nsucc_double = function
  | N0 -> Npos Coq_xH
  | Npos p -> Npos (Coq_xI p)

  (** val coq_Ndouble : coq_N -> coq_N **)

  let coq_Ndouble = function
  | N0 -> N0
  | Npos p -> Npos (Coq_xO p)

  (** val coq_lor : positive -> positive -> positive **)

  let rec coq_lor p q =
    match p with
    | Coq_xI p0 ->
      (match q with
       | Coq_xI q0 -> Coq_xI (coq_lor p0 q0)
       | Coq_xO q0 -> Coq_xI (coq_lor p0 q0)
       | Coq_xH -> p)
    | Coq_xO p0 ->
      (match q with
       | Coq_xI q0 -> Coq_xI (coq_lor p0 q0)
       | Coq_xO q0 -> Coq_xO (coq_lor p0 q0)
       | Coq_xH -> Coq_xI p0)
    | Coq_xH -> (match q with
                 | Coq_xO q0 -> Coq_xI q0
                 | _ -> q)

  (** val coq_land : positive -> positive -> coq_N **)

  let rec coq_land p q =
    match p with
    | Coq_xI p0 ->
      (match q with
       | Coq_xI q0 -> coq_Nsucc_double (coq_land p0 q0)
       | Coq_xO q0 -> coq_Ndouble (coq_land p0 q0)
       | Coq_xH -> Npos Coq_xH)
    | Coq_xO p0 ->
      (match q with
       | Coq_xI q0 -> coq_Ndouble (coq_land p0 q0)
       | Coq_xO q0 -> coq_Ndouble (coq_land p0 q0)
       | Coq_xH -> N0)
    | Coq_xH -> (match q with
                 | Coq_xO _ -> N0
                 | _ -> Npos Coq_xH)

  (** val ldiff : positive -> positive -> coq_N **)

  let rec ldiff p q =
    match p with
    | Coq_xI p0 ->
      (match q with
       | Coq_xI q0 -> coq_Ndouble (ldiff p0 q0)
       | Coq_xO q0 -> coq_Nsucc_double (ldiff p0 q0)
       | Coq_xH -> Npos (Coq_xO p0))
    | Coq_xO p0 ->
      (match q with
       | Coq_xI q0 -> coq_Ndouble (ldiff p0 q0)
       | Coq_xO q0 -> coq_Ndouble (ldiff p0 q0)
       | Coq_xH -> Npos p)
    | Coq_xH -> (match q with
                 | Coq_xO _ -> Npos Coq_xH
                 | _ -> N0)

  (** val coq_lxor : positive -> positive -> coq_N **)

  let rec coq_lxor p q =
    match p with
    | Coq_xI p0 ->
      (match q with
       | Coq_xI q0 -> coq_Ndouble (coq_lxor p0 q0)
       | Coq_xO q0 -> coq_Nsucc_double (coq_lxor p0 q0)
       | Coq_xH -> Npos (Coq_xO p0))
    | Coq_xO p0 ->
      (match q with
       | Coq_xI q0 -> coq_Nsucc_double (coq_lxor p0 q0)
       | Coq_xO q0 -> coq_Ndouble (coq_lxor p0 q0)
       | Coq_xH -> Npos (Coq_xI p0))
    | Coq_xH ->
      (match q with
       | Coq_xI q0 -> Npos (Coq_xO q0)
       | Coq_xO q0 -> Npos (Coq_xI q0)
       | Coq_xH -> N0)
 end
