open BinInt
open BinNums
open Consts
open Datatypes
open List
open SemModel

(** val push_call : world -> tm option -> world **)

let push_call w c =
  { word = w.word; clock = w.clock; owner = w.owner; oprog =
    (app w.oprog (c :: [])); last = w.last; posters = w.posters; nP = w.nP;
    nV = w.nV; ret0 = w.ret0; early = w.early }

(** val add_post : world -> nat -> world **)

let add_post w k =
  match nth_error w.posters k with
  | Some p0 -> let (p, n) = p0 in set_poster w k (p, (S n))
  | None -> w

(** val poster_idle : world -> nat -> bool **)

let poster_idle w k =
  match nth_error w.posters k with
  | Some p -> let (p0, _) = p in (match p0 with
                                  | VIdle -> true
                                  | _ -> false)
  | None -> false

(** val expected_ts : world -> tm option option **)

let expected_ts w =
  match w.owner with
  | PFutex -> Some None
  | TFutex d -> Some (ts_of d)
  | _ -> None

(** val last_code : world -> coq_Z **)

let last_code w =
  match w.last with
  | RNone -> Zneg Coq_xH
  | ROk -> Z0
  | RTimedOut -> coq_ETIMEDOUT

(** val timeout_due : world -> bool **)

let timeout_due w =
  match w.owner with
  | TSleep d ->
    (match ts_of d with
     | Some ts -> Z.leb (tm_ns ts) w.clock
     | None -> false)
  | _ -> false
