open BinNums

val coq_MU_WLOCK : coq_Z

val coq_MU_SPINLOCK : coq_Z

val coq_MU_WAITING : coq_Z

val coq_MU_DESIG_WAKER : coq_Z

val coq_MU_CONDITION : coq_Z

val coq_MU_WRITER_WAITING : coq_Z

val coq_MU_LONG_WAIT : coq_Z

val coq_MU_ALL_FALSE : coq_Z

val coq_MU_RLOCK_FIELD : coq_Z

val coq_LONG_WAIT_THRESHOLD : coq_Z

val coq_ETIMEDOUT : coq_Z

val coq_EINTR : coq_Z

val coq_EAGAIN : coq_Z

val coq_EINVAL : coq_Z

val writer_type_zero_to_acquire : coq_Z

val writer_type_add_to_acquire : coq_Z

val writer_type_held_if_non_zero : coq_Z

val writer_type_set_when_waiting : coq_Z

val writer_type_clear_on_acquire : coq_Z

val writer_type_clear_on_uncontended_release : coq_Z

val reader_type_zero_to_acquire : coq_Z

val reader_type_add_to_acquire : coq_Z

val reader_type_held_if_non_zero : coq_Z

val reader_type_set_when_waiting : coq_Z

val reader_type_clear_on_acquire : coq_Z

val reader_type_clear_on_uncontended_release : coq_Z

val time_no_deadline_sec : coq_Z

val time_no_deadline_nsec : coq_Z
