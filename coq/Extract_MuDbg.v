(* Extraction of MuDbgModel (MuModel + debugger threads) for replay/mudbg_replay.ml (same conventions as Extract.v:
   only ExtrOcamlBasic; Z, positive and nat stay the Coq datatypes). *)
From Coq Require Extraction.
From Coq Require Import ExtrOcamlBasic.
From NsyncGen Require Consts Sites.
From NsyncModel Require MuModel MuReplay MuDbgModel MuDbgReplay.
Extraction Language OCaml.
Set Extraction AccessOpaque.
Cd "_extract_mudbg".
Separate Extraction MuDbgModel.dstep MuDbgModel.dinit MuDbgModel.base MuDbgModel.dget
  MuModel.word MuModel.queue MuModel.get MuModel.waiting MuModel.sem
  MuDbgReplay.push_base_op MuDbgReplay.base_is_idle MuDbgReplay.push_dop MuDbgReplay.dbg_is_idle MuDbgReplay.dinit_n
  MuDbgReplay.dpc_code MuDbgReplay.dbg_owner MuDbgReplay.dbg_nread MuDbgReplay.dbg_nunsafe
  Consts.MU_SPINLOCK.
