(* Extraction of MuWRefModel (the refcount wrapper over MuWaitModel) for replay/muwref_explore.ml (same conventions as
   Extract.v: only ExtrOcamlBasic; Z, positive and nat stay the Coq datatypes). *)
From Coq Require Extraction.
From Coq Require Import ExtrOcamlBasic.
From NsyncGen Require Consts Sites.
From NsyncModel Require MuWaitModel MuWRefModel.
Extraction Language OCaml.
Set Extraction AccessOpaque.
Cd "_extract_muwref".
Separate Extraction MuWaitModel.step MuWaitModel.init MuWaitModel.word MuWaitModel.queue MuWaitModel.get MuWaitModel.get_mw
  MuWaitModel.begin_op
  MuWRefModel.rwstep MuWRefModel.rwinit MuWRefModel.rwrun MuWRefModel.phase_of MuWRefModel.touches_mu
  MuWRefModel.dec_ready MuWRefModel.free_ready MuWRefModel.skip_ready MuWRefModel.pattern
  Consts.ETIMEDOUT Consts.ECANCELED Consts.MU_SPINLOCK Consts.MU_WAITING Consts.MU_CONDITION Consts.MU_DESIG_WAKER
  Consts.MU_ALL_FALSE Consts.MU_WLOCK.
