(* Extraction of CvDbgModel (CvModel + cv debugger threads) for replay/cvdbg_replay.ml; ExtrOcamlBasic only. *)
From Coq Require Extraction.
From Coq Require Import ExtrOcamlBasic.
From NsyncModel Require CvModel CvReplay CvDbgModel CvDbgReplay.
Extraction Language OCaml.
Set Extraction AccessOpaque.
Cd "_extract_cvdbg".
Separate Extraction CvDbgModel.cdstep CvDbgModel.cdinit CvDbgModel.cbase CvDbgModel.cdbg CvDbgModel.cdget
  CvDbgReplay.push_cdop CvDbgReplay.cdbg_is_idle CvDbgReplay.cdbg_list CvDbgReplay.cdpc_code CvDbgReplay.cdbg_owner
  CvModel.step CvModel.init CvModel.run CvReplay.push_op CvReplay.init_n CvReplay.pc_class CvReplay.vv_target
  CvReplay.wait_is_cancellable CvReplay.last_ret CvReplay.spin_free CvReplay.mu_spin_free CvReplay.rec_owner CvReplay.rec_native
  CvReplay.lock_field CvReplay.owed_of CvReplay.wlog_len CvReplay.wake_list CvReplay.generic_left CvModel.cvq CvModel.muq CvModel.mwake CvModel.muw CvModel.cvw CvModel.clock CvModel.nrec CvModel.dead_touch
  CvModel.mu_flags CvModel.get CvModel.sem CvModel.begin_op CvModel.t_pc.
