(* Extraction of MuAllModel (MuWaitModel + the part of cv.c that works on the mutex) for replay/muall_replay.ml and
   replay/muall_explore.ml (same conventions as Extract.v: only ExtrOcamlBasic; Z, positive and nat stay the Coq datatypes). *)
From Coq Require Extraction.
From Coq Require Import ExtrOcamlBasic.
From NsyncGen Require Consts Sites.
From NsyncModel Require MuWaitModel MuAllModel MuAllReplay.
Extraction Language OCaml.
Set Extraction AccessOpaque.
Cd "_extract_muall".
Separate Extraction MuAllModel.astep MuAllModel.astep_thr MuAllModel.abegin MuAllModel.ainit MuAllModel.arun
  MuAllModel.cvq MuAllModel.mu MuAllModel.aget MuAllModel.xferred MuAllModel.nonmu
  MuWaitModel.step MuWaitModel.init MuWaitModel.word MuWaitModel.queue MuWaitModel.get
  MuWaitModel.waiting MuWaitModel.sem MuWaitModel.scp MuWaitModel.scn MuWaitModel.clock MuWaitModel.note
  MuWaitModel.rcount MuWaitModel.wcond MuWaitModel.wtype MuWaitModel.pst MuWaitModel.thr MuWaitModel.has
  MuAllReplay.apush_op MuAllReplay.ainit_n MuAllReplay.apc_code MuAllReplay.mpc_code MuAllReplay.crash_why
  MuAllReplay.a_idle MuAllReplay.held_of MuAllReplay.unstable_queue MuAllReplay.ret_code MuAllReplay.in_call
  MuAllReplay.clear_ret MuAllReplay.timeout_enabled MuAllReplay.bad_evals MuAllReplay.nevals MuAllReplay.v_target
  MuAllReplay.is_desig_entry MuAllReplay.last_ret_ok MuAllReplay.xferred_of MuAllReplay.scan_of
  MuAllReplay.force_pst MuAllReplay.scanner_window MuAllReplay.scanner_lists
  Consts.ETIMEDOUT Consts.ECANCELED Consts.MU_SPINLOCK Consts.CV_NON_EMPTY Consts.MU_ALL_FALSE Consts.MU_WAITING
  Consts.MU_WLOCK Consts.MU_RLOCK_FIELD Consts.MU_DESIG_WAKER Consts.MU_CONDITION Consts.MU_ANY_LOCK.
