(* Extraction of MuXferModel (MuModel + the part of cv.c that works on the mutex) for replay/muxfer_replay.ml
   (same conventions as Extract.v: only ExtrOcamlBasic; Z, positive and nat stay the Coq datatypes). *)
From Coq Require Extraction.
From Coq Require Import ExtrOcamlBasic.
From NsyncGen Require Consts Sites.
From NsyncModel Require MuModel MuXferModel MuXferReplay.
Extraction Language OCaml.
Set Extraction AccessOpaque.
Cd "_extract_muxfer".
Separate Extraction MuXferModel.xstep MuXferModel.xstep_thr MuXferModel.xbegin MuXferModel.xinit MuXferModel.xrun
  MuXferModel.cvq MuXferModel.mw MuXferModel.xget MuXferModel.nrec
  MuModel.word MuModel.queue MuModel.get MuModel.waiting MuModel.sem
  MuXferReplay.xpush_op MuXferReplay.xinit_n MuXferReplay.xpc_code MuXferReplay.mu_busy MuXferReplay.held_of
  MuXferReplay.v_target MuXferReplay.mu_sem_pc MuXferReplay.is_desig_entry MuXferReplay.mu_spin_free
  MuXferReplay.mu_queue MuXferReplay.mu_word MuXferReplay.nrets MuXferReplay.last_ret_ok MuXferReplay.xferred_of MuXferReplay.reacq_out MuXferReplay.xn_rec_of
  Consts.MU_SPINLOCK Consts.CV_NON_EMPTY.
