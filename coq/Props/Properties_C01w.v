(* C01 extended to conditional critical sections (nsync_mu_wait_with_deadline, nsync_mu_unlock_without_wakeup,
   the full nsync_mu_unlock_slow_ with condition evaluation): writer exclusion / reader sharing on every acquisition
   path of Model/MuWaitModel.v, including the re-acquisition inside nsync_mu_wait_with_deadline -- both through
   nsync_mu_lock_slow_ (designated waker) and through mu_try_acquire_after_timeout_or_cancel (deadline / cancellation
   racing with a wake-up) -- and the last reader's conversion to a writer inside nsync_mu_unlock_slow_.
   The word-update expressions, guards, masks and lock_type tables are regenerated from /repo (Gen/Sites.v,
   Gen/Consts.v) on every run; the control skeleton is replayed in lock-step against the real mu.c / mu_wait.c.
   Statements only; proofs in Proof/MuWaitProof.v. *)
From NsyncBase Require Import CSem.
From NsyncGen Require Import Consts Sites.
From NsyncModel Require Import MuWaitModel MuWaitSpec.
From NsyncProof Require Import MuWaitProof.
From Coq Require Import List ZArith.
Import ListNotations.
Local Open Scope Z_scope.

(* For ANY number of threads (fewer than 2^24, the width of the reader count), ANY programs of lock / rlock /
   trylock / rtrylock / unlock / unlock_without_wakeup / SetCond / mu_wait(condition, eq, deadline, cancel) operations,
   ANY condition_arg_eq classes, ANY schedule of thread steps, clock ticks, notifications of the cancel note and
   semaphore posts from the note, and ANY resolution of the timed waits:
   the lock field of the word is exactly the set of ghost owners -- counting an unlocker that converted itself to a
   writer to evaluate conditions, and a timed-out waiter between its acquiring CAS and its release store, as writers --
   and the spinlock bit is exactly the set of spinlock owners. *)
Theorem C01w_word_agrees : forall progs cl c0 sched,
  Z.of_nat (length progs) < 2 ^ 24 - 1 ->
  word_agrees (run (init progs cl c0) sched).
Proof. exact word_agrees_reachable. Qed.

(* ... hence at most one writer, and never a writer together with a reader *)
Theorem C01w_exclusion : forall progs cl c0 sched,
  Z.of_nat (length progs) < 2 ^ 24 - 1 ->
  excl (run (init progs cl c0) sched).
Proof. exact excl_reachable. Qed.

(* Frozen word: between the successful CAS of mu_try_acquire_after_timeout_or_cancel and its release store the thread
   owns WLOCK + SPINLOCK and the word still is what that CAS wrote ... *)
Theorem C01w_frozen : forall progs cl c0 sched,
  Z.of_nat (length progs) < 2 ^ 24 - 1 ->
  frozen (run (init progs cl c0) sched).
Proof. exact frozen_reachable. Qed.

(* ... because no step of any other thread can change the word in that window (so the plain release store of a
   value derived from the pre-CAS word loses no concurrent update) *)
Theorem C01w_frozen_stable : forall progs cl c0 sched,
  Z.of_nat (length progs) < 2 ^ 24 - 1 ->
  frozen_stable (run (init progs cl c0) sched).
Proof. exact frozen_stable_reachable. Qed.

(* non-vacuity: a reachable world in which the last reader has converted itself to a writer and is about to evaluate a
   queued waiter's condition; and one in which a timed-out waiter is inside the frozen window *)
Example C01w_example_converted : exists progs sched,
  let w := run (init progs (fun a => a) 0) sched in
  holds w 1%nat W /\ conv (get w 1%nat) = true /\ (exists m u, t_pc (get w 1%nat) = UsEval m u /\ u_rest u = [0%nat]) /\
  is_eval (snd (step w (exT 1))) = true /\ excl w.
Proof. exact example_converted. Qed.
Example C01w_example_frozen : exists progs sched old,
  let w := run (init progs (fun a => a) 0) sched in
  frozen_old (t_pc (get w 0%nat)) = Some old /\ queue w = [0%nat] /\ frozen w.
Proof. exact example_frozen. Qed.

Print Assumptions C01w_example_converted. Print Assumptions C01w_example_frozen.
Print Assumptions C01w_word_agrees. Print Assumptions C01w_exclusion.
Print Assumptions C01w_frozen. Print Assumptions C01w_frozen_stable.
