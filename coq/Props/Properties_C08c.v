(* C08 (continued) -- "once no notification of it or of an ancestor is still in progress all its descendants are notified
   and every thread waiting on them is released", in its LOCAL form, with the release of the waiting threads.
   Theorems about Model/NoteModel.v (any number of threads, any tree of notes, any deadlines, any schedule, any clock).
   Statements only; proofs in Proof/NoteDesc3.v (on top of NoteDesc.v, NoteDesc2.v).

   What is added to Props/Properties_C08b.v:
   (1) `quiet w` (no FN/FC/FF frame on any stack) is replaced by [quiet_for w m a]:
         [path_quiet w m a]   no note_notify_child (r, _) is running for a note r on the creation path from m up to a
                              (cpath w m r /\ cpath w r a; m and a included);
         [not_unlinked w m]   m's own nsync_note_free, if one is running, has not yet unlinked m (it is not at F11/F12/F13).
       Nothing else is needed: notify () frames (FN) anywhere, note_notify_child frames of other notes, nsync_note_free of
       ANY other note (the intermediate ones included: their children are handed over or notified, invariant KInv of
       NoteDesc2.v), deadline-driven notifications by pollers -- all allowed.  Both parts ARE needed:
       C08_path_quiet_alone_refuted, C08_not_unlinked_alone_refuted (the statement parametrised by its side condition is
       [descendants_stmt]).
   (3) the ancestor a only has to be observed notified ([obs_notified w a]: word set, or expiry not after the epoch).
   (2) the waiting threads.  [armed w o m]: thread o is still queued on m, or a note_notify_child (m) is between the
       removal of o's record and the store to its `waiting` word (C3 o) or between that store and the V (C4 o), or a post is
       pending on o's semaphore.  C08_waiter_armed: in EVERY reachable world a thread blocked in the semaphore wait of
       nsync_note_wait (m) (program point S1) is armed (and: queued, or m is observed notified) -- no lost wakeup.
       C08_waiters_released: if m is observed notified and no note_notify_child (m) is running, the post is there
       (sem > 0), so the P is enabled; C08_waiters_released_quiet is the corollary for quiet worlds;
       C08_descendants_waiters_released joins it with the descendants clause.  A model whose note_notify_child omits the V
       ([step_noV], Proof/NoteDesc3.v) falsifies the theorem: C08_waiters_released_variant_refuted.
   (4) C08_descendants_nonvacuous: tree 0 -> 1 -> 2, thread 0 waits on 2, nsync_note_free (1) interleaved step by step with
       nsync_note_notify (0), and an unrelated nsync_note_notify (3) left in the middle of note_notify_child: all hypotheses of
       the local theorems hold (1 is freed, `quiet` does NOT hold), 2 is notified, the waiter has its post. *)
From NsyncBase Require Import CSem.
From NsyncGen Require Import Consts Sites.
From NsyncModel Require Import NoteModel.
From NsyncProof Require Import NoteProof NoteProof2 NoteProof3 NoteProof4 NoteProof5 NoteProof6 NoteDesc NoteDesc2 NoteDesc3.
From Coq Require Import List ZArith.
Import ListNotations.
Local Open Scope Z_scope.

(* ---- (1)+(3) the descendants clause, local form ---- *)
Theorem C08_descendants_path : forall w a m,
  reachable w -> broken (gh w) = false -> (m < nnext w)%nat -> ~ uc w m -> ~ In m (freed (gh w)) ->
  cpath w m a -> obs_notified w a -> quiet_for w m a -> obs_notified w m /\ waiters (nt w m) = [].
Proof. exact descendants_path. Qed.
Theorem C08_descendants_stmt_quiet_for : descendants_stmt quiet_for.
Proof. exact descendants_stmt_quiet_for. Qed.
(* it contains the global form of Properties_C08b.v *)
Theorem C08_quiet_quiet_for : forall w m a, quiet w -> quiet_for w m a.
Proof. exact quiet_quiet_for. Qed.
(* neither half of quiet_for can be dropped *)
Theorem C08_path_quiet_alone_refuted : ~ descendants_stmt (fun w m a => path_quiet w m a).
Proof. exact path_quiet_alone_refuted. Qed.
Theorem C08_not_unlinked_alone_refuted : ~ descendants_stmt (fun w m _ => not_unlinked w m).
Proof. exact not_unlinked_alone_refuted. Qed.
(* used for (3): a positive expiry is inherited from positive expiries all the way up the creation path *)
Theorem C08_expiry_pos_up : forall w, reachable w -> broken (gh w) = false ->
  forall m a, cpath w m a -> (m < nnext w)%nat -> ~ uc w m -> tpos (expiry (nt w m)) = true -> tpos (expiry (nt w a)) = true.
Proof. exact expiry_pos_up. Qed.

(* ---- (2) every thread waiting on them is released ---- *)
Theorem C08_waiter_armed : forall w o m dl d, reachable w -> top w o = Some (AWait m dl (S1 d)) -> armed w o m /\ inq w o m.
Proof. exact waiter_armed. Qed.
Theorem C08_waiters_released : forall w o m dl d, reachable w -> broken (gh w) = false ->
  top w o = Some (AWait m dl (S1 d)) -> obs_notified w m -> ~ notifying w m -> (0 < sem (thr w o))%nat.
Proof. exact waiters_released. Qed.
Theorem C08_waiters_released_quiet : forall w o m dl d, reachable w -> broken (gh w) = false -> quiet w ->
  top w o = Some (AWait m dl (S1 d)) -> obs_notified w m -> (0 < sem (thr w o))%nat.
Proof. exact waiters_released_quiet. Qed.
Theorem C08_descendants_waiters_released : forall w a m o dl d,
  reachable w -> broken (gh w) = false -> ~ In m (freed (gh w)) -> cpath w m a -> obs_notified w a -> quiet_for w m a ->
  top w o = Some (AWait m dl (S1 d)) -> obs_notified w m /\ (0 < sem (thr w o))%nat.
Proof. exact descendants_waiters_released. Qed.
(* the same statement over the model whose note_notify_child does not post the semaphore is FALSE *)
Theorem C08_waiters_released_variant_refuted : ~ waiters_released_in reachable_noV.
Proof. exact waiters_released_variant_refuted. Qed.

(* ---- (4) non-vacuity ---- *)
Theorem C08_descendants_nonvacuous :
  reachable w4 /\ broken (gh w4) = false /\ (2 < nnext w4)%nat /\ ~ uc w4 2 /\ ~ In 2%nat (freed (gh w4)) /\
  In 1%nat (freed (gh w4)) /\ cpath w4 2 0 /\ flag (nt w4 0) <> 0 /\ quiet_for w4 2 0 /\ ~ quiet w4 /\
  top w4 0 = Some (AWait 2 None (S1 None)) /\ ~ notifying w4 2 /\
  flag (nt w4 2) = 1 /\ waiters (nt w4 2) = [] /\ sem (thr w4 0) = 1%nat.
Proof. exact descendants_nonvacuous. Qed.

Print Assumptions C08_descendants_path.
Print Assumptions C08_descendants_stmt_quiet_for.
Print Assumptions C08_quiet_quiet_for.
Print Assumptions C08_path_quiet_alone_refuted.
Print Assumptions C08_not_unlinked_alone_refuted.
Print Assumptions C08_expiry_pos_up.
Print Assumptions C08_waiter_armed.
Print Assumptions C08_waiters_released.
Print Assumptions C08_waiters_released_quiet.
Print Assumptions C08_descendants_waiters_released.
Print Assumptions C08_waiters_released_variant_refuted.
Print Assumptions C08_descendants_nonvacuous.
