(* C04 — condition-variable wake-ups are neither lost nor swallowed by a timeout.
   Theorems about Model/CvModel.v: the executable model of internal/cv.c (nsync_cv_wait_with_deadline_generic,
   nsync_cv_signal, nsync_cv_broadcast, wake_waiters, cv_enqueue / cv_dequeue / cv_ready_time as used by nsync_wait_n)
   with the repair of finding F3, one step per atomic site, values from Gen/Sites.v; tied to the real code by
   lock-step replay of harness/scen/cv_mix.c traces (replay/cv_replay.ml).  Statements only; proofs in Proof/CvProof.v.

   Every theorem is about [run (init progs clock0 exp) sched] for ARBITRARY thread programs [progs] (any number of
   threads; Wait with any deadline / cancellable / generic flag, Signal, Broadcast, WaitN, Lock, Unlock in any order),
   any schedule of thread steps interleaved with the environment steps (clock ticks, the note being notified, the
   ABSTRACT mutex internals), any choice of semaphore outcomes.  The client contract appears as the [Crash] pcs of
   the model: a thread that violates it (waiting without holding the mutex, ...) stops; nothing is assumed of the
   other threads.

   ghost vocabulary: [taker x] = the thread that unlinked record x from the cv queue since it was last enqueued;
   [r_code] / [r_taker] / ... = what was logged when a wait returned; [live] = the nsync_wait_n call that owns the
   record has not returned; [dead_touch] = number of accesses to records that are not live. *)
From NsyncBase Require Import CSem.
From NsyncGen Require Import Consts Sites.
From NsyncModel Require Import CvModel.
From NsyncProof Require Import CvProof.
From Coq Require Import List ZArith.
Import ListNotations.
Local Open Scope Z_scope.

Section C04.
  Variable progs : list (list op).          (* one program per thread, any number of threads *)
  Variable clock0 : Z.
  Variable exp : option Z.                  (* expiry of the cancel note, if any *)
  Variable sched : list (actor * choice).   (* any interleaving of thread and environment steps, any choices *)
  Let w := run (init progs clock0 exp) sched.

  (* ---- (a) releasing the mutex and starting to wait is atomic for wakers that hold the mutex ---- *)
  (* at the step that releases the mutex the record is already on the cv queue (or a waker has it already) *)
  Theorem C04_atomic_wait : forall t l, (t < length (thr w))%nat -> pcof w t = WMuRel l ->
    In t (cvq w) \/ exists s, s <> t /\ taker (recs w t) = Some s.
  Proof. exact (atomic_wait_reachable progs clock0 exp sched). Qed.
  (* ... and from its enqueue until it leaves the wait loop, a record that no waker (and not its owner) has taken
     is on the cv queue: a waker that acquires the mutex after the release finds it there *)
  Theorem C04_queued_until_taken : forall t, (t < length (thr w))%nat ->
    match pcof w t with
    | WStoreRel l | WMuRel l | WSem l | WLoad6 l | SpLoad _ (KWaitTo l) | SpCas (KWaitTo l) _ | WLoad7 l | WLoad8 l =>
        taker (recs w t) = None -> In t (cvq w)
    | WStoreW l | WLoad13 l | WLoop l => taker (recs w t) = None -> In t (cvq w)
    | _ => True
    end.
  Proof. exact (queued_until_taken_reachable progs clock0 exp sched). Qed.
  (* ... and it does not take the early exit of nsync_cv_signal / broadcast: whenever nobody is inside a cv spinlock
     section, CV_NON_EMPTY is set if the queue is not empty *)
  Theorem C04_non_empty : (forall t, pc_spin (pcof w t) = false) -> cvq w <> [] -> has (cvw w) CV_NON_EMPTY = true.
  Proof. exact (non_empty_reachable progs clock0 exp sched). Qed.

  (* ---- (c) a wake-up that was consumed is reported as a wake-up ---- *)
  (* native waits: a non-zero result (ETIMEDOUT / ECANCELED) only if the waiter unlinked its record itself; a wait
     whose record was unlinked by a waker returns 0; every returning wait's record was unlinked by somebody *)
  Theorem C04_outcome : forall t e, In e (rets (get w t)) -> r_wait e = true ->
    (r_code e <> 0 -> r_taker e = Some t) /\
    (forall s, r_taker e = Some s -> s <> t -> r_code e = 0) /\
    r_taker e <> None.
  Proof. exact (outcome_wait_reachable progs clock0 exp sched). Qed.
  (* nsync_wait_n on a cv: cv_dequeue reports "still queued" (1) exactly when the caller unlinked the record itself,
     and "not still queued" (0: the object counts as ready) exactly when a waker had unlinked it *)
  Theorem C04_outcome_waitn : forall t e, In e (rets (get w t)) -> r_wait e = false ->
    (r_code e = 1 /\ r_taker e = Some t) \/ (r_code e = 0 /\ exists s, s <> t /\ r_taker e = Some s).
  Proof. exact (outcome_waitn_reachable progs clock0 exp sched). Qed.

  (* ---- the repaired F3: no step touches an nsync_wait_n record after its call has returned ---- *)
  Theorem C04_no_dead_record : dead_touch w = 0.
  Proof. exact (no_dead_record_reachable progs clock0 exp sched). Qed.
  (* a dead record is on no list: not on the cv queue, not on a waker's private list, not on the mutex queue *)
  Theorem C04_dead_record_is_nowhere : forall r, live (recs w r) = false ->
    ~ In r (cvq w) /\ ~ In r (muq w) /\ ~ In r (mwake w) /\ forall t, ~ In r (priv (pcof w t)).
  Proof. exact (dead_is_nowhere_reachable progs clock0 exp sched). Qed.

  (* ---- (b) what becomes of the records a waker has taken: in every step of the waker each record on its private
     list stays there, or is woken (waiting = 0, the next step is the V), or is handed to the mutex queue with
     cv_mu = NULL (native records only) ---- *)
  Theorem C04_private_fate : forall t c r, (t < length (thr w))%nat -> In r (priv (pcof w t)) ->
    let w' := fst (step_core w t c) in
    In r (priv (pcof w' t)) \/
    (waiting (recs w' r) = 0 /\ lc w' r = PNone /\ exists k, pcof w' t = VV k r) \/
    (In r (muq w') /\ cv_mu (recs w' r) = false /\ is_mucv (recs w' r) = true /\ lc w' r = PMuq).
  Proof.
    intros t c r Hlt. apply private_fate_step; [|exact Hlt]. apply (Inv_run progs clock0 exp sched).
  Qed.
End C04.

(* ---- (b) what a waker takes, at the CAS that acquires the cv spinlock (any world) ---- *)
(* nsync_cv_broadcast: every queued record *)
Theorem C04_broadcast_covers : forall w t old, (t < length (thr w))%nat -> pcof w t = SpCas KBc old -> cvw w = old ->
  let w' := fst (step_core w t CNormal) in
  cvq w' = [] /\ priv (pcof w' t) = cvq w /\ (forall r, In r (cvq w) -> lc w' r = PPriv t /\ taker (recs w' r) = Some t).
Proof. exact broadcast_covers_step. Qed.
(* nsync_cv_signal: the first record; if it is a native reader, every native reader and at most one other record *)
Theorem C04_signal_covers : forall w t old, (t < length (thr w))%nat -> pcof w t = SpCas KSig old -> cvw w = old ->
  let w' := fst (step_core w t CNormal) in
  let sel := fst (fst (sel_signal (recs w) (cvq w))) in
  priv (pcof w' t) = sel /\ cvq w' = snd (fst (sel_signal (recs w) (cvq w))) /\
  (forall r, In r sel -> lc w' r = PPriv t /\ taker (recs w' r) = Some t) /\
  (forall f q, cvq w = f :: q -> In f sel /\
     (is_rdr (recs w f) = true ->
        (forall r, In r (cvq w) -> is_rdr (recs w r) = true -> In r sel) /\ (length (nonreaders (recs w) sel) <= 1)%nat) /\
     (is_rdr (recs w f) = false -> sel = [f])).
Proof. exact signal_covers_step. Qed.
(* the V that follows the store waiting = 0 *)
Theorem C04_V_posts : forall w t k p c, (t < length (thr w))%nat -> pcof w t = VV k p ->
  sem (fst (step_core w t c)) (owner (recs w p)) = sem w (owner (recs w p)) + 1.
Proof. exact VV_posts. Qed.

(* ---- (d) progress ---- *)
(* Full statement: no reachable world in which no thread can move has a sleeper whose wake-up was issued: if no
   thread step changes the world and the ABSTRACT mutex owes no hand-off, every thread asleep in
   nsync_sem_wait_with_cancel_ still has its record on the cv queue (nobody signalled it). *)
Definition C04_no_stuck_full : Prop :=
  forall progs clock0 exp sched, let w := run (init progs clock0 exp) sched in
  (forall t c, fst (step w (Thr t) c) = w) -> muq w = [] -> mwake w = [] ->
  forall t l, (t < length (thr w))%nat -> pcof w t = WSem l -> In t (cvq w).

(* Proved part: in such a world a thread asleep in nsync_sem_wait_with_cancel_ either still has its record on the cv
   queue, or its record was taken by a waker that has finished with it (it is on no list) while the thread's
   semaphore is empty.  In particular no waker is left holding records (a waker with a non-empty private list can
   always move) -- no wake-up is "in flight" in a stuck world.  MISSING for the full statement: the accounting of
   the posts of the per-thread semaphore (each store waiting = 0 by wake_waiters is followed by a V that only the
   owner consumes; the semaphore is shared with the thread's mutex sleeps, which the abstract mutex of this model
   does not account for), and the corresponding obligation of the abstract mutex for transferred waiters (here a
   hypothesis: no record is in the hands of the mutex). *)
Theorem C04_no_stuck_partial : forall progs clock0 exp sched, let w := run (init progs clock0 exp) sched in
  (forall t c, fst (step w (Thr t) c) = w) -> (forall r, lc w r <> PMuq /\ lc w r <> PMwake) ->
  forall t l, (t < length (thr w))%nat -> pcof w t = WSem l ->
  In t (cvq w) \/ (lc w t = PNone /\ sem w t <= 0 /\ exists s, s <> t /\ taker (recs w t) = Some s).
Proof. exact no_stuck_partial_reachable. Qed.
(* a waker that has taken records is never blocked *)
Theorem C04_waker_moves : forall w t c, (t < length (thr w))%nat -> priv (pcof w t) <> [] -> fst (step w (Thr t) c) <> w.
Proof. exact waker_moves. Qed.

(* ---- non-vacuity: concrete programs and schedules ---- *)
Definition rr2 (n : nat) : list (actor * choice) := concat (repeat [(Thr 0%nat, CNormal); (Thr 1%nat, CNormal)] n).
(* a waiter and a signaller that signals inside the critical section: wake_waiters hands the waiter to the mutex
   queue, the (abstract) unlock dequeues and wakes it; the wait returns 0, its record was unlinked by thread 1 *)
Example C04_example_signal :
  let progs := [[OLock W; OWait None false false; OUnlock]; [OLock W; OSignal; OUnlock]] in
  let w := run (init progs 0 None) (rr2 30 ++ [(MuDeq 0, CNormal); (MuWakeSt 0, CNormal); (EnvV 0, CNormal)] ++ rr2 10) in
  (forall t, (t < 2)%nat -> t_pc (get w t) = Idle /\ t_ops (get w t) = []) /\
  (exists e, rets (get w 0%nat) = [e] /\ r_wait e = true /\ r_code e = 0 /\ r_taker e = Some 1%nat /\ r_held e = Some W) /\
  cvq w = [] /\ dead_touch w = 0.
Proof.
  cbv zeta. split; [intros [|[|t]] Ht; [vm_compute; auto | vm_compute; auto | exfalso; clear - Ht; do 2 apply PeanoNat.Nat.succ_lt_mono in Ht; inversion Ht]|].
  split; [eexists; split; [vm_compute; reflexivity|]; vm_compute; auto|]. vm_compute. auto.
Qed.
(* a timed wait alone: the deadline passes, the waiter unlinks itself and reports ETIMEDOUT *)
Example C04_example_timeout :
  let progs := [[OLock W; OWait (Some 5) false false; OUnlock]] in
  let sched := repeat (Thr 0%nat, CNormal) 12 ++ [(Tick 10, CNormal); (Thr 0%nat, CTimeout)] ++ repeat (Thr 0%nat, CNormal) 20 in
  let w := run (init progs 0 None) sched in
  t_pc (get w 0%nat) = Idle /\ t_ops (get w 0%nat) = [] /\
  exists e, rets (get w 0%nat) = [e] /\ r_wait e = true /\ r_code e = ETIMEDOUT /\ r_taker e = Some 0%nat /\ r_held e = Some W.
Proof.
  cbv zeta. split; [vm_compute; reflexivity|]. split; [vm_compute; reflexivity|].
  eexists; split; [vm_compute; reflexivity|]; vm_compute; auto.
Qed.
(* an nsync_wait_n caller woken by a broadcast issued after the critical section *)
Example C04_example_waitn :
  let progs := [[OLock W; OWaitN None; OUnlock]; [OLock W; OUnlock; OBroadcast]] in
  let w := run (init progs 0 None) (rr2 60) in
  (exists e, rets (get w 0%nat) = [e] /\ r_wait e = false /\ r_code e = 0 /\ r_taker e = Some 1%nat /\ r_rec e = 2%nat) /\
  live (recs w 2%nat) = false /\ dead_touch w = 0 /\ t_pc (get w 0%nat) = Idle /\ t_ops (get w 0%nat) = [].
Proof.
  cbv zeta. split; [eexists; split; [vm_compute; reflexivity|]; vm_compute; auto|]. vm_compute. auto.
Qed.

Print Assumptions C04_atomic_wait. Print Assumptions C04_queued_until_taken. Print Assumptions C04_non_empty.
Print Assumptions C04_outcome. Print Assumptions C04_outcome_waitn. Print Assumptions C04_no_dead_record.
Print Assumptions C04_dead_record_is_nowhere. Print Assumptions C04_private_fate. Print Assumptions C04_broadcast_covers.
Print Assumptions C04_signal_covers. Print Assumptions C04_V_posts.
Print Assumptions C04_no_stuck_partial. Print Assumptions C04_waker_moves.
Print Assumptions C04_example_signal. Print Assumptions C04_example_timeout. Print Assumptions C04_example_waitn.
