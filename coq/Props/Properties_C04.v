(* C04 — condition-variable wake-ups are neither lost nor swallowed by a timeout.
   Theorems about Model/CvModel.v: the executable model of internal/cv.c (nsync_cv_wait_with_deadline_generic,
   nsync_cv_signal, nsync_cv_broadcast, wake_waiters, cv_enqueue / cv_dequeue / cv_ready_time as used by nsync_wait_n)
   with the repairs of findings F3, F15 and F16, one step per atomic site, values from Gen/Sites.v; tied to the real code by
   lock-step replay of harness/scen/cv_mix.c traces (replay/cv_replay.ml).  Statements only; proofs in
   Proof/CvProof.v .. CvProof6.v (F15: layers L and F of CvProof6.v).

   Every theorem is about [run (init progs clock0 exp) sched] for ARBITRARY thread programs [progs] (any number of
   threads; Wait with any deadline / cancellable / generic flag, Signal, Broadcast, WaitN, Lock, Unlock in any order),
   any schedule of thread steps interleaved with the environment steps (clock ticks, the note being notified, the
   ABSTRACT mutex internals), any choice of semaphore outcomes.  The client contract appears as the [Crash] pcs of
   the model: a thread that violates it (waiting without holding the mutex, ...) stops; nothing is assumed of the
   other threads.

   ghost vocabulary: [taker x] = the thread that unlinked record x from the cv queue since it was last enqueued;
   [lc w x] = the list record x is on (cv queue / to_wake_list of waker t / mutex queue / dequeued by an unlocker /
   none); [r_code] / [r_taker] / ... = what was logged when a wait returned; [live] = the nsync_wait_n call that owns
   the record has not returned; [dead_touch] = number of accesses to records that are not live; [owed w u] = posts the
   abstract mutex's unlocker still owes thread u (it cleared the waiting flag of u's transferred waiter; in mu.c the V
   follows that store immediately); [wlog w] = the completed signal / broadcast calls with the ghost history of each:
   k_q (the queue when the call acquired the cv spinlock), k_rdrs (the native readers on it), k_taken (what the call
   unlinked), k_xfer (handed to the mutex queue), k_woken (waiting cleared), k_posts (semaphores posted);
   [muq w] = the TRANSFERRED records on the queue of the abstract mutex (the plain lockers of the real mutex are not
   modelled: whether one is queued is reported by the environment when wake_waiters tests nsync_dll_is_empty_
   (pmu->waiters), choice [CMuEmpty] = none; [k_envq] records the report, [k_clr] is clear_on_release);
   [mspin w] = the thread inside wake_waiters that owns the mutex spinlock. *)
From NsyncBase Require Import CSem.
From NsyncGen Require Import Consts Sites.
From NsyncModel Require Import CvModel.
From NsyncProof Require Import CvProof CvProof2 CvProof3 CvProof4 CvProof5 CvProof6.
From Coq Require Import List ZArith.
Import ListNotations.
Local Open Scope Z_scope.

Section C04.
  Variable progs : list (list op).          (* one program per thread, any number of threads *)
  Variable clock0 : Z.
  Variable exp : option Z.                  (* expiry of the cancel note, if any *)
  Variable sched : list (actor * choice).   (* any interleaving of thread and environment steps, any choices *)
  Let w := run (init progs clock0 exp) sched.

  (* ---- (a) releasing the mutex and starting to wait is atomic for wakers that hold the mutex ---- *)
  (* at the step that releases the mutex the record is already on the cv queue (or a waker has it already) *)
  Theorem C04_atomic_wait : forall t l, (t < length (thr w))%nat -> pcof w t = WMuRel l ->
    In t (cvq w) \/ exists s, s <> t /\ taker (recs w t) = Some s.
  Proof. exact (atomic_wait_reachable progs clock0 exp sched). Qed.
  (* ... and from its enqueue until it leaves the wait loop, a record that no waker (and not its owner) has taken
     is on the cv queue: a waker that acquires the mutex after the release finds it there *)
  Theorem C04_queued_until_taken : forall t, (t < length (thr w))%nat ->
    match pcof w t with
    | WStoreRel l | WMuRel l | WSem l | WLoad6 l | SpLoad _ (KWaitTo l) | SpCas (KWaitTo l) _ | WLoad7 l | WLoad8 l =>
        taker (recs w t) = None -> In t (cvq w)
    | WStoreW l | WLoad13 l | WLoop l => taker (recs w t) = None -> In t (cvq w)
    | _ => True
    end.
  Proof. exact (queued_until_taken_reachable progs clock0 exp sched). Qed.

  (* ... and the waker does not take the early exit of nsync_cv_signal / broadcast.
     What is true of CV_NON_EMPTY: the bit of the word never changes while somebody holds the cv spinlock (the holder
     writes it back at its release store), a waiter of nsync_cv_wait* sets it with the very CAS that acquires the
     spinlock for its enqueue, cv_enqueue (nsync_wait_n) sets it only at its release store.  So the ONLY window in which
     the queue holds a record while the bit is clear is a cv_enqueue between its CAS and its release store whose record
     is alone on the queue -- an enqueue that is not complete, whose caller has not released its mutex yet.
     [enq_done w r]: r is not the record of a cv_enqueue that is still in that window. *)
  Theorem C04_non_empty_strong : forall r, In r (cvq w) -> enq_done w r -> has (cvw w) CV_NON_EMPTY = true.
  Proof. exact (non_empty_strong_reachable progs clock0 exp sched). Qed.
  (* in particular a queued waiter of nsync_cv_wait / nsync_cv_wait_with_deadline[_generic] is ALWAYS announced by the
     bit, whoever is inside a spinlock section *)
  Theorem C04_non_empty_native : forall t, (t < length (thr w))%nat -> In t (cvq w) -> has (cvw w) CV_NON_EMPTY = true.
  Proof. exact (non_empty_native_reachable progs clock0 exp sched). Qed.
  (* so a signaller / broadcaster that loads the cv word while such a record is queued goes on to acquire the spinlock *)
  Theorem C04_no_early_exit : forall s bc c r, (s < length (thr w))%nat -> pcof w s = KLoadW bc -> In r (cvq w) -> enq_done w r ->
    pcof (fst (step_core w s c)) s = SpLoad true (if bc then KBc else KSig).
  Proof. exact (no_early_exit_reachable progs clock0 exp sched). Qed.
  (* (lemma, the spinlock-free case of the above: the queue is non-empty and nobody is inside a spinlock section) *)
  Theorem C04_non_empty : (forall t, pc_spin (pcof w t) = false) -> cvq w <> [] -> has (cvw w) CV_NON_EMPTY = true.
  Proof. exact (non_empty_reachable progs clock0 exp sched). Qed.

  (* ---- (c) a wake-up that was consumed is reported as a wake-up ---- *)
  (* native waits: a non-zero result (ETIMEDOUT / ECANCELED) only if the waiter unlinked its record itself; a wait
     whose record was unlinked by a waker returns 0 (even if its nsync_sem_wait_with_cancel_ had already returned
     ETIMEDOUT: C04_example_race); every returning wait's record was unlinked by somebody *)
  Theorem C04_outcome : forall t e, In e (rets (get w t)) -> r_wait e = true ->
    (r_code e <> 0 -> r_taker e = Some t) /\
    (forall s, r_taker e = Some s -> s <> t -> r_code e = 0) /\
    r_taker e <> None.
  Proof. exact (outcome_wait_reachable progs clock0 exp sched). Qed.
  (* nsync_wait_n on a cv: cv_dequeue reports "still queued" (1) exactly when the caller unlinked the record itself,
     and "not still queued" (0: the object counts as ready) exactly when a waker had unlinked it *)
  Theorem C04_outcome_waitn : forall t e, In e (rets (get w t)) -> r_wait e = false ->
    (r_code e = 1 /\ r_taker e = Some t) \/ (r_code e = 0 /\ exists s, s <> t /\ r_taker e = Some s).
  Proof. exact (outcome_waitn_reachable progs clock0 exp sched). Qed.

  (* ---- the repaired F3: no step touches an nsync_wait_n record after its call has returned ----
     [touch] marks every access of the model to a record: both halves of the repair are covered.  cv_dequeue: the
     membership test under the spinlock and the wait for waiting == 0.  wake_waiters: p_nw->sem is read in the step
     that stores waiting = 0 ([VStore], which touches the record and every other element of to_wake_list, whose links
     it rewrites), the V ([VV k o]) carries the semaphore's owner in the pc and touches nothing.  A model that reads
     the owner in [VV] instead violates this theorem on the schedule "the nsync_wait_n caller returns between the
     store and the V" (scratch demonstration MutantDemo.v, not part of the tree).  The list operations under the cv
     spinlock count an access to EVERY record on pcv->waiters (a superset of the neighbours whose links the dll
     functions rewrite, of the elements cv_dequeue walks over, and of the elements whose flags / l_type
     nsync_cv_signal / broadcast read). *)
  Theorem C04_no_dead_record : dead_touch w = 0.
  Proof. exact (no_dead_record_reachable progs clock0 exp sched). Qed.
  (* a dead record is on no list: not on the cv queue, not on a waker's private list, not on the mutex queue *)
  Theorem C04_dead_record_is_nowhere : forall r, live (recs w r) = false ->
    ~ In r (cvq w) /\ ~ In r (muq w) /\ ~ In r (mwake w) /\ forall t, ~ In r (priv (pcof w t)).
  Proof. exact (dead_is_nowhere_reachable progs clock0 exp sched). Qed.

  (* ---- (b) what becomes of the records a waker has taken, step by step: in every step of the waker each record on
     its private list stays there, or is woken (waiting = 0, the next step is the V on its owner's semaphore, read
     before the store), or is handed to the mutex queue with cv_mu = NULL (native records only) ---- *)
  Theorem C04_private_fate : forall t c r, (t < length (thr w))%nat -> In r (priv (pcof w t)) ->
    let w' := fst (step_core w t c) in
    In r (priv (pcof w' t)) \/
    (waiting (recs w' r) = 0 /\ lc w' r = PNone /\ exists k, pcof w' t = VV k (owner (recs w r))) \/
    (In r (muq w') /\ cv_mu (recs w' r) = false /\ is_mucv (recs w' r) = true /\ lc w' r = PMuq).
  Proof.
    intros t c r Hlt. apply private_fate_step; [|exact Hlt]. apply (Inv_run progs clock0 exp sched).
  Qed.

  (* ---- (b) run level: every completed nsync_cv_signal / nsync_cv_broadcast call that got past the early exit ----
     (the ghost history is written by the steps that do the real thing: k_q / k_rdrs / k_taken at the CAS that
     acquires the cv spinlock (C04_taken_ghost), k_xfer at the CAS that acquires the mutex spinlock in wake_waiters
     (C04_xfer_ghost), k_woken at the store waiting = 0 (C04_store_ghost), k_posts at the V (C04_post_ghost); every
     return is logged (C04_return_logged)) *)
  Theorem C04_wake_complete : forall t k, In (t, k) (wlog w) ->
    (* a broadcast took every record that was queued when it acquired the cv spinlock; a signal took the first and,
       if the first was a native reader, every native reader that was queued *)
    incl (k_taken k) (k_q k) /\
    (k_bc k = true -> k_taken k = k_q k) /\
    (k_bc k = false -> forall f q, k_q k = f :: q -> In f (k_taken k) /\ (In f (k_rdrs k) -> incl (k_rdrs k) (k_taken k))) /\
    (* nothing is left on its to_wake_list; every record it took was handed to the mutex queue or had its waiting
       flag cleared -- exactly one of the two, exactly once -- and the semaphores posted are those of the owners of
       the records whose flag was cleared, in the same order *)
    k_wake k = [] /\
    NoDup (k_xfer k ++ k_woken k) /\
    (forall r, In r (k_taken k) <-> In r (k_xfer k) \/ In r (k_woken k)) /\
    k_posts k = map (fun r => owner (recs w r)) (k_woken k).
  Proof. exact (wake_complete_reachable progs clock0 exp sched). Qed.

  (* ---- (d) no wake-up is lost ----
     A thread asleep in nsync_sem_wait_with_cancel_ whose record a waker s has unlinked from the cv queue:
       the waker still has it on its to_wake_list (and a waker holding records always moves: C04_waker_moves), or
       the abstract mutex has it: on the mutex queue (cv_mu cleared) / dequeued by an unlocker, or
       its waiting flag is clear and a post exists: the thread's semaphore is positive, or s is at the V for it (and
       then s moves: C04_VV_moves), or the abstract mutex's unlocker owes it the post.
     (The thread's semaphore is shared with its mutex sleeps; only the thread itself consumes posts.) *)
  Theorem C04_no_lost_wakeup : forall t l s, (t < length (thr w))%nat -> pcof w t = WSem l -> taker (recs w t) = Some s -> s <> t ->
    (lc w t = PPriv s /\ In t (priv (pcof w s))) \/
    (lc w t = PMuq /\ In t (muq w)) \/ (lc w t = PMwake /\ In t (mwake w)) \/
    (lc w t = PNone /\ waiting (recs w t) = 0 /\ (0 < sem w t \/ (exists k, pcof w s = VV k t) \/ 0 < owed w t)).
  Proof. exact (no_lost_wakeup_reachable progs clock0 exp sched). Qed.
  (* the same for a thread asleep in the P of nsync_wait_n whose record is no longer on the cv queue (records of
     nsync_wait_n calls are never handed to the mutex queue) *)
  Theorem C04_no_lost_wakeup_waitn : forall t n, pcof w t = NSem n -> ~ In (n_r n) (cvq w) ->
    (exists s, s <> t /\ lc w (n_r n) = PPriv s /\ In (n_r n) (priv (pcof w s))) \/
    (lc w (n_r n) = PNone /\ waiting (recs w (n_r n)) = 0 /\ (0 < sem w t \/ exists s k, pcof w s = VV k t)).
  Proof. exact (no_lost_wakeup_waitn_reachable progs clock0 exp sched). Qed.

  (* ---- (f) the repair of F15: MU_WAITING at the CAS of wake_waiters that releases the mutex spinlock ----
     wake_waiters sets MU_WAITING with the CAS that takes the spinlock, before it knows whether it will transfer anybody.
     At the successful releasing CAS ([VCas2], the word read is still the word): *)
  (* after the release the bit is set only if a waiter is queued: a transferred one, or a plain locker the environment
     reported when wake_waiters tested the queue under the spinlock *)
  Theorem C04_waiting_bit_has_a_waiter : forall t k old c, pcof w t = VCas2 k old -> muw w = old ->
    let w' := fst (step w (Thr t) c) in
    has (muw w') MU_WAITING = true -> muq w' <> [] \/ k_envq k = true.
  Proof. exact (waiting_bit_has_a_waiter_reachable progs clock0 exp sched). Qed.
  (* exactly: taken back when nobody is queued, left as it was read when somebody is (never cleared over a waiter) *)
  Theorem C04_waiting_bit_exact : forall t k old c, pcof w t = VCas2 k old -> muw w = old ->
    let w' := fst (step w (Thr t) c) in
    (muq w = [] /\ k_envq k = false -> has (muw w') MU_WAITING = false) /\
    (muq w <> [] \/ k_envq k = true -> has (muw w') MU_WAITING = has old MU_WAITING).
  Proof. exact (waiting_bit_exact_reachable progs clock0 exp sched). Qed.
  (* the release step itself: the thread owned the spinlock, what it clears (k_clr) was decided against the queue as it
     still is, the queue is not touched, the new word is the expression of the C source (Gen/Sites.v) *)
  Theorem C04_release_step : forall t k old c, pcof w t = VCas2 k old -> muw w = old ->
    let w' := fst (step w (Thr t) c) in
    mspin w = Some t /\ clr_ok k (muq w) /\ word_ok (muw w) /\
    pcof w' t = enter_wake_loop k /\ mspin w' = None /\ muq w' = muq w /\ muw w' = wake_waiters_cas2_new old (k_set k) (k_clr k).
  Proof. exact (release_step_reachable progs clock0 exp sched). Qed.
  (* the mutex spinlock section of wake_waiters is exclusive: its owner is between the two CASes, the spinlock bit is set in
     the word whatever the environment writes, and every thread between the two CASes is the owner *)
  Theorem C04_mu_spin_section :
    (forall t, mspin w = Some t -> has (muw w) MU_SPINLOCK = true /\ exists k, rel_pc (pcof w t) = Some k) /\
    (forall t k, rel_pc (pcof w t) = Some k -> mspin w = Some t /\ clr_ok k (muq w)).
  Proof. exact (mu_spin_section_reachable progs clock0 exp sched). Qed.
  (* the lock field of the abstract mutex word counts the holders (bit 0: the writer, bits 8..: the readers; never both) *)
  (* ---- (g) the repair of F16: what wake_waiters moves to the mutex queue ----
     at the successful CAS that takes the mutex spinlock ([VCas1]) every record appended to the queue of the mutex was, before
     the move, a native waiter (NSYNC_WAITER_FLAG_MUCV) ASSOCIATED WITH THE MUTEX (cv_mu != NULL; CvModel has one mutex) -- in
     particular never a waiter of nsync_cv_wait_with_deadline_generic with the caller's own lock routines (cv_mu == NULL), which
     would be woken by the unlocker as designated waker and never clear MU_DESIG_WAKER *)
  Theorem C04_transferred_is_native : forall t c k old, pcof w t = VCas1 k old -> muw w = old ->
    let w' := fst (step w (Thr t) c) in
    exists moved, muq w' = muq w ++ moved /\
      forall r, In r moved -> is_mucv (recs w r) = true /\ cv_mu (recs w r) = true /\ cv_mu (recs w' r) = false /\ lc w' r = PMuq.
  Proof. exact (transferred_is_native_reachable progs clock0 exp sched). Qed.
  Theorem C04_abstract_mutex_lock_field :
    0 <= muw w < 4294967296 /\ muw w mod 2 = sumf hW (thr w) /\ muw w / 256 = sumf hR (thr w) /\
    (sumf hW (thr w) = 0 \/ sumf hR (thr w) = 0).
  Proof. exact (lock_field_reachable progs clock0 exp sched). Qed.
End C04.

(* ---- (b) what a waker takes, at the CAS that acquires the cv spinlock (any world; one-step lemmas) ---- *)
(* nsync_cv_broadcast: every queued record *)
Theorem C04_broadcast_covers : forall w t old, (t < length (thr w))%nat -> pcof w t = SpCas KBc old -> cvw w = old ->
  let w' := fst (step_core w t CNormal) in
  cvq w' = [] /\ priv (pcof w' t) = cvq w /\ (forall r, In r (cvq w) -> lc w' r = PPriv t /\ taker (recs w' r) = Some t).
Proof. exact broadcast_covers_step. Qed.
(* nsync_cv_signal: the first record; if it is a native reader, every native reader and at most one other record *)
Theorem C04_signal_covers : forall w t old, (t < length (thr w))%nat -> pcof w t = SpCas KSig old -> cvw w = old ->
  let w' := fst (step_core w t CNormal) in
  let sel := fst (fst (sel_signal (recs w) (cvq w))) in
  priv (pcof w' t) = sel /\ cvq w' = snd (fst (sel_signal (recs w) (cvq w))) /\
  (forall r, In r sel -> lc w' r = PPriv t /\ taker (recs w' r) = Some t) /\
  (forall f q, cvq w = f :: q -> In f sel /\
     (is_rdr (recs w f) = true ->
        (forall r, In r (cvq w) -> is_rdr (recs w r) = true -> In r sel) /\ (length (nonreaders (recs w) sel) <= 1)%nat) /\
     (is_rdr (recs w f) = false -> sel = [f])).
Proof. exact signal_covers_step. Qed.
(* the V that follows the store waiting = 0 posts the semaphore whose owner was read before that store *)
Theorem C04_V_posts : forall w t k o c, (t < length (thr w))%nat -> pcof w t = VV k o ->
  sem (fst (step_core w t c)) o = sem w o + 1.
Proof. exact VV_posts. Qed.
(* the ghost history of a call is written by the steps that do the real thing:
   - at the CAS that acquires the cv spinlock: k_q is the queue, k_rdrs its native readers, k_taken what was unlinked *)
Theorem C04_taken_ghost : forall w t (bc : bool) old, (t < length (thr w))%nat ->
  pcof w t = SpCas (if bc then KBc else KSig) old -> cvw w = old ->
  let w' := fst (step_core w t CNormal) in
  exists kk, pcof w' t = after_todo kk /\ k_bc kk = bc /\ k_q kk = cvq w /\
             k_rdrs kk = filter (fun p => is_rdr (recs w p)) (cvq w) /\
             k_taken kk = k_wake kk /\ priv (pcof w' t) = k_taken kk /\ k_xfer kk = [] /\ k_woken kk = [] /\ k_posts kk = [].
Proof. exact taken_ghost_step. Qed.
(* - at the CAS that acquires the mutex spinlock in wake_waiters: k_xfer grows by exactly the records appended to the
     mutex queue, each with cv_mu cleared; they leave to_wake_list *)
Theorem C04_xfer_ghost : forall w t c k old, (t < length (thr w))%nat -> pcof w t = VCas1 k old -> muw w = old ->
  let w' := fst (step_core w t c) in
  exists k' moved, pcof w' t = VLoad3 k' /\ k_xfer k' = k_xfer k ++ moved /\ muq w' = muq w ++ moved /\
                   (forall r, In r moved -> cv_mu (recs w' r) = false /\ lc w' r = PMuq) /\
                   (forall r, In r (k_wake k) <-> In r moved \/ In r (k_wake k')).
Proof. exact wake_ghost_xfer. Qed.
(*   ... and clear_on_release is decided there, once, under the spinlock: MU_SPINLOCK, plus MU_WAITING iff the transferred
     queue is empty after the transfer and the environment reports no plain locker (k_envq records the report) *)
Theorem C04_release_decided : forall w t c k old, (t < length (thr w))%nat -> pcof w t = VCas1 k old -> muw w = old ->
  let w' := fst (step_core w t c) in
  exists k', pcof w' t = VLoad3 k' /\ k_envq k' = env_reports_queued c /\ k_clr k' = clear_on_release (muq w') (k_envq k').
Proof. exact release_decided_step. Qed.
(* - at the store waiting = 0: k_woken grows by that record; the next pc is the V on the semaphore of its owner *)
Theorem C04_store_ghost : forall w t c k p rest, (t < length (thr w))%nat -> pcof w t = VStore k -> k_wake k = p :: rest ->
  let w' := fst (step_core w t c) in
  pcof w' t = VV (kl_wake_one k rest p) (owner (recs w p)) /\ waiting (recs w' p) = 0 /\
  k_woken (kl_wake_one k rest p) = k_woken k ++ [p] /\ k_wake (kl_wake_one k rest p) = rest.
Proof. exact wake_ghost_store. Qed.
(* - at the V: k_posts grows by the thread whose semaphore is incremented *)
Theorem C04_post_ghost : forall w t c k o, (t < length (thr w))%nat -> pcof w t = VV k o ->
  let w' := fst (step_core w t c) in
  pcof w' t = enter_wake_loop (kl_add_post k o) /\ sem w' o = sem w o + 1 /\ k_posts (kl_add_post k o) = k_posts k ++ [o].
Proof. exact wake_ghost_post. Qed.
(* every return of a signal / broadcast call that got past the early exit adds an entry to the log *)
Theorem C04_return_logged : forall w t c, (t < length (thr w))%nat -> waker_pc (pcof w t) = true ->
  pcof (fst (step_core w t c)) t = Idle -> exists k, wlog (fst (step_core w t c)) = (t, k) :: wlog w.
Proof. exact wake_return_logged. Qed.

(* ---- (d) progress ---- *)
(* a waker that has taken records is never blocked, nor is a waker at the V *)
Theorem C04_waker_moves : forall w t c, (t < length (thr w))%nat -> priv (pcof w t) <> [] -> fst (step w (Thr t) c) <> w.
Proof. exact waker_moves. Qed.
Theorem C04_VV_moves : forall w t k o c, (t < length (thr w))%nat -> pcof w t = VV k o -> fst (step w (Thr t) c) <> w.
Proof. exact VV_moves. Qed.

(* No reachable world in which no thread can move has a sleeper whose wake-up was issued: if no thread step changes the
   world, the ABSTRACT mutex holds no transferred waiter and OWES NO POST, every thread asleep in
   nsync_sem_wait_with_cancel_ still has its record on the cv queue (nobody signalled it). *)
Theorem C04_no_stuck : forall progs clock0 exp sched, let w := run (init progs clock0 exp) sched in
  (forall t c, fst (step w (Thr t) c) = w) -> muq w = [] -> mwake w = [] -> (forall u, owed w u = 0) ->
  forall t l, (t < length (thr w))%nat -> pcof w t = WSem l -> In t (cvq w).
Proof. exact no_stuck_reachable. Qed.
(* ... and every thread asleep in the P of nsync_wait_n still has its record on the cv queue (no hypothesis about the
   abstract mutex is needed: these records are never transferred) *)
Theorem C04_no_stuck_waitn : forall progs clock0 exp sched, let w := run (init progs clock0 exp) sched in
  (forall t c, fst (step w (Thr t) c) = w) ->
  forall t n, (t < length (thr w))%nat -> pcof w t = NSem n -> In (n_r n) (cvq w).
Proof. exact no_stuck_waitn_reachable. Qed.

(* The same statement WITHOUT the hypothesis "no post is owed" is false of the model, and the counterexample says
   exactly which behaviour of the environment it needs: the unlocker of the abstract mutex dequeues the transferred
   waiter ([MuDeq]), clears its waiting flag ([MuWakeSt]) and then never performs the V -- which nsync_mu_unlock_slow_
   cannot do (mu.c: ATM_STORE_REL (&w->nw.waiting, 0); nsync_mu_semaphore_v (&w->sem); are consecutive statements; the
   lock-step replay checks on every trace that each [MuWakeSt] is followed by that thread's V on the same waiter).
   The hypothesis [owed w u = 0] of C04_no_stuck is that property of the quiescent world: every owed post was made. *)
Definition C04_no_stuck_uncoupled : Prop :=
  forall progs clock0 exp sched, let w := run (init progs clock0 exp) sched in
  (forall t c, fst (step w (Thr t) c) = w) -> muq w = [] -> mwake w = [] ->
  forall t l, (t < length (thr w))%nat -> pcof w t = WSem l -> In t (cvq w).

(* ---- non-vacuity: concrete programs and schedules ---- *)
Definition rr2 (n : nat) : list (actor * choice) := concat (repeat [(Thr 0%nat, CNormal); (Thr 1%nat, CNormal)] n).
Definition T (t n : nat) : list (actor * choice) := repeat (Thr t, CNormal) n.

Theorem C04_no_stuck_uncoupled_refuted :
  let progs := [[OLock W; OWait None false false; OUnlock]; [OLock W; OSignal; OUnlock]] in
  let w := run (init progs 0 None) (rr2 30 ++ [(MuDeq 0, CNormal); (MuWakeSt 0, CNormal)]) in
  (forall t c, fst (step w (Thr t) c) = w) /\ muq w = [] /\ mwake w = [] /\
  (exists l, pcof w 0%nat = WSem l) /\ ~ In 0%nat (cvq w) /\
  waiting (recs w 0%nat) = 0 /\ sem w 0%nat = 0 /\ owed w 0%nat = 1.
Proof.
  cbv zeta. set (W := run _ _).
  assert (Hlen : length (thr W) = 2%nat) by (vm_compute; reflexivity).
  split.
  - intros [|[|t]] c.
    + destruct c; vm_compute; reflexivity.
    + destruct c; vm_compute; reflexivity.
    + apply (step_thr_oob W (S (S t)) c). rewrite Hlen. repeat apply le_n_S. apply PeanoNat.Nat.le_0_l.
  - vm_compute. repeat split; eauto.
Qed.
Theorem C04_no_stuck_uncoupled_is_false : ~ C04_no_stuck_uncoupled.
Proof.
  intros H. destruct C04_no_stuck_uncoupled_refuted as (A & B & C & (l & D) & E & _).
  apply E. refine (H _ 0 None _ A B C 0%nat l _ D). vm_compute. repeat constructor.
Qed.

(* a waiter and a signaller that signals inside the critical section: wake_waiters hands the waiter to the mutex
   queue, the (abstract) unlock dequeues and wakes it; the wait returns 0, its record was unlinked by thread 1 *)
Example C04_example_signal :
  let progs := [[OLock W; OWait None false false; OUnlock]; [OLock W; OSignal; OUnlock]] in
  let w := run (init progs 0 None) (rr2 30 ++ [(MuDeq 0, CNormal); (MuWakeSt 0, CNormal); (EnvV 0, CNormal)] ++ rr2 10) in
  (forall t, (t < 2)%nat -> t_pc (get w t) = Idle /\ t_ops (get w t) = []) /\
  (exists e, rets (get w 0%nat) = [e] /\ r_wait e = true /\ r_code e = 0 /\ r_taker e = Some 1%nat /\ r_held e = Some W) /\
  cvq w = [] /\ dead_touch w = 0 /\ owed w 0%nat = 0 /\
  (exists k, wlog w = [(1%nat, k)] /\ k_q k = [0%nat] /\ k_taken k = [0%nat] /\ k_xfer k = [0%nat] /\ k_woken k = [] /\ k_posts k = []).
Proof.
  cbv zeta. split; [intros [|[|t]] Ht; [vm_compute; auto | vm_compute; auto | exfalso; clear - Ht; do 2 apply PeanoNat.Nat.succ_lt_mono in Ht; inversion Ht]|].
  split; [eexists; split; [vm_compute; reflexivity|]; vm_compute; auto|].
  split; [vm_compute; reflexivity|]. split; [vm_compute; reflexivity|]. split; [vm_compute; reflexivity|].
  eexists; split; [vm_compute; reflexivity|]; vm_compute; auto 10.
Qed.
(* a timed wait alone: the deadline passes, the waiter unlinks itself and reports ETIMEDOUT *)
Example C04_example_timeout :
  let progs := [[OLock W; OWait (Some 5) false false; OUnlock]] in
  let sched := repeat (Thr 0%nat, CNormal) 12 ++ [(Tick 10, CNormal); (Thr 0%nat, CTimeout)] ++ repeat (Thr 0%nat, CNormal) 20 in
  let w := run (init progs 0 None) sched in
  t_pc (get w 0%nat) = Idle /\ t_ops (get w 0%nat) = [] /\
  exists e, rets (get w 0%nat) = [e] /\ r_wait e = true /\ r_code e = ETIMEDOUT /\ r_taker e = Some 0%nat /\ r_held e = Some W.
Proof.
  cbv zeta. split; [vm_compute; reflexivity|]. split; [vm_compute; reflexivity|].
  eexists; split; [vm_compute; reflexivity|]; vm_compute; auto.
Qed.
(* THE RACE of timeout against signal: the waiter's nsync_sem_wait_with_cancel_ has already returned ETIMEDOUT
   (sem_outcome = ETIMEDOUT at clock 10 >= deadline 5) when a signaller, not holding the mutex, takes its record and
   wakes it; the waiter sees waiting == 0, does not declare a timeout and returns 0: the wake-up is reported *)
Example C04_example_race :
  let progs := [[OLock W; OWait (Some 5) false false; OUnlock]; [OSignal]] in
  let before := T 0 12 ++ [(Tick 10, CNormal); (Thr 0%nat, CTimeout)] in
  let w1 := run (init progs 0 None) before in
  let w := run w1 (T 1 9 ++ T 0 6) in
  (exists l, pcof w1 0%nat = WLoad6 l /\ w_so l = ETIMEDOUT /\ In 0%nat (cvq w1)) /\
  t_pc (get w 0%nat) = Idle /\
  (exists e, rets (get w 0%nat) = [e] /\ r_wait e = true /\ r_code e = 0 /\ r_taker e = Some 1%nat /\ r_held e = Some W /\
             r_dl e = Some 5 /\ r_toclk e = Some 10) /\
  (exists k, wlog w = [(1%nat, k)] /\ k_taken k = [0%nat] /\ k_woken k = [0%nat] /\ k_posts k = [0%nat]) /\
  sem w 0%nat = 1.   (* the post is left in the semaphore: a later sleep of the thread finds a stale post *)
Proof.
  cbv zeta. split; [eexists; split; [vm_compute; reflexivity|]; vm_compute; auto|].
  split; [vm_compute; reflexivity|].
  split; [eexists; split; [vm_compute; reflexivity|]; vm_compute; auto 10|].
  split; [eexists; split; [vm_compute; reflexivity|]; vm_compute; auto|]. vm_compute. reflexivity.
Qed.
(* an nsync_wait_n caller woken by a broadcast issued after the critical section *)
Example C04_example_waitn :
  let progs := [[OLock W; OWaitN None; OUnlock]; [OLock W; OUnlock; OBroadcast]] in
  let w := run (init progs 0 None) (rr2 60) in
  (exists e, rets (get w 0%nat) = [e] /\ r_wait e = false /\ r_code e = 0 /\ r_taker e = Some 1%nat /\ r_rec e = 2%nat) /\
  live (recs w 2%nat) = false /\ dead_touch w = 0 /\ t_pc (get w 0%nat) = Idle /\ t_ops (get w 0%nat) = [].
Proof.
  cbv zeta. split; [eexists; split; [vm_compute; reflexivity|]; vm_compute; auto|]. vm_compute. auto.
Qed.
(* a broadcast over three waiters -- two native readers and an nsync_wait_n caller (record 4): all three are taken,
   all three have their flag cleared and their owners (threads 0, 1, 2) are posted; all three return woken *)
Example C04_example_broadcast :
  let progs := [[OLock R; OWait None false false; OUnlock]; [OLock R; OWait None false false; OUnlock]; [OWaitN None]; [OBroadcast]] in
  let w1 := run (init progs 0 None) (T 0 12 ++ T 1 12 ++ T 2 6 ++ T 3 15) in
  let w := run w1 (T 0 5 ++ T 1 5 ++ T 2 7) in
  (exists k, wlog w1 = [(3%nat, k)] /\ k_bc k = true /\ k_q k = [0; 1; 4]%nat /\ k_rdrs k = [0; 1]%nat /\ k_taken k = [0; 1; 4]%nat /\
             k_xfer k = [] /\ k_woken k = [0; 1; 4]%nat /\ k_posts k = [0; 1; 2]%nat) /\
  cvq w1 = [] /\ sem w1 0%nat = 1 /\ sem w1 1%nat = 1 /\ sem w1 2%nat = 1 /\
  (forall t, (t < 2)%nat -> exists e, rets (get w t) = [e] /\ r_wait e = true /\ r_code e = 0 /\ r_taker e = Some 3%nat /\ r_held e = Some R) /\
  (exists e, rets (get w 2%nat) = [e] /\ r_wait e = false /\ r_code e = 0 /\ r_taker e = Some 3%nat) /\
  dead_touch w = 0.
Proof.
  cbv zeta. split; [eexists; split; [vm_compute; reflexivity|]; vm_compute; auto 10|].
  split; [vm_compute; reflexivity|]. split; [vm_compute; reflexivity|]. split; [vm_compute; reflexivity|]. split; [vm_compute; reflexivity|].
  split; [intros [|[|t]] Ht; [eexists; split; [vm_compute; reflexivity|]; vm_compute; auto | eexists; split; [vm_compute; reflexivity|]; vm_compute; auto
                            | exfalso; clear - Ht; do 2 apply PeanoNat.Nat.succ_lt_mono in Ht; inversion Ht]|].
  split; [eexists; split; [vm_compute; reflexivity|]; vm_compute; auto|]. vm_compute. reflexivity.
Qed.
(* a signal whose first waiter is a native reader, with two readers and two nsync_wait_n callers (records 5, 6) queued:
   it takes both readers and ONE other waiter (record 5); record 6 stays queued *)
Example C04_example_signal_readers :
  let progs := [[OLock R; OWait None false false; OUnlock]; [OLock R; OWait None false false; OUnlock]; [OWaitN None]; [OWaitN None]; [OSignal]] in
  let w := run (init progs 0 None) (T 0 12 ++ T 1 12 ++ T 2 6 ++ T 3 6 ++ T 4 15) in
  (exists k, wlog w = [(4%nat, k)] /\ k_bc k = false /\ k_q k = [0; 1; 5; 6]%nat /\ k_rdrs k = [0; 1]%nat /\ k_taken k = [0; 1; 5]%nat /\
             k_woken k = [0; 1; 5]%nat /\ k_posts k = [0; 1; 2]%nat) /\
  cvq w = [6%nat] /\ has (cvw w) CV_NON_EMPTY = true.
Proof.
  cbv zeta. split; [eexists; split; [vm_compute; reflexivity|]; vm_compute; auto 10|]. vm_compute. auto.
Qed.
(* the shape of F15: a native reader and an nsync_wait_n caller are queued, the broadcast is issued under a read lock: the
   reader can acquire, the other record is not a mutex waiter, so wake_waiters takes the mutex spinlock (the word 256 becomes
   262: MU_WAITING | MU_SPINLOCK set) and transfers nobody.  With no plain locker queued (CMuEmpty) the release takes
   MU_WAITING back (256); if the environment reports one, the bit stays (260). *)
Example C04_example_waiting_bit :
  let progs := [[OLock R; OWait None false false; OUnlock]; [OWaitN None]; [OLock R; OBroadcast; OUnlock]] in
  let w1 := run (init progs 0 None) (T 0 12 ++ T 1 6 ++ T 2 8) in
  let wa := run w1 ((Thr 2%nat, CMuEmpty) :: T 2 2) in
  let wb := run w1 ((Thr 2%nat, CNormal) :: T 2 2) in
  (exists k, pcof w1 2%nat = VCas1 k 256) /\ muw w1 = 256 /\ muq w1 = [] /\
  muw (run w1 [(Thr 2%nat, CMuEmpty)]) = 262 /\ muq (run w1 [(Thr 2%nat, CMuEmpty)]) = [] /\
  muw wa = 256 /\ has (muw wa) MU_WAITING = false /\ muq wa = [] /\ mspin wa = None /\
  muw wb = 260 /\ has (muw wb) MU_WAITING = true /\ muq wb = [] /\ mspin wb = None.
Proof. cbv zeta. split; [eexists; vm_compute; reflexivity|]. vm_compute. repeat split; reflexivity. Qed.
(* the regression of F16, about the code BEFORE the repair ([run_old]: the model with the old transfer loop, Proof/CvProof5.v):
   a native writer-mode waiter (record 0) and behind it a waiter of nsync_cv_wait_with_deadline_generic with its own lock
   routines (record 1: MUCV flag, cv_mu = NULL, l_type = NULL), one broadcast under the write lock.  The old loop puts record 1
   on the mutex queue; the repaired model leaves it on to_wake_list and wakes it directly. *)
Theorem C04_old_xfer_moves_generic :
  let progs := [[OLock W; OWait None false false; OUnlock]; [OLock W; OWait None false true; OUnlock]; [OLock W; OBroadcast; OUnlock]] in
  let pre := TT 0 12 ++ TT 1 11 ++ TT 2 10 in
  let w0 := run (init progs 0 None) pre in
  let wo := run_old w0 (TT 2 1) in
  let wn := run w0 (TT 2 1) in
  let wn' := run w0 (TT 2 5) in
  run_old (init progs 0 None) pre = w0 /\
  (exists k, pcof w0 2%nat = VCas1 k 1 /\ k_wake k = [0; 1]%nat) /\ muw w0 = 1 /\ muq w0 = [] /\
  is_mucv (recs w0 1%nat) = true /\ cv_mu (recs w0 1%nat) = false /\ l_type (recs w0 1%nat) = None /\
  muq wo = [0; 1]%nat /\ lc wo 1%nat = PMuq /\ (exists k, pcof wo 2%nat = VLoad3 k /\ k_wake k = [] /\ k_xfer k = [0; 1]%nat) /\
  muq wn = [0%nat] /\ lc wn 1%nat = PPriv 2 /\ (exists k, pcof wn 2%nat = VLoad3 k /\ k_wake k = [1%nat] /\ k_xfer k = [0%nat]) /\
  muq wn' = [0%nat] /\ lc wn' 1%nat = PNone /\ waiting (recs wn' 1%nat) = 0 /\ sem wn' 1%nat = 1 /\ pcof wn' 2%nat = Idle.
Proof. exact old_xfer_moves_generic_run. Qed.
(* the state C04_no_lost_wakeup talks about: the sleeper's flag is clear, its semaphore is still 0, the waker is at the V *)
Example C04_example_between_store_and_V :
  let progs := [[OLock W; OWait None false false; OUnlock]; [OSignal]] in
  let w := run (init progs 0 None) (T 0 12 ++ T 1 8) in
  (exists l, pcof w 0%nat = WSem l) /\ taker (recs w 0%nat) = Some 1%nat /\ lc w 0%nat = PNone /\ waiting (recs w 0%nat) = 0 /\
  sem w 0%nat = 0 /\ owed w 0%nat = 0 /\ exists k, pcof w 1%nat = VV k 0%nat.
Proof. cbv zeta. vm_compute. repeat split; eauto. Qed.

Print Assumptions C04_atomic_wait. Print Assumptions C04_queued_until_taken.
Print Assumptions C04_non_empty_strong. Print Assumptions C04_non_empty_native. Print Assumptions C04_no_early_exit. Print Assumptions C04_non_empty.
Print Assumptions C04_outcome. Print Assumptions C04_outcome_waitn. Print Assumptions C04_no_dead_record.
Print Assumptions C04_dead_record_is_nowhere. Print Assumptions C04_private_fate. Print Assumptions C04_wake_complete.
Print Assumptions C04_no_lost_wakeup. Print Assumptions C04_no_lost_wakeup_waitn. Print Assumptions C04_no_stuck_waitn.
Print Assumptions C04_broadcast_covers.
Print Assumptions C04_signal_covers. Print Assumptions C04_V_posts. Print Assumptions C04_return_logged.
Print Assumptions C04_waiting_bit_has_a_waiter. Print Assumptions C04_waiting_bit_exact. Print Assumptions C04_release_step.
Print Assumptions C04_mu_spin_section. Print Assumptions C04_abstract_mutex_lock_field. Print Assumptions C04_release_decided.
Print Assumptions C04_example_waiting_bit.
Print Assumptions C04_transferred_is_native. Print Assumptions C04_old_xfer_moves_generic.
Print Assumptions C04_taken_ghost. Print Assumptions C04_xfer_ghost. Print Assumptions C04_store_ghost. Print Assumptions C04_post_ghost.
Print Assumptions C04_waker_moves. Print Assumptions C04_VV_moves. Print Assumptions C04_no_stuck.
Print Assumptions C04_no_stuck_uncoupled_refuted. Print Assumptions C04_no_stuck_uncoupled_is_false.
Print Assumptions C04_example_signal. Print Assumptions C04_example_timeout. Print Assumptions C04_example_race.
Print Assumptions C04_example_waitn. Print Assumptions C04_example_broadcast. Print Assumptions C04_example_signal_readers.
Print Assumptions C04_example_between_store_and_V.
