(* C13, first sentence, over the mutex WITH CONDITIONAL CRITICAL SECTIONS (mu.c + mu_wait.c):
     "A release of an nsync_mu makes no access to the mutex after the point at which another thread can acquire it, so a
      thread that learns under the lock that it is the last user may free the memory holding the mutex as soon as its own
      unlock returns."
   Properties_C13r proves this over the condition-free MuModel, Properties_C13x over mutex + condition-variable traffic.  Both
   rest on "MU_WAITING set (spinlock free) => mu->waiters non-empty".  With nsync_mu_wait that lemma is FALSE: a waiter that times
   out (or is cancelled) removes itself in mu_try_acquire_after_timeout_or_cancel and stores a word that keeps MU_WAITING over a
   queue that may now be empty (C13w_stale_example; Properties_C06x.C06x_timed_out_waiter_leaves).  What saves the refcount pattern
   is that the stale MU_WAITING comes with MU_CONDITION (C13w_stale_waiting_has_condition), and that nsync_mu_unlock_slow_, when it
   meets MU_CONDITION, keeps -- or converts itself to -- the WRITE lock until its last CAS (late_release_mu): C13w_release_window.
   This file makes that argument a theorem.

   Model/MuWRefModel.v wraps Model/MuWaitModel.v (one step per atomic site of mu.c / mu_wait.c: lock, rlock, trylock, unlock,
   runlock, nsync_mu_unlock_without_wakeup, nsync_mu_wait_with_deadline with mu_try_acquire_after_timeout_or_cancel, the full
   conditional nsync_mu_unlock_slow_; validated against the real code by lock-step replay, replay/muwait_replay.ml):
   world = that world + refs + ghost freed + ghost bad + the client pc (Pre / Dec last / Done) of every thread.  EVERY thread is a
   user; its program is ANY list of OLock m / OTry m / OUnlock / OUnlockNW / OSetCond / OMuWait cond eq deadline cancel
   (ill-formed ones crash in MuWaitModel and then never give their reference back); a thread decrements when it is between calls,
   holds the lock in WRITE mode and all that is left of its program is the release (nsync_mu_unlock or
   nsync_mu_unlock_without_wakeup) -- whether it got the lock from nsync_mu_lock, a trylock, or an nsync_mu_wait_with_deadline
   that returned (also by timeout / cancellation inside the critical section) --, and frees if it was last when that release has
   returned.  The schedule is a list of actors: a thread with a choice (normal / the timed P expires / it is cancelled), clock
   ticks, the notification of the cancel note and its posts.
   [bad] is set when, after [freed], any thread takes a MuWaitModel step at a pc with [touches_mu] (every pc but Idle, Crash,
   UsWakeStore, UsWakeV: the mutex word, mu->waiters, the protected state, and -- conservatively -- every step in the middle of
   an nsync call), when refs is decremented again, or when free is called again.
   Statements only; proofs in Proof/MuWRefProof.v (K1), MuWRefProof2.v (QI), MuWRefProof3.v (the wrapper). *)
From NsyncBase Require Import CSem.
From NsyncGen Require Import Consts Sites.
From NsyncModel Require Import MuWaitModel MuWaitSpec MuWRefModel.
From NsyncProof Require Import MuWaitProof MuWaitWorld1 MuWaitWorld2 MuWaitWorld3 MuWaitFlags MuWRefProof MuWRefProof2 MuWRefProof3.
From Coq Require Import List ZArith Bool.
Import ListNotations.
Local Open Scope Z_scope.

(* THE THEOREM.  Any number of threads (< 2^24 - 1, the width of the reader count), any programs of that shape, any
   condition_arg_eq classes, any schedule, any choice of timeouts / cancellations / clock: nothing touches the mutex, the
   protected state or refs after the free, and the free happens once. *)
Theorem C13w_no_touch_after_free : forall progs cl c0 sched,
  Z.of_nat (length progs) < 2 ^ 24 - 1 ->
  bad (rwrun (rwinit progs cl c0) sched) = false.
Proof. exact no_touch_after_free_w. Qed.

(* [touches_mu] does not miss a write: a step with step_touches = false leaves mu->word, mu->waiters and the protected state as
   they were (that it does not READ them either is visible in MuWaitModel.step_thr: the four branches Idle, Crash, UsWakeStore,
   UsWakeV mention none of [word], [queue], [pst]; see the table at the definition) *)
Theorem C13w_touches_mu_sound : forall w t c, step_touches w t = false ->
  word (fst (step_thr w t c)) = word w /\ queue (fst (step_thr w t c)) = queue w /\ pst (fst (step_thr w t c)) = pst w.
Proof. exact touches_mu_sound. Qed.

(* ---------- "MU_CONDITION makes the release late", precisely (over MuWaitModel itself: all programs) ---------- *)
(* (a) the stale bit of a timed-out nsync_mu_wait comes with MU_CONDITION: in every reachable world, MU_WAITING over an empty
   mu->waiters with the spinlock free implies MU_CONDITION -- equivalently: spinlock free, MU_WAITING set, MU_CONDITION clear
   => the queue is non-empty, which is what nsync_mu_unlock_slow_ relies on when it releases EARLY *)
Theorem C13w_stale_waiting_has_condition : forall progs cl c0 sched,
  Z.of_nat (length progs) < 2 ^ 24 - 1 ->
  let w := run (init progs cl c0) sched in
  has (word w) MU_SPINLOCK = false -> has (word w) MU_WAITING = true -> queue w = [] -> has (word w) MU_CONDITION = true.
Proof. exact stale_waiting_has_condition. Qed.

(* (b) the window of nsync_mu_unlock_slow_: a thread between its spinlock CAS and its last CAS on the word (inside the scan, or at
   the last load / CAS) either still OWNS the write lock (late release: nobody else can acquire, let alone decrement and free), or
   it released early and a waiter is on its private lists (waiters / new_waiters / wake): parked -- waiting flag set -- inside
   nsync_mu_lock_slow_ or nsync_mu_wait_with_deadline ([mq_of]), hence not yet past its own decrement: it owns a reference *)
Theorem C13w_release_window : forall progs cl c0 sched t,
  Z.of_nat (length progs) < 2 ^ 24 - 1 ->
  let w := run (init progs cl c0) sched in
  scl (t_pc (get w t)) = true ->
  held (get w t) = Some W \/
  (held (get w t) = None /\
   exists e, In e (lists_of (t_pc (get w t))) /\ waiting w e = true /\ mq_of (t_pc (get w e)) (mw (get w e)) = true).
Proof. exact release_window. Qed.

(* what the free step is: taken by a thread that computed last = true under the lock, when its own release has RETURNED
   (pc Idle, no call left); it does not change the mutex world *)
Theorem C13w_free_step : forall w t c, freed w = false -> freed (rwstep_thr w t c) = true ->
  phase_of w t = Dec true /\ t_pc (get (ww w) t) = Idle /\ t_ops (get (ww w) t) = [] /\ ww (rwstep_thr w t c) = ww w.
Proof. exact free_step_w. Qed.

(* the state behind the theorem (the analogue of C13r_tail_after_free): from the free on nobody owns a reference, mu->waiters is
   empty, and every thread is outside nsync_mu_wait, has no call left, and is between calls, (crashed,) or in the post-last-CAS
   tail of nsync_mu_unlock_slow_ -- where, by C13w_touches_mu_sound, it touches waiter records only *)
Theorem C13w_tail_after_free : forall progs cl c0 sched,
  Z.of_nat (length progs) < 2 ^ 24 - 1 ->
  let w := rwrun (rwinit progs cl c0) sched in
  freed w = true ->
  refs w = 0 /\ queue (ww w) = [] /\
  forall t, phase_of w t <> Pre /\ t_ops (get (ww w) t) = [] /\ mw (get (ww w) t) = None /\
            match t_pc (get (ww w) t) with
            | Idle | Crash _ | UsWakeStore _ _ | UsWakeV _ _ _ => True
            | _ => False
            end.
Proof. exact tail_after_free_w. Qed.

(* ---------- non-vacuity ---------- *)
(* (1) THE STALE BITS.  Thread 0 calls nsync_mu_wait_with_deadline inside its last critical section (the VRT_MUWAIT shape of
   harness/scen/refcount.c); the wait times out, the thread removes itself from mu->waiters and returns ETIMEDOUT with the write
   lock: word 21 = MU_WLOCK | MU_WAITING | MU_CONDITION over an EMPTY queue.  It decrements (2 -> 1) and unlocks:
   nsync_mu_unlock_slow_ meets MU_CONDITION and keeps the write lock through the scan of the empty queue: at its last load it
   still owns the lock (late = MU_WLOCK) with an EMPTY wake list -- the shape that was fatal in F15, harmless here because thread 1
   can only spin in nsync_mu_lock_slow_; the last CAS clears the stale bits, thread 1 gets in, drops the last reference, unlocks,
   frees; [bad] stays false *)
Example C13w_stale_example :
  let w1 := rwrun (rwinit stale_progs (fun x => x) 0) stale_s1 in
  let w2 := rwrun w1 stale_s2 in
  let w3 := rwrun w2 stale_s3 in
  (word (ww w1) = 21 /\ queue (ww w1) = [] /\ last_ret (get (ww w1) 0%nat) = Some ETIMEDOUT /\
   map (fun s => (t_pc s, t_ops s, held s)) (thr (ww w1)) = [(Idle, [OUnlock], Some W); (Idle, [OLock W; OUnlock], None)] /\
   ph w1 = [Pre; Pre] /\ refs w1 = 2) /\
  (ph w2 = [Dec false; Pre] /\ refs w2 = 1 /\ held (get (ww w2) 0%nat) = Some W /\ conv (get (ww w2) 0%nat) = true /\
   (exists u, t_pc (get (ww w2) 0%nat) = UsRelLoad W u true /\ late u = MU_WLOCK /\ wake u = []) /\
   (exists l, t_pc (get (ww w2) 1%nat) = LsLoad W l) /\ held (get (ww w2) 1%nat) = None) /\
  (freed w3 = true /\ bad w3 = false /\ refs w3 = 0 /\ ph w3 = [Done; Done] /\ word (ww w3) = 0 /\ queue (ww w3) = [] /\
   map (fun s => (t_pc s, t_ops s, held s)) (thr (ww w3)) = [(Idle, [], None); (Idle, [], None)]).
Proof. exact stale_example. Qed.

(* (2) THE TAIL AFTER A CONDITIONAL SCAN.  Thread 1 waits for a condition with a deadline; thread 0 makes it true, decrements
   (3 -> 2) and unlocks through the conditional scan (two condition evaluations are logged: thread 1's own and the scanner's):
   at its last CAS it still owns the write lock and has thread 1 on its wake list; it clears thread 1's waiting flag and is
   stopped before the V.  Thread 1's timed P expires, it sees waiting == 0, re-acquires, finds its condition true, returns 0,
   decrements (2 -> 1), unlocks; thread 2 locks, decrements (1 -> 0), unlocks and FREES -- while thread 0 is still at its V: its
   next step posts thread 1's semaphore (event EvV 1), touches nothing of the mutex, and [bad] stays false to the end *)
Example C13w_tail_example :
  let w1 := rwrun (rwinit tail_progs (fun x => x) 0) tail_s1 in
  let w2 := rwrun w1 tail_s2 in
  let w3 := rwrun w2 tail_s3 in
  (ph w1 = [Dec false; Pre; Pre] /\ refs w1 = 2 /\ held (get (ww w1) 0%nat) = Some W /\ conv (get (ww w1) 0%nat) = true /\
   (exists u old, t_pc (get (ww w1) 0%nat) = UsRelCas W u old /\ late u = MU_WLOCK /\ wake u = [1%nat]) /\
   t_pc (get (ww w1) 1%nat) = MwSemP /\ length (evlog (ww w1)) = 2%nat) /\
  (freed w2 = true /\ bad w2 = false /\ refs w2 = 0 /\ ph w2 = [Dec false; Done; Done] /\ word (ww w2) = 0 /\
   (exists u, t_pc (get (ww w2) 0%nat) = UsWakeV W 1%nat u) /\
   step_touches (ww w2) 0%nat = false /\ snd (step_thr (ww w2) 0%nat CNormal) = EvV 1%nat /\
   last_ret (get (ww w2) 1%nat) = Some 0) /\
  (bad w3 = false /\ ph w3 = [Done; Done; Done] /\ sem (ww w3) 1%nat = 1 /\
   map (fun s => (t_pc s, t_ops s, held s)) (thr (ww w3)) = [(Idle, [], None); (Idle, [], None); (Idle, [], None)]).
Proof. exact tail_example. Qed.

(* (3) the EARLY release still occurs in this model (MU_CONDITION clear): three plain users; at the last load of
   nsync_mu_unlock_slow_ the lock bit has been given away (late = 0) and the waiter on the wake list still owns its reference *)
Example C13w_early_example :
  let w := rwrun (rwinit early_progs (fun x => x) 0) early_sched in
  (exists u, t_pc (get (ww w) 0%nat) = UsRelLoad W u true /\ late u = 0 /\ wake u = [1%nat]) /\ held (get (ww w) 0%nat) = None /\
  has (word (ww w)) MU_WLOCK = false /\ ph w = [Dec false; Pre; Pre] /\ refs w = 2 /\ freed w = false.
Proof. exact early_example. Qed.

Print Assumptions C13w_no_touch_after_free.
Print Assumptions C13w_touches_mu_sound.
Print Assumptions C13w_stale_waiting_has_condition.
Print Assumptions C13w_release_window.
Print Assumptions C13w_free_step.
Print Assumptions C13w_tail_after_free.
Print Assumptions C13w_stale_example.
Print Assumptions C13w_tail_example.
Print Assumptions C13w_early_example.
