(* C09 -- concurrent notify / free / create on related notes is safe.
   Theorems about Model/NoteModel.v (internal/note.c as of the repairs of F4, F7, F8, F9, F12: commit 0ed6400; any number of
   threads, any tree of notes, any programs, any schedule, any clock).  Statements only; proofs in Proof/NoteProof.v,
   NoteProof2.v, NoteProof3.v, NoteProof4.v, NoteProof7.v.

   The client contract is the ghost flag [broken] of the model, raised by [begin_call] when a call starts that names a
   note which is freed, is being freed by another thread, or is still being constructed by another thread's
   nsync_note_new -- or when nsync_note_free (n) starts while another thread is inside a call naming n.
   [touches w t] is the footprint of thread t's next step: every note whose fields or lock the step reads or writes
   (validated against the implementation by replay/note_replay.ml: every note.c event and every lock boundary of a
   trace must fall inside it). *)
From NsyncBase Require Import CSem.
From NsyncGen Require Import Consts Sites.
From NsyncModel Require Import NoteModel.
From NsyncProof Require Import NoteProof NoteProof2 NoteProof3 NoteProof4 NoteProof7.
From Coq Require Import List ZArith.
Import ListNotations.
Local Open Scope Z_scope.

(* ---- no step of any thread touches a note whose free () has run, as long as the clients keep the contract ---- *)
Theorem C09_no_uaf : forall w t x,
  reachable w -> broken (gh (begin_call w t)) = false -> In x (touches w t) -> ~ In x (freed (gh w)).
Proof. exact no_uaf. Qed.

(* ---- adoption.  (a) The step of nsync_note_free (n) that decides about a child c which nobody else is disconnecting
        (program point F7, after the load of parent->notified): if n's parent p is not yet notified, c is re-parented --
        afterwards c's parent pointer is p, c is in p's child list and no longer in n's; if p is already notified
        (the F7 repair), the thread starts note_notify_child (c, n) instead, which notifies c and unlinks it.
        (A child of a root n simply becomes a root: C09_adoption_root.)
        (b) When nsync_note_free (n) returns, n has no parent and no children, no note points to it and no thread holds
        a live pointer to it. ---- *)
Theorem C09_adoption : forall w t c n c0 nx p rest,
  reachable w -> broken (gh w) = false -> stk w t = FF n (F7 c0 nx) (Some p) :: rest ->
  let w' := fst (step1 w t c) in
  (flag (nt w p) = 0 -> parent (nt w' c0) = Some p /\ In c0 (children (nt w' p)) /\ ~ In c0 (children (nt w' n))) /\
  (flag (nt w p) <> 0 -> stk w' t = FC c0 (Some n) C1 :: FF n (FR c0 nx) (Some p) :: rest).
Proof.
  intros w t c n c0 nx p rest R B Hst. destruct (InvC_reachable w R) as (I & H & N & U). specialize (U B).
  assert (In (FF n (F7 c0 nx) (Some p)) (stk w t)) as Hf by (rewrite Hst; left; reflexivity).
  pose proof (iu_fr _ U _ _ Hf) as F. cbn in F. destruct F as ((Fp & _) & (Hin & _) & _).
  pose proof (ia_fok _ I _ _ Hf) as FA. cbn in FA. destruct FA as (Hn & _ & (Hc & _)).
  eapply adopt_step; eauto using iu_tree.
Qed.
Theorem C09_free_post : forall w t c n,
  reachable w -> broken (gh (begin_call w t)) = false ->
  returned w (fst (step w t c)) t (OFree n) RNone ->
  let w' := fst (step w t c) in
  In n (freed (gh w')) /\ parent (nt w' n) = None /\ children (nt w' n) = [] /\ forall t', ~ lref_of w' t' n.
Proof. exact free_returns. Qed.

(* ---- no call deadlocks.
        [lock_blocked w t y]: thread t is at a blocking nsync_mu_lock (&y->note_mu) and y's lock is held
        (then it cannot move: C09_blocked_is_blocked);  [cond_wait f]: frame f is at one of the four nsync_mu_wait
        conditions of note.c -- disconnecting == 0 in notify() and in nsync_note_free(), "no children" in
        note_notify_child(), children_changed in nsync_note_free() -- or in the semaphore wait of nsync_note_wait.

        Full statement (this first formulation is satisfiable by an IDLE thread, whose step is EvNone -- third statement audit; the
        statement that counts is C09_no_stuck_strong in Props/Properties_C09c.v: an UNFINISHED thread makes a WORLD-CHANGING step): in every reachable state of a contract-abiding client in which some thread is
        inside a call and not legitimately asleep in nsync_note_wait, some thread can take a step. ---- *)
Definition sem_waiting (w : world) (t : nat) : Prop := exists n dl d rest, stk w t = AWait n dl (S1 d) :: rest.
Definition C09_no_stuck_full : Prop :=
  forall w, reachable w -> broken (gh w) = false ->
    (exists t, unfinished w t /\ ~ sem_waiting w t) -> exists t c, snd (step w t c) <> EvBlocked.
(* What is proved: there is no deadlock made of lock acquisitions.
   (1) Lock order: a thread blocked on y's lock holds only locks of notes created before y (smaller id; by tree_ok these are
       y's parent, the notes on the recursion path of note_notify_child above it, and their parents).
   (2) Every held lock is held by a thread that is inside a call at a program point from which it still releases it;
       when all threads are idle all locks are free.
   (3) Hence whenever some thread is blocked on a note lock, there is a thread inside a call that is not: it can take a
       step, or it sits in one of the condition waits.
   Missing piece for C09_no_stuck_full: progress of the CONDITION waits -- a ranking argument that the thread(s) that
   must make the condition true (the thread counted in n->disconnecting; the notifiers/freers of n's remaining
   children) are not themselves transitively waiting for the waiter.  This is exactly where F9 sat (free(P) waiting
   for "no children" while a late adoption had re-filled the list), so it is not a formality.  Evidence instead of proof:
   the exhaustive explorer (_work/h_note/explore/dfs.ml, check STUCK = no enabled step although some thread is
   neither finished nor in the semaphore wait) finds no such state in 18 hand-written and >100000 random programs of
   2..4 threads (tens of millions of states) on the repaired code, and finds F9's on the code before 36c9aba. *)
Theorem C09_blocked_is_blocked : forall w t y c, lock_blocked w t y -> step1 w t c = (w, EvBlocked).
Proof. exact lock_blocked_step. Qed.
Theorem C09_lock_order : forall w t y, reachable w -> broken (gh w) = false -> lock_blocked w t y ->
  forall x, lock (nt w x) = Some t -> (x < y)%nat.
Proof.
  intros w t y R B Hb x Hx. pose proof (InvC_reachable w R) as C. apply (wait_order w t y C B Hb).
  destruct C as (_ & H & _). apply (ih_own _ H). exact Hx.
Qed.
Theorem C09_lock_has_owner : forall w t x, reachable w -> lock (nt w x) = Some t -> exists f, In f (stk w t) /\ In x (owns f).
Proof. exact lock_has_owner. Qed.
Theorem C09_idle_unlocked : forall w x, reachable w -> (forall t, stk w t = []) -> lock (nt w x) = None.
Proof. exact idle_unlocked. Qed.
Theorem C09_no_stuck_partial : forall w, reachable w -> broken (gh w) = false ->
  forall t y, lock_blocked w t y ->
  exists t', stk w t' <> [] /\ forall c, snd (step1 w t' c) = EvBlocked -> exists f rest, stk w t' = f :: rest /\ cond_wait f.
Proof. exact no_stuck_locks. Qed.

Print Assumptions C09_no_uaf.
Print Assumptions C09_adoption.
Print Assumptions C09_free_post.
Print Assumptions C09_blocked_is_blocked.
Print Assumptions C09_lock_order.
Print Assumptions C09_lock_has_owner.
Print Assumptions C09_idle_unlocked.
Print Assumptions C09_no_stuck_partial.
