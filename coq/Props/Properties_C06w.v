(* C06 -- conditional critical sections: WORLD-level theorems about Model/MuWaitModel.v
   (Proof/MuWaitWorld1..4.v; bit-level site lemmas in Proof/MuWaitBits.v).
   They close what Props/Properties_C06.v lists as MISSING for C06_allfalse_full:
   (1) the same_condition ring invariant RingInv holds of mu->waiters, and of the private lists of the scan of
       nsync_mu_unlock_slow_, in EVERY reachable world;
   (2) the scan never reaches nsync_panic_ ("checking a waiter condition while unlocked");
   (3) C06_allfalse_full: whenever MU_ALL_FALSE is set and no thread owns the write lock, every queued waiter has a
       condition that is false in the current protected state. *)
From NsyncBase Require Import CSem.
From NsyncGen Require Import Consts Sites.
From NsyncModel Require Import MuWaitModel MuWaitSpec.
From NsyncProof Require Import MuWaitProof MuWaitRings MuWaitWorld1 MuWaitWorld2 MuWaitWorld3 MuWaitWorld4 MuWaitWorld5.
From NsyncProps Require Import Properties_C06.
From Coq Require Import List ZArith.
Import ListNotations.
Local Open Scope Z_scope.

(* ---------- (1) the rings in reachable worlds ---------- *)
(* In the model every pointer update of the queue code happens inside one step, under the spinlock, so RingInv holds of
   mu->waiters in EVERY reachable world (first conjunct).  While a thread is inside the scan of nsync_mu_unlock_slow_
   (sk_of gives its private lists: u_done = "waiters", u_new = "new_waiters", u_rest = the suffix at the cursor p),
   RingInv also holds of both private lists, and the cursor is inside new_waiters (second conjunct).  A waiter that is on
   none of these lists is a singleton ring (third conjunct) -- this is what makes the next enqueue well-formed. *)
Theorem C06_RingInv_reachable : forall progs cl c0 sched,
  Z.of_nat (length progs) < 2 ^ 24 - 1 ->
  let w := run (init progs cl c0) sched in
  RingInv (wcond w) (cls w) (rings_of w) (queue w) /\
  (forall t k u, sk_of (t_pc (get w t)) = Some (k, u) ->
     RingInv (wcond w) (cls w) (rings_of w) (u_done u) /\ RingInv (wcond w) (cls w) (rings_of w) (u_new u) /\
     (exists pre, u_new u = pre ++ u_rest u)) /\
  (forall p, ~ In p (queue w) -> (forall t k u, sk_of (t_pc (get w t)) = Some (k, u) -> ~ In p (u_done u ++ u_new u)) ->
     single (rings_of w) p).
Proof. exact RingInv_reachable. Qed.

(* the readable corollary: in every reachable world in which no thread owns the spinlock, the same_condition rings
   (scp = same_condition.prev, scn = same_condition.next) partition mu->waiters into runs of adjacent waiters whose
   conditions are WAIT_CONDITION_EQ-equivalent (RingInv of MuWaitSpec.v: NoDup, concat blocks = queue, every block a
   circular doubly-linked list in queue order of waiters with the same condition function and arguments in one
   condition_arg_eq class) *)
Theorem C06_rings_reachable : forall progs cl c0 sched,
  Z.of_nat (length progs) < 2 ^ 24 - 1 ->
  let w := run (init progs cl c0) sched in
  (forall t, spin (get w t) = false) ->
  RingInv (wcond w) (cls w) (scp w, scn w) (queue w).
Proof. intros progs cl c0 sched H w _. exact (proj1 (RingInv_reachable progs cl c0 sched H)). Qed.

(* ---------- (2) no panic in the scan ---------- *)
(* Crash 5 = nsync_panic_ ("checking a waiter condition while unlocked\n") in nsync_mu_unlock_slow_: unreachable, because
   MU_CONDITION is set whenever a queued waiter has a condition *)
Theorem C06_no_scan_panic : forall progs cl c0 sched t,
  Z.of_nat (length progs) < 2 ^ 24 - 1 -> t_pc (get (run (init progs cl c0) sched) t) <> Crash 5.
Proof. intros. apply no_crash5_reachable. assumption. Qed.

(* ---------- (3) MU_ALL_FALSE ---------- *)
(* the FULL statement of Properties_C06.v, as stated there *)
Theorem C06_allfalse_sound : C06_allfalse_full.
Proof. exact allfalse_sound. Qed.

(* ---------- (4) PARTIAL result towards C06_no_stuck_full (NOT the full statement) ---------- *)
(* MU_ALL_FALSE never hides a runnable waiter: if no thread owns the write lock and a queued waiter is runnable (no
   condition, or its condition is true in the current protected state), MU_ALL_FALSE is clear, so no later unlock can take
   the "all conditions are false" shortcut ... *)
Theorem C06_runnable_clears_allfalse : forall progs cl c0 sched,
  Z.of_nat (length progs) < 2 ^ 24 - 1 -> no_nw progs ->
  let w := run (init progs cl c0) sched in
  eq_truth_preserving (cls w) (pst w) -> (forall t, ~ holds w t W) ->
  forall p, In p (queue w) -> wtrue (wcond w) (pst w) p = true -> has (word w) MU_ALL_FALSE = false.
Proof. exact runnable_waiter_clears_allfalse. Qed.
(* ... in particular in every lost-wakeup world (Properties_C06.lost_wakeup) MU_ALL_FALSE would have to be clear.
   What is still MISSING for C06_no_stuck_full: the "designated waker" invariant (MU_DESIG_WAKER set iff a woken thread is
   between its wake-up and its next acquisition; MU_WAITING set iff mu->waiters is non-empty when the spinlock is free),
   from which a quiescent world with a free mutex, MU_ALL_FALSE clear and a runnable queued waiter is contradictory. *)
Theorem C06_no_stuck_partial : forall progs cl c0 sched,
  Z.of_nat (length progs) < 2 ^ 24 - 1 -> no_nw progs ->
  let w := run (init progs cl c0) sched in eq_truth_preserving (cls w) (pst w) ->
  lost_wakeup w -> has (word w) MU_ALL_FALSE = false.
Proof.
  intros progs cl c0 sched H Hnw w He (_ & Hh & Hx). exact (lost_wakeup_allfalse_clear progs cl c0 sched H Hnw He Hh Hx).
Qed.

(* ---------- the hypotheses are satisfiable: a reachable world with a two-element ring and MU_ALL_FALSE set ---------- *)
Definition exw_progs : list (list op) :=
  [[OLock W; OMuWait (Some (0%nat, 0%nat)) false None false; OUnlock];
   [OLock W; OMuWait (Some (0%nat, 0%nat)) false None false; OUnlock]].
Definition exw_sched : list actor := repeat (Thr 0 CNormal) 12 ++ repeat (Thr 1 CNormal) 30.
Notation exw := (run (init exw_progs (fun x => x) 0) exw_sched).

Example C06w_example :
  Z.of_nat (length exw_progs) < 2 ^ 24 - 1 /\ no_nw exw_progs /\
  eq_truth_preserving (cls exw) (pst exw) /\
  has (word exw) MU_ALL_FALSE = true /\ (forall t, ~ holds exw t W) /\
  queue exw = [0%nat; 1%nat] /\                                              (* both waiters queued *)
  wcond exw 0 = Some (0%nat, 0%nat) /\ wcond exw 1 = Some (0%nat, 0%nat) /\  (* with equal conditions *)
  scn exw 0 = 1%nat /\ scn exw 1 = 0%nat /\ scp exw 0 = 1%nat /\ scp exw 1 = 0%nat /\   (* one ring of two *)
  (forall t, spin (get exw t) = false).
Proof.
  split; [vm_compute; reflexivity|]. split.
  { intros ops [<-|[<-|[]]] [E|[E|[E|[]]]]; discriminate E. }
  split; [intros f a b E; vm_compute in E; subst; reflexivity|].
  split; [vm_compute; reflexivity|]. split.
  { intros [|[|[|t]]]; unfold holds, get; vm_compute; discriminate. }
  repeat (split; [vm_compute; reflexivity|]).
  intros [|[|[|t]]]; unfold get; vm_compute; reflexivity.
Qed.

(* ... and the theorems apply to it *)
Example C06w_example_rings : RingInv (wcond exw) (cls exw) (scp exw, scn exw) (queue exw).
Proof.
  destruct C06w_example as (A & _ & _ & _ & _ & _ & _ & _ & _ & _ & _ & _ & S).
  exact (C06_rings_reachable exw_progs (fun x => x) 0 exw_sched A S).
Qed.
Example C06w_example_allfalse : forall p, In p (queue exw) -> exists f a, wcond exw p = Some (f, a) /\ pst exw f a = false.
Proof.
  destruct C06w_example as (A & B & C & D & E & _).
  exact (C06_allfalse_sound exw_progs (fun x => x) 0 exw_sched A B C D E).
Qed.

Print Assumptions C06_RingInv_reachable.
Print Assumptions C06_rings_reachable.
Print Assumptions C06_no_scan_panic.
Print Assumptions C06_allfalse_sound.
Print Assumptions C06_runnable_clears_allfalse.
Print Assumptions C06_no_stuck_partial.
Print Assumptions C06w_example.
Print Assumptions C06w_example_rings.
Print Assumptions C06w_example_allfalse.
