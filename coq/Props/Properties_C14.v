(* C14 — a blocked locker cannot be overtaken indefinitely.
   Statements only; proofs in Proof/MuProof2.v. *)
From NsyncBase Require Import CSem.
From NsyncGen Require Import Consts Sites.
From NsyncModel Require Import MuModel MuSpec.
From NsyncProof Require Import MuProof MuProof2.
From Coq Require Import List ZArith.
Import ListNotations.
Local Open Scope Z_scope.

(* barrier: while MU_LONG_WAIT is set, no thread that has not itself slept in its current call can acquire --
   neither fast path, nor trylock/rtrylock, nor lock_slow before its first sleep; any number of such threads *)
Theorem C14_barrier : forall progs sched t,
  Z.of_nat (length progs) < 2 ^ 24 - 1 ->
  let w := run (init progs) sched in
  has (word w) MU_LONG_WAIT = true -> fresh w t -> held (get w t) = None ->
  held (get (fst (step w t)) t) = None.
Proof. exact barrier. Qed.

(* escalation: the LONG_WAIT_THRESHOLD-th wake-up without acquiring makes the thread carry MU_LONG_WAIT ... *)
Theorem C14_escalation : forall w t m l,
  t_pc (get w t) = LsWaitLoad m l -> waiting w t = false ->
  wrap_u 32 (wcount l + 1) = LONG_WAIT_THRESHOLD ->
  exists l', t_pc (get (fst (step w t)) t) = LsLoad m l' /\ longw l' = MU_LONG_WAIT /\ clr l' = MU_DESIG_WAKER /\
             zta l' = Z.land (zta l) (bnot32 (Z.lor MU_WRITER_WAITING MU_LONG_WAIT)).
Proof. exact escalation. Qed.

(* ... and every enqueue CAS it then performs sets the bit in the word *)
Theorem C14_enqueue_sets_bit : forall old m c,
  0 <= old < 2 ^ 32 -> (c = 0 \/ c = MU_DESIG_WAKER) ->
  has (nsync_mu_lock_slow_cas2_new old MU_LONG_WAIT (lt_of m) c) MU_LONG_WAIT = true.
Proof. exact enqueue_sets_bit. Qed.

(* a thread that has already waited re-enters the queue at the FRONT *)
Theorem C14_front : forall w t m l,
  t_pc (get w t) = LsStoreWaiting m l -> wcount l <> 0 ->
  queue (fst (step w t)) = t :: queue w.
Proof. exact requeue_front. Qed.

(* a thread that has waited is not held back by MU_WRITER_WAITING / MU_LONG_WAIT: once woken (clr = MU_DESIG_WAKER,
   those bits removed from its zero_to_acquire), its acquiring CAS is enabled as soon as the lock bits allow *)
Theorem C14_woken_ignores_barrier : forall old m,
  0 <= old < 2 ^ 32 -> Z.testbit old 0 = false -> (m = W -> old / 256 = 0) ->
  nsync_mu_lock_slow_cas1_guard old
    (Z.land (lt_zero_to_acquire (lt_of m)) (bnot32 (Z.lor MU_WRITER_WAITING MU_LONG_WAIT))) = true.
Proof. exact woken_ignores_barrier. Qed.

Print Assumptions C14_barrier. Print Assumptions C14_escalation. Print Assumptions C14_enqueue_sets_bit.
Print Assumptions C14_front. Print Assumptions C14_woken_ignores_barrier.
