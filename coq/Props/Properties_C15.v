(* C15 -- nsync_mu_semaphore_p_with_deadline and deadlines before the epoch / already expired.
   Theorems about Model/SemModel.v after the repair of finding F1 (a deadline before the epoch is
   clamped to the epoch before the futex call).  Statements only; proofs in Proof/SemProof.v. *)
From NsyncBase Require Import CSem.
From NsyncGen Require Import Consts Sites Time.
From NsyncModel Require Import SemModel.
From NsyncProof Require Import SemProof.
From Coq Require Import List ZArith.
Import ListNotations.
Local Open Scope Z_scope.

(* normalized deadlines, whatever their seconds value (also negative), never make the kernel reject
   the timespec: the ASSERT after the futex call cannot fire *)
Theorem C15_no_crash : forall prog posts clock0 sched,
  prog_ok prog -> owner (run (init prog posts clock0) sched) <> OCrash.
Proof. exact no_crash_reachable. Qed.

(* ETIMEDOUT is never reported before the deadline (same statement as C12_timeout_sound).  The model READS the
   clock in one step (value rd, logged) and compares it with the deadline in a LATER step (translated
   nsync_time_cmp of Gen/Time.v): every call in the log of returns that reported ETIMEDOUT had a deadline d of the
   program with  cmp (d, rd) <= 0  for a value rd read from the clock during that call (between its first step and
   now); for a normalized d that is  d <= rd <= clock  as instants.  No hypothesis on the program. *)
Theorem C15_no_early_timeout : forall prog posts clock0 sched,
  let w := run (init prog posts clock0) sched in
  forall e rd, In e (rets w) -> ce_res e = ResTimedOut rd ->
  exists d, ce_arg e = Some d /\ In (Some d) prog /\
    nsync_time_cmp (to_ts d) (to_ts rd) <= 0 /\ normalized rd /\
    ce_begin e <= tm_ns rd <= clock w /\
    (normalized d -> tm_ns d <= tm_ns rd).
Proof. exact timeout_sound_reachable. Qed.

(* an already expired deadline (also one before the epoch: the clamped timespec {0,0} has
   tm_ns = 0 <= clock) yields the timeout result within 4 own steps when no post is available
   (load, futex wait, clock read, comparison of the value read with the deadline) *)
Theorem C15_expired_prompt : forall prog posts clock0 sched d,
  total_posts posts < 2 ^ 31 -> prog_ok prog ->
  let w := run (init prog posts clock0) sched in
  (owner w = TLoad d \/ owner w = TFutex d) -> word w = 0 -> is_no_deadline d = false ->
  tm_ns d <= clock w -> 0 <= clock w ->
  exists n, (n <= 4)%nat /\
    let w' := run w (repeat (Owner, CNormal) n) in owner w' = OIdle /\ SemModel.last w' = RTimedOut.
Proof. exact expired_prompt_reachable. Qed.

Example C15_pre_epoch_times_out :
  let w := run (init [Some (mk_tm (-5) 999999999)] [] 1000) (repeat (Owner, CNormal) 4) in
  owner w = OIdle /\ SemModel.last w = RTimedOut.
Proof. exact pre_epoch_times_out. Qed.

Print Assumptions C15_no_crash. Print Assumptions C15_no_early_timeout.
Print Assumptions C15_expired_prompt. Print Assumptions C15_pre_epoch_times_out.
