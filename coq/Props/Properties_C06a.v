(* C06 "... alongside cv waiters, timeouts and cancellations on the same mutex": theorems about Model/MuAllModel.v, the
   WRAPPER that runs Model/MuWaitModel.v (mu.c + mu_wait.c with the full condition scan of nsync_mu_unlock_slow_) TOGETHER with
   the part of cv.c that works on the mutex: cv waits by lock holders, nsync_cv_signal / nsync_cv_broadcast under the write
   lock, a read lock or no lock, wake_waiters stepped site by site on the mutex word (Gen/Sites.v's wake_waiters_cas1_new and
   the 3-argument wake_waiters_cas2_new of the F15 repair), the transfer onto mu->waiters -- also while a scanner has swapped
   mu->waiters out and released the spinlock to evaluate a condition --, and a non-mutex (nsync_wait_n) record on the cv.
   Statements only; proofs in Proof/MuAllProof.v (which reuses Proof/MuWaitProof.v's invariant for every mu.c / mu_wait.c step).

   PROVED here, for every reachable world of MuAllModel (any number of threads < 2^24, any programs, any schedule, any
   resolution of the timed waits, any clock / note events):
     C06a_word_agrees, C06a_exclusion            C01w's statements with cv waiters present;
     C06a_eval_under_lock                        C06's "a condition is only ever evaluated by a thread that holds the mutex",
                                                 with cv waiters (parked, transferred, being woken) present;
     C06a_parked_waiter_owns_nothing,
     C06a_wake_section_owns_spinlock             what a thread owns inside nsync_cv_wait / inside wake_waiters' section;
     C06a_transfer_in_scanner_window             a wake_waiters CAS that succeeds while a scanner has released the spinlock
                                                 transfers its first waiter and keeps MU_WAITING (F15's test cannot misfire there);
   and, site level (for all word values):
     C06a_wake_waiters_keeps_lock_bits           both CASes of wake_waiters leave the write bit and the reader count alone;
     C06a_wake_waiters_flag_bits                 the acquiring CAS clears MU_ALL_FALSE and sets MU_WAITING, the releasing CAS
                                                 keeps MU_ALL_FALSE as it is.
   NOT proved (exploration only: replay/muall_explore.ml, 10^5+ random programs, and the lock-step tie
   replay/muall_replay.ml): the queue / same_condition-ring invariant with transferred waiters as unconditional singletons,
   MU_ALL_FALSE soundness at world level with wake_waiters' clearing, F15's "MU_WAITING => somebody queued", no lost wake-up.
   (Proof/MuWaitWorld1..11's world invariant L1 ties "is on a list of the mutex" to the waiter's OWN MuWaitModel pc
   (i_mq), which a transferred cv waiter -- parked in cv.c with an Idle mutex pc -- does not satisfy: these proofs need a
   re-statement of L1's info map, not just new cases.) *)
From NsyncBase Require Import CSem.
From NsyncGen Require Import Consts Sites.
From NsyncModel Require Import MuWaitModel MuWaitSpec MuAllModel.
From NsyncProof Require Import WordView MuWaitProof MuAllProof.
From Coq Require Import List ZArith.
Import ListNotations.
Local Open Scope Z_scope.

(* the lock field of the mutex word is exactly the set of ghost owners and the spinlock bit is exactly the set of spinlock
   owners -- where a thread inside wake_waiters' critical section (between its acquiring and its releasing CAS) is a spinlock
   owner like the enqueuers and scanners of mu.c *)
Theorem C06a_word_agrees : forall progs cl c0 sched,
  Z.of_nat (length progs) < 2 ^ 24 - 1 ->
  word_agrees (mu (arun (ainit progs cl c0) sched)).
Proof. exact a_word_agrees_reachable. Qed.

(* at most one writer, never a writer together with a reader -- on every acquisition path, including the re-acquisition at the
   end of nsync_cv_wait, afresh or as the designated waker after a transfer *)
Theorem C06a_exclusion : forall progs cl c0 sched,
  Z.of_nat (length progs) < 2 ^ 24 - 1 ->
  excl (mu (arun (ainit progs cl c0) sched)).
Proof. exact a_excl_reachable. Qed.

(* Whenever a step evaluates a condition (the caller's own in nsync_mu_wait_with_deadline, or a queued waiter's inside the
   scan of nsync_mu_unlock_slow_ -- be it the unlock of a client, the unlock INSIDE nsync_cv_wait, or the unlock of a thread
   that holds the mutex while signalling), the evaluating thread owns lock bits of the word and no OTHER thread owns the write
   lock. *)
Theorem C06a_eval_under_lock : forall progs cl c0 sched t c,
  Z.of_nat (length progs) < 2 ^ 24 - 1 ->
  a_eval_under_lock (arun (ainit progs cl c0) sched) t c.
Proof. exact a_eval_under_lock_reachable. Qed.

(* a thread parked inside nsync_cv_wait (after its release of the mutex has returned, until it starts to re-acquire) owns no
   lock bits and executes no mu.c code -- whether its waiter is on the cv queue, on a waker's private list, or has been
   transferred to mu->waiters *)
Theorem C06a_parked_waiter_owns_nothing : forall progs cl c0 sched t,
  Z.of_nat (length progs) < 2 ^ 24 - 1 ->
  let aw := arun (ainit progs cl c0) sched in
  cv_parked (a_pc (aget aw t)) = true -> held (get (mu aw) t) = None /\ t_pc (get (mu aw) t) = Idle.
Proof. exact a_parked_owns_nothing. Qed.

(* between wake_waiters' acquiring CAS and its releasing CAS the thread is THE owner of the queue spinlock: the bit is set and
   no other thread (enqueuer, scanner, timed-out waiter, another waker) owns it *)
Theorem C06a_wake_section_owns_spinlock : forall progs cl c0 sched t,
  Z.of_nat (length progs) < 2 ^ 24 - 1 ->
  let aw := arun (ainit progs cl c0) sched in
  in_wake_section (a_pc (aget aw t)) = true ->
  spin (get (mu aw) t) = true /\ Z.testbit (word (mu aw)) 1 = true /\ t_pc (get (mu aw) t) = parked /\
  forall t', t' <> t -> spin (get (mu aw) t') = false.
Proof. exact a_wake_section_owns_spinlock. Qed.

(* ---------- wake_waiters meets the scanner ---------- *)
(* A thread inside the scan of nsync_mu_unlock_slow_ that does not own the spinlock -- it has swapped mu->waiters into its
   private lists and RELEASED the spinlock to evaluate a condition (or is re-taking it) -- owns the write lock.  If in such a
   world wake_waiters' acquiring CAS succeeds (the word still is what it loaded), then, although the list its F15 test
   looks at (mu->waiters) is NOT the whole queue, the test cannot clear MU_WAITING: the scanner's write bit makes
   first_cant_acquire true, the first waiter is appended to mu->waiters (and marked transferred), the list is non-empty at
   the release and clear_on_release is MU_SPINLOCK alone. *)
Theorem C06a_transfer_in_scanner_window : forall progs cl c0 sched t c k old u,
  Z.of_nat (length progs) < 2 ^ 24 - 1 ->
  let aw := arun (ainit progs cl c0) sched in
  a_pc (aget aw t) = AvCas1 k old -> word (mu aw) = old ->
  scan_window_pc (t_pc (get (mu aw) u)) = true -> spin (get (mu aw) u) = false ->
  let aw' := fst (astep aw (Thr t c)) in
  holds (mu aw) u W /\
  queue (mu aw') <> [] /\ (exists first, hd_error (k_wake k) = Some first /\ In first (queue (mu aw')) /\ xferred aw' first = true) /\
  exists k', a_pc (aget aw' t) = AvLoad3 k' /\ k_clr k' = MU_SPINLOCK.
Proof. exact scan_window_transfer. Qed.

(* ---------- site level: the two CASes of wake_waiters, through the GENERATED expressions ---------- *)
(* SL x y: y is a 32-bit word with the same write bit and the same reader count as x (Proof/WordView.v) *)
Theorem C06a_wake_waiters_keeps_lock_bits :
  (forall old, 0 <= old < 4294967296 -> SL old (wake_waiters_cas1_new old)) /\
  (forall old s c, 0 <= old < 4294967296 -> (s = 0 \/ s = MU_WRITER_WAITING) -> (c = MU_SPINLOCK \/ c = bor MU_SPINLOCK MU_WAITING) ->
     SL old (wake_waiters_cas2_new old s c)).
Proof.
  split; [exact wake_cas1_SL|]. intros old s c R Hs Hc. apply wake_cas2_SL; [exact R | |].
  - destruct Hs as [->| ->]; [exact small3_0 | exact small3_ww].
  - destruct Hc as [->| ->]; [exact smallS_spin | exact smallS_spin_waiting].
Qed.
Theorem C06a_wake_waiters_flag_bits :
  (forall old, has (wake_waiters_cas1_new old) MU_ALL_FALSE = false) /\
  (forall old, has (wake_waiters_cas1_new old) MU_WAITING = true) /\
  (forall old s c, (s = 0 \/ s = MU_WRITER_WAITING) -> (c = MU_SPINLOCK \/ c = bor MU_SPINLOCK MU_WAITING) ->
     has (wake_waiters_cas2_new old s c) MU_ALL_FALSE = has old MU_ALL_FALSE).
Proof. split; [exact af_wake_cas1|]. split; [exact waiting_wake_cas1 | exact af_wake_cas2]. Qed.

(* ---------- non-vacuity: the interplay is reachable ---------- *)
(* M (thread 0) waits in nsync_mu_wait on a condition that stays false; C (thread 1) waits on the cv in writer mode; L (thread
   2) locks and unlocks: its nsync_mu_unlock_slow_ swaps mu->waiters = [M] out, releases the spinlock and is about to evaluate
   M's condition when S (thread 3), holding no lock, broadcasts: wake_waiters finds the write bit set (L's), takes the spinlock
   and appends C to the EMPTY mu->waiters.  L's next round picks C up behind M and wakes it; C re-enters nsync_mu_lock_slow_ as
   designated waker and returns holding the write lock. *)
Definition exa_T (t : nat) : actor := Thr t CNormal.
Definition exa_progs : list (list aop) :=
  [[AOp (OLock W); AOp (OMuWait (Some (0%nat, 0%nat)) false None false); AOp OUnlock];
   [AOp (OLock W); AWait W; AOp OUnlock];
   [AOp (OLock W); AOp OUnlock];
   [ABroadcast]].
Definition exa_s1 : list actor := repeat (exa_T 0) 11 ++ repeat (exa_T 1) 19 ++ repeat (exa_T 2) 9.
Definition exa_s2 : list actor := exa_s1 ++ repeat (exa_T 3) 6.
Definition exa_s3 : list actor := exa_s2 ++ repeat (exa_T 2) 3.
Definition exa_s4 : list actor := exa_s3 ++ repeat (exa_T 2) 6 ++ repeat (exa_T 1) 6.
Notation exa s := (arun (ainit exa_progs (fun x => x) 0) s).

Example C06a_example_transfer_in_scanner_window :
  (* L has the queue in its private list, has released the spinlock, is at the evaluation; C sleeps on the cv *)
  (queue (mu (exa exa_s1)) = [] /\ cvq (exa exa_s1) = [1%nat] /\ spin (get (mu (exa exa_s1)) 2) = false /\
   holds (mu (exa exa_s1)) 2 W /\
   exists u, t_pc (get (mu (exa exa_s1)) 2) = UsEval W u /\ u_new u = [0%nat] /\ u_done u = []) /\
  (* S's wake_waiters has transferred C onto the swapped-out mu->waiters and released the spinlock with MU_WAITING kept *)
  (queue (mu (exa exa_s2)) = [1%nat] /\ cvq (exa exa_s2) = [] /\ xferred (exa exa_s2) 1 = true /\
   waiting (mu (exa exa_s2)) 1 = true /\ wcond (mu (exa exa_s2)) 1 = None /\
   has (word (mu (exa exa_s2))) MU_WAITING = true /\ has (word (mu (exa exa_s2))) MU_SPINLOCK = false /\
   exists u, t_pc (get (mu (exa exa_s2)) 2) = UsEval W u /\ u_new u = [0%nat]) /\
  (* L's next round has picked C up behind M *)
  (queue (mu (exa exa_s3)) = [] /\
   exists u, t_pc (get (mu (exa exa_s3)) 2) = RmLoad (KScan W u) /\ u_done u = [0%nat] /\ u_new u = [1%nat]) /\
  (* C has returned from nsync_cv_wait holding the write lock; M is still queued with MU_ALL_FALSE recorded *)
  (a_rets (aget (exa exa_s4) 1) = [(W, Some W)] /\ holds (mu (exa exa_s4)) 1 W /\ queue (mu (exa exa_s4)) = [0%nat]).
Proof.
  split; [| split; [| split]].
  - repeat (split; [vm_compute; reflexivity|]). eexists. vm_compute. repeat split; reflexivity.
  - repeat (split; [vm_compute; reflexivity|]). eexists. vm_compute. repeat split; reflexivity.
  - split; [vm_compute; reflexivity|]. eexists. vm_compute. repeat split; reflexivity.
  - repeat split; vm_compute; reflexivity.
Qed.
(* ... the step of S at its acquiring CAS is an instance of C06a_transfer_in_scanner_window *)
Definition exa_s1b : list actor := exa_s1 ++ repeat (exa_T 3) 3.
Example C06a_example_window_instance :
  exists k old, a_pc (aget (exa exa_s1b) 3) = AvCas1 k old /\ word (mu (exa exa_s1b)) = old /\
  scan_window_pc (t_pc (get (mu (exa exa_s1b)) 2)) = true /\ spin (get (mu (exa exa_s1b)) 2) = false.
Proof. eexists. eexists. vm_compute. repeat split; reflexivity. Qed.
(* ... and the theorems apply to it: the evaluation L is about to make is under the lock *)
Example C06a_example_eval : a_eval_under_lock (exa exa_s2) 2 CNormal.
Proof. apply (C06a_eval_under_lock exa_progs (fun x => x) 0 exa_s2 2%nat CNormal). vm_compute. reflexivity. Qed.

Print Assumptions C06a_word_agrees.
Print Assumptions C06a_exclusion.
Print Assumptions C06a_eval_under_lock.
Print Assumptions C06a_parked_waiter_owns_nothing.
Print Assumptions C06a_wake_section_owns_spinlock.
Print Assumptions C06a_transfer_in_scanner_window.
Print Assumptions C06a_example_window_instance.
Print Assumptions C06a_wake_waiters_keeps_lock_bits.
Print Assumptions C06a_wake_waiters_flag_bits.
Print Assumptions C06a_example_transfer_in_scanner_window.
Print Assumptions C06a_example_eval.
