(* C01 (panic half) — the library's own consistency checks never fire; a panic is always the client's fault.
   MuModel has a pc [Crash k] for every nsync_panic_ / contract check on the paths it models.  A crashed thread
   satisfies every invariant of Properties_C01/C02/C13/C14 vacuously, and [quiescent] of Properties_C02b is false
   whenever one exists; this file states that those pcs are unreachable unless the CLIENT breaks the contract.

   The Crash codes (Model/MuModel.v):
     Crash 1  begin_op: OUnlock by a thread whose ghost [held] is None -- unlocking a mutex it does not hold.
              CLIENT error.
     Crash 4  begin_op: OLock / OTry by a thread whose ghost [held] is Some _ -- re-acquiring a mutex it already
              holds (nsync_mu is not reentrant; in C a second nsync_mu_lock self-deadlocks).  CLIENT error.
     Crash 2  nsync_mu_unlock / nsync_mu_runlock, after the failed first CAS: the sanity check on the loaded word
              fails -- the four nsync_panic_ calls of mu.c "attempt to nsync_mu_unlock() an nsync_mu held in read
              mode / not held in write mode", "attempt to nsync_mu_runlock() an nsync_mu held in write mode / not
              held in read mode".  In the model the unlocking thread IS a ghost holder in the mode it unlocks
              (OUnlock releases in the mode held; an unlock by a non-holder is Crash 1 before any site runs), so this
              check fires only if the lock field of the word disagrees with the holders: INTERNAL.
     Crash 3  nsync_mu_unlock_slow_ loads a word with MU_CONDITION set (the condition-testing branch, which contains
              the nsync_panic_ "checking a waiter condition ...", is outside this condition-free model; nothing in
              mu.c's condition-free paths sets the bit): INTERNAL.
     any other code is produced by no step.
   Statements only; proofs in Proof/MuProof4.v. *)
From NsyncBase Require Import CSem.
From NsyncGen Require Import Consts Sites.
From NsyncModel Require Import MuModel MuSpec.
From NsyncProof Require Import MuProof MuProof2 MuProof3 MuProof4.
From Coq Require Import List ZArith.
Import ListNotations.
Local Open Scope Z_scope.

Definition client_crash (k : Z) : Prop := k = 1 \/ k = 4.
Definition internal_crash (k : Z) : Prop := ~ client_crash k.

(* The client contract on a thread's (straight-line) program, given what the thread holds (h):
   it only unlocks what it holds, and does not acquire what it already holds.  "In the mode it holds" is built into the
   model: OUnlock calls nsync_mu_unlock if the thread holds in write mode and nsync_mu_runlock if it holds in read mode.
   The outcome of a trylock cannot be tested by a straight-line program, so a contract-respecting program may use
   OTry only as its last operation ([OTry W; OUnlock] panics whenever the try fails: C01_panic_try_ignored). *)
Fixpoint wb (h : option mode) (ops : list op) : bool :=
  match ops with
  | [] => true
  | OLock m :: r => match h with None => wb (Some m) r | Some _ => false end
  | OTry _ :: r => match h, r with None, [] => true | _, _ => false end
  | OUnlock :: r => match h with Some _ => wb None r | None => false end
  end.
Definition well_bracketed (progs : list (list op)) : Prop := Forall (fun p => wb None p = true) progs.

(* the thread is idle and the next operation of its program breaks the contract in the way code k reports *)
Definition client_error (s : tstate) (k : Z) : Prop :=
  t_pc s = Idle /\ exists o rest, t_ops s = o :: rest /\
  ((k = 1 /\ o = OUnlock /\ held s = None) \/
   (k = 4 /\ (exists m, o = OLock m \/ o = OTry m) /\ held s <> None)).

(* 1. The INTERNAL checks never fire -- for ANY programs (contract-respecting or not), any number of threads < 2^24-1,
      any schedule: no thread of a reachable world is at Crash k with k other than the two client-error codes.
      In particular the lock field seen by nsync_mu_unlock / nsync_mu_runlock always passes their sanity check
      (Crash 2) and MU_CONDITION is never seen by nsync_mu_unlock_slow_ (Crash 3). *)
Theorem C01_no_internal_panic : forall progs sched t k,
  Z.of_nat (length progs) < 2 ^ 24 - 1 ->
  internal_crash k -> t_pc (get (run (init progs) sched) t) <> Crash k.
Proof. intros progs sched t k Hn Hi E. exact (Hi (no_internal_panic progs sched t k Hn E)). Qed.

(* 2. No panic at all for contract-respecting programs. *)
Theorem C01_no_panic : forall progs sched t k,
  Z.of_nat (length progs) < 2 ^ 24 - 1 -> well_bracketed progs ->
  t_pc (get (run (init progs) sched) t) <> Crash k.
Proof. exact no_panic. Qed.

(* ... thread by thread: a thread whose OWN program respects the contract never panics, whatever the others do *)
Theorem C01_no_panic_thread : forall progs sched t k,
  Z.of_nat (length progs) < 2 ^ 24 - 1 -> wb None (nth t progs []) = true ->
  t_pc (get (run (init progs) sched) t) <> Crash k.
Proof. exact no_panic_thread. Qed.

(* 3. A panic is reachable only by a program that breaks the contract: if thread t of a reachable world is at Crash k,
      then k is a client-error code, t's own program is not well bracketed, the ghost state says which error it was
      (1: it holds nothing; 4: it holds the mutex), and the Crash pc was entered by the very step of t that began the
      offending operation (sched = s1 ++ t :: s2 with t idle after s1, about to unlock holding nothing / to acquire
      while holding). *)
Theorem C01_panic_only_by_client_error : forall progs sched t k,
  Z.of_nat (length progs) < 2 ^ 24 - 1 ->
  let w := run (init progs) sched in
  t_pc (get w t) = Crash k ->
  client_crash k /\ wb None (nth t progs []) = false /\
  ((k = 1 /\ held (get w t) = None) \/ (k = 4 /\ held (get w t) <> None)) /\
  exists s1 s2, sched = s1 ++ t :: s2 /\ client_error (get (run (init progs) s1) t) k.
Proof. exact panic_only_by_client_error. Qed.

(* one step: a thread is at a Crash pc afterwards only if it was there before or has just committed a client error
   (any world that satisfies the lock-view invariant and has no MU_CONDITION) *)
Theorem C01_crash_origin : forall n w t k, Inv n w -> CInv w ->
  t_pc (get (fst (step w t)) t) = Crash k ->
  t_pc (get w t) = Crash k \/ client_error (get w t) k.
Proof. exact step_crash_origin. Qed.

(* non-vacuity: the client errors DO panic *)
Example C01_panic_unlock_not_held : t_pc (get (run (init [[OUnlock]]) [0%nat]) 0) = Crash 1.
Proof. exact panic_unlock_not_held. Qed.
Example C01_panic_relock : t_pc (get (run (init [[OLock W; OLock W]]) [0; 0]%nat) 0) = Crash 4.
Proof. exact panic_relock. Qed.
(* thread 1 holds; thread 0's trylock fails (3 steps), its unlock is then an unlock of a mutex it does not hold *)
Example C01_panic_try_ignored :
  t_pc (get (run (init [[OTry W; OUnlock]; [OLock W]]) [1; 0; 0; 0]%nat) 0) = Crash 1.
Proof. exact panic_try_ignored. Qed.
(* ... and well_bracketed is satisfiable by the programs of the other examples (C01_example's ex_progs) *)
Example C01_well_bracketed_example : well_bracketed ex_progs.
Proof. repeat constructor. Qed.

Print Assumptions C01_no_internal_panic. Print Assumptions C01_no_panic. Print Assumptions C01_no_panic_thread.
Print Assumptions C01_panic_only_by_client_error. Print Assumptions C01_crash_origin.
Print Assumptions C01_panic_unlock_not_held. Print Assumptions C01_panic_relock.
Print Assumptions C01_panic_try_ignored. Print Assumptions C01_well_bracketed_example.
