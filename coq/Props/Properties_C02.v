(* C02 — a released mutex is always handed on; try-locks never block.
   Statements only; proofs in Proof/MuProof2.v. *)
From NsyncBase Require Import CSem.
From NsyncGen Require Import Consts Sites.
From NsyncModel Require Import MuModel MuSpec.
From NsyncProof Require Import MuProof MuProof2.
From Coq Require Import List ZArith.
Import ListNotations.
Local Open Scope Z_scope.

(* nsync_mu_trylock / nsync_mu_rtrylock never block, whatever the state of the mutex (ANY world, reachable or not):
   each own step of a try call is never a semaphore wait and strictly decreases a rank that starts at 3 ... *)
Theorem C02_try_nonblocking : forall w t,
  is_try_pc (t_pc (get (begin_op w t) t)) = true ->
  snd (step w t) <> EvBlocked /\
  (try_rank (t_pc (get (fst (step w t)) t)) < try_rank (t_pc (get (begin_op w t) t)))%nat /\
  (is_try_pc (t_pc (get (fst (step w t)) t)) = true \/ t_pc (get (fst (step w t)) t) = Idle).
Proof. exact try_nonblocking. Qed.

(* ... and no step of another thread can change the caller's program counter, so the call returns after at most
   3 own steps under every interleaving *)
Theorem C02_frame : forall w t t', t <> t' -> get (fst (step w t')) t = get w t.
Proof. exact step_frame. Qed.

(* the result it reports is truthful: it returns "acquired" exactly when it now holds the mutex *)
Theorem C02_try_result : forall w t,
  is_try_pc (t_pc (get (begin_op w t) t)) = true ->
  t_pc (get (fst (step w t)) t) = Idle ->
  (last_try (get (fst (step w t)) t) = Some true /\ held (get (fst (step w t)) t) <> None) \/
  (last_try (get (fst (step w t)) t) = Some false /\ held (get (fst (step w t)) t) = held (get (begin_op w t) t)).
Proof. exact try_result. Qed.

(* queue discipline used by the hand-off argument: in every reachable world the waiters queued on the mutex are
   distinct threads that are inside nsync_mu_lock_slow_ with their `waiting` flag set, and the MU_WAITING bit is
   set whenever the queue is non-empty and nobody owns the queue spinlock *)
Theorem C02_queue_invariant : forall progs sched,
  Z.of_nat (length progs) < 2 ^ 24 - 1 ->
  let w := run (init progs) sched in
  NoDup (queue w) /\
  (forall p, In p (queue w) -> waiting w p = true /\ in_lock_slow_queued (t_pc (get w p)) = true) /\
  (has (word w) MU_SPINLOCK = false -> queue w <> [] -> has (word w) MU_WAITING = true).
Proof. exact queue_invariant. Qed.

Print Assumptions C02_try_nonblocking. Print Assumptions C02_frame. Print Assumptions C02_try_result.
Print Assumptions C02_queue_invariant.
