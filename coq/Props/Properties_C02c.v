(* C02 in the property's own shape —
   "If every thread that acquires an nsync_mu eventually releases it, every nsync_mu_lock / nsync_mu_rlock call
    eventually returns."
   For programs in which every thread releases everything it acquires (balanced), every reachable world in which
   no thread executes instructions any more has EVERY thread finished: nobody is left asleep inside nsync_mu_lock /
   nsync_mu_rlock, and nobody has panicked.  Derived from C02_no_lost_handoff (Properties_C02b: a stuck world with a
   sleeper has a holder), C01_no_panic (Properties_C01p) and "a finished thread of a balanced program holds nothing".

   This is the safety half of the liveness sentence (no reachable deadlock / lost wake-up); that a fair schedule
   actually reaches such a world is not stated here (spinning threads -- the spin loops of nsync_mu_lock_slow_ and
   nsync_mu_unlock_slow_ while another thread owns the queue spinlock -- are runnable, not stuck).
   Statements only; proofs in Proof/MuProof4.v. *)
From NsyncBase Require Import CSem.
From NsyncGen Require Import Consts Sites.
From NsyncModel Require Import MuModel MuSpec.
From NsyncProof Require Import MuProof MuProof2 MuProof3 MuProof4.
From Coq Require Import List ZArith.
Import ListNotations.
Local Open Scope Z_scope.

(* t sits in the semaphore P of nsync_mu_lock_slow_ with count 0 *)
Definition asleep (w : world) (t : nat) : Prop := snd (step w t) = EvBlocked.
(* t is idle and its program is exhausted *)
Definition done (w : world) (t : nat) : Prop := t_pc (get w t) = Idle /\ t_ops (get w t) = [].
(* t has panicked *)
Definition crashed (w : world) (t : nat) : Prop := exists k, t_pc (get w t) = Crash k.
(* QUIESCENT, crashed threads included: every thread is asleep, finished or dead.  These are exactly the threads that
   execute no instruction (C02c_stuck_no_move); every other pc performs an atomic operation when scheduled. *)
Definition stuck (w : world) : Prop :=
  forall t, (t < nthreads w)%nat -> asleep w t \/ done w t \/ crashed w t.

(* every acquisition of the (straight-line) program is followed by its release, nothing is held at the end, and the
   thread never acquires while it holds.  The last clause is the hypothesis the property implies -- a thread that
   re-acquires a mutex it holds ([lock; lock; unlock; unlock]) never reaches its release in C (self-deadlock); in the
   model that program is stopped at the second lock (Crash 4, a client error: Properties_C01p), so no thread is ever
   asleep in a nested lock of its own held mutex (a sleeping thread holds nothing).  OTry is excluded: a program
   cannot test its result, so it cannot release exactly when it acquired. *)
Fixpoint bal (h : option mode) (ops : list op) : bool :=
  match ops with
  | [] => match h with None => true | Some _ => false end
  | OLock m :: r => match h with None => bal (Some m) r | Some _ => false end
  | OTry _ :: _ => false
  | OUnlock :: r => match h with Some _ => bal None r | None => false end
  end.
Definition balanced (progs : list (list op)) : Prop := Forall (fun p => bal None p = true) progs.

(* For ANY number of threads < 2^24-1, ANY balanced programs, ANY schedule: if nothing can move, everybody is done. *)
Theorem C02_balanced_quiescent_done : forall progs sched,
  Z.of_nat (length progs) < 2 ^ 24 - 1 -> balanced progs ->
  let w := run (init progs) sched in
  stuck w -> forall t, (t < nthreads w)%nat -> done w t.
Proof. exact balanced_quiescent_done. Qed.

(* the three ingredients *)
(* (a) a finished thread of a balanced program holds nothing (whatever the other threads' programs are) *)
Theorem C02c_done_holds_nothing : forall progs sched t,
  Z.of_nat (length progs) < 2 ^ 24 - 1 -> bal None (nth t progs []) = true ->
  let w := run (init progs) sched in
  done w t -> held (get w t) = None.
Proof. exact balanced_done_holds_nothing. Qed.

(* (b) a sleeping thread holds nothing (any world satisfying the lock-view invariant) *)
Theorem C02c_asleep_holds_nothing : forall n w t, Inv n w -> asleep w t -> held (get w t) = None.
Proof. exact asleep_holds_nothing. Qed.

(* (c) balanced programs respect the client contract, hence never panic (C01_no_panic) *)
Theorem C02c_balanced_no_panic : forall progs sched t k,
  Z.of_nat (length progs) < 2 ^ 24 - 1 -> balanced progs ->
  t_pc (get (run (init progs) sched) t) <> Crash k.
Proof. intros progs sched t k Hn Hb. exact (no_panic progs sched t k Hn (balanced_well_bracketed progs Hb)). Qed.

(* asleep / done / crashed threads do not move: scheduling them leaves the world unchanged *)
Theorem C02c_stuck_no_move : forall w t, asleep w t \/ done w t \/ crashed w t -> fst (step w t) = w.
Proof. exact stuck_no_move. Qed.

(* non-vacuity: bq_progs = [[OLock W; OUnlock]; [OLock W; OUnlock]; [OLock R; OUnlock]] is balanced; under
   bq_sched = 0, 8 x 1, 8 x 2, 8 x 0, 12 x 1, 5 x 2 thread 0 acquires, threads 1 and 2 queue and sleep behind it
   (world after 17 steps), thread 0's release wakes 1, whose release wakes 2; at the end nothing can move, everybody
   is done, the word is 0 and the queue is empty *)
Example C02_balanced_example :
  Z.of_nat (length bq_progs) < 2 ^ 24 - 1 /\ balanced bq_progs /\
  (let w := run (init bq_progs) (firstn 17 bq_sched) in
   holds w 0%nat W /\ asleep w 1%nat /\ asleep w 2%nat /\ queue w = [1; 2]%nat) /\
  (let w := run (init bq_progs) bq_sched in
   stuck w /\ (forall t, (t < nthreads w)%nat -> done w t) /\ word w = 0 /\ queue w = []).
Proof. exact balanced_example. Qed.

Print Assumptions C02_balanced_quiescent_done. Print Assumptions C02c_done_holds_nothing.
Print Assumptions C02c_asleep_holds_nothing. Print Assumptions C02c_balanced_no_panic.
Print Assumptions C02c_stuck_no_move. Print Assumptions C02_balanced_example.
