(* C08 -- a note is a one-way flag set by notify, by its deadline, or by an ancestor.
   Theorems about Model/NoteModel.v (internal/note.c as of the repairs of F4, F7, F8, F9, F12: commit 0ed6400; any number of
   threads, any tree of notes, any deadlines, any schedule, any clock).  Statements only; proofs in Proof/NoteProof.v ..
   NoteProof6.v.

   Vocabulary (Model/NoteModel.v):  [flag (nt w n)] is the `notified` word of note n;  [obs_notified w n] is what every
   observer computes from NOTIFIED_TIME: the word is set, or the expiry time is not after the epoch (a note created with
   such a deadline, or under an already-notified parent, never gets the word stored -- an oddity of the code, not a
   defect: all observers agree);  [cpath w n a]: a is n or a creation-time ancestor of n (ghost, immutable);
   [cause w n]: nsync_note_notify was called on n or on a creation-time ancestor, or the clock has reached the creation
   deadline of one of them;  [mono_bad] is raised by the model when an nsync_note_is_notified / nsync_note_wait that
   STARTED after a completed observation had reported its note notified returns "not notified". *)
From NsyncBase Require Import CSem.
From NsyncGen Require Import Consts Sites.
From NsyncModel Require Import NoteModel.
From NsyncProof Require Import NoteProof NoteProof2 NoteProof3 NoteProof4 NoteProof5 NoteProof6.
From Coq Require Import List ZArith.
Import ListNotations.
Local Open Scope Z_scope.

(* ---- monotone: the word is only ever 0 or 1, is never cleared, and the observation history is monotone ---- *)
Theorem C08_monotone : forall w, reachable w ->
  (forall m, (m < nnext w)%nat -> flag (nt w m) = 0 \/ flag (nt w m) = 1) /\
  (forall a m, (m < nnext w)%nat -> flag (nt w m) <> 0 -> flag (nt (exec w a) m) <> 0) /\
  mono_bad (gh w) = false.
Proof.
  intros w R. split; [exact (flag_ok_reachable w R)|]. split; [intros a m; exact (flag_kept w a m)|exact (mono_ok w R)].
Qed.

(* ---- sound: a set word, and more generally a positive observation, has a cause ---- *)
Theorem C08_sound : forall w m, reachable w -> (m < nnext w)%nat -> flag (nt w m) <> 0 -> cause w m.
Proof. exact sound_flag. Qed.
Theorem C08_sound_obs : forall w m, reachable w -> (m < nnext w)%nat -> obs_notified w m -> cause w m.
Proof. exact sound_obs. Qed.

(* ---- when nsync_note_notify (n) returns, n is notified ---- *)
Theorem C08_notify_post : forall w t c n, reachable w ->
  returned w (fst (step w t c)) t (ONotify n) RNone -> obs_notified (fst (step w t c)) n.
Proof. exact notify_post. Qed.

(* ---- frame condition: a step of a thread inside a call naming n (nsync_note_notify n in particular) changes the word
        and the waiter list only of creation-time descendants of n: ancestors and siblings are unaffected ---- *)
Theorem C08_local : forall w t c n m, reachable w ->
  call_note (stk (begin_call w t) t) = Some n -> (m < nnext w)%nat ->
  flag (nt (fst (step w t c)) m) <> flag (nt w m) \/ waiters (nt (fst (step w t c)) m) <> waiters (nt w m) ->
  cpath w m n.
Proof. intros w t c n m R. exact (local_step w t c n m (InvA_reachable w R)). Qed.

(* ---- expiry (note.c as of 0ed6400, the repair of F12).
        [uc w n]: n is still inside the nsync_note_new call that creates it (not yet returned to anybody);
        [espec w n]: abs_deadline if the parent is NULL, else min (T, abs_deadline) where T is the parent's notification time
        at the moment nsync_note_new compared with it under the parent's lock: zero if the parent's `notified` word was set
        then (ghost cpz -- the word is set by an explicit nsync_note_notify, by a passed deadline, or through an ancestor),
        and the parent's own expiry time otherwise (a completed note's expiry never changes: C08_expiry_stable, so "the
        parent's expiry now" is "the parent's expiry then");
        [dl_min w n n]: the minimum of the abs_deadline arguments from n up its creation path to the root;
        [path_min w n n] (Model/NoteModel.v): the same minimum, cut off at the first parent that was already notified when its
        child was created, which counts as zero;  [tle a b]: nsync_time_cmp (a, b) <= 0.   All in Proof/NoteProof5.v.
        [broken (gh w) = false]: the client has kept the contract of DESIGN 4/C09 so far (needed only to know that nobody
        passes a note still under construction as a parent).

        C08_expiry holds for EVERY completed note.  Before 0ed6400 a note whose own abs_deadline had already passed when it
        was created did not look at its parent at all and kept abs_deadline (the former C08_expiry_refuted, first witness;
        F12); C08_expiry_at_creation is the step that changed: it now makes the comparison whatever `expired` is. ---- *)
Theorem C08_expiry : forall w n, reachable w -> broken (gh w) = false -> (n < nnext w)%nat -> ~ uc w n ->
  expiry (nt w n) = espec w n.
Proof. exact expiry_spec. Qed.
(* the one step that writes it: nsync_note_new (parent p, abs_deadline dl) at the load of p->notified under p's lock, for
   either value e of `expired`: the new note's expiry becomes min (NOTIFIED_TIME (p), dl), the ghost records whether p's
   word was set, and the note is linked under p iff it was not expired and p is not notified *)
Theorem C08_expiry_at_creation : forall w t c par dl n p e rest,
  reachable w -> stk w t = ANew par dl (W3 n p e) :: rest ->
  let w' := fst (step1 w t c) in
  let pt := notified_time w p (flag (nt w p)) in
  expiry (nt w' n) = tmin pt dl /\ cdl (nt w' n) = dl /\ cpar (nt w' n) = Some p /\
  cpz (nt w' n) = negb (flag (nt w p) =? 0) /\
  parent (nt w' n) = (if negb e && tpos pt then Some p else parent (nt w n)).
Proof. exact new_compare_step. Qed.
Theorem C08_expiry_stable : forall w a n, (n < nnext w)%nat -> ~ uc w n -> expiry (nt (exec w a) n) = expiry (nt w n).
Proof. exact expiry_stable. Qed.
(* the same as a formula over the whole creation path *)
Theorem C08_expiry_path : forall w, reachable w -> broken (gh w) = false ->
  forall n, (n < nnext w)%nat -> ~ uc w n -> expiry (nt w n) = path_min w n n.
Proof. exact expiry_path. Qed.

(* Corollary: the expiry of a note created under parent p is never later than p's expiry -- in every reachable state in
   which the note is complete, i.e. at any later time (in the model a note's expiry field survives nsync_note_free and
   ids are not reused, so p need not even be live; on the implementation nsync_note_expiry (p) may of course only be
   asked while p is not freed).  One exception, which cannot arise unless some abs_deadline on the path lies BEFORE THE
   EPOCH (C08_expiry_monotone_epoch): a parent whose `notified` word is set counts as time zero, and zero is later than a
   negative expiry.  Witness of the exception (C08_expiry_monotone_plain_refuted): clock 20;
   a = new (NULL, -5); b = new (a, 10) [expired at creation: word set, expiry min (10, -5) = -5]; c = new (b, no deadline)
   gives expiry (c) = 0 > expiry (b) = -5.  All three are notified, so no observer can tell. *)
Theorem C08_expiry_monotone : forall w n p, reachable w -> broken (gh w) = false -> (n < nnext w)%nat -> ~ uc w n ->
  cpar (nt w n) = Some p ->
  tle (expiry (nt w n)) (expiry (nt w p)) \/
  (cpz (nt w n) = true /\ tle (expiry (nt w n)) tzero /\ tlt (expiry (nt w p)) tzero = true).
Proof. exact expiry_monotone. Qed.
Theorem C08_expiry_monotone_epoch : forall w n p, reachable w -> broken (gh w) = false -> (n < nnext w)%nat -> ~ uc w n ->
  cpar (nt w n) = Some p ->
  (forall a d, cpath w p a -> cdl (nt w a) = Some d -> 0 <= d) ->
  tle (expiry (nt w n)) (expiry (nt w p)).
Proof. exact expiry_monotone_epoch. Qed.
Definition C08_expiry_monotone_plain : Prop := forall w n p, reachable w -> broken (gh w) = false -> (n < nnext w)%nat -> ~ uc w n ->
  cpar (nt w n) = Some p -> tle (expiry (nt w n)) (expiry (nt w p)).
Theorem C08_expiry_monotone_plain_refuted : ~ C08_expiry_monotone_plain.
Proof. exact expiry_monotone_plain_refuted. Qed.

(* The LITERAL reading of properties.jsonl / public/nsync_note.h, "nsync_note_expiry is the minimum of the abs_deadline
   values on the creation path to the root", is false by design: an ancestor that is already notified when the child is
   created counts as deadline zero (the header requires a note created under a notified parent to be notified at once).
   Witness (wit2): a = nsync_note_new (NULL, no deadline); nsync_note_notify (a); b = nsync_note_new (a, 10) gives
   expiry (b) = 0, the literal minimum is 10.
   The former first witness (wit1: clock 20; a = new (NULL, 5); b = new (a, 10), both deadlines already passed), which gave
   expiry (b) = 10 > expiry (a) = 5 before 0ed6400, no longer shows a child expiring later than its parent: the Eval below
   gives expiry (a) = 5, a's word = 1, expiry (b) = 0 -- a was notified by the deadline check inside its own
   nsync_note_new, so b takes min (10, NOTIFIED_TIME (a) = 0); the implementation prints the same (scratch program
   _work/h_note/scen/exp_check.c).  Against the literal formula (5) it is thereby the same case as wit2.  The variant in
   which a's deadline passes only after a was created (wit1b: clock 0; a = new (NULL, 5); clock := 20; b = new (a, 10);
   a's word still 0) gave 10 before the repair and now gives expiry (b) = 5 = the literal minimum. *)
Definition C08_expiry_literal : Prop :=
  forall w n, reachable w -> broken (gh w) = false -> (n < nnext w)%nat -> ~ uc w n -> expiry (nt w n) = dl_min w n n.
Theorem C08_expiry_literal_refuted : ~ C08_expiry_literal.
Proof. exact expiry_literal_refuted. Qed.
Eval vm_compute in (expiry (nt wit1 0), flag (nt wit1 0), expiry (nt wit1 1), dl_min wit1 1 1).
  (* = (Some 5, 1, Some 0, Some 5)      -- before 0ed6400: (Some 5, 1, Some 10, Some 5) *)
Eval vm_compute in (expiry (nt wit1b 0), flag (nt wit1b 0), expiry (nt wit1b 1), dl_min wit1b 1 1).
  (* = (Some 5, 0, Some 5, Some 5)      -- before 0ed6400: (Some 5, 0, Some 10, Some 5) *)
Eval vm_compute in (expiry (nt wit2 1), dl_min wit2 1 1, cpz (nt wit2 1)).
  (* = (Some 0, Some 10, true) *)
(* what holds of the literal minimum: the expiry time IS that minimum, or the note is already notified *)
Theorem C08_expiry_partial : forall w n, reachable w -> broken (gh w) = false -> (n < nnext w)%nat -> ~ uc w n ->
  expiry (nt w n) = dl_min w n n \/ obs_notified w n.
Proof. exact expiry_min. Qed.

(* ---- descendants.  [notifying w p]: some thread is inside note_notify_child (p, _);  [quiet w]: no thread is inside
        notify(), note_notify_child() or nsync_note_free() at all (both in Proof/NoteProof6.v).

        Proved, for every client (no contract needed): once no note_notify_child (p) is running, a note p whose
        `notified` word is set has no children left -- each was notified and unlinked by the loop of lines 41-56, or
        is notified by its own nsync_note_free / adopted elsewhere -- and no waiter left: every thread that was
        waiting on p has been dequeued and posted.  With the contract, a note still linked under a notified parent
        therefore has a note_notify_child of that parent in progress (C08_descendants_linked). ---- *)
Theorem C08_descendants_partial : forall w p, reachable w -> (p < nnext w)%nat -> flag (nt w p) <> 0 -> ~ notifying w p ->
  children (nt w p) = [] /\ waiters (nt w p) = [].
Proof. exact descendants_local. Qed.
Theorem C08_descendants_linked : forall w m p, reachable w -> broken (gh w) = false -> (m < nnext w)%nat ->
  parent (nt w m) = Some p -> flag (nt w p) <> 0 -> notifying w p.
Proof.
  intros w m p R B Hm Hp Hf. destruct (InvC_reachable w R) as (I & _ & _ & U). destruct (iu_tree _ (U B)) as (T1 & _ & _ & T0).
  assert (p < nnext w)%nat as Hpl by (pose proof (T0 m p Hm Hp); lia).
  destruct (InvD_reachable w R) as [D1 _].
  destruct (D1 p Hpl Hf) as (t & par & s & Hin & _); [intros E; pose proof (T1 m p Hm Hp) as H; rewrite E in H; destruct H|].
  exists t, par, s. exact Hin.
Qed.
(* The statement over CREATION-time descendants (the ghost path cpath, which survives the freeing of intermediate
   notes): when nothing is in progress, every live completed note below a notified one is notified.  PROVED since the third
   session: Props/Properties_C08b.v (C08_descendants_full_holds) and, in the local form with the waiters' release, Props/Properties_C08c.v.
   Missing piece: the invariant that ties the creation path to the current tree across adoptions, namely
     "a live completed note m with flag 0 and positive expiry that has a creation-ancestor a with flag a <> 0 is
      currently linked (parent m = Some r) under a note r with cpath r a",
   whose preservation by the re-parenting step of nsync_note_free (F7, `adopt`) needs in turn that a note with
   children has a positive expiry and that no note_notify_child (n) frame exists while nsync_note_free (n) is past
   its mu_wait (from disc_ok).  Evidence instead of proof: the exhaustive explorer _work/h_note/explore/dfs.ml checks
   the obs_notified part of this statement (check D4; the waiters part at terminal states) in every reachable quiet state of 18 hand-written and 20000 random programs
   (9.1M states): no violation. *)
Definition C08_descendants_full : Prop :=
  forall w a m, reachable w -> broken (gh w) = false -> quiet w -> (m < nnext w)%nat -> ~ uc w m -> ~ In m (freed (gh w)) ->
    cpath w m a -> flag (nt w a) <> 0 -> obs_notified w m /\ waiters (nt w m) = [].

Print Assumptions C08_monotone.
Print Assumptions C08_sound.
Print Assumptions C08_sound_obs.
Print Assumptions C08_notify_post.
Print Assumptions C08_local.
Print Assumptions C08_expiry.
Print Assumptions C08_expiry_at_creation.
Print Assumptions C08_expiry_stable.
Print Assumptions C08_expiry_path.
Print Assumptions C08_expiry_monotone.
Print Assumptions C08_expiry_monotone_epoch.
Print Assumptions C08_expiry_monotone_plain_refuted.
Print Assumptions C08_expiry_literal_refuted.
Print Assumptions C08_expiry_partial.
Print Assumptions C08_descendants_partial.
Print Assumptions C08_descendants_linked.
