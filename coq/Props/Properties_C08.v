(* C08 -- a note is a one-way flag set by notify, by its deadline, or by an ancestor.
   Theorems about Model/NoteModel.v (internal/note.c as of the repairs of F4, F7, F8, F9; any number of threads, any
   tree of notes, any deadlines, any schedule, any clock).  Statements only; proofs in Proof/NoteProof.v.

   Vocabulary (Model/NoteModel.v):  [flag (nt w n)] is the `notified` word of note n;  [obs_notified w n] is what every
   observer computes from NOTIFIED_TIME: the word is set, or the expiry time is not after the epoch (a note created with
   such a deadline, or under an already-notified parent, never gets the word stored -- an oddity of the code, not a
   defect: all observers agree);  [cpath w n a]: a is n or a creation-time ancestor of n (ghost, immutable);
   [cause w n]: nsync_note_notify was called on n or on a creation-time ancestor, or the clock has reached the creation
   deadline of one of them;  [mono_bad] is raised by the model when an nsync_note_is_notified / nsync_note_wait that
   STARTED after a completed observation had reported its note notified returns "not notified". *)
From NsyncBase Require Import CSem.
From NsyncGen Require Import Consts Sites.
From NsyncModel Require Import NoteModel.
From NsyncProof Require Import NoteProof.
From Coq Require Import List ZArith.
Import ListNotations.
Local Open Scope Z_scope.

(* ---- monotone: the word is only ever 0 or 1, is never cleared, and the observation history is monotone ---- *)
Theorem C08_monotone : forall w, reachable w ->
  (forall m, (m < nnext w)%nat -> flag (nt w m) = 0 \/ flag (nt w m) = 1) /\
  (forall a m, (m < nnext w)%nat -> flag (nt w m) <> 0 -> flag (nt (exec w a) m) <> 0) /\
  mono_bad (gh w) = false.
Proof.
  intros w R. split; [exact (flag_ok_reachable w R)|]. split; [intros a m; exact (flag_kept w a m)|exact (mono_ok w R)].
Qed.

(* ---- sound: a set word, and more generally a positive observation, has a cause ---- *)
Theorem C08_sound : forall w m, reachable w -> (m < nnext w)%nat -> flag (nt w m) <> 0 -> cause w m.
Proof. exact sound_flag. Qed.
Theorem C08_sound_obs : forall w m, reachable w -> (m < nnext w)%nat -> obs_notified w m -> cause w m.
Proof. exact sound_obs. Qed.

(* ---- when nsync_note_notify (n) returns, n is notified ---- *)
Theorem C08_notify_post : forall w t c n, reachable w ->
  returned w (fst (step w t c)) t (ONotify n) RNone -> obs_notified (fst (step w t c)) n.
Proof. exact notify_post. Qed.

(* ---- frame condition: a step of a thread inside a call naming n (nsync_note_notify n in particular) changes the word
        and the waiter list only of creation-time descendants of n: ancestors and siblings are unaffected ---- *)
Theorem C08_local : forall w t c n m, reachable w ->
  call_note (stk (begin_call w t) t) = Some n -> (m < nnext w)%nat ->
  flag (nt (fst (step w t c)) m) <> flag (nt w m) \/ waiters (nt (fst (step w t c)) m) <> waiters (nt w m) ->
  cpath w m n.
Proof. intros w t c n m R. exact (local_step w t c n m (InvA_reachable w R)). Qed.

Print Assumptions C08_monotone.
Print Assumptions C08_sound.
Print Assumptions C08_sound_obs.
Print Assumptions C08_notify_post.
Print Assumptions C08_local.
