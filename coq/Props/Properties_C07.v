(* C07 — nsync_run_once runs its function exactly once and nobody returns early.
   Theorems about Model/OnceModel.v; statements only, proofs in Proof/OnceProof.v. *)
From NsyncBase Require Import CSem.
From NsyncGen Require Import Consts Sites.
From NsyncModel Require Import OnceModel.
From NsyncProof Require Import OnceProof.
From Coq Require Import List ZArith.
Import ListNotations.
Local Open Scope Z_scope.

Section C07.
  Variable progs : list (list (nat * bool)).   (* any number of callers, each any sequence of (object, blocking|spinning) calls *)
  Variable sched : list nat.                   (* any interleaving *)
  Let w := run (init progs) sched.

  (* the function of every object is started at most once ... *)
  Theorem C07_at_most_once : forall o, runs w o <= 1.
  Proof. exact (at_most_once progs sched). Qed.

  (* ... no call returns before that run has completed ... *)
  Theorem C07_not_early : early w = 0 /\ forall t o, In o (returned (get w t)) -> completed w o = true.
  Proof. exact (not_early progs sched). Qed.

  (* ... and if any call on o has returned, the function ran exactly once *)
  Theorem C07_exactly_once : forall t o, In o (returned (get w t)) -> runs w o = 1.
  Proof. exact (exactly_once progs sched). Qed.

  (* the word is 0 (fresh), 1 (exactly one winner is between its CAS and its store) or 2 (done, for ever) *)
  Theorem C07_word : forall o,
    (once w o = 0 /\ runs w o = 0 /\ completed w o = false) \/
    (once w o = 1 /\ runs w o = 1 /\ completed w o = false /\ exists t, winner_of w o t) \/
    (once w o = 2 /\ runs w o = 1 /\ completed w o = true).
  Proof. exact (word_states progs sched). Qed.

  (* calls on a once that is already done return at their first step, touching nothing but the word (no lock, no wait) *)
  Theorem C07_done_nonblocking : forall t o sp rest,
    pc (get w t) = OIdle -> calls (get w t) = (o, sp) :: rest -> once w o = 2 ->
    pc (get (fst (step w t)) t) = OIdle /\ In o (returned (get (fst (step w t)) t)) /\ snd (step w t) = EvLoad 1 2.
  Proof. exact (done_nonblocking progs sched). Qed.

  (* nobody is stuck: whenever some caller is unfinished, some thread has a step that changes the state
     (a loser can only be waiting for a winner that exists and can always proceed) *)
  Theorem C07_no_stuck : forall t, (t < length (thr w))%nat -> unfinished w t -> exists t', productive w t'.
  Proof. exact (no_stuck progs sched). Qed.
End C07.

Example C07_example : exists progs sched,
  let w := run (init progs) sched in
  runs w 0%nat = 1 /\ returned (get w 0%nat) = [0%nat] /\ returned (get w 1%nat) = [0%nat] /\ early w = 0.
Proof. exact example_two_callers. Qed.

Print Assumptions C07_at_most_once. Print Assumptions C07_not_early. Print Assumptions C07_exactly_once.
Print Assumptions C07_word. Print Assumptions C07_done_nonblocking. Print Assumptions C07_no_stuck. Print Assumptions C07_example.
