(* C07 — nsync_run_once runs its function exactly once and no call returns before that run has COMPLETED.
   Theorems about Model/OnceModel.v; statements only, proofs in Proof/OnceProof.v.
   The model has the call of the once-function as two steps (f-begin, f-end; the ghost [completed] is set at f-end) and
   the store of 2 as a later step; the internal lock once_mu and condition variable once_cv are abstract steps; the
   model is parameterised by an environment [e]: an ARBITRARY map [slot e] from once objects to once_sync slots (objects
   may share once_mu / once_cv), [fterm e o] (the function of object o returns), [lockable e s] (nsync_mu_lock on the
   once_mu of slot s returns when the mutex is free).  Every theorem is for any environment; only C07_no_stuck and
   C07_progress assume [env_ok e] (all functions return, all locks obtainable), and C07_f_must_return /
   C07_lock_must_be_obtainable show that neither assumption can be dropped. *)
From NsyncBase Require Import CSem.
From NsyncGen Require Import Consts Sites.
From NsyncModel Require Import OnceModel.
From NsyncProof Require Import OnceProof.
From Coq Require Import List ZArith.
Import ListNotations.
Local Open Scope Z_scope.

Section C07.
  Variable e : env.                            (* any map once -> slot, any terminating / non-terminating functions, any locks *)
  Variable progs : list (list (nat * bool)).   (* any number of callers, each any sequence of (object, blocking|spinning) calls *)
  Variable sched : list nat.                   (* any interleaving *)
  Let w := run (init e progs) sched.

  (* the function of every object is started at most once ... *)
  Theorem C07_at_most_once : forall o, runs w o <= 1.
  Proof. exact (at_most_once e progs sched). Qed.

  (* ... by at most one thread, the only one that ever performed the CAS 0 -> 1 on the word:
     [wins w o] lists the threads whose CAS succeeded, [fbeg w o] the threads that entered the function *)
  Theorem C07_winner_unique : forall o,
    (length (wins w o) <= 1)%nat /\ (length (fbeg w o) <= 1)%nat /\ (fbeg w o = [] \/ fbeg w o = wins w o) /\
    (completed w o = true -> fbeg w o = wins w o /\ length (fbeg w o) = 1%nat).
  Proof. exact (winners_unique e progs sched). Qed.

  (* ... no call returns before that run has completed: [completed] is set by the f-end step, not by the store ... *)
  Theorem C07_not_early :
    early w = 0 /\ forall t o, In o (returned (get w t)) -> completed w o = true /\ once w o = 2.
  Proof. exact (not_early e progs sched). Qed.

  (* ... because of the order CAS < f-begin < f-end < store of 2: the word is 2 only if f has returned, f has returned
     only if it was entered, and it was entered only by the thread that won the CAS *)
  Theorem C07_order : forall o,
    (once w o = 2 -> completed w o = true) /\
    (completed w o = true -> exists tw, fbeg w o = [tw] /\ wins w o = [tw]) /\
    (fbeg w o <> [] -> exists tw, fbeg w o = [tw] /\ wins w o = [tw] /\ once w o <> 0).
  Proof. exact (order_of_events e progs sched). Qed.

  (* ... and if any call on o has returned, the function ran exactly once *)
  Theorem C07_exactly_once : forall t o, In o (returned (get w t)) -> runs w o = 1.
  Proof. exact (exactly_once e progs sched). Qed.

  (* the word is 0 (fresh: nobody has won), 1 (EXACTLY one winner tw is between its CAS and its store: it is the only
     thread in [wins], every thread at a winner's pc is tw) or 2 (done, for ever: nobody is at a winner's pc) *)
  Theorem C07_word : forall o,
    (once w o = 0 /\ wins w o = [] /\ fbeg w o = [] /\ completed w o = false /\ forall t, ~ winner_of w o t) \/
    (once w o = 1 /\ exists tw, wins w o = [tw] /\ winner_of w o tw /\ (forall t, winner_of w o t -> t = tw) /\
                     (fbeg w o = [] \/ fbeg w o = [tw])) \/
    (once w o = 2 /\ (exists tw, wins w o = [tw] /\ fbeg w o = [tw]) /\ completed w o = true /\ forall t, ~ winner_of w o t).
  Proof. exact (word_states e progs sched). Qed.

  (* the internal lock: two threads inside the once_mu critical section of objects with the same slot are the same
     thread -- whatever the map from objects to slots -- and the holder of a once_mu is inside a BLOCKING call *)
  Theorem C07_once_mu_exclusive : forall t1 t2 o1 o2,
    holds_pc (pc (get w t1)) = Some o1 -> holds_pc (pc (get w t2)) = Some o2 ->
    slot_of w o1 = slot_of w o2 -> t1 = t2.
  Proof. exact (once_mu_exclusive e progs sched). Qed.

  Theorem C07_holder : forall s h, mu w s = Some h ->
    exists o, holds_pc (pc (get w h)) = Some o /\ slot_of w o = s /\ cur (get w h) = Some (o, false).
  Proof. exact (holder_is_inside e progs sched). Qed.

  (* every step on once_mu / once_cv (lock, unlock, blocked lock attempt, broadcast, beginning and end of the timed wait)
     is made by a thread executing a blocking call: the spinning variants never touch them *)
  Theorem C07_spin_takes_no_lock : forall t, lock_ev (snd (step w t)) = true ->
    exists o, lock_pc (pc (get w t)) = Some o /\ cur (get w t) = Some (o, false).
  Proof. exact (lock_events_blocking e progs sched). Qed.

  (* a call (blocking or spinning) on a once that is already done returns at its first step: ONE load of the word (the
     event is that load, not a lock step), the lock state, the words and every other thread are unchanged *)
  Theorem C07_done_nonblocking : forall t o sp rest,
    pc (get w t) = OIdle -> calls (get w t) = (o, sp) :: rest -> once w o = 2 ->
    snd (step w t) = EvLoad 1 2 /\
    pc (get (fst (step w t)) t) = OIdle /\ calls (get (fst (step w t)) t) = rest /\
    returned (get (fst (step w t)) t) = o :: returned (get w t) /\
    mu (fst (step w t)) = mu w /\ once (fst (step w t)) = once w /\
    forall t', t' <> t -> get (fst (step w t)) t' = get w t'.
  Proof. exact (done_nonblocking e progs sched). Qed.

  (* the timed wait of a blocking loser ends by the loser's OWN step (its deadline, at most 50 ms away), whatever the
     others have done -- in particular when the winner is a SPINNING call, which does not broadcast (once.c:81-84) *)
  Theorem C07_cvwait_times_out : forall t o, pc (get w t) = OCvWait o ->
    pc (get (fst (step w t)) t) = OCvReacq o /\ snd (step w t) = EvCvEnd (slot_of w o).
  Proof. exact (cvwait_times_out e progs sched). Qed.

  (* nobody is stuck, for ANY mix of blocking and spinning callers and any sharing of slots -- provided every
     once-function returns and every once_mu can be obtained when free ([env_ok e]: both hypotheses are explicit):
     from every reachable world the system can run to completion (every caller idle, no call left), in at most
     [rank w] further steps *)
  Theorem C07_no_stuck : env_ok e ->
    exists sched', (length sched' <= rank w)%nat /\ all_done (run (init e progs) (sched ++ sched')).
  Proof. exact (no_stuck e progs sched). Qed.

  (* the measure behind it ([rank], Model/OnceModel.v: remaining calls and remaining steps of every thread; a loser that
     finds the word not yet 2 goes round its wait loop at a constant level): unless everybody has finished, SOME thread
     has a step that strictly decreases it -- a loser whose re-read is fruitless is never the only thread that can move *)
  Theorem C07_progress : env_ok e ->
    all_done w \/ exists t, (rank (fst (step w t)) < rank w)%nat.
  Proof. exact (progress e progs sched). Qed.
End C07.

(* the two hypotheses of C07_no_stuck cannot be dropped: a once-function that does not return keeps its caller inside
   it for ever (and with it every caller of that object, by C07_not_early), a once_mu that cannot be obtained keeps a
   blocking caller in front of it for ever -- whatever is scheduled *)
Theorem C07_f_must_return : forall w t o sp, fterm (cfg w) o = false -> pc (get w t) = OFRun o sp ->
  forall sched', get (run w sched') t = get w t.
Proof. exact f_stuck_forever. Qed.

Theorem C07_lock_must_be_obtainable : forall w t o z, lockable (cfg w) (slot_of w o) = false -> pc (get w t) = OLock o z ->
  forall sched', get (run w sched') t = get w t.
Proof. exact lock_stuck_forever. Qed.

(* NOT PROVED (and not claimed, DESIGN.md 2.3): termination under every FAIR infinite schedule.  C07_no_stuck says that
   completion is always POSSIBLE and C07_progress that some thread can always strictly progress; the temporal statement
   below needs in addition that nsync_mu_lock is starvation-free for the winner against losers that keep re-taking
   once_mu around their timed waits -- a fairness property of nsync_mu (C02), which the abstract lock of OnceModel
   (free -> any contender may take it) does not have. *)
Definition C07_fair_termination_full : Prop :=
  forall (e : env) (progs : list (list (nat * bool))) (s : nat -> nat),
    env_ok e ->
    (forall t n, exists m, (n <= m)%nat /\ s m = t) ->           (* every thread is scheduled again and again *)
    exists n, all_done (run (init e progs) (map s (seq 0 n))).

Example C07_example : exists progs sched,
  let w := run (init env_mod64 progs) sched in
  runs w 0%nat = 1 /\ wins w 0%nat = [0%nat] /\ returned (get w 0%nat) = [0%nat] /\ returned (get w 1%nat) = [0%nat] /\
  early w = 0 /\ all_done w.
Proof. exact example_two_callers. Qed.

(* the mix the broadcast does not cover: a SPINNING winner (thread 0: no lock, no broadcast) beside a BLOCKING loser
   (thread 1) that is asleep on once_cv when 2 is stored; its timed wait ends by its own step and it returns *)
Example C07_example_spin_winner_blocking_loser :
  let w := run (init env_mod64 mix_progs) mix_sched in
  events (init env_mod64 mix_progs) mix_sched =
    [ EvLoad 1 0; EvLoad 11 0; EvCas 12 true;
      EvLoad 1 1; EvLoad 11 1; EvLock 0; EvLoad 15 1; EvCvRelease 0;
      EvFBegin 0; EvFEnd 0; EvStore 14 2; EvLoad 15 2;
      EvCvEnd 0; EvLock 0; EvLoad 15 2; EvUnlock 0 ] /\
  all_done w /\ returned (get w 1%nat) = [0%nat] /\ early w = 0.
Proof. exact example_spin_winner_blocking_loser. Qed.

(* two once objects (indices 0 and 64) that share a slot under the map o -> o mod 64 *)
Example C07_example_shared_slot :
  let w := run (init env_mod64 share_progs) share_sched in
  firstn 13 (events (init env_mod64 share_progs) share_sched) =
    [ EvLoad 1 0; EvLoad 11 0; EvLock 0;
      EvLoad 1 0; EvLoad 11 0; EvBlocked 0;
      EvCas 12 true; EvUnlock 0;
      EvLock 0; EvCas 12 true; EvUnlock 0;
      EvFBegin 64; EvFEnd 64 ] /\
  all_done w /\ runs w 0%nat = 1 /\ runs w 64%nat = 1 /\ early w = 0.
Proof. exact example_shared_slot. Qed.

Example C07_example_f_never_returns : forall sched',
  let e := mk_env (fun o => o) (fun _ => false) (fun _ => true) in
  pc (get (run (run (init e [[(0%nat, true)]]) [0; 0; 0; 0]%nat) sched') 0%nat) = OFRun 0 true.
Proof. exact example_f_never_returns. Qed.

Print Assumptions C07_at_most_once. Print Assumptions C07_winner_unique. Print Assumptions C07_not_early.
Print Assumptions C07_order. Print Assumptions C07_exactly_once. Print Assumptions C07_word.
Print Assumptions C07_once_mu_exclusive. Print Assumptions C07_holder. Print Assumptions C07_spin_takes_no_lock.
Print Assumptions C07_done_nonblocking. Print Assumptions C07_cvwait_times_out.
Print Assumptions C07_no_stuck. Print Assumptions C07_progress.
Print Assumptions C07_f_must_return. Print Assumptions C07_lock_must_be_obtainable.
Print Assumptions C07_example. Print Assumptions C07_example_spin_winner_blocking_loser.
Print Assumptions C07_example_shared_slot. Print Assumptions C07_example_f_never_returns.
