(* C16 part (b) — buffer discipline of the debug-state functions.  Statements only. *)
From NsyncBase Require Import CSem.
From NsyncGen Require Import Emit.
From NsyncProof Require Import EmitSpec EmitProof.
Local Open Scope Z_scope.

(* For EVERY buffer size n (also n <= 0), every start address and every character
   sequence cs (the debug functions always finish with emit_c (b, 0)):
   - nothing outside [start, start+n) is written (nothing at all when n <= 0),
   - the bytes written are exactly `expected n cs`: the whole text and its NUL if
     it fits, otherwise the first n-4 characters followed by "..." and NUL
     (for 1 <= n < 4 the tail of "...\0" that fits), so the result is
     NUL-terminated whenever n >= 1 and ends in "..." when truncated and n >= 4. *)
Theorem C16_buffer : forall hb mem b start n cs,
  int_range n ->
  let '(hb', mem') := emit_all hb mem b start n (cs ++ [0]) in
  (forall a, (a < start \/ start + Z.max n 0 <= a) -> mem' a = mem a) /\
  (forall i, (i < length (expected n cs))%nat ->
             mem' (start + Z.of_nat i) = nth i (expected n cs) 0) /\
  (Z.of_nat (length (expected n cs)) <= Z.max n 0) /\
  (1 <= n -> last (expected n cs) 1 = 0).
Proof. exact emit_all_spec. Qed.

(* a call sequence that does not end with the NUL still never leaves the buffer *)
Theorem C16_buffer_prefix : forall hb mem b start n cs,
  int_range n ->
  let '(hb', mem') := emit_all hb mem b start n cs in
  forall a, (a < start \/ start + Z.max n 0 <= a) -> mem' a = mem a.
Proof. exact emit_all_inside. Qed.

Example C16_buffer_example :
  let '(_, mem') := emit_all (fun _ => zero_emit_buf) (fun _ => 7) 1 100 6 [104; 101; 108; 108; 111; 33; 0] in
  map mem' [99; 100; 101; 102; 103; 104; 105; 106] = [7; 104; 101; 46; 46; 46; 0; 7].
Proof. vm_compute. reflexivity. Qed.

Print Assumptions C16_buffer. Print Assumptions C16_buffer_prefix. Print Assumptions C16_buffer_example.
