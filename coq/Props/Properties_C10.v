(* C10 — the counter is atomic and its waiters are released exactly at zero.
   Theorems about Model/CounterModel.v (nsync_counter_add / _value / _wait with the one-object path of nsync_wait_n,
   any number of threads, any programs, any schedule, any clock behaviour).  Statements only; proofs in
   Proof/CounterProof.v.

   Vocabulary (ghost state of the model):
   - [hist w]: every value the counter has held, newest first; [held_at w i]: value number i (0 = initial value);
     [idx w]: the number of the current value.
   - [log w]: one record per RETURNED call: [c_op] (the call; an add's delta already converted to int32),
     [c_start] / [c_stop] (the number of the value that was current when the call started / returned),
     [c_res] (the value returned), [c_lin] (add: the number of the value its CAS installed), [c_np] (wait: how many P
     operations it executed), [c_first] (wait: what its first ready_time load saw), [c_exp] (wait: the clock value at
     the step at which its timed P gave up).
   - [is_add o d]: o = Add d with d <> 0 (the path that takes counter_mu).
   - [broken w]: an ASSERT of nsync_counter_add has failed (overflow, or increment from zero after a wait), or the
     add has already incremented from zero while `waited' is set, so that its ASSERT is bound to fail (C10_contract).
     The documented contract of the counter excludes these runs; the theorems that need it say [broken w = false]. *)
From NsyncBase Require Import CSem.
From NsyncGen Require Import Consts Sites.
From NsyncModel Require Import CounterModel.
From NsyncProof Require Import CounterProof.
From Coq Require Import List ZArith.
Import ListNotations.
Local Open Scope Z_scope.

Section C10.
  Variables (v0 clock0 : Z) (progs : list (list op)) (sched : list label).
  Let w := run (init v0 clock0 progs) sched.

  (* (1) the counter is the head of the history; (2) whatever step comes next, the history (the abstract integer)
     changes only at a successful CAS of nsync_counter_add, by value := (value + delta) mod 2^32 (see cas_new_spec);
     (3) every returned add with delta <> 0 has exactly that point inside its interval and returned the value
     installed there. *)
  Theorem C10_add_linearizable :
    (hist w <> [] /\ value w = hd 0 (hist w) /\ held_at w (idx w) = Some (value w)) /\
    (forall l, let w' := fst (step w l) in
       (hist w' = hist w /\ value w' = value w) \/
       (exists t d, l = LStep t /\ next_pc w t = AddCas d (value w) /\
                    value w' = nsync_counter_add_cas1_new (value w) d /\ hist w' = value w' :: hist w)) /\
    (forall r d, In r (log w) -> is_add (c_op r) d ->
       (c_start r < c_lin r <= c_stop r)%nat /\ (c_stop r <= idx w)%nat /\
       held_at w (c_lin r) = Some (c_res r) /\
       exists old, held_at w (pred (c_lin r)) = Some old /\ c_res r = (old + d) mod 2 ^ 32).
  Proof. exact (conj (r_abs v0 clock0 progs sched) (conj (step_hist w) (r_add v0 clock0 progs sched))). Qed.

  (* the CAS of add cannot fail: the value is written only under counter_mu *)
  Theorem C10_cas_succeeds : forall t d v, pc (get w t) = AddCas d v -> value w = v.
  Proof. exact (r_cas v0 clock0 progs sched). Qed.

  (* every returned call -- nsync_counter_value, add (0), add (delta), wait -- returned a value the counter held at
     some point between the call's start and its return *)
  Theorem C10_value_in_history : forall r, In r (log w) ->
    (c_start r <= c_stop r <= idx w)%nat /\
    exists i, (c_start r <= i <= c_stop r)%nat /\ held_at w i = Some (c_res r).
  Proof. exact (r_value v0 clock0 progs sched). Qed.

  Theorem C10_wait_zero : forall r dl, In r (log w) -> c_op r = Wait dl -> c_res r = 0 ->
    exists i, (c_start r <= i <= c_stop r)%nat /\ held_at w i = Some 0.
  Proof.
    intros r dl Hr _ H0. destruct (r_value v0 clock0 progs sched r Hr) as (_ & i & A & B).
    exists i. split; [exact A|]. rewrite <- H0. exact B.
  Qed.

  (* a wait returns non-zero only with a deadline d that is not after time zero (wait_n does not block then), or
     after its timed P gave up at a step at which the model's clock k satisfied d <= k *)
  Theorem C10_wait_nonzero : forall r dl, broken w = false -> In r (log w) -> c_op r = Wait dl -> c_res r <> 0 ->
    exists d, dl = Some d /\ (d <= 0 \/ exists k, c_exp r = Some k /\ d <= k /\ k <= clock w).
  Proof. exact (r_wait_nonzero v0 clock0 progs sched). Qed.
  (* with a clock that starts at or after time zero: the deadline has passed *)
  Theorem C10_wait_nonzero_clock : forall r dl, 0 <= clock0 -> broken w = false -> In r (log w) -> c_op r = Wait dl ->
    c_res r <> 0 -> exists d, dl = Some d /\ d <= clock w.
  Proof. exact (r_wait_nonzero_clock v0 clock0 progs sched). Qed.

  (* (1) whenever counter_mu is free, queued waiters imply a non-zero counter;
     (2) a record leaves c->waiters only by its owner's own dequeue, or in the wake-up loop of an add that made the
         counter 0 -- and then, in the same step, its `waiting' is cleared and the adder's next step is the V;
     (3) that V makes the owner's P enabled. *)
  Theorem C10_release_all :
    (mu w = None -> waiters w <> [] -> value w <> 0) /\
    (forall l u, In u (waiters w) -> ~ In u (waiters (fst (step w l))) ->
       (exists dl v, l = LStep u /\ pc (get w u) = WDeqStore dl v) \/
       (exists t d, l = LStep t /\ pc (get w t) = AddStore d 0 /\ value w = 0 /\
                    waiting (fst (step w l)) u = 0 /\ pc (get (fst (step w l)) t) = AddV d 0 u)) /\
    (forall t d v u, pc (get w t) = AddV d v u ->
       sem (fst (step w (LStep t))) u = sem w u + 1 /\ 0 < sem (fst (step w (LStep t))) u).
  Proof.
    exact (conj (r_release v0 clock0 progs sched) (conj (r_removed v0 clock0 progs sched) (r_v_enables v0 clock0 progs sched))).
  Qed.

  (* a wait whose first ready_time load sees 0 returns 0 without executing any P *)
  Theorem C10_late_wait_nonblocking : forall r dl, In r (log w) -> c_op r = Wait dl -> c_first r = Some 0 ->
    c_np r = 0%nat /\ c_res r = 0.
  Proof. exact (r_late v0 clock0 progs sched). Qed.

  (* no lost wake-up: an unfinished thread can run; or it waits for counter_mu, whose holder can run; or it sleeps
     in P with its record queued while the counter is non-zero and nobody is inside the counter's critical section
     (it will be popped and V'd by the add that reaches zero: C10_release_all; with a deadline d, LTimeout is enabled as
     soon as the clock reaches d).  In particular nobody is blocked once the counter is 0 and counter_mu is free. *)
  Theorem C10_no_stuck_partial :
    (forall t, broken w = false -> unfinished w t ->
       enabled w t = true \/
       (exists h, h <> t /\ mu w = Some h /\ enabled w h = true) \/
       (exists dl, pc (get w t) = WP dl /\ sem w t <= 0 /\ In t (waiters w) /\ mu w = None /\ value w <> 0)) /\
    (forall t, broken w = false -> unfinished w t -> value w = 0 -> mu w = None -> enabled w t = true).
  Proof. exact (conj (r_no_stuck v0 clock0 progs sched) (r_zero_unblocks v0 clock0 progs sched)). Qed.

  (* counter_mu: held exactly by the thread that is inside a critical section (so at most one is) *)
  Theorem C10_mutex : forall u, mu w = Some u <-> holds (pc (get w u)) = true.
  Proof. exact (r_lock v0 clock0 progs sched). Qed.

  (* [broken] means: some thread has failed an ASSERT, or sits in front of the `waited' ASSERT with `waited' set;
     a crashed thread always sets it *)
  Theorem C10_contract :
    (broken w = true ->
       exists t, pc (get w t) = Crash \/ ((exists d v, pc (get w t) = AddChk d v) /\ waited w <> 0)) /\
    (forall t, pc (get w t) = Crash -> broken w = true).
  Proof. exact (conj (r_broken v0 clock0 progs sched) (r_crash v0 clock0 progs sched)). Qed.
End C10.

(* The naive progress claim: whenever an unfinished thread exists some thread can run or sleeps with a deadline.
   It is FALSE for arbitrary client programs: a lone wait without deadline on a counter that no thread ever
   decrements sleeps forever (init 1, one thread [Wait None]).  This is a deadlock of the client, not of the counter;
   C10_no_stuck_partial is what the counter guarantees. *)
Definition C10_no_stuck_full : Prop :=
  forall v0 c0 progs sched, let w := run (init v0 c0 progs) sched in
  broken w = false -> (exists t, unfinished w t) ->
  exists t, enabled w t = true \/ exists d, pc (get w t) = WP (Some d).
Theorem C10_no_stuck_refuted : ~ C10_no_stuck_full.
Proof. exact no_stuck_full_false. Qed.

(* non-vacuity: four threads on a counter that starts at 1 -- a wait without deadline that sleeps and is woken by the
   decrement, a wait with deadline 5 that times out at clock 7 and returns 1, the decrement itself (returns 0) followed
   by nsync_counter_value (0), and a late wait that returns 0 without any P *)
Example C10_example :
  let w := run (init 1 0 ex_progs) ex_sched in
  map pc (thr w) = [Idle; Idle; Idle; Idle] /\ map prog (thr w) = [[]; []; []; []] /\
  map (fun r => (c_tid r, c_res r, c_np r)) (log w) =
    [(0%nat, 0, 1%nat); (1%nat, 0, 0%nat); (1%nat, 0, 0%nat); (3%nat, 0, 0%nat); (2%nat, 1, 0%nat)] /\
  hist w = [0; 1] /\ broken w = false /\ mu w = None /\ waiters w = [] /\ clock w = 7.
Proof. exact example_run. Qed.

(* FINDING (also reproduced on the real code, scenario in the report): the `waited' ASSERT of nsync_counter_add is
   evaluated after the CAS has published the new value.  Thread 1 calls nsync_counter_wait only after its
   nsync_counter_value has returned the incremented value 1 -- so no waiter existed when the count left zero -- and yet
   thread 0 fails the ASSERT.  Runs like this one are among those that the hypothesis [broken w = false] excludes. *)
Example C10_assert_race :
  let w := run (init 0 0 race_progs) race_sched in
  pc (get w 0) = Crash /\ broken w = true /\ hist w = [1; 0] /\
  map (fun r => (c_tid r, c_op r, c_res r)) (log w) = [(1%nat, Value, 1)] /\
  pc (get w 1) = WRdyLoad None.
Proof. exact assert_race_run. Qed.

Print Assumptions C10_assert_race.
Print Assumptions C10_add_linearizable. Print Assumptions C10_cas_succeeds. Print Assumptions C10_value_in_history.
Print Assumptions C10_wait_zero. Print Assumptions C10_wait_nonzero. Print Assumptions C10_wait_nonzero_clock.
Print Assumptions C10_release_all. Print Assumptions C10_late_wait_nonblocking. Print Assumptions C10_no_stuck_partial.
Print Assumptions C10_mutex. Print Assumptions C10_contract. Print Assumptions C10_no_stuck_refuted.
Print Assumptions C10_example.
