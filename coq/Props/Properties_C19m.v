(* C19, note half, at the level of NoteModel (the step-per-site model of note.c that is replayed in lock-step against the real
   code, including runs in which the allocation inside nsync_note_new fails: scenario note_alloc).
   Statements only; proofs in Proof/NoteAlloc.v.
   NoteModel.reachable quantifies over EVERY choice sequence, failed allocations included (choice c = true at pc W1), so every C08 /
   C09 theorem (tree well-formedness, lock ownership, no use after free, notification reaches the descendants) already holds in
   runs with failed constructor calls: that is "every existing object stays usable".  What is stated here is the frame of the
   failing step itself: "returns NULL and leaves every existing object -- in particular the intended parent -- unchanged". *)
From NsyncBase Require Import CSem.
From NsyncModel Require Import NoteModel.
From NsyncProof Require Import NoteAlloc.
From Coq Require Import List ZArith Bool.
Import ListNotations.
Local Open Scope Z_scope.

(* ANY world (no invariant needed), any thread at the allocation of nsync_note_new, allocation fails: the call returns NULL and
   no note (fields, list of children, list of waiters, lock), no other thread, not the clock, not the allocation counter and no
   ghost changes; the thread's own semaphore and waiter word are untouched too *)
Theorem C19m_note_new_null_frame : forall w t par dl rest,
  stack (get w t) = ANew par dl W1 :: rest ->
  let w' := fst (step w t true) in
  snd (step w t true) = EvMalloc None /\
  notes w' = notes w /\ nnext w' = nnext w /\ clock w' = clock w /\ gh w' = gh w /\ nthr w' = nthr w /\
  (forall u, u <> t -> thr w' u = thr w u) /\
  stack (get w' t) = [] /\ prog (get w' t) = prog (get w t) /\
  hist (get w' t) = (ONew par dl, RNote None) :: hist (get w t) /\
  sem (get w' t) = sem (get w t) /\ tw (get w' t) = tw (get w t).
Proof. exact new_fail_frame. Qed.

(* the same step as it occurs in runs: the thread is idle and nsync_note_new (par, dl) is its next call (the frame W1 of the theorem
   above exists only inside a step); a parent named by the call must have been allocated *)
Theorem C19m_note_new_null_real_step : forall w t par dl r,
  stack (get w t) = [] -> prog (get w t) = ONew par dl :: r ->
  (match par with Some p => (p < nnext w)%nat | None => True end) ->
  let w' := fst (step w t true) in
  snd (step w t true) = EvMalloc None /\ notes w' = notes w /\ nnext w' = nnext w /\ clock w' = clock w /\ nthr w' = nthr w /\
  (forall u, u <> t -> thr w' u = thr w u) /\ freed (gh w') = freed (gh w) /\ notify_called (gh w') = notify_called (gh w) /\
  seen (gh w') = seen (gh w) /\ obs (gh w') = obs (gh w) /\ crashed (gh w') = crashed (gh w) /\
  hist (get w' t) = (ONew par dl, RNote None) :: hist (get w t) /\ prog (get w' t) = r /\ stack (get w' t) = [] /\
  sem (get w' t) = sem (get w t) /\ tw (get w' t) = tw (get w t).
Proof. exact real_fail_frame. Qed.

(* the footprint the lock-step replay compares with the notes the real code touches is empty for that step *)
Theorem C19m_note_new_null_touches_nothing : forall w t par dl rest,
  stack (get w t) = ANew par dl W1 :: rest -> touches w t = [].
Proof. exact new_fail_touches. Qed.

(* not vacuous about the pc: with a successful allocation the constructor goes on and consumes a note id *)
Theorem C19m_note_new_ok_continues : forall w t par dl rest,
  stack (get w t) = ANew par dl W1 :: rest ->
  snd (step w t false) = EvMalloc (Some (nnext w)) /\ nnext (fst (step w t false)) = S (nnext w).
Proof. exact new_ok_continues. Qed.

(* a run: root; a child whose allocation fails (NULL); the same call again succeeds; notify (root) reaches that child *)
Example C19m_example_fail_then_usable :
  let w := run (init 0 ex_progs) ex_sched in
  map snd (rev (hist (get w 0%nat))) =
    [RNote (Some 0%nat); RNote None; RNote (Some 1%nat); RNone; RBool true] /\ broken (gh w) = false /\ crashed (gh w) = false.
Proof. exact example_fail_then_usable. Qed.

Print Assumptions C19m_note_new_null_frame. Print Assumptions C19m_note_new_null_real_step. Print Assumptions C19m_note_new_null_touches_nothing.
Print Assumptions C19m_note_new_ok_continues. Print Assumptions C19m_example_fail_then_usable.
