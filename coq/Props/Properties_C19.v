(* C19 — allocation failure is reported, not crashed on, by the object constructors.
   gen/sites.py extracts from the AST of nsync_note_new / nsync_counter_new every call, every store through a
   pointer and every atomic site that follows the allocation, together with the branch conditions that dominate it
   (as functions of the fresh pointer).  The theorems say: with the pointer NULL none of them is reachable, i.e. the
   constructor does nothing but return its (NULL) result -- in particular it touches neither the fresh object nor
   the intended parent.  Self-contained: the proofs are evaluations of the regenerated guards. *)
From NsyncBase Require Import CSem.
From NsyncGen Require Import Sites.
From Coq Require Import List ZArith String Bool.
Import ListNotations.
Local Open Scope Z_scope.

Theorem C19_note_new_does_nothing_on_null :
  Forall (fun e => snd e 0 = false) effects_nsync_note_new /\ effects_nsync_note_new <> [].
Proof. split; [repeat constructor | discriminate]. Qed.

Theorem C19_counter_new_does_nothing_on_null :
  Forall (fun e => snd e 0 = false) effects_nsync_counter_new /\ effects_nsync_counter_new <> [] /\
  nsync_counter_new_store1_guard 0 = false.
Proof. split; [repeat constructor | split; [discriminate | reflexivity]]. Qed.

(* and with a non-NULL pointer the initialisation is not skipped (the guards are not trivially false) *)
Theorem C19_guards_not_vacuous :
  Forall (fun e => snd e 4096 = true) (firstn 4 effects_nsync_note_new) /\ nsync_counter_new_store1_guard 4096 = true.
Proof. split; [repeat constructor | reflexivity]. Qed.

Print Assumptions C19_note_new_does_nothing_on_null. Print Assumptions C19_counter_new_does_nothing_on_null.
Print Assumptions C19_guards_not_vacuous.
