(* C05, the nsync_mu_wait_with_deadline half: a timed / cancellable conditional wait returns for the stated reason,
   holding the lock in the mode in which the caller held it.
   Theorem about Model/MuWaitModel.v (replayed in lock-step against the real mu_wait.c / mu.c; every value written to
   the word comes from Gen/Sites.v).  Statement in Model/MuWaitSpec.v, proof in Proof/MuWaitProof.v (Part 5). *)
From NsyncBase Require Import CSem.
From NsyncGen Require Import Consts Sites.
From NsyncModel Require Import MuWaitModel MuWaitSpec.
From NsyncProof Require Import MuWaitProof.
From Coq Require Import List ZArith.
Import ListNotations.
Local Open Scope Z_scope.

(* For ANY number of threads (< 2^24), programs, condition_arg_eq classes, schedules (thread steps, clock ticks,
   notifications, posts from the note) and resolutions of the timed waits: whenever a step of thread t returns from
   nsync_mu_wait_with_deadline with result r (x = the call's locals before that step), then after the step
     - t owns the lock bits it owned when it called (mw_ent x: read or write mode), and it did own some;
     - r = 0 exactly when the condition is true in the current protected state;
     - r is 0, ETIMEDOUT or ECANCELED;
     - r = ETIMEDOUT only if the call has a deadline d and at an earlier step of this call (the one at which the timed
       P expired, whose clock value ck was recorded) the clock had reached it: d <= ck <= now;
     - r = ECANCELED only if the call is cancellable and the note is notified. *)
Theorem C05mu_return : forall progs cl c0 sched t c x r,
  Z.of_nat (length progs) < 2 ^ 24 - 1 ->
  mw_returns (run (init progs cl c0) sched) t c x r ->
  C05_post (run (init progs cl c0) sched) t c x r.
Proof. exact C05_post_reachable. Qed.

(* non-vacuity: a wait that returns 0 in read mode after a writer made the condition true, and a write-mode wait that
   returns ETIMEDOUT through mu_try_acquire_after_timeout_or_cancel *)
Example C05mu_example_true : exists progs sched,
  let w := run (init progs (fun a => a) 0) sched in
  last_ret (get w 0%nat) = Some 0 /\ holds w 0%nat R /\ pst w 0%nat 0%nat = true.
Proof. exact example_wait_returns. Qed.
Example C05mu_example_timeout : exists progs sched x,
  let w := run (init progs (fun a => a) 0) sched in
  mw_returns w 0%nat CNormal x ETIMEDOUT /\ C05_post w 0%nat CNormal x ETIMEDOUT.
Proof. exact example_timeout_return. Qed.

Print Assumptions C05mu_return. Print Assumptions C05mu_example_true. Print Assumptions C05mu_example_timeout.
