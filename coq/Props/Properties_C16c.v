(* C16, first sentence, CONDITION-VARIABLE half — the cv debug-state functions are transparent for the cv word:
   stated over Model/CvDbgModel.v: Model/CvModel.v (CvModel.step unchanged for every actor) plus any number of DEBUGGER
   threads running nsync_cv_debug_state (CState), nsync_cv_debug_state_and_waiters (CStateWaiters) and nsync_cv_debugger
   (CDebugger) -- emit_cv_state / emit_waiters of internal/debug.c, nsync_spin_test_and_set_ of internal/common.c.
   Every theorem is about ALL reachable combined worlds (any number of threads and debuggers, any programs, clock, note,
   environment, schedule).  Statements only; proofs in Proof/CvDbgProof.v.
   What is proved: the debugger changes nothing but CV_SPINLOCK; its release -- a PLAIN STORE of the word returned at the
   acquisition -- is exact because nobody writes the word while it owns the spinlock; it never blocks and releases within
   a bounded number of its own steps; CvProof's spinlock invariant AInv survives.
   What is NOT proved: CvProof2..7 (no lost cv wake-up, C04, C05) over the combined system. *)
From NsyncBase Require Import CSem.
From NsyncGen Require Import Consts Sites.
From NsyncModel Require Import CvModel CvDbgModel.
From NsyncProof Require Import CvProof CvDbgProof.
From Coq Require Import List ZArith.
Import ListNotations.
Local Open Scope Z_scope.

Definition creach progs clock0 exp dprogs sched : cdworld := cdrun (cdinit progs clock0 exp dprogs) sched.
Definition cowns (w : cdworld) (d : nat) : bool := c_owner (cdget w d).
Definition cpc_of (w : cdworld) (d : nat) : cdpc := c_pc (cdget w d).

(* ---- (a) a debugger step leaves the whole base world alone (threads, cv queue, records, semaphores, the abstract
   mutex, clock, note, ghost state) except the cv word, of which it changes only CV_SPINLOCK ---- *)
Theorem C16c_only_spin_bit : forall progs clock0 exp dprogs sched d,
  let w := creach progs clock0 exp dprogs sched in
  let w' := fst (cdstep w (CDbg d)) in
  cbase w' = cbase w \/ cbase w' = set_cvw (cbase w) (Z.lxor (cvw (cbase w)) CV_SPINLOCK).
Proof. exact cdbg_only_spin_bit. Qed.

(* ---- (c) discipline ---- *)
(* it becomes owner only by the CAS of nsync_spin_test_and_set_ on a word with CV_SPINLOCK clear; it stops being owner
   only by the store of emit_cv_state, and at that moment the word is STILL the value its CAS wrote, so that the stored
   (returned) word is the current word with CV_SPINLOCK cleared and nothing else; a step that does not change its
   ownership changes nothing shared *)
Theorem C16c_spinlock_discipline : forall progs clock0 exp dprogs sched d,
  let w := creach progs clock0 exp dprogs sched in
  let w' := fst (cdstep w (CDbg d)) in
  (cowns w d = false -> cowns w' d = true ->
     has (cvw (cbase w)) CV_SPINLOCK = false /\
     cvw (cbase w') = nsync_spin_test_and_set_cas1_new (cvw (cbase w)) CV_SPINLOCK 0) /\
  (cowns w d = true -> cowns w' d = false ->
     exists word, cpc_of w d = CRelStore word /\
       cvw (cbase w) = nsync_spin_test_and_set_cas1_new word CV_SPINLOCK 0 /\
       cvw (cbase w') = emit_cv_state_store1_new word /\ cvw (cbase w') = Z.lxor (cvw (cbase w)) CV_SPINLOCK) /\
  (cowns w' d = cowns w d -> cbase w' = cbase w).
Proof. exact cdbg_spin_discipline. Qed.

(* while a debugger owns the spinlock: the word is what its CAS made of the value it carries (NOBODY HAS WRITTEN IT: every
   write of cv->word by cv.c happens under CV_SPINLOCK), no thread is inside a spinlock section of cv.c, no other debugger owns *)
Theorem C16c_owner_excludes : forall progs clock0 exp dprogs sched d,
  let w := creach progs clock0 exp dprogs sched in
  cowns w d = true ->
  (exists word, cpc_word (cpc_of w d) = Some word /\ has word CV_SPINLOCK = false /\
                cvw (cbase w) = nsync_spin_test_and_set_cas1_new word CV_SPINLOCK 0) /\
  has (cvw (cbase w)) CV_SPINLOCK = true /\
  (forall t, pc_spin (t_pc (get (cbase w) t)) = false) /\
  (forall d', cowns w d' = true -> d' = d).
Proof. exact cdbg_owner_excludes. Qed.

(* CvProof's "the cv spinlock is a lock" holds of the base world whenever no debugger owns the spinlock *)
Theorem C16c_base_spin_invariant : forall progs clock0 exp dprogs sched,
  let w := creach progs clock0 exp dprogs sched in
  (forall d, cowns w d = false) -> AInv (cbase w).
Proof. exact cd_base_AInv. Qed.

Theorem C16c_spin_has_owner : forall progs clock0 exp dprogs sched,
  let w := creach progs clock0 exp dprogs sched in
  has (cvw (cbase w)) CV_SPINLOCK = true ->
  (exists t, pc_spin (t_pc (get (cbase w) t)) = true) \/ (exists d, cowns w d = true /\ cowner_pc (cpc_of w d) = true).
Proof. exact cspin_has_owner. Qed.

(* ---- (d) never blocks ---- *)
Theorem C16c_no_semaphore : forall w d e, snd (cdstep w (CDbg d)) <> CEvBase e.
Proof. exact cdbg_no_base_event. Qed.

Theorem C16c_owner_releases : forall progs clock0 exp dprogs sched d,
  let w := creach progs clock0 exp dprogs sched in
  cowns w d = true ->
  exists k, (k <= 2 * cwalk_left (cpc_of w d) + 1)%nat /\ cowns (cdrun w (repeat (CDbg d) k)) d = false /\
            forall j, (j < k)%nat -> cbase (cdrun w (repeat (CDbg d) j)) = cbase w.
Proof. exact cdbg_owner_releases. Qed.

Theorem C16c_nonowner_inert : forall progs clock0 exp dprogs sched d,
  let w := creach progs clock0 exp dprogs sched in
  let w' := fst (cdstep w (CDbg d)) in
  cowns w d = false -> cowns w' d = false -> cbase w' = cbase w.
Proof. exact cdbg_nonowner_inert. Qed.

(* ---- (f) non-vacuity: a waiter is queued and asleep; the debugger takes the cv spinlock; the signaller spins; the
   debugger reads the record and releases by its store; the signaller takes the spinlock and dequeues the waiter ---- *)
Example C16c_dbg_interleaves_signal :
  let w1 := cdrun (cdinit cx_progs 0 None cx_dprogs) (ctl 0 10 ++ cdb 0 3) in
  let w2 := cdrun w1 (ctl 1 4) in
  let w3 := cdrun w2 (cdb 0 3) in
  let w4 := cdrun w3 (ctl 1 4) in
  (cowner w1 0 = true /\ cvw (cbase w1) = 3 /\ cvq (cbase w1) = [0%nat]) /\
  (cvw (cbase w2) = 3 /\ cvq (cbase w2) = [0%nat] /\ t_pc (get (cbase w2) 1) = SpLoad false KSig /\ cowner w2 0 = true) /\
  (cowner w3 0 = false /\ cvw (cbase w3) = 2 /\ c_read (cdget w3 0) = [0%nat] /\ cpcof w3 0 = CIdle /\ cvq (cbase w3) = [0%nat]) /\
  (cvw (cbase w4) = 3 /\ cvq (cbase w4) = [] /\ pc_spin (t_pc (get (cbase w4) 1)) = true).
Proof. exact cex_dbg_interleaves_signal. Qed.

Print Assumptions C16c_only_spin_bit. Print Assumptions C16c_spinlock_discipline. Print Assumptions C16c_owner_excludes.
Print Assumptions C16c_base_spin_invariant. Print Assumptions C16c_spin_has_owner. Print Assumptions C16c_no_semaphore.
Print Assumptions C16c_owner_releases. Print Assumptions C16c_nonowner_inert. Print Assumptions C16c_dbg_interleaves_signal.
