(* C08 (continued) -- the descendants clause over CREATION-time descendants:
     "once no notification of it or of an ancestor is still in progress all its descendants are notified and every
      thread waiting on them is released".
   Theorems about Model/NoteModel.v (internal/note.c with the repairs F4, F7, F10, F11, F12; any number of threads, any
   tree of notes, any deadlines, any schedule, any clock).  Statements only; proofs in Proof/NoteDesc.v, NoteDesc2.v.

   [C08_descendants_full] is the Definition left open at the end of Props/Properties_C08.v; it is proved here
   (C08_descendants_full_holds, restated in full as C08_descendants_creation).

   Vocabulary.  [cpath w m a] (Model/NoteModel.v): a is m or a creation-time ancestor of m (ghost, immutable, survives
   the freeing of intermediate notes).  [quiet w] (Proof/NoteProof6.v): no thread is inside notify (),
   note_notify_child () or nsync_note_free ().  [uc w m] (Proof/NoteProof5.v): m is still inside the nsync_note_new that
   creates it.  [obs_notified w m]: what every observer computes -- the `notified` word is set or the expiry time is not
   after the epoch (a note born under an already-notified parent gets expiry 0 and never has the word stored).
   From Proof/NoteDesc2.v:
     [dead w a]   a is freed, or nsync_note_free (a) is past its nsync_mu_wait (not_disconnecting);
     [gone w m]   m is freed, or nsync_note_free (m) has unlinked m from its parent;
     [comp w m]   nsync_note_new (.., m) has made its comparison with the parent (or has returned);
     [scope w m]  m's word is 0 and its expiry positive, or m still has children;
     [esc w a]    dead w a and a's word is still 0;
     [linked w m a]  m's CURRENT parent pointer leads to a note r with a on r's creation path.

   The invariant behind the theorem (C08_creation_path_linked) ties the ghost creation path to the live tree across
   adoptions (nsync_note_free re-parents the children of the freed note to ITS parent, or -- the F7 repair -- notifies them
   if that parent is already notified): every in-scope, compared, not-gone note m is, for each strict creation ancestor a,
   either linked below a, or a is dead AND was never notified.  A note is never notified once its nsync_note_free has
   passed the wait (C08_no_notify_after_free_wait), so when a's word is stored all in-scope creation descendants hang
   below a; walking up the current parent links in a quiet world then meets a note that is still linked under a notified
   parent, which C08_descendants_linked / InvD exclude. *)
From NsyncBase Require Import CSem.
From NsyncGen Require Import Consts Sites.
From NsyncModel Require Import NoteModel.
From NsyncProof Require Import NoteProof NoteProof2 NoteProof3 NoteProof4 NoteProof5 NoteProof6 NoteDesc NoteDesc2.
From NsyncProps Require Import Properties_C08.
From Coq Require Import List ZArith.
Import ListNotations.
Local Open Scope Z_scope.

(* ---- the full descendants clause: in a quiet world every live, completed note that has a notified note on its creation
        path is notified, and nobody is left waiting on it.  Covers notes born under an already-notified parent, expired
        deadlines, and intermediate notes freed (concurrently or before) ---- *)
Theorem C08_descendants_full_holds : C08_descendants_full.
Proof. exact descendants_full. Qed.
Theorem C08_descendants_creation : forall w a m,
  reachable w -> broken (gh w) = false -> quiet w -> (m < nnext w)%nat -> ~ uc w m -> ~ In m (freed (gh w)) ->
  cpath w m a -> flag (nt w a) <> 0 -> obs_notified w m /\ waiters (nt w m) = [].
Proof. exact descendants_full. Qed.

(* ---- the invariant: creation path vs. live tree, in EVERY reachable state (not only quiet ones) ---- *)
Theorem C08_creation_path_linked : forall w m a, reachable w -> broken (gh w) = false ->
  (m < nnext w)%nat -> scope w m -> comp w m -> ~ gone w m -> cpath w m a -> a <> m -> esc w a \/ linked w m a.
Proof. exact creation_path_linked. Qed.
(* in particular: an un-notified, live note below a NOTIFIED creation ancestor is still linked towards it *)
Theorem C08_unnotified_below_notified_linked : forall w m a, reachable w -> broken (gh w) = false ->
  (m < nnext w)%nat -> flag (nt w m) = 0 -> tpos (expiry (nt w m)) = true -> comp w m -> ~ gone w m ->
  cpath w m a -> flag (nt w a) <> 0 -> linked w m a.
Proof. exact unnotified_below_notified_linked. Qed.

(* ---- no note_notify_child (a, _) runs once nsync_note_free (a) is past its wait for disconnecting == 0 ---- *)
Theorem C08_no_notify_after_free_wait : forall w a t par s, reachable w -> broken (gh w) = false ->
  dead w a -> ~ In (FC a par s) (stk w t).
Proof. exact no_notify_after_free_wait. Qed.

(* ---- a note on which threads wait has a positive expiry time and is past its creation-time comparison ---- *)
Theorem C08_waiters_positive : forall w m, reachable w -> broken (gh w) = false -> (m < nnext w)%nat ->
  waiters (nt w m) <> [] -> tpos (expiry (nt w m)) = true /\ comp w m.
Proof. exact waiters_positive. Qed.

Print Assumptions C08_descendants_full_holds.
Print Assumptions C08_descendants_creation.
Print Assumptions C08_creation_path_linked.
Print Assumptions C08_unnotified_below_notified_linked.
Print Assumptions C08_no_notify_after_free_wait.
Print Assumptions C08_waiters_positive.
