(* C14 — non-vacuity of C14_barrier / C14_escalation / C14_front / C14_woken_ignores_barrier (Properties_C14.v):
   a concrete run of Model/MuModel.v in which a victim is overtaken LONG_WAIT_THRESHOLD = 30 times, MU_LONG_WAIT gets
   set in the mutex word, and from then on a fresh locker has to queue while the victim acquires.
   Everything is computed (vm_compute) on the model whose word updates come from Gen/Sites.v / Gen/Consts.v.
   Statements only; proofs in Proof/MuProof4.v. *)
From NsyncBase Require Import CSem.
From NsyncGen Require Import Consts Sites.
From NsyncModel Require Import MuModel MuSpec.
From NsyncProof Require Import MuProof MuProof2 MuProof3 MuProof4.
From Coq Require Import List ZArith.
Import ListNotations.
Local Open Scope Z_scope.

Definition asleep (w : world) (t : nat) : Prop := snd (step w t) = EvBlocked.

(* thread 0 = adversary: 31 x [nsync_mu_lock; nsync_mu_unlock]; thread 1 = victim; thread 2 = a locker arriving later *)
Definition pairs (k : nat) : list op := concat (repeat [OLock W; OUnlock] k).
Definition progs : list (list op) := [pairs 31; [OLock W; OUnlock]; [OLock W; OUnlock]].
(* one adversarial round: the adversary releases (8 steps: nsync_mu_unlock_slow_ wakes the victim, which becomes the
   designated waker), immediately re-acquires through the fast path of nsync_mu_lock (3 steps: MU_DESIG_WAKER does not
   stop it), and only then the victim runs (8 steps): it returns from the semaphore, counts one more failed wake-up,
   finds the lock held, re-queues at the FRONT and sleeps again *)
Definition round : list nat := (repeat 0 11 ++ repeat 1 8)%nat.
(* the adversary acquires, the victim queues and sleeps, then 30 rounds ... *)
Definition sched30 : list nat := (0 :: repeat 1 8 ++ concat (repeat round 30))%nat.
(* ... then the adversary releases once more *)
Definition sched : list nat := (sched30 ++ repeat 0 8)%nat.

Example C14_long_wait_example :
  Z.of_nat (length progs) < 2 ^ 24 - 1 /\
  (* after the 30th failed wake-up the victim's enqueue CAS has set MU_LONG_WAIT:
     word = MU_WLOCK | MU_WAITING | MU_WRITER_WAITING | MU_LONG_WAIT = 101; the victim sleeps with wait count 30 *)
  (let w := run (init progs) sched30 in
   word w = 101 /\ has (word w) MU_LONG_WAIT = true /\ holds w 0%nat W /\ asleep w 1%nat /\
   exists l, t_pc (get w 1%nat) = LsSemP W l /\ wcount l = LONG_WAIT_THRESHOLD /\ longw l = MU_LONG_WAIT) /\
  (* after the adversary's release the lock is FREE (word = MU_LONG_WAIT | MU_DESIG_WAKER = 72, nobody holds),
     MU_LONG_WAIT is still set, and thread 2 is fresh: the hypotheses of C14_barrier hold ... *)
  (let w := run (init progs) sched in
   word w = 72 /\ has (word w) MU_LONG_WAIT = true /\ (forall t, held (get w t) = None) /\
   fresh w 2%nat /\
   (* ... thread 2's whole nsync_mu_lock attempt (8 steps, up to its sleep) never acquires the free lock: it queues ... *)
   (forall k, (k <= 8)%nat -> held (get (run w (repeat 2%nat k)) 2%nat) = None) /\
   (let w1 := run w (repeat 2%nat 8) in
    asleep w1 2%nat /\ queue w1 = [2%nat] /\ has (word w1) MU_LONG_WAIT = true /\
    (* ... while the victim, scheduled AFTER it, acquires (and its acquisition clears MU_LONG_WAIT) *)
    let w2 := run w1 (repeat 1%nat 4) in
    holds w2 1%nat W /\ asleep w2 2%nat /\ queue w2 = [2%nat] /\ has (word w2) MU_LONG_WAIT = false)).
Proof. exact long_wait_example. Qed.

(* the instance of C14_barrier at that world, spelled out: one step of the fresh thread 2 does not acquire *)
Example C14_barrier_instance :
  let w := run (init progs) sched in
  has (word w) MU_LONG_WAIT = true /\ fresh w 2%nat /\ held (get w 2%nat) = None /\
  held (get (fst (step w 2%nat)) 2%nat) = None.
Proof.
  destruct long_wait_example as (Hn & _ & (_ & HL & HH & HF & _)). cbv zeta.
  split; [exact HL|]. split; [exact HF|]. split; [apply HH|].
  exact (barrier lw_progs lw_sched 2%nat Hn HL HF (HH 2%nat)).
Qed.

Print Assumptions C14_long_wait_example. Print Assumptions C14_barrier_instance.
