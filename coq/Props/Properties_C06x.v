(* C06 / C02 -- conditional critical sections: no lost wake-up, no lost hand-off, no internal panic.
   Theorems about Model/MuWaitModel.v AS REPAIRED (/repo commits 5890963 = F13 and b3597cd = F14, both found by this
   development: docs/F13_witness.v and docs/F14_witness.v refute the statements below on the model of the old code, and
   the harness scenarios rdwait_stuck / longwait_stuck reproduce both defects on the old library).
   Statements only; proofs in Proof/MuWaitWorld6.v (no panic), MuWaitWorld7..11.v (the hand-off invariant). *)
From NsyncBase Require Import CSem.
From NsyncGen Require Import Consts Sites.
From NsyncModel Require Import MuWaitModel MuWaitSpec.
From NsyncProof Require Import MuWaitProof MuWaitRings MuWaitBits MuWaitWorld1 MuWaitWorld2 MuWaitWorld3 MuWaitWorld4 MuWaitWorld5 MuWaitWorld6
  MuWaitWorld7 MuWaitWorld8 MuWaitWorld9 MuWaitWorld10 MuWaitWorld11.
From NsyncProps Require Import Properties_C06.
From Coq Require Import List ZArith.
Import ListNotations.
Local Open Scope Z_scope.

(* ---------- (1) no lost wake-up: the FULL statement of Properties_C06.v ---------- *)
(* For programs that never call nsync_mu_unlock_without_wakeup, under "condition_arg_eq identifies only arguments with equal
   truth": no reachable QUIESCENT world (no thread can move, under any choice: normal / timeout / cancel) has the mutex free and
   a queued nsync_mu_wait caller -- in reader OR writer mode, with or without deadline -- whose condition is true. *)
Theorem C06_no_stuck : C06_no_stuck_full.
Proof.
  intros progs cl c0 sched H Hnw w He (Hq & Hh & t & x & Ex & Hqt & Hc).
  exact (no_lost_wakeup progs cl c0 sched H Hnw He Hq Hh t x Ex Hqt Hc).
Qed.

(* ---------- (2) the hand-off theorem (the MuWaitModel version of C02's hand-off half) ---------- *)
(* t sleeps in the semaphore wait of nsync_mu_lock_slow_ (nsync_mu_lock / nsync_mu_rlock, or the re-acquisition of
   nsync_mu_wait) or of nsync_mu_wait_with_deadline *)
Definition asleep (w : world) (t : nat) : Prop := psite (t_pc (get w t)) = true.
Definition quiescent (w : world) : Prop := forall t c, fst (step w (Thr t c)) = w.

(* In a reachable quiescent world every sleeper faces a mutex that is HELD by some thread, or -- a conditional waiter of
   nsync_mu_wait -- is on mu->waiters with a condition that is false in the current protected state. *)
Theorem C06_sleeper_faces_holder : forall progs cl c0 sched,
  Z.of_nat (length progs) < 2 ^ 24 - 1 -> no_nw progs ->
  let w := run (init progs cl c0) sched in
  eq_truth_preserving (cls w) (pst w) -> quiescent w -> forall t, asleep w t ->
  (exists t', held (get w t') <> None) \/
  (t_pc (get w t) = MwSemP /\ In t (queue w) /\ wtrue (wcond w) (pst w) t = false).
Proof. intros progs cl c0 sched H Hnw w He Hq t Ht. exact (sleeper_faces_holder progs cl c0 sched H Hnw He Hq t Ht). Qed.

(* ... and when nobody holds the mutex, a quiescent world consists of finished threads (Idle, no operations left), threads
   that crashed on a client-contract violation, and nsync_mu_wait callers asleep on mu->waiters with false conditions: nobody
   sleeps in nsync_mu_lock / nsync_mu_rlock, and no queued waiter is runnable (no condition, or a true one). *)
Theorem C06_handoff : forall progs cl c0 sched,
  Z.of_nat (length progs) < 2 ^ 24 - 1 -> no_nw progs ->
  let w := run (init progs cl c0) sched in
  eq_truth_preserving (cls w) (pst w) -> quiescent w -> (forall t, held (get w t) = None) ->
  (forall t, (t < length progs)%nat -> stuck_pc w t) /\
  (forall p, In p (queue w) -> wtrue (wcond w) (pst w) p = false) /\
  (forall t m l, t_pc (get w t) <> LsSemP m l) /\
  (forall t, t_pc (get w t) = MwSemP -> In t (queue w) /\ waiting w t = true /\ wtrue (wcond w) (pst w) t = false).
Proof. intros progs cl c0 sched H Hnw w He Hq Hh. exact (handoff_reachable progs cl c0 sched H Hnw He Hq Hh). Qed.

(* ---------- (3) the "who wakes whom" invariant, in every reachable world ---------- *)
(* MU_DESIG_WAKER is never orphaned: an AGENT exists -- the scanner of nsync_mu_unlock_slow_ or its final CAS, a waker with
   somebody still to wake, a woken thread inside nsync_mu_lock_slow_ (clear == MU_DESIG_WAKER), or a thread whose waiting flag
   has been cleared and that has not yet left its wait loop (incl. a timed-out waiter inside
   mu_try_acquire_after_timeout_or_cancel that was woken concurrently). *)
Theorem C06_desig_waker_has_agent : forall progs cl c0 sched,
  Z.of_nat (length progs) < 2 ^ 24 - 1 -> no_nw progs ->
  let w := run (init progs cl c0) sched in
  has (word w) MU_DESIG_WAKER = true -> exists a, dag w a = true.
Proof. intros progs cl c0 sched H Hnw w Hd. apply (desig_waker_has_agent progs cl c0 sched H Hnw). rewrite <- MuWaitFlags.has_tb3. exact Hd. Qed.

(* A free mutex with a runnable waiter on mu->waiters (or a thread about to queue itself in nsync_mu_lock_slow_) always has
   somebody responsible: an agent, or a timed-out waiter spinning in mu_try_acquire_after_timeout_or_cancel. *)
Theorem C06_free_runnable_has_agent : forall progs cl c0 sched,
  Z.of_nat (length progs) < 2 ^ 24 - 1 -> no_nw progs ->
  let w := run (init progs cl c0) sched in
  eq_truth_preserving (cls w) (pst w) -> (forall t, held (get w t) = None) ->
  forall p, In p (queue w) -> wtrue (wcond w) (pst w) p = true ->
  exists a, dag w a = true \/ mts (t_pc (get w a)) = true.
Proof.
  intros progs cl c0 sched H Hnw w He Hh p Hp Ht.
  destruct (LInv_reachable progs cl c0 sched H) as ((HI & _) & _).
  apply (free_runnable_has_agent progs cl c0 sched H Hnw He).
  - apply (MuWaitFlags.no_holder_free _ _ HI Hh).
  - left. exists p. split; assumption.
Qed.

(* MU_WAITING is set whenever mu->waiters is non-empty (only this direction holds: a timed-out waiter that removes itself
   leaves the bit set over an empty queue; the next unlock's scan clears it) *)
Theorem C06_waiting_bit : forall progs cl c0 sched,
  Z.of_nat (length progs) < 2 ^ 24 - 1 -> no_nw progs ->
  let w := run (init progs cl c0) sched in queue w <> [] -> has (word w) MU_WAITING = true.
Proof. intros progs cl c0 sched H Hnw w Hq. rewrite MuWaitFlags.has_tb2. exact (waiting_bit_set progs cl c0 sched H Hnw Hq). Qed.

(* MU_WRITER_WAITING and MU_LONG_WAIT have owners (F6 was an orphaned MU_WRITER_WAITING): *)
Theorem C06_writer_waiting_owned : forall progs cl c0 sched,
  Z.of_nat (length progs) < 2 ^ 24 - 1 -> no_nw progs ->
  let w := run (init progs cl c0) sched in has (word w) MU_WRITER_WAITING = true -> exists c, claim w c.
Proof. intros progs cl c0 sched H Hnw w Hb. apply (writer_waiting_has_claimant progs cl c0 sched H Hnw). rewrite <- MuWaitFlags.has_tb5. exact Hb. Qed.
Theorem C06_long_wait_owned : forall progs cl c0 sched,
  Z.of_nat (length progs) < 2 ^ 24 - 1 -> no_nw progs ->
  let w := run (init progs cl c0) sched in has (word w) MU_LONG_WAIT = true -> exists T, lwo (t_pc (get w T)) = true.
Proof. intros progs cl c0 sched H Hnw w Hb. apply (long_wait_has_carrier progs cl c0 sched H Hnw). rewrite <- MuWaitFlags.has_tb6. exact Hb. Qed.

(* semaphore accounting: waiting == 0 at a P site implies a post is available or its waker is about to post *)
Theorem C06_woken_has_post : forall progs cl c0 sched,
  Z.of_nat (length progs) < 2 ^ 24 - 1 -> no_nw progs ->
  let w := run (init progs cl c0) sched in
  forall x, asleep w x -> waiting w x = false -> 1 <= sem w x \/ exists t' m u, t_pc (get w t') = UsWakeV m x u.
Proof. intros progs cl c0 sched H Hnw w x Hx Hw. exact (woken_has_post progs cl c0 sched H Hnw x Hx Hw). Qed.

(* ---------- (4) no internal panic ---------- *)
(* The model's Crash codes: 1 / 4 / 8 / 9 are client-contract violations detected when an operation starts (unlock without
   holding or in the wrong mode, lock while holding, write to the protected state outside a write section, nsync_mu_wait
   without holding); 2 (nsync_panic_ "attempt to nsync_mu_unlock() an nsync_mu not held in write mode / held in read mode"),
   5 (nsync_panic_ "checking a waiter condition while unlocked"), 6 (the model's scan fuel), 7 (impossible continuation,
   empty scan cursor), 10 (nsync_panic_ "nsync_mu not held in some mode when calling nsync_mu_wait_with_deadline()") are
   internal.  For ALL programs and schedules only the first kind occurs ... *)
Theorem C06_no_internal_panic : forall progs cl c0 sched t k,
  Z.of_nat (length progs) < 2 ^ 24 - 1 ->
  t_pc (get (run (init progs cl c0) sched) t) = Crash k -> k = 1 \/ k = 4 \/ k = 8 \/ k = 9.
Proof. exact no_internal_crash_reachable. Qed.
(* ... and a crash IS a contract violation of the operation being started: *)
Theorem C06_crash_is_contract_violation : forall w t k,
  t_pc (get w t) <> Crash k -> t_pc (get (begin_op w t) t) = Crash k ->
  exists o rest, t_pc (get w t) = Idle /\ t_ops (get w t) = o :: rest /\
    match o, held (get w t) with
    | OLock _, Some _ | OTry _, Some _ => k = 4
    | OUnlock, None => k = 1 | OUnlockNW, None => k = 1 | OUnlockNW, Some R => k = 1
    | OSetCond _ _ _, None => k = 8 | OSetCond _ _ _, Some R => k = 8
    | OMuWait _ _ _ _, None => k = 9
    | _, _ => False
    end.
Proof. exact crash_is_contract_violation. Qed.
(* a crashed thread owns neither the spinlock nor a converted lock and is inside no nsync_mu_wait *)
Theorem C06_crashed_thread_state : forall progs cl c0 sched t k,
  Z.of_nat (length progs) < 2 ^ 24 - 1 ->
  let w := run (init progs cl c0) sched in
  t_pc (get w t) = Crash k -> spin (get w t) = false /\ conv (get w t) = false /\ mw (get w t) = None.
Proof. intros progs cl c0 sched t k H w E. exact (crashed_thread_state progs cl c0 sched t k H E). Qed.

(* ---------- (5) the hypotheses are satisfiable, the conclusions non-trivial ---------- *)
Definition T (t : nat) : actor := Thr t CNormal.
Lemma quiescent_by_cases (w : world) (n : nat) :
  length (thr w) = n -> (forall t, (t < n)%nat -> forall c, fst (step_thr w t c) = w) -> quiescent w.
Proof.
  intros L H t c. cbn [step]. destruct (Nat.lt_ge_cases t n) as [Lt|Ge]; [apply H; exact Lt|].
  assert (G : get w t = dflt_t) by (unfold get; apply nth_overflow; rewrite L; exact Ge).
  assert (B : begin_op w t = w) by (unfold begin_op; rewrite G; reflexivity).
  unfold step_thr. rewrite B. cbv zeta. rewrite G. reflexivity.
Qed.

(* (a) a reachable quiescent world with a sleeping conditional waiter whose condition is false and the mutex free *)
Definition exa_progs : list (list op) := [[OLock W; OMuWait (Some (0%nat, 0%nat)) false None false; OUnlock]].
Definition exa_sched : list actor := repeat (T 0) 10.
Notation exa := (run (init exa_progs (fun x => x) 0) exa_sched).
Example C06x_sleeping_false_waiter :
  Z.of_nat (length exa_progs) < 2 ^ 24 - 1 /\ no_nw exa_progs /\ eq_truth_preserving (cls exa) (pst exa) /\
  quiescent exa /\ (forall t, held (get exa t) = None) /\
  t_pc (get exa 0) = MwSemP /\ queue exa = [0%nat] /\ wtrue (wcond exa) (pst exa) 0%nat = false /\
  word exa = 20.                                     (* MU_WAITING | MU_CONDITION: no lock bits *)
Proof.
  split; [vm_compute; reflexivity|]. split.
  { intros ops [<-|[]] [E|[E|[E|[]]]]; discriminate E. }
  split; [intros f a b E; vm_compute in E; subst; reflexivity|].
  split.
  { apply (quiescent_by_cases _ 1%nat); [vm_compute; reflexivity|].
    intros t Lt c. destruct t as [|k]; [| exfalso; apply Nat.succ_lt_mono in Lt; inversion Lt]. destruct c; vm_compute; reflexivity. }
  split.
  { assert (L : length (thr exa) = 1%nat) by (vm_compute; reflexivity).
    intros [|k]; [vm_compute; reflexivity|]. unfold get. rewrite nth_overflow by (rewrite L; apply le_n_S, Nat.le_0_l). reflexivity. }
  repeat (split; [vm_compute; reflexivity|]). vm_compute; reflexivity.
Qed.
(* ... to which the hand-off theorem applies: *)
Example C06x_sleeping_false_waiter_handoff :
  forall t, t_pc (get exa t) = MwSemP -> In t (queue exa) /\ waiting exa t = true /\ wtrue (wcond exa) (pst exa) t = false.
Proof.
  destruct C06x_sleeping_false_waiter as (A & B & C & D & E & _).
  exact (proj2 (proj2 (proj2 (C06_handoff exa_progs (fun x => x) 0 exa_sched A B C D E)))).
Qed.

(* (b) a timed-out waiter leaves the queue (returning ETIMEDOUT with the mutex held, then unlocking), and a later locker
   still gets in *)
Definition exb_progs : list (list op) :=
  [[OLock W; OMuWait (Some (0%nat, 0%nat)) false (Some 1) false; OUnlock]; [OLock W; OUnlock]].
Definition exb_sched1 : list actor := repeat (T 0) 10 ++ [Tick 1; Thr 0 CTimeout] ++ repeat (T 0) 9.
Definition exb_sched2 : list actor := exb_sched1 ++ repeat (T 0) 9 ++ [T 1].
Notation exb1 := (run (init exb_progs (fun x => x) 0) exb_sched1).
Notation exb2 := (run (init exb_progs (fun x => x) 0) exb_sched2).
Example C06x_timed_out_waiter_leaves :
  (* after the timeout the waiter has removed itself: the queue is empty although MU_WAITING is still set *)
  queue exb1 = [] /\ has (word exb1) MU_WAITING = true /\ held (get exb1 0) = Some W /\
  (* it returns ETIMEDOUT, unlocks (the scan of the empty queue clears MU_WAITING), and thread 1 then acquires *)
  last_ret (get exb2 0) = Some ETIMEDOUT /\ held (get exb2 0) = None /\ held (get exb2 1) = Some W /\ word exb2 = 1 /\ queue exb2 = [].
Proof. vm_compute. repeat split; reflexivity. Qed.

(* (c) the schedule of the F13 witness (docs/F13_witness.v) on the repaired model: the reader-mode waiter now releases through
   nsync_mu_unlock_slow_, which wakes the writer-mode waiter whose condition is true; it returns 0 and unlocks *)
Definition f13_progs : list (list op) :=
  [[OLock R; OMuWait (Some (0%nat, 0%nat)) false None false; OUnlock];
   [OLock W; OSetCond 1 0 true; OUnlock];
   [OLock R; OUnlock];
   [OLock W; OMuWait (Some (1%nat, 0%nat)) false None false; OUnlock]].
Definition f13_sched : list actor :=
  [T 3] ++ repeat (T 2) 8 ++ repeat (T 3) 22 ++ repeat (T 1) 7 ++ repeat (T 0) 9 ++ repeat (T 2) 7 ++ repeat (T 0) 16 ++ repeat (T 3) 17.
Notation f13w := (run (init f13_progs (fun x => x) 0) f13_sched).
Example C06x_F13_schedule_repaired :
  last_ret (get f13w 3) = Some 0 /\ map t_pc (thr f13w) = [MwSemP; Idle; Idle; Idle] /\ map t_ops (thr f13w) = [[OUnlock]; []; []; []] /\
  queue f13w = [0%nat] /\ wtrue (wcond f13w) (pst f13w) 0%nat = false /\ map held (thr f13w) = [None; None; None; None].
Proof. vm_compute. repeat split; reflexivity. Qed.

(* (d) the schedule of the F14 witness (docs/F14_witness.v) on the repaired model: the timed-out waiter, woken by the scan, is
   no longer stopped by MU_LONG_WAIT; it gets in, returns 0, unlocks, its scan wakes the long waiter: everybody finishes *)
Definition f14_progs : list (list op) :=
  [[OLock R; OUnlock]; [OLock R; OUnlock]; concat (repeat [OLock W; OUnlock] 30);
   [OLock W; OMuWait (Some (0%nat, 0%nat)) false (Some 1) false; OUnlock];
   [OLock W; OSetCond 0 0 true; OUnlock]].
Definition f14_sched : list actor :=
  repeat (T 3) 10 ++ repeat (T 2) 3 ++ repeat (T 0) 8 ++ concat (repeat (repeat (T 2) 18 ++ repeat (T 0) 8) 29) ++
  repeat (T 1) 8 ++ repeat (T 2) 19 ++ repeat (T 1) 7 ++ repeat (T 0) 2 ++ repeat (T 4) 10 ++ [Tick 1; Thr 3 CTimeout] ++ repeat (T 3) 3 ++
  repeat (T 0) 6 ++ repeat (T 4) 9 ++ repeat (T 3) 23 ++ repeat (T 0) 5.
Notation f14w := (run (init f14_progs (fun x => x) 0) f14_sched).
Example C06x_F14_schedule_repaired :
  word f14w = 0 /\ queue f14w = [] /\ map t_pc (thr f14w) = [Idle; Idle; Idle; Idle; Idle] /\ map t_ops (thr f14w) = [[]; []; []; []; []] /\
  last_ret (get f14w 3) = Some 0 /\ map held (thr f14w) = [None; None; None; None; None].
Proof. vm_compute. repeat split; reflexivity. Qed.

Print Assumptions C06_no_stuck.
Print Assumptions C06_sleeper_faces_holder.
Print Assumptions C06_handoff.
Print Assumptions C06_desig_waker_has_agent.
Print Assumptions C06_free_runnable_has_agent.
Print Assumptions C06_waiting_bit.
Print Assumptions C06_writer_waiting_owned.
Print Assumptions C06_long_wait_owned.
Print Assumptions C06_woken_has_post.
Print Assumptions C06_no_internal_panic.
Print Assumptions C06_crash_is_contract_violation.
Print Assumptions C06_crashed_thread_state.
Print Assumptions C06x_sleeping_false_waiter.
Print Assumptions C06x_sleeping_false_waiter_handoff.
Print Assumptions C06x_timed_out_waiter_leaves.
Print Assumptions C06x_F13_schedule_repaired.
Print Assumptions C06x_F14_schedule_repaired.
