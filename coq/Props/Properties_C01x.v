(* C01x — writer exclusion and reader sharing over the COMBINED model Model/MuXferModel.v: Model/MuModel.v (mu.c,
   site by site) plus the part of cv.c that works on the mutex -- nsync_cv_wait* releasing the mutex, parking and
   re-acquiring it, either afresh (nsync_mu_lock / rlock) or, after wake_waiters has transferred the waiter to the
   mutex queue, through nsync_mu_lock_slow_ as the designated waker; nsync_cv_signal / broadcast and wake_waiters'
   sites on the mutex word -- including a timeout / cancellation of the wait racing with the wake-up or the transfer;
   and nsync_wait_n callers on the same cv (with the mutex: enqueue, unlock, sleep, dequeue, lock; or without it), whose
   records share the cv queue and the to_wake_lists with the native waiters and are never transferred.
   The cv spinlock is modelled by atomic sections (see the header of the model).
   wake_waiters' release of the mutex spinlock clears MU_WAITING when it leaves the mutex queue empty (clear_on_release).
   Statements only; proofs in Proof/MuXferProof.v, MuXferProof2.v, MuXferProof3.v.  The hand-off theorems (no lost
   transfer at full strength, all-states form, quiescent corollaries, outcome of the wait) are in
   Props/Properties_C04x.v. *)
From NsyncBase Require Import CSem.
From NsyncGen Require Import Consts Sites.
From NsyncModel Require Import MuModel MuSpec MuXferModel.
From NsyncProof Require Import MuProof2 MuXferProof MuXferProof2 MuXferProof3.
From Coq Require Import List ZArith.
Import ListNotations.
Local Open Scope Z_scope.

(* For ANY number of threads (fewer than 2^24 - 1), ANY programs of lock / rlock / trylock / rtrylock / unlock /
   cv-wait / nsync_wait_n / signal / broadcast operations, ANY schedule, ANY choice of timeouts and of early exits of signal, ANY
   foreign posts on the semaphores: the lock field of the mutex word is exactly the set of ghost holders -- where a
   thread becomes a holder only in the step of a successful acquiring CAS of mu.c, also when it comes back from a
   condition-variable wait by either path -- hence at most one writer and never a writer together with a reader. *)
Theorem C01x_word_agrees : forall progs sched,
  Z.of_nat (length progs) < 2 ^ 24 - 1 ->
  word_agrees (mw (xrun (xinit progs) sched)).
Proof. exact xword_agrees_reachable. Qed.

Theorem C01x_exclusion : forall progs sched,
  Z.of_nat (length progs) < 2 ^ 24 - 1 ->
  excl (mw (xrun (xinit progs) sched)).
Proof. exact xexcl_reachable. Qed.

(* Every return of XWait m -- and of XWaitN (Some m), nsync_wait_n with the mutex -- logged in a reachable world found the
   mutex held by the returning thread in mode m (the log entry is written by the step that completes the wait: (declared
   mode, ghost [held] at that moment)). *)
Theorem C01x_reacquire_mode : forall progs sched t m h,
  Z.of_nat (length progs) < 2 ^ 24 - 1 ->
  In (m, h) (x_rets (xget (xrun (xinit progs) sched) t)) -> h = Some m.
Proof. exact xwait_returns_mode. Qed.

(* ... and the step that completes a wait (re-acquisition in progress -> XIdle) is a successful CAS at one of the
   ACQUIRING sites of mu.c -- nsync_mu_lock.1 / .3 (101, 103), nsync_mu_rlock.1 / .3 (201, 203), nsync_mu_lock_slow_.2
   (502): [is_ok_cas] pins these site ids -- taken by a thread that held nothing before it and holds the mutex in its
   declared mode after it. *)
Theorem C01x_reacquire_by_cas : forall progs sched t c l,
  Z.of_nat (length progs) < 2 ^ 24 - 1 ->
  let xw := xrun (xinit progs) sched in
  x_pc (xget xw t) = XwReacq l ->
  x_pc (xget (fst (xstep_thr xw t c)) t) = XIdle ->
  held (get (mw xw) t) = None /\
  held (get (mw (fst (xstep_thr xw t c))) t) = Some (w_m l) /\
  (exists e, snd (xstep_thr xw t c) = XMu e /\ is_ok_cas e = true) /\
  x_rets (xget (fst (xstep_thr xw t c)) t) = (w_m l, Some (w_m l)) :: x_rets (xget xw t).
Proof. exact xwait_return_step. Qed.

(* ---------- C04: a signalled waiter handed to the mutex queue is not lost ---------- *)

(* From the moment a thread has announced its cv wait (waiting = 1, cv_mu set: wrapper pcs XwLoadMu .. XwLoad13, i.e.
   including its release of the mutex and its sleep) until it sees waiting == 0: if wake_waiters has transferred it
   (cv_mu == NULL) and its waiting flag is still set, then it is on mu->waiters, or on the wake list of a thread inside
   nsync_mu_unlock_slow_ that has dequeued it and is about to clear its flag and post its semaphore. *)
Theorem C04x_transfer_sound : forall progs sched p,
  Z.of_nat (length progs) < 2 ^ 24 - 1 ->
  let xw := xrun (xinit progs) sched in
  wphase (x_pc (xget xw p)) = true -> xferred xw p = true -> waiting (mw xw) p = true ->
  In p (queue (mw xw)) \/ exists u, In p (wake_of (t_pc (get (mw xw) u))).
Proof. exact transfer_sound. Qed.

(* Quiescent worlds (every thread is done or blocked on its semaphore, waits without deadline): a transferred waiter
   asleep in its cv wait whose flag nobody has cleared is on the mutex queue ITSELF (a releaser holding it on a wake list
   could still move) -- where the next nsync_mu_unlock_slow_ finds it. *)
Theorem C04x_no_lost_transfer_partial : forall progs sched l p,
  Z.of_nat (length progs) < 2 ^ 24 - 1 ->
  let xw := xrun (xinit progs) sched in
  x_quiescent xw -> x_pc (xget xw p) = XwSem l -> xferred xw p = true -> waiting (mw xw) p = true ->
  In p (queue (mw xw)).
Proof. exact no_lost_transfer_partial. Qed.

(* The second half of the transfer invariant -- MuProof2's spinlock / MU_WAITING invariant (QB without its last
   clause) re-established over the wrapper, where wake_waiters is a third kind of spinlock owner and a queued thread
   need not be inside nsync_mu_lock_slow_: a non-empty mutex queue has MU_WAITING set in the word (whoever owns the
   spinlock) ... *)
Theorem C04x_queue_sets_waiting : forall progs sched,
  Z.of_nat (length progs) < 2 ^ 24 - 1 ->
  let xw := xrun (xinit progs) sched in
  queue (mw xw) <> [] -> has (word (mw xw)) MU_WAITING = true.
Proof. exact queue_sets_waiting. Qed.

(* ... and the spinlock of the mutex has at most one owner among the enqueuers of nsync_mu_lock_slow_, the releasers of
   nsync_mu_unlock_slow_ and the threads inside wake_waiters' transfer section, and its bit is set while there is one. *)
Theorem C04x_spinlock_exclusive : forall progs sched t1 t2,
  Z.of_nat (length progs) < 2 ^ 24 - 1 ->
  let xw := xrun (xinit progs) sched in
  spin_owner xw t1 = true -> spin_owner xw t2 = true ->
  t1 = t2 /\ has (word (mw xw)) MU_SPINLOCK = true.
Proof. exact spinlock_exclusive. Qed.

(* Hence, in a quiescent world, a sleeping transferred waiter is on the queue with MU_WAITING set, and no holder's
   nsync_mu_unlock / nsync_mu_runlock can succeed with its uncontended first CAS. *)
Theorem C04x_no_lost_transfer_partial2 : forall progs sched l p,
  Z.of_nat (length progs) < 2 ^ 24 - 1 ->
  let xw := xrun (xinit progs) sched in
  x_quiescent xw -> x_pc (xget xw p) = XwSem l -> xferred xw p = true -> waiting (mw xw) p = true ->
  In p (queue (mw xw)) /\ has (word (mw xw)) MU_WAITING = true /\ forall m, word (mw xw) <> ufast_old m.
Proof. exact no_lost_transfer_partial2. Qed.

(* ... and conversely, with the spinlock free, MU_WAITING is set only over a non-empty queue (wake_waiters takes the
   bit back when it transferred nobody onto an empty queue): no later unlock is sent down the slow path for nothing. *)
Theorem C04x_waiting_only_if_queued : forall progs sched,
  Z.of_nat (length progs) < 2 ^ 24 - 1 ->
  let xw := xrun (xinit progs) sched in
  has (word (mw xw)) MU_SPINLOCK = false -> has (word (mw xw)) MU_WAITING = true -> queue (mw xw) <> [].
Proof. exact waiting_only_if_queued. Qed.

(* The full statement ("... while nobody holds the mutex": MuProof3.no_lost_handoff over the wrapper) is
   Properties_C04x.C04x_no_lost_transfer_full. *)

(* non-vacuity: a signal under a held write lock transfers the waiting writer (cv queue -> mutex queue, MU_WAITING
   set, spinlock released); the holder's unlock wakes it with MU_DESIG_WAKER set; it re-enters nsync_mu_lock_slow_ as
   the designated waker (LsLoad W (ls_desig W)), its acquiring CAS clears MU_DESIG_WAKER, the wait returns holding W *)
Example C01x_example_transfer : exists progs sa sb sc,
  let xa := xrun (xinit progs) sa in
  let xb := xrun xa sb in
  let xc := xrun xb sc in
  (holds (mw xa) 1%nat W /\ xferred xa 0%nat = true /\ queue (mw xa) = [0%nat] /\ cvq xa = [] /\
   waiting (mw xa) 0%nat = true /\ has (word (mw xa)) MU_WAITING = true /\ has (word (mw xa)) MU_SPINLOCK = false /\
   exists l, x_pc (xget xa 0%nat) = XwSem l) /\
  (t_pc (get (mw xb) 0%nat) = LsLoad W (ls_desig W) /\ has (word (mw xb)) MU_DESIG_WAKER = true /\
   (exists l, x_pc (xget xb 0%nat) = XwReacq l) /\ held (get (mw xb) 0%nat) = None /\ held (get (mw xb) 1%nat) = None) /\
  (exists l, x_pc (xget xc 0%nat) = XwReacq l /\ t_pc (get (mw xc) 0%nat) = LsCasAcq W (ls_desig W) 8) /\
  let xd := xrun xc (map go [0]%nat) in
  holds (mw xd) 0%nat W /\ x_rets (xget xd 0%nat) = [(W, Some W)] /\ has (word (mw xd)) MU_DESIG_WAKER = false /\ excl (mw xd).
Proof. exact example_transfer. Qed.

(* ... and the waiter timing out right after the transferring CAS, while the waker still owns the mutex spinlock: its
   confirmation section finds it has been taken off the cv queue, it waits on for waiting == 0 and then acquires *)
Example C01x_example_timeout_vs_transfer : exists progs s1 s2,
  let x1 := xrun (xinit progs) s1 in
  let x2 := xrun x1 s2 in
  (xferred x1 0%nat = true /\ In 0%nat (queue (mw x1)) /\ has (word (mw x1)) MU_SPINLOCK = true /\
   (exists l, x_pc (xget x1 0%nat) = XwConfirm l /\ w_so l = true) /\
   snd (xstep x1 (go 0%nat)) = XSec 1112 0) /\
  holds (mw x2) 0%nat W /\ x_rets (xget x2 0%nat) = [(W, Some W)] /\ excl (mw x2).
Proof. exact example_timeout_vs_transfer. Qed.

Print Assumptions C01x_word_agrees. Print Assumptions C01x_exclusion.
Print Assumptions C01x_reacquire_mode. Print Assumptions C01x_reacquire_by_cas.
Print Assumptions C04x_transfer_sound. Print Assumptions C04x_no_lost_transfer_partial.
Print Assumptions C01x_example_transfer. Print Assumptions C01x_example_timeout_vs_transfer.
Print Assumptions C04x_queue_sets_waiting. Print Assumptions C04x_spinlock_exclusive. Print Assumptions C04x_no_lost_transfer_partial2.
Print Assumptions C04x_waiting_only_if_queued.
