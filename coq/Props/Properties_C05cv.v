(* C05 (condition-variable half) — timed / cancellable cv waits return for the stated reason, holding the lock.
   Theorems about Model/CvModel.v (see Properties_C04.v for what the model is and how it is tied to internal/cv.c and
   internal/sem_wait.c).  nsync_sem_wait_with_cancel_ is one step of the model: it returns 0 only by consuming a post
   of the thread's semaphore, ETIMEDOUT only when the clock has reached the deadline, ECANCELED only when the note is
   notified or its expiry has been reached (C12's theorems about the futex semaphore are the licence); the mutex is
   the ABSTRACT one (atomic acquire / release that keep the lock field of the word).  Statements only; proofs in
   Proof/CvProof.v (layer T) and Proof/CvProof7.v.

   [rets (get w t)] is the ghost log of the returns of thread t: for each returned nsync_cv_wait_with_deadline_generic
   ([r_wait = true]) the returned code, what the thread held at entry / at return, the deadline, the clock when
   sem_outcome became ETIMEDOUT, the clock at return, whether a cancel note was passed and whether it is notified at
   return, and the number of P operations performed after sem_outcome had become non-zero. *)
From NsyncBase Require Import CSem.
From NsyncGen Require Import Consts Sites.
From NsyncModel Require Import CvModel.
From NsyncProof Require Import CvProof CvProof2 CvProof3 CvProof7.
From Coq Require Import List ZArith.
Import ListNotations.
Local Open Scope Z_scope.

Section C05cv.
  Variable progs : list (list op).          (* any number of threads, any programs *)
  Variable clock0 : Z.
  Variable exp : option Z.                  (* expiry of the cancel note, if any *)
  Variable sched : list (actor * choice).   (* any schedule, any clock ticks, any notification time, any choices *)
  Let w := run (init progs clock0 exp) sched.

  (* C05_mode: at every return the thread holds the mutex, in the mode in which it held it at entry
     (a thread that calls the wait without holding the mutex in the mode the word shows crashes in the model --
     nsync_mu_unlock / runlock panic in the code -- and never returns).
     BY CONSTRUCTION of the abstract mutex: [held] and the logged [r_held] are written by the same abstract acquire
     step ([st_WMuAcq]: mu_acquire sets held := Some m, the log entry reads it back), so "holds the mutex at return"
     is not a fact about mu.c here (C01/C02 are).  THE CONTENT: the mode m that step asks for -- computed from
     w->l_type for a waiter that wake_waiters transferred to the mutex queue (cv_mu == NULL), from is_reader_mu
     otherwise -- equals the mode held at entry, for every path through the wait (invariant [lt_ok]: the l_type the
     waiter stored at entry is still in its record when it returns). *)
  Theorem C05_mode : forall t e, In e (rets (get w t)) -> r_wait e = true -> r_held e = r_entry e /\ r_held e <> None.
  Proof. intros t e He Hw. destruct (c05_return_reachable progs clock0 exp sched t e He Hw) as (A & B & _). auto. Qed.
  (* nsync_wait_n: the mutex is re-acquired iff it was released, in the same mode *)
  Theorem C05_mode_waitn : forall t e, In e (rets (get w t)) -> r_held e = r_entry e.
  Proof. exact (c05_return_waitn_reachable progs clock0 exp sched). Qed.

  (* C05_reason: the code is 0, or ETIMEDOUT and the clock had reached the deadline at an earlier step of the call
     (r_toclk: the clock at the step that made sem_outcome ETIMEDOUT), or ECANCELED with a note that is notified.
     BY CONSTRUCTION: the guards of [st_WSem] (ETIMEDOUT only if deadline <= clock, ECANCELED only if the note is
     notified or expired -- the specification of nsync_sem_wait_with_cancel_ this model ASSUMES, licensed by C12), carried
     to the log entry.  THE CONTENT: outcome is either 0 or that sem_outcome, on every path (outcome is assigned only
     in the branch that confirms under the spinlock that the waiter is still queued), the clock is monotone and the
     note stays notified. *)
  Theorem C05_reason : forall t e, In e (rets (get w t)) -> r_wait e = true ->
    r_code e = 0 \/
    (r_code e = ETIMEDOUT /\ exists d c, r_dl e = Some d /\ r_toclk e = Some c /\ d <= c /\ c <= r_clk e) \/
    (r_code e = ECANCELED /\ r_can e = true /\ r_notified e = true).
  Proof. intros t e He Hw. destruct (c05_return_reachable progs clock0 exp sched t e He Hw) as (_ & _ & _ & D). exact D. Qed.

  (* C05_no_P_after_outcome: once sem_outcome is non-zero the call performs no further P IN THE WAIT LOOP: the thread is
     about to call nsync_sem_wait_with_cancel_ only with sem_outcome = 0 (this restates the guard of the loop, carried
     to every reachable pc), and no returned call has logged a P in the loop after its sem_outcome became non-zero.
     (The P operations of nsync_mu_lock_slow_ inside the final re-acquisition of the mutex are outside these two
     statements: they belong to the abstract mutex.)  What the property needs -- no FURTHER WAKE-UP is needed once the
     outcome is decided -- is C05_returns_alone below. *)
  Theorem C05_no_P_after_outcome_pc : forall t l, t_pc (get w t) = WSem l -> w_so l = 0.
  Proof. exact (c05_no_more_P_reachable progs clock0 exp sched). Qed.
  Theorem C05_no_P_after_outcome_log : forall t e, In e (rets (get w t)) -> r_wait e = true -> r_pafter e = 0.
  Proof. intros t e He Hw. destruct (c05_return_reachable progs clock0 exp sched t e He Hw) as (_ & _ & C & _). exact C. Qed.

  (* C05_returns_alone: from a reachable world in which
       - thread t is past its nsync_sem_wait_with_cancel_ with sem_outcome <> 0 ([dpc]: any pc from the re-test of
         waiting to the re-acquisition of the mutex),
       - its waiting flag is clear (a waker or an unlocker cleared it) or t itself is in the middle of unlinking its
         record (timeout / cancellation confirmed under the spinlock),
       - no OTHER thread is inside a cv spinlock section and the mutex is free,
     thread t run ALONE -- the schedule consists of steps of t only, no step of any other thread, no environment step,
     hence no V by anybody -- is back in its program within 8 steps, holding the mutex, with one more logged return,
     and no semaphore has changed (t itself performed no P: it needed no wake-up).
     NOT COVERED by a theorem: (i) the states in which sem_outcome <> 0 but the waiting flag is still set while a waker /
     the abstract mutex holds the record (on a to_wake_list, on the mutex queue): there t spins until that thread's STORE
     waiting = 0 -- a store, not a V: C04_private_fate / C04_waker_moves say the waker gets there, the unlocker's part
     belongs to the abstract mutex; (ii) interleavings in which other threads keep entering cv spinlock sections or hold
     the mutex: "returns as soon as the mutex can be re-acquired" under a fair schedule is not formalised (decided by
     the stuck detector of the scenarios). *)
  Theorem C05_returns_alone : forall t, decided w t ->
    exists m, (m <= 8)%nat /\
      let w' := run w (repeat (Thr t, CNormal) m) in
      pcof w' t = Idle /\ sem w' = sem w /\ held (get w' t) <> None /\
      exists e, rets (get w' t) = e :: rets (get w t) /\ r_wait e = true /\ r_held e <> None.
  Proof. intros t. exact (solo_returns_reachable progs clock0 exp sched t). Qed.
End C05cv.

(* non-vacuity: a timed cancellable wait; the note is notified first, the wait returns ECANCELED holding the lock *)
Example C05cv_example_cancel :
  let progs := [[OLock R; OWait (Some 50) true false; OUnlock]] in
  let sched := repeat (Thr 0%nat, CNormal) 12 ++ [(Notify, CNormal); (Thr 0%nat, CCancel)] ++ repeat (Thr 0%nat, CNormal) 20 in
  let w := run (init progs 0 None) sched in
  t_pc (get w 0%nat) = Idle /\ t_ops (get w 0%nat) = [] /\
  exists e, rets (get w 0%nat) = [e] /\ r_wait e = true /\ r_code e = ECANCELED /\ r_entry e = Some R /\ r_held e = Some R /\
            r_notified e = true.
Proof.
  cbv zeta. split; [vm_compute; reflexivity|]. split; [vm_compute; reflexivity|].
  eexists; split; [vm_compute; reflexivity|]; vm_compute; auto 10.
Qed.
(* non-vacuity of [decided]: (1) the race of C04_example_race, after the signaller's V: sem_outcome = ETIMEDOUT, the flag
   is clear; alone, the waiter returns 0 in 4 steps.  (2) a timed waiter whose deadline has passed and whom nobody
   signals: just after nsync_sem_wait_with_cancel_ returned ETIMEDOUT the state is NOT decided (the flag is set: the
   thread must first confirm under the spinlock); two steps later it holds the spinlock... and at the pc that starts
   the unlinking it is decided: alone it returns ETIMEDOUT in 7 steps. *)
Example C05cv_example_decided_race :
  let progs := [[OLock W; OWait (Some 5) false false; OUnlock]; [OSignal]] in
  let w := run (init progs 0 None) (repeat (Thr 0%nat, CNormal) 12 ++ [(Tick 10, CNormal); (Thr 0%nat, CTimeout)] ++ repeat (Thr 1%nat, CNormal) 9) in
  decided w 0%nat /\
  let w' := run w (repeat (Thr 0%nat, CNormal) 4) in
  pcof w' 0%nat = Idle /\ exists e, rets (get w' 0%nat) = [e] /\ r_code e = 0 /\ r_held e = Some W.
Proof.
  cbv zeta. split.
  - split; [vm_compute; repeat constructor|]. split.
    + intros [|[|s]] Hs; [elim Hs; reflexivity | vm_compute; reflexivity | vm_compute; destruct s; reflexivity].
    + split; [vm_compute; reflexivity|]. eexists. split; [vm_compute; reflexivity|]. split; [vm_compute; discriminate | right; vm_compute; reflexivity].
  - split; [vm_compute; reflexivity|]. eexists; split; [vm_compute; reflexivity|]; vm_compute; auto.
Qed.
Example C05cv_example_decided_timeout :
  let progs := [[OLock W; OWait (Some 5) false false; OUnlock]] in
  let w := run (init progs 0 None) (repeat (Thr 0%nat, CNormal) 12 ++ [(Tick 10, CNormal); (Thr 0%nat, CTimeout)] ++ repeat (Thr 0%nat, CNormal) 5) in
  decided w 0%nat /\ (exists l, pcof w 0%nat = WRcLoad l) /\ waiting (recs w 0%nat) = 1 /\
  let w' := run w (repeat (Thr 0%nat, CNormal) 7) in
  pcof w' 0%nat = Idle /\ exists e, rets (get w' 0%nat) = [e] /\ r_code e = ETIMEDOUT /\ r_held e = Some W.
Proof.
  cbv zeta. split.
  - split; [vm_compute; repeat constructor|]. split.
    + intros [|s] Hs; [elim Hs; reflexivity | vm_compute; destruct s; reflexivity].
    + split; [vm_compute; reflexivity|]. eexists. split; [vm_compute; reflexivity|]. split; [vm_compute; discriminate | left; vm_compute; reflexivity].
  - split; [eexists; vm_compute; reflexivity|]. split; [vm_compute; reflexivity|].
    split; [vm_compute; reflexivity|]. eexists; split; [vm_compute; reflexivity|]; vm_compute; auto.
Qed.

Print Assumptions C05_mode. Print Assumptions C05_mode_waitn. Print Assumptions C05_reason.
Print Assumptions C05_no_P_after_outcome_pc. Print Assumptions C05_no_P_after_outcome_log. Print Assumptions C05_returns_alone.
Print Assumptions C05cv_example_cancel. Print Assumptions C05cv_example_decided_race. Print Assumptions C05cv_example_decided_timeout.
