(* C05 (condition-variable half) — timed / cancellable cv waits return for the stated reason, holding the lock.
   Theorems about Model/CvModel.v (see Properties_C04.v for what the model is and how it is tied to internal/cv.c and
   internal/sem_wait.c).  nsync_sem_wait_with_cancel_ is one step of the model: it returns 0 only by consuming a post
   of the thread's semaphore, ETIMEDOUT only when the clock has reached the deadline, ECANCELED only when the note is
   notified or its expiry has been reached (C12's theorems about the futex semaphore are the licence); the mutex is
   the ABSTRACT one (atomic acquire / release that keep the lock field of the word).  Statements only; proofs in
   Proof/CvProof.v (layer T).

   [rets (get w t)] is the ghost log of the returns of thread t: for each returned nsync_cv_wait_with_deadline_generic
   ([r_wait = true]) the returned code, what the thread held at entry / at return, the deadline, the clock when
   sem_outcome became ETIMEDOUT, the clock at return, whether a cancel note was passed and whether it is notified at
   return, and the number of P operations performed after sem_outcome had become non-zero. *)
From NsyncBase Require Import CSem.
From NsyncGen Require Import Consts Sites.
From NsyncModel Require Import CvModel.
From NsyncProof Require Import CvProof.
From Coq Require Import List ZArith.
Import ListNotations.
Local Open Scope Z_scope.

Section C05cv.
  Variable progs : list (list op).          (* any number of threads, any programs *)
  Variable clock0 : Z.
  Variable exp : option Z.                  (* expiry of the cancel note, if any *)
  Variable sched : list (actor * choice).   (* any schedule, any clock ticks, any notification time, any choices *)
  Let w := run (init progs clock0 exp) sched.

  (* C05_mode: at every return the thread holds the mutex, in the mode in which it held it at entry
     (a thread that calls the wait without holding the mutex in the mode the word shows crashes in the model --
     nsync_mu_unlock / runlock panic in the code -- and never returns) *)
  Theorem C05_mode : forall t e, In e (rets (get w t)) -> r_wait e = true -> r_held e = r_entry e /\ r_held e <> None.
  Proof. intros t e He Hw. destruct (c05_return_reachable progs clock0 exp sched t e He Hw) as (A & B & _). auto. Qed.
  (* nsync_wait_n: the mutex is re-acquired iff it was released, in the same mode *)
  Theorem C05_mode_waitn : forall t e, In e (rets (get w t)) -> r_held e = r_entry e.
  Proof. exact (c05_return_waitn_reachable progs clock0 exp sched). Qed.

  (* C05_reason: the code is 0, or ETIMEDOUT and the clock had reached the deadline at an earlier step of the call
     (r_toclk: the clock at the step that made sem_outcome ETIMEDOUT), or ECANCELED with a note that is notified *)
  Theorem C05_reason : forall t e, In e (rets (get w t)) -> r_wait e = true ->
    r_code e = 0 \/
    (r_code e = ETIMEDOUT /\ exists d c, r_dl e = Some d /\ r_toclk e = Some c /\ d <= c /\ c <= r_clk e) \/
    (r_code e = ECANCELED /\ r_can e = true /\ r_notified e = true).
  Proof. intros t e He Hw. destruct (c05_return_reachable progs clock0 exp sched t e He Hw) as (_ & _ & _ & D). exact D. Qed.

  (* C05_no_more_wakeups: once sem_outcome is non-zero the call performs no further P on the cv path: the thread is
     about to call nsync_sem_wait_with_cancel_ only with sem_outcome = 0, and no returned call has logged a P after
     its sem_outcome became non-zero (it only spins on waiting and then acquires the mutex as an ordinary locker) *)
  Theorem C05_no_more_wakeups_pc : forall t l, t_pc (get w t) = WSem l -> w_so l = 0.
  Proof. exact (c05_no_more_P_reachable progs clock0 exp sched). Qed.
  Theorem C05_no_more_wakeups_log : forall t e, In e (rets (get w t)) -> r_wait e = true -> r_pafter e = 0.
  Proof. intros t e He Hw. destruct (c05_return_reachable progs clock0 exp sched t e He Hw) as (_ & _ & C & _). exact C. Qed.
End C05cv.

(* non-vacuity: a timed cancellable wait; the note is notified first, the wait returns ECANCELED holding the lock *)
Example C05cv_example_cancel :
  let progs := [[OLock R; OWait (Some 50) true false; OUnlock]] in
  let sched := repeat (Thr 0%nat, CNormal) 12 ++ [(Notify, CNormal); (Thr 0%nat, CCancel)] ++ repeat (Thr 0%nat, CNormal) 20 in
  let w := run (init progs 0 None) sched in
  t_pc (get w 0%nat) = Idle /\ t_ops (get w 0%nat) = [] /\
  exists e, rets (get w 0%nat) = [e] /\ r_wait e = true /\ r_code e = ECANCELED /\ r_entry e = Some R /\ r_held e = Some R /\
            r_notified e = true.
Proof.
  cbv zeta. split; [vm_compute; reflexivity|]. split; [vm_compute; reflexivity|].
  eexists; split; [vm_compute; reflexivity|]; vm_compute; auto 10.
Qed.

Print Assumptions C05_mode. Print Assumptions C05_mode_waitn. Print Assumptions C05_reason.
Print Assumptions C05_no_more_wakeups_pc. Print Assumptions C05_no_more_wakeups_log. Print Assumptions C05cv_example_cancel.
