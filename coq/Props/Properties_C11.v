(* C11 -- nsync_wait_n reports a ready object, or a real timeout, and cleans up;
   C13(b) -- no waker touches the bookkeeping of an nsync_wait_n call that has returned.
   Theorems about Model/WaitNModel.v: any number of threads, any number of objects per call (both the on-stack and
   the heap bookkeeping path, threshold nw_set_len), any mix of notes / counters / condition variables, any schedule,
   the clock free to pass any deadline at any step.  Statements only; proofs in Proof/WaitNProof.v. *)
From NsyncBase Require Import CSem.
From NsyncGen Require Import Consts Sites.
From NsyncModel Require Import WaitNModel.
From NsyncProof Require Import WaitNProof.
From Coq Require Import List ZArith Bool.
Import ListNotations.
Local Open Scope Z_scope.

Section C11.
  Variable nts : nat -> note_st.          (* the notes: any notified flags, any expiry times *)
  Variable cts : nat -> ctr_st.           (* the counters: any values *)
  Variable progs : nat -> list op.        (* any number of threads, each any sequence of nsync_wait_n calls and environment operations *)
  Variable clock0 : Z.
  Variable sched : list act.              (* any interleaving, any timeouts, any advance of the clock *)
  Hypothesis Hinit : init_ok nts cts clock0.   (* nobody waits yet; counters hold uint32 values; the clock is not before the epoch *)
  Let w := run (init nts cts progs clock0) sched.

  (* the mutex callbacks (read off the ghost log of the call's own steps, at its return step): if unlock ran, it ran after
     all `count` enqueue calls, none follows it, every enqueue before the last one had succeeded, and lock ran after it;
     if unlock did not run, lock did not run either. *)
  Theorem C11_mutex_partial : forall t, let s := thr w t in
    pc_ s = PRet -> mutex_ok (fun i r => r = false -> S i = count s) (count s) (f_log (fr s)).
  Proof. intros t s Hpc. apply mutex_of_linv; auto. apply linv_reachable. Qed.

  (* on return (and from the end of the dequeue loop on) none of the call's records is on any object's list
     or on any waker's private list *)
  Theorem C11_clean : forall t j, pc_ (thr w t) = PRet -> ~ on_some_list w (rec_of t (thr w t) j).
  Proof. intros t j Hpc. apply clean_of_inv; [now apply inv_reachable | right; right; exact Hpc]. Qed.
  Theorem C11_clean_early : forall t j, past_deq (pc_ (thr w t)) -> ~ on_some_list w (rec_of t (thr w t) j).
  Proof. intros t j Hpc. apply clean_of_inv; auto. now apply inv_reachable. Qed.

  (* C13(b): no step of any thread (waker, notifier, decrementer, another caller, the caller itself) touches a record
     whose call has returned or whose heap array has been freed *)
  Theorem C13_waker_footprint : forall a r, In r (snd (do_act w a)) -> ~ rec_dead w r.
  Proof. intros a r. apply footprint_of_inv. now apply inv_reachable. Qed.

  (* a returned index names an object that was ready in the state of the step of this call that selected it:
     the note notified or expired, the counter zero, the cv record taken by a signaller / broadcaster *)
  Theorem C11_index : forall t, let s := thr w t in
    pc_ s = PRet -> (f_ready (fr s) < count s)%nat -> f_idx_ready (fr s) = true.
  Proof.
    intros t s Hpc Hlt. destruct (inv_reachable nts cts progs clock0 sched Hinit) as [_ G].
    apply (g_idx _ G t); [unfold in_call; fold w; fold s; now rewrite Hpc | fold w; fold s; intros E; rewrite E in Hlt; apply (Nat.lt_irrefl _ Hlt)].
  Qed.

  (* `count` is returned only if, at a step of this call that tested it (the `abs_deadline > 0` test or the timed-out P),
     the clock had reached the deadline -- a timeout of the P on a note's earlier expiry time, a stale post, another
     object becoming ready can never produce `count` -- and then every dequeue of the call reported "still queued" *)
  Theorem C11_timeout : forall t, let s := thr w t in
    pc_ s = PRet -> f_ready (fr s) = count s ->
    f_dl_seen (fr s) = true /\ (forall j r onl, In (EvDeq j r onl) (f_log (fr s)) -> r = true).
  Proof.
    intros t s Hpc Hr. destruct (all_reachable nts cts progs clock0 sched Hinit) as [_ [_ H2]]. split.
    - now apply timeout_of_inv.
    - apply deq_results_of_dq; auto. apply dq_reachable.
  Qed.

  (* a caller about to sleep (or asleep) in P, one of whose records has had `waiting` cleared by a waker (notify,
     counter reaching zero, wake_waiters), has a post on its semaphore or the waker's V is the next step of that waker:
     it does not keep sleeping *)
  Theorem C11_wakes : forall t mn j, let s := thr w t in
    pc_ s = PSleep mn -> (j < count s)%nat -> woken w (rec_of t s j) = true -> (0 < sem w t)%nat \/ v_pending w t.
  Proof.
    intros t mn j s Hpc Hj Hk. destruct (all_reachable nts cts progs clock0 sched Hinit) as [_ [H1 _]].
    eapply wakes_of_hinv; eauto.
  Qed.
End C11.

(* the statement as DESIGN.md has it: unlock only if ALL enqueues succeeded *)
Definition C11_mutex_full : Prop :=
  forall nts cts progs clock0 sched t, init_ok nts cts clock0 ->
    let s := thr (run (init nts cts progs clock0) sched) t in
    pc_ s = PRet -> mutex_ok (fun _ r => r = true) (count s) (f_log (fr s)).

(* It is false of the code: `for (i = 0; i != count && enqueued; i++)` leaves i == count also when the LAST enqueue
   failed, so `if (i == count)` runs the unlock callback (and later lock) although that object was not registered.
   Witness: one note, notified between the first loop and the enqueue.  (The real library shows it: see the report.) *)
Definition wit_nts : nat -> note_st := fun _ => mk_note 0 None [].
Definition wit_cts : nat -> ctr_st := fun _ => mk_ctr 1 0 [].
Definition wit_progs (t : nat) : list op :=
  match t with
  | O => [OpWaitN (Some 0%nat) None [ONote 0]]
  | S O => [OpNotify 0]
  | _ => []
  end.
Definition wit_sched : list act :=
  [Run 0 false; Run 0 false;            (* call; first loop: not notified *)
   Run 1 false;                         (* nsync_note_notify *)
   Run 0 false; Run 0 false;            (* nw[0] init; enqueue returns 0 *)
   Run 0 false;                         (* unlock callback *)
   Run 0 false; Run 0 false; Run 0 false; Run 0 false].   (* ready_time = 0; dequeue; lock callback *)
Lemma wit_init_ok : init_ok wit_nts wit_cts 10.
Proof. unfold init_ok, wit_nts, wit_cts; simpl. repeat split; auto; try discriminate. Qed.
Theorem C11_mutex_refuted : ~ C11_mutex_full.
Proof.
  intros H. specialize (H wit_nts wit_cts wit_progs 10 wit_sched 0%nat wit_init_ok).
  vm_compute in H. destruct (H eq_refl) as [_ [_ [H1 _]]].
  specialize (H1 0%nat false (or_introl eq_refl)). discriminate.
Qed.

(* ---------- non-vacuity ---------- *)
(* two objects (nw_set on the stack), a mutex, a signaller: the call sleeps, is woken through the cv, spins in
   cv_dequeue until the waker is done with the record, takes the mutex again and returns index 1 *)
Definition ex2_progs (t : nat) : list op :=
  match t with
  | O => [OpLock 0; OpWaitN (Some 0%nat) None [ONote 0; OCv 0]; OpUnlock 0]
  | S O => [OpSignal 0]
  | _ => []
  end.
Definition ex2_sched : list act :=
  repeat (Run 0 false) 11 ++ repeat (Run 1 false) 3 ++ repeat (Run 0 false) 8.
Example C11_example_2 :
  let w := run (init wit_nts wit_cts ex2_progs 10) ex2_sched in
  pc_ (thr w 0) = PRet /\ f_ready (fr (thr w 0)) = 1%nat /\ f_unlocked (fr (thr w 0)) = true /\ f_idx_ready (fr (thr w 0)) = true /\
  rev (f_log (fr (thr w 0))) =
    [EvCall; EvReady true 0 None; EvReady true 1 None; EvInit 0 0; EvEnq 0 true; EvInit 1 0; EvEnq 1 true; EvUnlock;
     EvReady false 0 None; EvReady false 1 None; EvP POk; EvReady false 0 None; EvReady false 1 (Some 0);
     EvDeqPre 0; EvDeq 0 true true; EvDeq 1 false false; EvDeqSpin 1 0; EvLock true].
Proof. vm_compute. repeat split. Qed.

(* five objects of all kinds (nw on the heap), a deadline, nobody makes anything ready: the call registers on all five,
   sleeps, times out once the clock has passed the deadline, finds all five still registered, frees the array and returns 5 *)
Definition ex5_progs (t : nat) : list op :=
  match t with
  | O => [OpWaitN None (Some 100) [ONote 0; OCounter 0; OCv 0; ONote 1; OCounter 1]]
  | _ => []
  end.
Definition ex5_sched : list act :=
  repeat (Run 0 false) 21 ++ [Tick 200; Run 0 true] ++ repeat (Run 0 false) 8.
Example C11_example_5 :
  let w := run (init wit_nts wit_cts ex5_progs 10) ex5_sched in
  pc_ (thr w 0) = PRet /\ f_ready (fr (thr w 0)) = 5%nat /\ f_dl_seen (fr (thr w 0)) = true /\ (nw_set_len < count (thr w 0))%nat /\
  rev (f_log (fr (thr w 0))) =
    [EvCall; EvReady true 0 None; EvReady true 1 None; EvReady true 2 None; EvReady true 3 None; EvReady true 4 None;
     EvInit 0 0; EvEnq 0 true; EvInit 1 0; EvEnq 1 true; EvInit 2 0; EvEnq 2 true; EvInit 3 0; EvEnq 3 true; EvInit 4 0; EvEnq 4 true;
     EvReady false 0 None; EvReady false 1 None; EvReady false 2 None; EvReady false 3 None; EvReady false 4 None;
     EvP PTimeout; EvDeqPre 0; EvDeq 0 true true; EvDeq 1 true true; EvDeq 2 true true; EvDeqPre 3; EvDeq 3 true true;
     EvDeq 4 true true; EvFree].
Proof. vm_compute. repeat split; auto. Qed.

Print Assumptions C11_mutex_partial.
Print Assumptions C11_mutex_refuted.
Print Assumptions C11_clean.
Print Assumptions C11_clean_early.
Print Assumptions C13_waker_footprint.
Print Assumptions C11_index.
Print Assumptions C11_timeout.
Print Assumptions C11_wakes.
