(* C11 -- nsync_wait_n reports a ready object, or a real timeout, and cleans up;
   C13(b) -- no waker touches the bookkeeping of an nsync_wait_n call that has returned.
   Theorems about Model/WaitNModel.v: any number of threads, any number of objects per call (both the on-stack and
   the heap bookkeeping path, threshold nw_set_len), any mix of notes / counters / condition variables, any schedule,
   the clock free to pass any deadline at any step.  Statements only; proofs in Proof/WaitNProof.v and Proof/WaitNProof2.v. *)
From NsyncBase Require Import CSem.
From NsyncGen Require Import Consts Sites.
From NsyncModel Require Import WaitNModel.
From NsyncProof Require Import WaitNProof WaitNProof2.
From Coq Require Import List ZArith Bool.
Import ListNotations.
Local Open Scope Z_scope.

Section C11.
  Variable nts : nat -> note_st.          (* the notes: any notified flags, any expiry times *)
  Variable cts : nat -> ctr_st.           (* the counters: any values *)
  Variable progs : nat -> list op.        (* any number of threads, each any sequence of nsync_wait_n calls and environment operations *)
  Variable clock0 : Z.
  Variable sched : list act.              (* any interleaving, any timeouts, any advance of the clock *)
  Hypothesis Hinit : init_ok nts cts clock0.   (* nobody waits yet; counters hold uint32 values; the clock is not before the epoch *)
  Let w := run (init nts cts progs clock0) sched.

  (* the mutex callbacks (read off the ghost log of the call's own steps, at its return step): if unlock ran, it ran after
     all `count` enqueue calls, none follows it, every enqueue before the last one had succeeded, and lock ran after it;
     if unlock did not run, lock did not run either. *)
  Theorem C11_mutex_partial : forall t, let s := thr w t in
    pc_ s = PRet -> mutex_ok (fun i r => r = false -> S i = count s) (count s) (f_log (fr s)).
  Proof. intros t s Hpc. apply mutex_of_linv; auto. apply linv_reachable. Qed.

  (* on return (and from the end of the dequeue loop on) none of the call's records is on any object's list
     or on any waker's private list *)
  Theorem C11_clean : forall t j, pc_ (thr w t) = PRet -> ~ on_some_list w (rec_of t (thr w t) j).
  Proof. intros t j Hpc. apply clean_of_inv; [now apply inv_reachable | right; right; exact Hpc]. Qed.
  Theorem C11_clean_early : forall t j, past_deq (pc_ (thr w t)) -> ~ on_some_list w (rec_of t (thr w t) j).
  Proof. intros t j Hpc. apply clean_of_inv; auto. now apply inv_reachable. Qed.

  (* C13(b): no step of any thread (waker, notifier, decrementer, another caller, the caller itself) touches a record
     whose call has returned or whose heap array has been freed *)
  Theorem C13_waker_footprint : forall a r, In r (snd (do_act w a)) -> ~ rec_dead w r.
  Proof. intros a r. apply footprint_of_inv. now apply inv_reachable. Qed.

  (* a returned index names an object that was ready in the state of the step of this call that selected it:
     the note notified or expired, the counter zero, the cv record taken by a signaller / broadcaster *)
  Theorem C11_index : forall t, let s := thr w t in
    pc_ s = PRet -> (f_ready (fr s) < count s)%nat -> f_idx_ready (fr s) = true.
  Proof.
    intros t s Hpc Hlt. destruct (inv_reachable nts cts progs clock0 sched Hinit) as [_ G].
    apply (g_idx _ G t); [unfold in_call; fold w; fold s; now rewrite Hpc | fold w; fold s; intros E; rewrite E in Hlt; apply (Nat.lt_irrefl _ Hlt)].
  Qed.

  (* `count` is returned only if, at a step of this call that tested it (the `abs_deadline > 0` test or the timed-out P),
     the clock had reached the deadline -- a timeout of the P on a note's earlier expiry time, a stale post, another
     object becoming ready can never produce `count` -- and then every dequeue of the call reported "still queued" *)
  Theorem C11_timeout : forall t, let s := thr w t in
    pc_ s = PRet -> f_ready (fr s) = count s ->
    f_dl_seen (fr s) = true /\ (forall j r onl, In (EvDeq j r onl) (f_log (fr s)) -> r = true).
  Proof.
    intros t s Hpc Hr. destruct (all_reachable nts cts progs clock0 sched Hinit) as [_ [_ H2]]. split.
    - now apply timeout_of_inv.
    - apply deq_results_of_dq; auto. apply dq_reachable.
  Qed.

  (* a caller about to sleep (or asleep) in P, one of whose records has had `waiting` cleared by a waker (notify,
     counter reaching zero, wake_waiters), has a post on its semaphore or the waker's V is the next step of that waker:
     it does not keep sleeping *)
  Theorem C11_wakes : forall t mn j, let s := thr w t in
    pc_ s = PSleep mn -> (j < count s)%nat -> woken w (rec_of t s j) = true -> (0 < sem w t)%nat \/ v_pending w t.
  Proof.
    intros t mn j s Hpc Hj Hk. destruct (all_reachable nts cts progs clock0 sched Hinit) as [_ [H1 _]].
    eapply wakes_of_hinv; eauto.
  Qed.

  (* ================= state forms (against the world, not against what the call computed) ================= *)

  (* ---- the mutex (mu != NULL), at EVERY pc of the call ----
     (a) as long as the unlock callback has not run, a caller that held mu at the call still holds it: through the first loop, the whole
         enqueue loop, and -- when the loop stopped early -- through the dequeue loop up to the return;
     (b) from the unlock callback up to (not including) the return it does not hold mu: in particular while it may sleep;
     (c) at the return after an unlock it holds mu again.
     f_held is the ghost "the caller held mu when it called" (the API's precondition), f_unlocked the local `unlocked` of wait.c. *)
  Theorem C11_mutex_state : forall t m, let s := thr w t in in_call s -> f_mu (fr s) = Some m ->
    (f_unlocked (fr s) = false -> f_held (fr s) = true -> muh w m = Some t) /\
    (f_unlocked (fr s) = true -> pc_ s <> PRet -> muh w m <> Some t) /\
    (f_unlocked (fr s) = true -> pc_ s = PRet -> muh w m = Some t).
  Proof.
    intros t m s Hin Hm. pose proof (minv_reachable nts cts progs clock0 sched t m Hin Hm) as M. fold w in M. fold s in M. simpl in M.
    destruct (f_unlocked (fr s)); splits; try discriminate; auto.
    - intros _ Hp. destruct (Nat.eqb (pcls (pc_ s)) 3) eqn:E; auto. apply pcls_ret in E. contradiction.
    - intros _ Hp. rewrite Hp in M. exact M.
  Qed.
  (* `unlocked` is set exactly when the unlock callback is in the call's log *)
  Theorem C11_unlocked_flag : forall t, let s := thr w t in in_call s ->
    (f_unlocked (fr s) = true <-> before_unlock (f_log (fr s)) <> None).
  Proof. intros t s Hin. eapply unlocked_iff_of_linv2; eauto. apply inv2_reachable. Qed.
  (* the caller does not hold the mutex while it reads the ready times of the sleep loop or sleeps (a wait.c without lines 61-64 fails here),
     and holds it again when it returns, whichever path it took *)
  Theorem C11_sleeps_unlocked : forall t m, let s := thr w t in
    (exists mn, pc_ s = PSleep mn) \/ (exists j mn, pc_ s = PReady j mn) -> f_mu (fr s) = Some m ->
    f_unlocked (fr s) = true /\ muh w m <> Some t.
  Proof.
    intros t m s Hpc Hm. unfold s in *. clear s.
    pose proof (inv2_reachable nts cts progs clock0 sched t) as L2. fold w in L2. unfold linv2 in L2.
    assert (Hu : f_unlocked (fr (thr w t)) = true).
    { destruct Hpc as [[mn Hpc] | [j [mn Hpc]]]; rewrite Hpc in L2; destruct L2 as [_ [A _]]; apply A; rewrite Hm; discriminate. }
    split; auto. assert (Hin : in_call (thr w t)) by (unfold in_call; destruct Hpc as [[mn Hpc] | [j [mn Hpc]]]; rewrite Hpc; exact I).
    destruct (C11_mutex_state t m Hin Hm) as [_ [B _]]. apply B; auto. destruct Hpc as [[mn Hpc] | [j [mn Hpc]]]; congruence.
  Qed.
  Theorem C11_mutex_held_on_return : forall t m, let s := thr w t in
    pc_ s = PRet -> f_mu (fr s) = Some m -> f_held (fr s) = true -> muh w m = Some t.
  Proof.
    intros t m s Hpc Hm Hh. assert (Hin : in_call s) by (unfold in_call; rewrite Hpc; exact I).
    destruct (C11_mutex_state t m Hin Hm) as [A [_ C]]. destruct (f_unlocked (fr s)) eqn:E; [apply C; auto | apply A; auto].
  Qed.
  (* the order of the callbacks in the call's log, at every pc: the unlock callback is older than every P of the call and newer than the
     enqueue calls of ALL indices count-1, ..., 0 (in this order: none skipped, none repeated); without an unlock callback the call has
     made no P at all (it never sleeps holding the mutex) *)
  Theorem C11_mutex_order : forall t m, let s := thr w t in in_call s -> f_mu (fr s) = Some m -> mutex_order (count s) (f_log (fr s)).
  Proof. intros t m s Hin Hm. eapply mutex_order_of_linv2; eauto; [apply inv2_reachable | congruence]. Qed.

  (* ---- the sleep deadline ----
     at the timed P, min_ntime is EXACTLY the minimum of abs_deadline and the `count` ready times read in this round (the newest `count`
     entries of the log, indices count-1 .. 0); it is positive; hence it is not after abs_deadline, not after any of those ready times,
     and not after the expiry time of any note among the objects (a `max` in place of wait.c:71's `<` fails here). *)
  Theorem C11_sleep_deadline : forall t mn, let s := thr w t in pc_ s = PSleep mn ->
    mn = rmin (f_dl (fr s)) (f_log (fr s)) /\ map fst (round (f_log (fr s))) = rev (seq 0 (count s)) /\ time_pos mn = true /\
    time_le mn (f_dl (fr s)) = true /\
    (forall j nt, In (j, nt) (round (f_log (fr s))) -> time_le mn nt = true) /\
    (forall j n, (j < count s)%nat -> objat s j = ONote n -> time_le mn (n_expiry (notes w n)) = true).
  Proof.
    intros t mn s Hpc. pose proof (inv2_reachable nts cts progs clock0 sched t) as L2. fold w in L2. fold s in L2.
    destruct (sleep_of_linv2 _ _ _ _ L2 Hpc) as [A [B [C [D [E [F _]]]]]]. splits; auto.
  Qed.
  (* so the timed P can end as soon as the clock reaches the earliest of them (C12 is the licence for the P itself): the timeout step is
     enabled, and it leads to the dequeue loop over all `count` objects, starting with object 0 *)
  Theorem C11_sleep_timeout_enabled : forall t mn, pc_ (thr w t) = PSleep mn -> time_reached mn (clock w) = true ->
    snd (fst (do_act w (Run t true))) = EvP PTimeout /\
    let s' := thr (next w (Run t true)) t in
    f_i (fr s') = count s' /\ count s' = count (thr w t) /\
    (if (count s' =? 0)%nat then True else pc_ s' = PDeqPre 0 \/ pc_ s' = PDeq 0).
  Proof. intros t mn Hpc Ht. apply (p_timeout_enabled w t mn); auto. apply linv_reachable. Qed.
  (* a call that made a P (timed out or not) has, when it returns, dequeued -- re-examined -- every one of its `count` objects
     (note_dequeue starts with nsync_note_notified_deadline_, which notifies an expired note) *)
  Theorem C11_slept_examined : forall t, let s := thr w t in pc_ s = PRet -> has_p (f_log (fr s)) = true ->
    forall j, (j < count s)%nat -> has_deq (f_log (fr s)) j.
  Proof. intros t s Hpc Hp. eapply slept_examined_of_linv2; eauto. apply inv2_reachable. Qed.

  (* ---- the returned index, against the WORLD ----
     from the step that decided `ready = r < count` up to and including the return, object r is ready in the current state of the world:
     a note is notified or its expiry time has been reached by the clock; a counter's value is 0; a cv record has been TAKEN by a
     signaller / broadcaster (taker = Some u).  (The statement holds at every pc with ready < count, so in particular in the state right
     after the deciding dequeue / ready_time step, and at PRet.) *)
  Theorem C11_index_world : forall t, let s := thr w t in in_call s -> (f_ready (fr s) < count s)%nat ->
    obj_ready_world w (objat s (f_ready (fr s))) (rec_of t s (f_ready (fr s))).
  Proof. intros t s Hin Hlt. apply ready_inv_world. apply (idx_reachable nts cts progs clock0 sched Hinit t Hin Hlt). Qed.

  (* ---- a call that returns `count` ----
     the clock has reached abs_deadline; every one of the `count` first checks was made and gave a positive time; and EITHER
     abs_deadline was <= 0 at the first test and the call did nothing else (no enqueue, no sleep: its log holds only the first checks),
     OR abs_deadline > 0, a P of the call timed out, and every j < count has a dequeue that reported "still queued". *)
  Theorem C11_timeout_strong : forall t, let s := thr w t in pc_ s = PRet -> f_ready (fr s) = count s ->
    time_reached (f_dl (fr s)) (clock w) = true /\ (forall k, (k < count s)%nat -> has_first (f_log (fr s)) k) /\
    ((time_pos (f_dl (fr s)) = false /\ only_first (f_log (fr s))) \/
     (time_pos (f_dl (fr s)) = true /\ In (EvP PTimeout) (f_log (fr s)) /\
      forall j, (j < count s)%nat -> exists onl, In (EvDeq j true onl) (f_log (fr s)))).
  Proof.
    intros t s Hpc Hr. destruct (all_reachable nts cts progs clock0 sched Hinit) as [_ [_ H2]].
    apply (timeout_of_linv2 (clock w) (expiry w)); auto.
    - destruct H2 as [_ Hc]. exact Hc.
    - apply inv2_reachable.
    - apply dq_reachable.
    - now apply timeout_of_inv.
  Qed.

  (* ---- C13(b), the waker's two steps ----
     the step of wake_waiters that clears `waiting` of record r has r in its footprint (it is the step that reads r's semaphore pointer)
     and leaves the value read in the pc; the V step that follows touches no record at all *)
  Theorem C13_psem_read_before_store : forall u c r rest, pc_ (thr w u) = PWake -> privs w u = r :: rest ->
    In r (snd (do_act w (Run u c))) /\ pc_ (thr (next w (Run u c)) u) = PWakeV (owner r) /\ waiting (next w (Run u c)) r = 0 /\
    privs (next w (Run u c)) u = rest.
  Proof. intros u c r rest Hpc Hp. apply (wake_store_step w u c r rest Hpc Hp). Qed.
  Theorem C13_v_touches_nothing : forall u c s, pc_ (thr w u) = PWakeV s ->
    snd (do_act w (Run u c)) = [] /\ sem (next w (Run u c)) s = S (sem w s) /\ waiting (next w (Run u c)) = waiting w.
  Proof. intros u c s Hpc. apply (wake_v_step w u c s Hpc). Qed.
End C11.

(* the statement as DESIGN.md has it: unlock only if ALL enqueues succeeded *)
Definition C11_mutex_full : Prop :=
  forall nts cts progs clock0 sched t, init_ok nts cts clock0 ->
    let s := thr (run (init nts cts progs clock0) sched) t in
    pc_ s = PRet -> mutex_ok (fun _ r => r = true) (count s) (f_log (fr s)).

(* It is false of the code: `for (i = 0; i != count && enqueued; i++)` leaves i == count also when the LAST enqueue
   failed, so `if (i == count)` runs the unlock callback (and later lock) although that object was not registered.
   Witness: one note, notified between the first loop and the enqueue.  (The real library shows it: see the report.) *)
Definition wit_nts : nat -> note_st := fun _ => mk_note 0 None [].
Definition wit_cts : nat -> ctr_st := fun _ => mk_ctr 1 0 [].
Definition wit_progs (t : nat) : list op :=
  match t with
  | O => [OpWaitN (Some 0%nat) None [ONote 0]]
  | S O => [OpNotify 0]
  | _ => []
  end.
Definition wit_sched : list act :=
  [Run 0 false; Run 0 false;            (* call; first loop: not notified *)
   Run 1 false;                         (* nsync_note_notify *)
   Run 0 false; Run 0 false;            (* nw[0] init; enqueue returns 0 *)
   Run 0 false;                         (* unlock callback *)
   Run 0 false; Run 0 false; Run 0 false; Run 0 false].   (* ready_time = 0; dequeue; lock callback *)
Lemma wit_init_ok : init_ok wit_nts wit_cts 10.
Proof. unfold init_ok, wit_nts, wit_cts; simpl. repeat split; auto; try discriminate. Qed.
Theorem C11_mutex_refuted : ~ C11_mutex_full.
Proof.
  intros H. specialize (H wit_nts wit_cts wit_progs 10 wit_sched 0%nat wit_init_ok).
  vm_compute in H. destruct (H eq_refl) as [_ [_ [H1 _]]].
  specialize (H1 0%nat false (or_introl eq_refl)). discriminate.
Qed.

(* ---------- non-vacuity ---------- *)
(* two objects (nw_set on the stack), a mutex, a signaller: the call sleeps, is woken through the cv, spins in
   cv_dequeue until the waker is done with the record, takes the mutex again and returns index 1 *)
Definition ex2_progs (t : nat) : list op :=
  match t with
  | O => [OpLock 0; OpWaitN (Some 0%nat) None [ONote 0; OCv 0]; OpUnlock 0]
  | S O => [OpSignal 0]
  | _ => []
  end.
Definition ex2_sched : list act :=
  repeat (Run 0 false) 11 ++ repeat (Run 1 false) 3 ++ repeat (Run 0 false) 8.
Example C11_example_2 :
  let w := run (init wit_nts wit_cts ex2_progs 10) ex2_sched in
  pc_ (thr w 0) = PRet /\ f_ready (fr (thr w 0)) = 1%nat /\ f_unlocked (fr (thr w 0)) = true /\ f_idx_ready (fr (thr w 0)) = true /\
  rev (f_log (fr (thr w 0))) =
    [EvCall; EvReady true 0 None; EvReady true 1 None; EvInit 0 0; EvEnq 0 true; EvInit 1 0; EvEnq 1 true; EvUnlock;
     EvReady false 0 None; EvReady false 1 None; EvP POk; EvReady false 0 None; EvReady false 1 (Some 0);
     EvDeqPre 0; EvDeq 0 true true; EvDeq 1 false false; EvDeqSpin 1 0; EvLock true].
Proof. vm_compute. repeat split. Qed.

(* five objects of all kinds (nw on the heap), a deadline, nobody makes anything ready: the call registers on all five,
   sleeps, times out once the clock has passed the deadline, finds all five still registered, frees the array and returns 5 *)
Definition ex5_progs (t : nat) : list op :=
  match t with
  | O => [OpWaitN None (Some 100) [ONote 0; OCounter 0; OCv 0; ONote 1; OCounter 1]]
  | _ => []
  end.
Definition ex5_sched : list act :=
  repeat (Run 0 false) 21 ++ [Tick 200; Run 0 true] ++ repeat (Run 0 false) 8.
Example C11_example_5 :
  let w := run (init wit_nts wit_cts ex5_progs 10) ex5_sched in
  pc_ (thr w 0) = PRet /\ f_ready (fr (thr w 0)) = 5%nat /\ f_dl_seen (fr (thr w 0)) = true /\ (nw_set_len < count (thr w 0))%nat /\
  rev (f_log (fr (thr w 0))) =
    [EvCall; EvReady true 0 None; EvReady true 1 None; EvReady true 2 None; EvReady true 3 None; EvReady true 4 None;
     EvInit 0 0; EvEnq 0 true; EvInit 1 0; EvEnq 1 true; EvInit 2 0; EvEnq 2 true; EvInit 3 0; EvEnq 3 true; EvInit 4 0; EvEnq 4 true;
     EvReady false 0 None; EvReady false 1 None; EvReady false 2 None; EvReady false 3 None; EvReady false 4 None;
     EvP PTimeout; EvDeqPre 0; EvDeq 0 true true; EvDeq 1 true true; EvDeq 2 true true; EvDeqPre 3; EvDeq 3 true true;
     EvDeq 4 true true; EvFree].
Proof. vm_compute. repeat split; auto. Qed.

(* ---------- non-vacuity of the state forms ---------- *)
(* the call of example 2, stopped at its timed P: the caller held the mutex at the call (f_held), the unlock callback has run, NOBODY holds the
   mutex while the caller sleeps; when it returns it holds it again *)
Example C11_example_sleeps_unlocked :
  let w := run (init wit_nts wit_cts ex2_progs 10) (repeat (Run 0 false) 12) in
  pc_ (thr w 0) = PSleep None /\ f_mu (fr (thr w 0)) = Some 0%nat /\ f_held (fr (thr w 0)) = true /\ f_unlocked (fr (thr w 0)) = true /\
  muh w 0%nat = None /\
  let w' := run (init wit_nts wit_cts ex2_progs 10) ex2_sched in
  pc_ (thr w' 0) = PRet /\ muh w' 0%nat = Some 0%nat /\ mutex_order 2 (f_log (fr (thr w' 0))) /\ taker w' (0, 0, 1)%nat = Some 1%nat.
Proof. vm_compute. repeat split. Qed.

(* abs_deadline = 0 (already passed), nothing ready: the call makes its `count` first checks (all positive times) and returns `count`
   without an enqueue, an unlock or a sleep *)
Definition ex0_progs (t : nat) : list op :=
  match t with O => [OpWaitN None (Some 0) [ONote 0; OCounter 0]] | _ => [] end.
Example C11_example_deadline_passed :
  let w := run (init wit_nts wit_cts ex0_progs 10) (repeat (Run 0 false) 3) in
  pc_ (thr w 0) = PRet /\ f_ready (fr (thr w 0)) = 2%nat /\ count (thr w 0) = 2%nat /\ time_pos (f_dl (fr (thr w 0))) = false /\
  rev (f_log (fr (thr w 0))) = [EvCall; EvReady true 0 None; EvReady true 1 None].
Proof. vm_compute. repeat split. Qed.

(* a note that expires at 50, abs_deadline 100, clock 10: the timed P gets min_ntime = 50 (not 100); once the clock is past 50 the P times out, the
   dequeue finds the note expired (and notifies it), and the call returns index 0 although the deadline has not been reached *)
Definition exn_nts : nat -> note_st := fun _ => mk_note 0 (Some 50) [].
Definition exn_progs (t : nat) : list op :=
  match t with O => [OpWaitN None (Some 100) [ONote 0]] | _ => [] end.
Example C11_example_note_expiry_bounds_sleep :
  let w := run (init exn_nts wit_cts exn_progs 10) (repeat (Run 0 false) 5) in
  pc_ (thr w 0) = PSleep (Some 50) /\ round (f_log (fr (thr w 0))) = [(0%nat, Some 50)] /\
  let w' := run w ([Tick 45; Run 0 true] ++ repeat (Run 0 false) 2) in
  pc_ (thr w' 0) = PRet /\ f_ready (fr (thr w' 0)) = 0%nat /\ clock w' = 55 /\ n_notified (notes w' 0) = 1 /\ f_dl_seen (fr (thr w' 0)) = false /\
  rev (f_log (fr (thr w' 0))) =
    [EvCall; EvReady true 0 (Some 50); EvInit 0 0; EvEnq 0 true; EvReady false 0 (Some 50); EvP PTimeout; EvDeqPre 0; EvDeq 0 false false].
Proof. vm_compute. repeat split. Qed.

Print Assumptions C11_mutex_partial.
Print Assumptions C11_mutex_refuted.
Print Assumptions C11_clean.
Print Assumptions C11_clean_early.
Print Assumptions C13_waker_footprint.
Print Assumptions C11_index.
Print Assumptions C11_timeout.
Print Assumptions C11_wakes.
Print Assumptions C11_mutex_state.
Print Assumptions C11_unlocked_flag.
Print Assumptions C11_sleeps_unlocked.
Print Assumptions C11_mutex_held_on_return.
Print Assumptions C11_mutex_order.
Print Assumptions C11_sleep_deadline.
Print Assumptions C11_sleep_timeout_enabled.
Print Assumptions C11_slept_examined.
Print Assumptions C11_index_world.
Print Assumptions C11_timeout_strong.
Print Assumptions C13_psem_read_before_store.
Print Assumptions C13_v_touches_nothing.
