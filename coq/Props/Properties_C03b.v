(* C03 (continued) -- the hand-offs of nsync_run_once and of nsync_counter are happens-before edges under the DECLARED
   memory orders.  Statements only; definitions in Model/HbOnce.v, Model/HbCounter.v (instrumentation of the existing
   executable models OnceModel / CounterModel by vector-clock views, every order and location looked up in the
   regenerated inventory Gen/Sites.v), proofs in Proof/HbOnceProof.v, Proof/HbCounterProof.v.
   The mutex hand-off and the pinned inventory are in Props/Properties_C03.v. *)
From NsyncBase Require Import CSem.
From NsyncGen Require Import Consts Sites.
From NsyncModel Require Import HbModel.
From NsyncModel Require OnceModel CounterModel.
From NsyncModel Require Import HbOnce HbCounter.
From NsyncProof Require CounterProof HbOnceProof HbCounterProof.
From Coq Require Import List ZArith String.
Import ListNotations.
Local Open Scope Z_scope.

(* ------------------------------------------------------------------ *)
(* nsync_run_once / _arg / _spin / _arg_spin                           *)
(* ------------------------------------------------------------------ *)
(* For ANY number of threads, programs (calls on any once words, blocking or spinning variants) and schedules:
   if step i is the one at which the once-function of word o has finished (the model's ghost [completed] flips: the
   winner's ATM_STORE_REL (once, 2)) and step j is a step at which a call on o returns (the ghost [returned] of the
   stepping thread grows: fast-path load in nsync_run_once*, first load in nsync_run_once_impl, or the wait loop),
   then i < j, and the winner's view just before the store (hence the whole run of the once-function) and its view
   after the store are contained in the returning thread's view -- computed from the memory orders the source requests
   at each site, nothing else. *)
Theorem C03_once_handoff : forall progs sched i j oi oj o,
  let tr := run_hb_once (OnceModel.init progs) ohb0 sched in
  nth_error tr i = Some oi -> nth_error tr j = Some oj ->
  once_publishes o oi -> once_returns o oj ->
  (i < j)%nat /\ vle (ob_pre oi) (ob_view oj) /\ vle (ob_view oi) (ob_view oj).
Proof. exact HbOnceProof.once_handoff. Qed.

(* what the proof rests on, evaluated on the regenerated inventory: the store of 2 asks for release; the entry load of
   every one of the four public functions (site 1 = the weakest of the four), impl#1 and impl#5 ask for acquire *)
Theorem C03_once_orders :
  has_rel (once_order_of Kstore 14) = true /\
  Forall (fun s => has_acq (once_order_of Kload s) = true) [1; 11; 15].
Proof. exact HbOnceProof.once_orders. Qed.

(* the hypotheses are met: three callers on one word; thread 0 wins, thread 1 loses the CAS and returns from the wait
   loop (step 10), thread 2 arrives late and returns on the fast path (step 11); the store is step 8 *)
Example C03_once_handoff_example :
  let tr := run_hb_once (OnceModel.init [[(0%nat, false)]; [(0%nat, true)]; [(0%nat, false)]]) ohb0
                        [0; 1; 0; 1; 0; 1; 1; 1; 0; 0; 1; 2]%nat in
  exists oi oj oj',
    nth_error tr 8 = Some oi /\ nth_error tr 10 = Some oj /\ nth_error tr 11 = Some oj' /\
    once_publishes 0 oi /\ once_returns 0 oj /\ once_returns 0 oj' /\
    ob_t oi = 0%nat /\ ob_t oj = 1%nat /\ ob_t oj' = 2%nat.
Proof.
  intros tr.
  assert (H : match nth_error tr 8, nth_error tr 10, nth_error tr 11 with
              | Some oi, Some oj, Some oj' =>
                  once_publishes 0 oi /\ once_returns 0 oj /\ once_returns 0 oj' /\
                  ob_t oi = 0%nat /\ ob_t oj = 1%nat /\ ob_t oj' = 2%nat
              | _, _, _ => False
              end) by (vm_compute; repeat split; reflexivity).
  destruct (nth_error tr 8) as [oi|]; [|contradiction].
  destruct (nth_error tr 10) as [oj|]; [|contradiction].
  destruct (nth_error tr 11) as [oj'|]; [|contradiction].
  exists oi, oj, oj'. repeat split; try reflexivity; apply H.
Qed.

(* ------------------------------------------------------------------ *)
(* nsync_counter                                                       *)
(* ------------------------------------------------------------------ *)
(* For ANY initial value, number of threads, programs and schedules: if step i is the one at which the counter takes
   the value 0 (the model's ghost history grows by 0: the successful ATM_CAS_RELACQ of the nsync_counter_add whose
   decrement zeroes it) and a later step j is one at which a call returns 0 to its caller (the ghost log grows:
   nsync_counter_wait -- ready at once, or woken through nw->waiting / the semaphore and dequeued --,
   nsync_counter_value, nsync_counter_add), then the adder's view at the CAS is contained in the returning thread's
   view.  counter_mu and the interleaving get no ordering credit. *)
Theorem C03_counter_handoff : forall v0 c0 progs sched i j oi oj,
  let tr := run_hb_counter (CounterModel.init v0 c0 progs) chb0 sched in
  nth_error tr i = Some oi -> nth_error tr j = Some oj -> (i < j)%nat ->
  counter_zeroes oi -> counter_returns 0 oj ->
  vle (co_view oi) (co_view oj).
Proof. exact HbCounterProof.counter_handoff. Qed.

(* more than the property asks: EVERY change of the counter happens before EVERY later return of any call, whatever
   the values (each call's last access to c->value is an acquire load or the acq_rel CAS, and all writes to c->value
   in the modelled functions are acq_rel read-modify-writes, so release sequences are never cut) *)
Theorem C03_counter_handoff_any : forall v0 c0 progs sched i j oi oj y x,
  let tr := run_hb_counter (CounterModel.init v0 c0 progs) chb0 sched in
  nth_error tr i = Some oi -> nth_error tr j = Some oj -> (i < j)%nat ->
  CounterModel.hist (co_w' oi) = y :: CounterModel.hist (co_w oi) -> counter_returns x oj ->
  vle (co_view oi) (co_view oj).
Proof. exact HbCounterProof.counter_handoff_any. Qed.

(* a signal before the woken waiter's return: the adder's view at nsync_mu_semaphore_v on thread u's waiter is
   contained in thread u's view at every later successful nsync_mu_semaphore_p_with_deadline *)
Theorem C03_counter_wake_handoff : forall v0 c0 progs sched i j oi oj u,
  let tr := run_hb_counter (CounterModel.init v0 c0 progs) chb0 sched in
  nth_error tr i = Some oi -> nth_error tr j = Some oj -> (i < j)%nat ->
  counter_posts u oi -> counter_woken u oj ->
  vle (co_view oi) (co_view oj).
Proof. exact HbCounterProof.counter_wake_handoff. Qed.

(* program order: what a thread had in its view at an earlier step of its own (e.g. the first step of the
   nsync_counter_add call) it still has at a later one (e.g. the CAS); chains with the theorems above *)
Theorem C03_counter_program_order : forall v0 c0 progs sched i j oi oj t,
  let tr := run_hb_counter (CounterModel.init v0 c0 progs) chb0 sched in
  nth_error tr i = Some oi -> nth_error tr j = Some oj -> (i <= j)%nat ->
  actor (co_lab oi) = Some t -> actor (co_lab oj) = Some t ->
  vle (co_view oi) (co_view oj).
Proof. exact HbCounterProof.counter_program_order. Qed.

(* what the proofs rest on, evaluated on the regenerated inventory *)
Theorem C03_counter_orders :
  (* the decrement is an acq_rel read-modify-write of c->value *)
  has_rel (corder Kcas 103) = true /\ has_acq (corder Kcas 103) = true /\ (forall u, cloc 103 u = LValue) /\
  (* add#1, value#1, wait#1, ready_time#2, dequeue#1: acquire loads of c->value *)
  Forall (fun s => has_acq (corder Kload s) = true /\ forall u, cloc s u = LValue) [101; 201; 301; 402; 601] /\
  (* add#5, ready_time#1, enqueue#2, enqueue#3, dequeue#3: the plain stores of the modelled functions, none to c->value *)
  Forall (fun s => forall u, cloc s u <> LValue) [105; 401; 502; 503; 603].
Proof. exact HbCounterProof.counter_orders. Qed.

(* the checked premise of the V -> P edge: in the futex semaphore every compare-and-swap of nsync_mu_semaphore_v asks
   for release, every compare-and-swap of nsync_mu_semaphore_p and nsync_mu_semaphore_p_with_deadline for acquire
   (sites_nsync_semaphore_futex_c); EvV / EvP are instrumented with exactly these orders *)
Theorem C03_sem_orders : has_rel sem_v_order = true /\ has_acq sem_p_order = true.
Proof. exact HbCounterProof.sem_orders. Qed.

(* the hypotheses are met on the run of CounterProof.example_run (initial value 1; two sleepers, one timing out; the
   add of -1 zeroes the counter at step 22; a late wait returns 0 at step 24 on its first load; the adder returns 0 at
   step 26, which is also its V on thread 0's semaphore; nsync_counter_value returns 0 at step 27; thread 0's P is
   step 28 and its nsync_counter_wait returns 0 at step 32 after dequeueing itself) *)
Example C03_counter_handoff_example :
  let tr := run_hb_counter (CounterModel.init 1 0 CounterProof.ex_progs) chb0 CounterProof.ex_sched in
  exists oi o24 o26 o27 o28 o32,
    nth_error tr 22 = Some oi /\ nth_error tr 24 = Some o24 /\ nth_error tr 26 = Some o26 /\
    nth_error tr 27 = Some o27 /\ nth_error tr 28 = Some o28 /\ nth_error tr 32 = Some o32 /\
    counter_zeroes oi /\ actor (co_lab oi) = Some 1%nat /\
    counter_wait_returns 0 o24 /\ actor (co_lab o24) = Some 3%nat /\
    counter_returns 0 o26 /\ counter_posts 0 o26 /\
    counter_returns 0 o27 /\
    counter_woken 0 o28 /\
    counter_wait_returns 0 o32 /\ actor (co_lab o32) = Some 0%nat.
Proof.
  intros tr.
  assert (H : match nth_error tr 22, nth_error tr 24, nth_error tr 26, nth_error tr 27, nth_error tr 28,
                    nth_error tr 32 with
              | Some oi, Some o24, Some o26, Some o27, Some o28, Some o32 =>
                  counter_zeroes oi /\ actor (co_lab oi) = Some 1%nat /\
                  counter_wait_returns 0 o24 /\ actor (co_lab o24) = Some 3%nat /\
                  counter_returns 0 o26 /\ counter_posts 0 o26 /\
                  counter_returns 0 o27 /\
                  counter_woken 0 o28 /\
                  counter_wait_returns 0 o32 /\ actor (co_lab o32) = Some 0%nat
              | _, _, _, _, _, _ => False
              end).
  { vm_compute.
    repeat match goal with
           | |- _ /\ _ => split
           | |- exists _, _ => eexists
           | |- _ = _ => reflexivity
           end. }
  destruct (nth_error tr 22) as [oi|]; [|contradiction].
  destruct (nth_error tr 24) as [o24|]; [|contradiction].
  destruct (nth_error tr 26) as [o26|]; [|contradiction].
  destruct (nth_error tr 27) as [o27|]; [|contradiction].
  destruct (nth_error tr 28) as [o28|]; [|contradiction].
  destruct (nth_error tr 32) as [o32|]; [|contradiction].
  exists oi, o24, o26, o27, o28, o32. do 6 (split; [reflexivity|]). exact H.
Qed.

(* ------------------------------------------------------------------ *)
(* the note flag (inventory only; the note model is not instrumented)   *)
(* ------------------------------------------------------------------ *)
(* every atomic access to a `notified' flag anywhere in the inventory is a release store or an acquire load: no relaxed
   access, no read-modify-write; in particular the store of note_notify_child and every load that lets a caller
   conclude "notified" *)
Theorem C03_note_flag_orders :
  forallb HbOnceProof.flag_access_ok (filter HbOnceProof.on_notified HbOnceProof.all_sites) = true /\
  has_rel (site_order_in sites_note_c "note_notify_child" 2 Kstore "notified.n") = true /\
  Forall (fun fn => has_acq (site_order_in sites_note_c (fst fn) (snd fn) Kload "notified.n") = true)
         [("note_notify_child", 1%nat); ("notify", 1%nat); ("nsync_note_notified_deadline_", 1%nat);
          ("nsync_note_notified_deadline_", 2%nat); ("note_enqueue", 1%nat); ("note_dequeue", 1%nat)]%string /\
  Forall (fun n => has_acq (site_order_in sites_sem_wait_c "nsync_sem_wait_with_cancel_" n Kload "notified.cancel_note") = true)
         [2%nat; 3%nat].
Proof. exact HbOnceProof.note_flag_orders. Qed.

Print Assumptions C03_once_handoff. Print Assumptions C03_once_orders. Print Assumptions C03_once_handoff_example.
Print Assumptions C03_counter_handoff. Print Assumptions C03_counter_handoff_any.
Print Assumptions C03_counter_wake_handoff. Print Assumptions C03_counter_program_order.
Print Assumptions C03_counter_orders. Print Assumptions C03_sem_orders. Print Assumptions C03_counter_handoff_example.
Print Assumptions C03_note_flag_orders.
