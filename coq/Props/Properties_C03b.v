(* C03 (continued) -- the hand-offs of nsync_run_once and of nsync_counter are happens-before edges under the DECLARED
   memory orders.  Statements only; definitions in Model/HbOnce.v, Model/HbCounter.v (instrumentation of the existing
   executable models OnceModel / CounterModel by vector-clock views, every order and location looked up in the
   regenerated inventory Gen/Sites.v), proofs in Proof/HbOnceProof.v, Proof/HbCounterProof.v.
   The mutex hand-off and the pinned inventory are in Props/Properties_C03.v. *)
From NsyncBase Require Import CSem.
From NsyncGen Require Import Consts Sites.
From NsyncModel Require Import HbModel.
From NsyncModel Require OnceModel CounterModel.
From NsyncModel Require Import HbOnce HbCounter.
From NsyncProof Require OnceProof CounterProof HbOnceProof HbCounterProof.
From Coq Require Import List ZArith String Lia.
Import ListNotations.
Local Open Scope Z_scope.

(* ------------------------------------------------------------------ *)
(* nsync_run_once / _arg / _spin / _arg_spin                           *)
(* ------------------------------------------------------------------ *)
(* For ANY environment e of OnceModel (map from once objects to once_sync slots, termination of the once-functions,
   obtainability of the internal locks), number of threads, programs (calls on any once words, blocking or spinning
   variants) and schedules:
   if step i is the one at which the word of object o takes the value 2 (the winner's ATM_STORE_REL (once, 2)) and step j
   is a step at which a call on o returns (the ghost [returned] of the stepping thread grows: fast-path load in
   nsync_run_once*, first load in nsync_run_once_impl, the wait loop of a spinning call, or the final nsync_mu_unlock of a
   blocking call, whose acquire load of 2 is an earlier step of the same thread), then i < j, and the winner's view just
   before the store and its view after the store are contained in the returning thread's view -- computed from the memory
   orders the source requests at each site, nothing else (the model's abstract steps on once_mu / once_cv are given no
   ordering effect). *)
Theorem C03_once_handoff : forall e progs sched i j oi oj o,
  let tr := run_hb_once (OnceModel.init e progs) ohb0 sched in
  nth_error tr i = Some oi -> nth_error tr j = Some oj ->
  once_publishes o oi -> once_returns o oj ->
  (i < j)%nat /\ vle (ob_pre oi) (ob_view oj) /\ vle (ob_view oi) (ob_view oj).
Proof. exact HbOnceProof.once_handoff. Qed.

(* the same from the step at which the once-function RETURNS to nsync_run_once_impl (OnceModel's f-end step: the ghost
   [completed] flips; the winner makes it before its store of 2, Props/Properties_C07.v C07_order): that step precedes
   every return of a call on o and the winner's view at it -- hence the whole run of the once-function -- is contained in
   the returning thread's view *)
Theorem C03_once_fn_handoff : forall e progs sched i j oi oj o,
  let tr := run_hb_once (OnceModel.init e progs) ohb0 sched in
  nth_error tr i = Some oi -> nth_error tr j = Some oj ->
  once_fn_ends o oi -> once_returns o oj ->
  (i < j)%nat /\ vle (ob_pre oi) (ob_view oj) /\ vle (ob_view oi) (ob_view oj).
Proof. exact HbOnceProof.once_fn_handoff. Qed.

(* program order: what a thread had in its view at an earlier step of its own it still has at a later one *)
Theorem C03_once_program_order : forall sched w h i j oi oj,
  nth_error (run_hb_once w h sched) i = Some oi -> nth_error (run_hb_once w h sched) j = Some oj ->
  (i <= j)%nat -> ob_t oi = ob_t oj -> vle (ob_view oi) (ob_view oj).
Proof. exact HbOnceProof.program_order. Qed.

(* what the proof rests on, evaluated on the regenerated inventory: the store of 2 asks for release; the entry load of
   every one of the four public functions (site 1 = the weakest of the four), impl#1 and impl#5 ask for acquire *)
Theorem C03_once_orders :
  has_rel (once_order_of Kstore 14) = true /\
  Forall (fun s => has_acq (once_order_of Kload s) = true) [1; 11; 15].
Proof. exact HbOnceProof.once_orders. Qed.

(* the hypotheses are met: three callers on one word; thread 0 (blocking) wins, runs the function (f-end is step 11),
   stores 2 (step 14) and returns at its final unlock (step 16); thread 1 (spinning) loses the CAS and returns from the
   wait loop (step 18); thread 2 arrives late and returns on the fast path (step 19) *)
Example C03_once_handoff_example :
  let tr := run_hb_once (OnceModel.init OnceProof.env_mod64 [[(0%nat, false)]; [(0%nat, true)]; [(0%nat, false)]]) ohb0
                        [0; 1; 0; 1; 0; 0; 1; 1; 1; 0; 0; 0; 0; 0; 0; 0; 0; 1; 1; 2]%nat in
  exists oe oi oj0 oj oj',
    nth_error tr 11 = Some oe /\ nth_error tr 14 = Some oi /\ nth_error tr 16 = Some oj0 /\
    nth_error tr 18 = Some oj /\ nth_error tr 19 = Some oj' /\
    once_fn_ends 0 oe /\ once_publishes 0 oi /\ once_returns 0 oj0 /\ once_returns 0 oj /\ once_returns 0 oj' /\
    ob_t oe = 0%nat /\ ob_t oi = 0%nat /\ ob_t oj0 = 0%nat /\ ob_t oj = 1%nat /\ ob_t oj' = 2%nat.
Proof.
  intros tr.
  assert (H : HbOnceProof.opt_holds (nth_error tr 11) (fun oe => HbOnceProof.opt_holds (nth_error tr 14) (fun oi =>
              HbOnceProof.opt_holds (nth_error tr 16) (fun oj0 => HbOnceProof.opt_holds (nth_error tr 18) (fun oj =>
              HbOnceProof.opt_holds (nth_error tr 19) (fun oj' =>
                once_fn_ends 0 oe /\ once_publishes 0 oi /\ once_returns 0 oj0 /\ once_returns 0 oj /\ once_returns 0 oj' /\
                ob_t oe = 0%nat /\ ob_t oi = 0%nat /\ ob_t oj0 = 0%nat /\ ob_t oj = 1%nat /\ ob_t oj' = 2%nat))))))
    by (vm_compute; repeat split; try reflexivity; discriminate).
  apply HbOnceProof.opt_holds_ex in H. destruct H as (oe & E1 & H).
  apply HbOnceProof.opt_holds_ex in H. destruct H as (oi & E2 & H).
  apply HbOnceProof.opt_holds_ex in H. destruct H as (oj0 & E3 & H).
  apply HbOnceProof.opt_holds_ex in H. destruct H as (oj & E4 & H).
  apply HbOnceProof.opt_holds_ex in H. destruct H as (oj' & E5 & H).
  exists oe, oi, oj0, oj, oj'.
  split; [exact E1|]. split; [exact E2|]. split; [exact E3|]. split; [exact E4|]. split; [exact E5|]. exact H.
Qed.

(* ------------------------------------------------------------------ *)
(* nsync_counter                                                       *)
(* ------------------------------------------------------------------ *)
(* For ANY initial value, number of threads, programs and schedules: if step i is the one at which the counter takes
   the value 0 (the model's ghost history grows by 0: the successful ATM_CAS_RELACQ of the nsync_counter_add whose
   decrement zeroes it) and a later step j is one at which a call returns 0 to its caller (the ghost log grows:
   nsync_counter_wait -- ready at once, or woken through nw->waiting / the semaphore and dequeued --,
   nsync_counter_value, nsync_counter_add), then the adder's view at the CAS is contained in the returning thread's
   view.  counter_mu and the interleaving get no ordering credit. *)
Theorem C03_counter_handoff : forall v0 c0 progs sched i j oi oj,
  let tr := run_hb_counter (CounterModel.init v0 c0 progs) chb0 sched in
  nth_error tr i = Some oi -> nth_error tr j = Some oj -> (i < j)%nat ->
  counter_zeroes oi -> counter_returns 0 oj ->
  vle (co_view oi) (co_view oj).
Proof. exact HbCounterProof.counter_handoff. Qed.

(* more than the property asks: EVERY change of the counter happens before EVERY later return of any call, whatever
   the values (each call's last access to c->value is an acquire load or the acq_rel CAS, and all writes to c->value
   in the modelled functions are acq_rel read-modify-writes, so release sequences are never cut) *)
Theorem C03_counter_handoff_any : forall v0 c0 progs sched i j oi oj y x,
  let tr := run_hb_counter (CounterModel.init v0 c0 progs) chb0 sched in
  nth_error tr i = Some oi -> nth_error tr j = Some oj -> (i < j)%nat ->
  CounterModel.hist (co_w' oi) = y :: CounterModel.hist (co_w oi) -> counter_returns x oj ->
  vle (co_view oi) (co_view oj).
Proof. exact HbCounterProof.counter_handoff_any. Qed.

(* THE WAKE-UP EDGE.  For ANY initial value, number of threads, programs and schedules: if step i is nsync_counter_add's
   ATM_STORE_REL (&nw->waiting, 0) (counter.c:76, site add#5) on the waiter record of thread u, popped from c->waiters,
   and step j is thread u's FIRST ATM_LOAD_ACQ (&nw->waiting) in counter_dequeue (counter.c:136, site dequeue#2) after
   it, then that load reads the 0 the adder stored and the adder's view at the store is contained in the waiter's view
   after the load.  Credited to the release order of add#5 and the acquire order of dequeue#2 ONLY (both looked up in
   the regenerated inventory): not to counter_mu, not to the interleaving, not to the sleeping primitive -- the
   semaphore locations of the instrumentation play no part in the proof, which rests on the PROVED invariant that
   c->waiters has no duplicates and that its members are threads inside nsync_wait_n whose flag is set, so that between
   i and j nobody stores to that flag (the other stores to a `waiting' flag, all relaxed: wait.c:54, enqueue#2/#3,
   dequeue#3, are by the owner of the record, which is past / before them; other adders pop only records on the list). *)
Theorem C03_counter_wake_handoff : forall v0 c0 progs sched i j oi oj u,
  let tr := run_hb_counter (CounterModel.init v0 c0 progs) chb0 sched in
  nth_error tr i = Some oi -> nth_error tr j = Some oj -> (i < j)%nat ->
  counter_wakes u oi -> counter_dequeue_load u oj ->
  (forall k ok, (i < k < j)%nat -> nth_error tr k = Some ok -> ~ counter_dequeue_load u ok) ->
  co_ev oj = CounterModel.EvLoad 602 0 /\ vle (co_view oi) (co_view oj).
Proof. exact HbCounterProof.counter_wake_handoff. Qed.

(* SECONDARY -- futex flavour only: credits the compare-and-swap orders of platform/linux/src/nsync_semaphore_futex.c;
   NOT part of the C03 claim, which credits nothing to the sleeping primitive; other semaphore flavours (mutex/condvar,
   sem_t) have no such sites.
   The adder's view at nsync_mu_semaphore_v on thread u's waiter is contained in thread u's view at every later
   successful nsync_mu_semaphore_p_with_deadline. *)
Theorem C03_counter_sem_handoff : forall v0 c0 progs sched i j oi oj u,
  let tr := run_hb_counter (CounterModel.init v0 c0 progs) chb0 sched in
  nth_error tr i = Some oi -> nth_error tr j = Some oj -> (i < j)%nat ->
  counter_posts u oi -> counter_woken u oj ->
  vle (co_view oi) (co_view oj).
Proof. exact HbCounterProof.counter_sem_handoff. Qed.

(* program order: what a thread had in its view at an earlier step of its own (e.g. the first step of the
   nsync_counter_add call) it still has at a later one (e.g. the CAS); chains with the theorems above *)
Theorem C03_counter_program_order : forall v0 c0 progs sched i j oi oj t,
  let tr := run_hb_counter (CounterModel.init v0 c0 progs) chb0 sched in
  nth_error tr i = Some oi -> nth_error tr j = Some oj -> (i <= j)%nat ->
  actor (co_lab oi) = Some t -> actor (co_lab oj) = Some t ->
  vle (co_view oi) (co_view oj).
Proof. exact HbCounterProof.counter_program_order. Qed.

(* what the proofs rest on, evaluated on the regenerated inventory *)
Theorem C03_counter_orders :
  (* the decrement is an acq_rel read-modify-write of c->value *)
  has_rel (corder Kcas 103) = true /\ has_acq (corder Kcas 103) = true /\ (forall u, cloc 103 u = LValue) /\
  (* add#1, value#1, wait#1, ready_time#2, dequeue#1: acquire loads of c->value *)
  Forall (fun s => has_acq (corder Kload s) = true /\ forall u, cloc s u = LValue) [101; 201; 301; 402; 601] /\
  (* add#5, ready_time#1, enqueue#2, enqueue#3, dequeue#3: the plain stores of the modelled functions, none to c->value *)
  Forall (fun s => forall u, cloc s u <> LValue) [105; 401; 502; 503; 603] /\
  (* the wake-up edge: add#5 is a RELEASE store to nw->waiting of the popped record, dequeue#2 an ACQUIRE load of the
     caller's own nw->waiting *)
  has_rel (corder Kstore 105) = true /\ (forall u, cloc 105 u = LWaiting u) /\
  has_acq (corder Kload 602) = true /\ (forall u, cloc 602 u = LWaiting u) /\
  (* the other stores to a `waiting' flag (enqueue#2, enqueue#3, dequeue#3; all relaxed, the proof does not use their
     order) are to the record of the thread the event names; ready_time#1 is to c->waited *)
  Forall (fun s => forall u, cloc s u = LWaiting u) [502; 503; 603] /\
  (forall u, cloc 401 u = LWaited).
Proof. exact HbCounterProof.counter_orders. Qed.

(* FUTEX FLAVOUR ONLY (secondary; premise of C03_counter_sem_handoff, not of the C03 claim): in the futex semaphore
   every compare-and-swap of nsync_mu_semaphore_v asks for release, every compare-and-swap of nsync_mu_semaphore_p and
   nsync_mu_semaphore_p_with_deadline for acquire (sites_nsync_semaphore_futex_c); EvV / EvP are instrumented with
   exactly these orders.  The mutex/condvar and sem_t flavours of the semaphore have no such sites. *)
Theorem C03_sem_orders : has_rel sem_v_order = true /\ has_acq sem_p_order = true.
Proof. exact HbCounterProof.sem_orders. Qed.

(* the hypotheses are met on the run of CounterProof.example_run (initial value 1; two sleepers, one timing out; the
   add of -1 zeroes the counter at step 22; a late wait returns 0 at step 24 on its first load; the adder's
   ATM_STORE_REL (&nw->waiting, 0) on thread 0's record is step 25; the adder returns 0 at step 26, which is also its V
   on thread 0's semaphore; nsync_counter_value returns 0 at step 27; thread 0's P is step 28, and its
   nsync_counter_wait returns 0 at step 32, which is its ATM_LOAD_ACQ (&nw->waiting) in counter_dequeue -- its first
   one after step 25) *)
Example C03_counter_handoff_example :
  let tr := run_hb_counter (CounterModel.init 1 0 CounterProof.ex_progs) chb0 CounterProof.ex_sched in
  exists oi o24 o25 o26 o27 o28 o32,
    nth_error tr 22 = Some oi /\ nth_error tr 24 = Some o24 /\ nth_error tr 25 = Some o25 /\
    nth_error tr 26 = Some o26 /\
    nth_error tr 27 = Some o27 /\ nth_error tr 28 = Some o28 /\ nth_error tr 32 = Some o32 /\
    counter_zeroes oi /\ actor (co_lab oi) = Some 1%nat /\
    counter_wait_returns 0 o24 /\ actor (co_lab o24) = Some 3%nat /\
    counter_wakes 0 o25 /\ actor (co_lab o25) = Some 1%nat /\
    counter_returns 0 o26 /\ counter_posts 0 o26 /\
    counter_returns 0 o27 /\
    counter_woken 0 o28 /\
    counter_wait_returns 0 o32 /\ actor (co_lab o32) = Some 0%nat /\
    counter_dequeue_load 0 o32 /\
    (forall k ok, (25 < k < 32)%nat -> nth_error tr k = Some ok -> ~ counter_dequeue_load 0 ok).
Proof.
  intros tr.
  assert (H : match nth_error tr 22, nth_error tr 24, nth_error tr 25, nth_error tr 26, nth_error tr 27,
                    nth_error tr 28, nth_error tr 32 with
              | Some oi, Some o24, Some o25, Some o26, Some o27, Some o28, Some o32 =>
                  counter_zeroes oi /\ actor (co_lab oi) = Some 1%nat /\
                  counter_wait_returns 0 o24 /\ actor (co_lab o24) = Some 3%nat /\
                  counter_wakes 0 o25 /\ actor (co_lab o25) = Some 1%nat /\
                  counter_returns 0 o26 /\ counter_posts 0 o26 /\
                  counter_returns 0 o27 /\
                  counter_woken 0 o28 /\
                  counter_wait_returns 0 o32 /\ actor (co_lab o32) = Some 0%nat /\
                  counter_dequeue_load 0 o32
              | _, _, _, _, _, _, _ => False
              end).
  { vm_compute.
    repeat match goal with
           | |- _ /\ _ => split
           | |- exists _, _ => eexists
           | |- _ = _ => reflexivity
           end. }
  assert (N : forall k ok, (25 < k < 32)%nat -> nth_error tr k = Some ok -> ~ counter_dequeue_load 0 ok).
  { intros k ok Hk Hn (x & E & _).
    assert (K : (k = 26 \/ k = 27 \/ k = 28 \/ k = 29 \/ k = 30 \/ k = 31)%nat) by lia.
    apply (map_nth_error co_ev) in Hn. rewrite E in Hn.
    destruct K as [-> | [-> | [-> | [-> | [-> | ->]]]]]; vm_compute in Hn; discriminate Hn. }
  destruct (nth_error tr 22) as [oi|]; [|contradiction].
  destruct (nth_error tr 24) as [o24|]; [|contradiction].
  destruct (nth_error tr 25) as [o25|]; [|contradiction].
  destruct (nth_error tr 26) as [o26|]; [|contradiction].
  destruct (nth_error tr 27) as [o27|]; [|contradiction].
  destruct (nth_error tr 28) as [o28|]; [|contradiction].
  destruct (nth_error tr 32) as [o32|]; [|contradiction].
  exists oi, o24, o25, o26, o27, o28, o32. do 7 (split; [reflexivity|]).
  repeat (split; [apply H|]). exact N.
Qed.

(* the wake-up edge WITHOUT the semaphore (so that nothing but nw->waiting can carry it): the waiter (thread 0) is
   between its counter_ready_time store and load when the adder (thread 1) zeroes the counter (step 6) and clears the
   flag (step 7, adder's clock 3); the waiter then sees 0 (step 8), leaves the loop WITHOUT P (no P anywhere in the run)
   and, once the adder has left (step 9), dequeues: its load of nw->waiting is step 11 and its view then has the
   adder's clock 3 -- the acquire loads of c->value (steps 8, 10) only gave it the adder's clock at the CAS, 2 *)
Example C03_counter_wake_example :
  let tr := run_hb_counter (CounterModel.init 1 0 [[CounterModel.Wait None]; [CounterModel.Add (-1)]]) chb0
              (map CounterModel.LStep [0; 0; 0; 0; 0; 1; 1; 1; 0; 1; 0; 0]%nat) in
  exists o7 o10 o11,
    nth_error tr 7 = Some o7 /\ nth_error tr 10 = Some o10 /\ nth_error tr 11 = Some o11 /\
    counter_wakes 0 o7 /\ actor (co_lab o7) = Some 1%nat /\ co_view o7 1%nat = 3 /\
    actor (co_lab o10) = Some 0%nat /\ co_view o10 1%nat = 2 /\
    counter_dequeue_load 0 o11 /\ co_view o11 1%nat = 3 /\ counter_wait_returns 0 o11 /\
    Forall (fun e => e <> CounterModel.EvP) (map co_ev tr).
Proof.
  intros tr.
  assert (H : match nth_error tr 7, nth_error tr 10, nth_error tr 11 with
              | Some o7, Some o10, Some o11 =>
                  counter_wakes 0 o7 /\ actor (co_lab o7) = Some 1%nat /\ co_view o7 1%nat = 3 /\
                  actor (co_lab o10) = Some 0%nat /\ co_view o10 1%nat = 2 /\
                  counter_dequeue_load 0 o11 /\ co_view o11 1%nat = 3 /\ counter_wait_returns 0 o11
              | _, _, _ => False
              end).
  { vm_compute.
    repeat match goal with
           | |- _ /\ _ => split
           | |- exists _, _ => eexists
           | |- _ = _ => reflexivity
           end. }
  assert (F : Forall (fun e => e <> CounterModel.EvP) (map co_ev tr)).
  { vm_compute. repeat constructor; discriminate. }
  destruct (nth_error tr 7) as [o7|]; [|contradiction].
  destruct (nth_error tr 10) as [o10|]; [|contradiction].
  destruct (nth_error tr 11) as [o11|]; [|contradiction].
  exists o7, o10, o11. do 3 (split; [reflexivity|]).
  repeat (split; [apply H|]). exact F.
Qed.

(* ------------------------------------------------------------------ *)
(* the note flag (inventory only; the note model is not instrumented)   *)
(* ------------------------------------------------------------------ *)
(* every atomic access to a `notified' flag anywhere in the inventory is a release store or an acquire load: no relaxed
   access, no read-modify-write; in particular the store of note_notify_child and every load that lets a caller
   conclude "notified" *)
Theorem C03_note_flag_orders :
  forallb HbOnceProof.flag_access_ok (filter HbOnceProof.on_notified HbOnceProof.all_sites) = true /\
  has_rel (site_order_in sites_note_c "note_notify_child" 2 Kstore "notified.n") = true /\
  Forall (fun fn => has_acq (site_order_in sites_note_c (fst fn) (snd fn) Kload "notified.n") = true)
         [("note_notify_child", 1%nat); ("notify", 1%nat); ("nsync_note_notified_deadline_", 1%nat);
          ("nsync_note_notified_deadline_", 2%nat); ("note_enqueue", 1%nat); ("note_dequeue", 1%nat)]%string /\
  Forall (fun n => has_acq (site_order_in sites_sem_wait_c "nsync_sem_wait_with_cancel_" n Kload "notified.cancel_note") = true)
         [2%nat; 3%nat].
Proof. exact HbOnceProof.note_flag_orders. Qed.

Print Assumptions C03_once_handoff. Print Assumptions C03_once_fn_handoff. Print Assumptions C03_once_program_order.
Print Assumptions C03_once_orders. Print Assumptions C03_once_handoff_example.
Print Assumptions C03_counter_handoff. Print Assumptions C03_counter_handoff_any.
Print Assumptions C03_counter_wake_handoff. Print Assumptions C03_counter_sem_handoff.
Print Assumptions C03_counter_program_order.
Print Assumptions C03_counter_orders. Print Assumptions C03_sem_orders. Print Assumptions C03_counter_handoff_example.
Print Assumptions C03_counter_wake_example.
Print Assumptions C03_note_flag_orders.
