(* C09 (continued) -- no call of note.c gets stuck: the full statement C09_no_stuck_full of Properties_C09.v, proved.
   Theorems about Model/NoteModel.v (internal/note.c at the repaired code, with the `adoptions` counter of the F11 repair; any
   number of threads, any tree of notes, any programs, any schedule, any clock).  Statements only; proofs in
   Proof/NoteProof8.v (the invariant InvS), NoteProof9.v and NoteProof10.v (InvS is inductive), NoteProof11.v (the ranking
   argument), NoteProof12.v (assembly).

   How the proof goes.  C09_no_stuck_partial (Properties_C09.v) leaves the four nsync_mu_wait conditions of note.c.
   (i)  n->disconnecting > 0 is always accounted to a thread that is inside notify (n) / note_notify_child (.., n ..) /
        nsync_note_free (n) between the increment and the decrement (C09_disc_accounted; tcount is the number of such
        program points of the thread's call stack, NoteProof2.v).
   (ii) While a thread sleeps in "no children" of n (note_notify_child, C8) or in children_changed of n (nsync_note_free, F10)
        with n->adoptions unchanged, every child c of n has c->disconnecting > 0 (C09_children_accounted): the loop over
        the children has either disconnected c itself or found somebody disconnecting it, nothing is linked under a notified
        note, and a late adoption under a note being freed moves n->adoptions (the F11 repair), which makes the sleeper's
        condition true.  A thread lowers c->disconnecting only after c has left its parent's list.
   (iii) Ranks: 0 for the wait on disconnecting == 0 (such a thread holds nothing), 2n+1 for the two child waits on n, 2y+2
        for a blocking lock of y.  The holder of y's lock is blocked only at a rank > 2y+2 (locks are taken in id order; a
        sleeper in a child wait on n holds only locks of proper ancestors of n); the thread counted in c->disconnecting is
        blocked only at a rank > 2p+1 for c's parent p (it waits for p's lock, c's lock, locks or child waits of descendants
        of c).  Note ids grow from parent to child and are bounded by the allocation counter, so following the responsible
        threads ends at one that can take a step. *)
From NsyncBase Require Import CSem.
From NsyncGen Require Import Consts Sites.
From NsyncModel Require Import NoteModel.
From NsyncProof Require Import NoteProof NoteProof2 NoteProof3 NoteProof4 NoteProof7 NoteProof8 NoteProof11 NoteProof12.
From NsyncProps Require Import Properties_C09.
From Coq Require Import List ZArith.
Import ListNotations.
Local Open Scope Z_scope.

(* ---- the full statement: in every reachable state of a contract-abiding client in which some thread is inside a call (or
        has calls left) and is not legitimately asleep in nsync_note_wait's semaphore wait, some thread can take a step ---- *)
Theorem C09_no_stuck_full_proved : C09_no_stuck_full.
Proof. exact no_stuck_full. Qed.

(* ---- (i) the disconnecting count of a note is accounted to a thread ---- *)
Theorem C09_disc_accounted : forall w x,
  reachable w -> broken (gh w) = false -> (x < nnext w)%nat -> (0 < disc (nt w x))%nat -> exists t, (tcount w t x >= 1)%nat.
Proof. exact disc_accounted. Qed.

(* ---- (ii) every child of a note whose notifier / freer sleeps in the child wait is being disconnected by somebody ---- *)
Theorem C09_children_accounted : forall w t n rest,
  reachable w -> broken (gh w) = false ->
  (forall par, stk w t = FC n par C8 :: rest -> forall c, In c (children (nt w n)) -> (0 < disc (nt w c))%nat) /\
  (forall par seen, stk w t = FF n (F10 seen) par :: rest -> adoptions (nt w n) = seen ->
                    forall c, In c (children (nt w n)) -> (0 < disc (nt w c))%nat).
Proof. exact children_accounted. Qed.

(* ---- (iii) the two "responsible thread" steps of the ranking argument ---- *)
Theorem C09_lock_holder_rank : forall w, reachable w -> broken (gh w) = false ->
  forall y h, lock (nt w y) = Some h ->
  progress w \/ exists f rest v, stk w h = f :: rest /\ wrank f = Some v /\ (2 * y + 2 < v)%nat /\ (v < rank_bound w)%nat.
Proof. exact lock_holder_rank. Qed.
Theorem C09_disc_holder_rank : forall w, reachable w -> broken (gh w) = false ->
  forall x r, (tcount w r x >= 1)%nat ->
  progress w \/ exists f rest v, stk w r = f :: rest /\ wrank f = Some v /\ (1 <= v)%nat /\ (v < rank_bound w)%nat /\
                                 forall p, parent (nt w x) = Some p -> (2 * p + 1 < v)%nat.
Proof. exact disc_holder_rank. Qed.

Print Assumptions C09_no_stuck_full_proved.
Print Assumptions C09_disc_accounted.
Print Assumptions C09_children_accounted.
Print Assumptions C09_lock_holder_rank.
Print Assumptions C09_disc_holder_rank.
