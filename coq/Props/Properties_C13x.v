(* C13, first sentence, over the COMBINED model -- mutex WITH condition-variable traffic:
     "A release of an nsync_mu makes no access to the mutex after the point at which another thread can acquire it, so a
      thread that learns under the lock that it is the last user may free the memory holding the mutex as soon as its own
      unlock returns."
   Properties_C13r proves this over the condition-free MuModel, where "MU_WAITING set => queue non-empty" holds trivially.
   With cv traffic that lemma was FALSE of the code before commit 0f631a1 (finding F15: wake_waiters set MU_WAITING and
   transferred nobody) -- refuted below on the old step -- and is a theorem of the repaired code
   (Properties_C01x.C04x_waiting_only_if_queued; here C13x_release_has_waiter).

   Model/MuXRefModel.v wraps Model/MuXferModel.v (MuModel = mu.c site by site, plus nsync_cv_wait with the transfer,
   nsync_cv_signal / broadcast / wake_waiters, nsync_wait_n records on the cv; validated against the real code by
   lock-step replay, replay/muxfer_replay.ml): world = that world + refs + ghost freed + ghost bad + client pc
   (Pre / Dec last / Done / NonUser) per thread.  The cv is NOT part of the freed object; the mutex word and queue are.
   USER threads: ANY program of lock / rlock / trylock / unlock / nsync_cv_wait (either mode) / nsync_wait_n (with the mutex
   or without) / nsync_cv_signal / nsync_cv_broadcast (under either lock or none); a thread decrements when it holds the lock
   in write mode and all that is left is the unlock, and frees if it was last when that unlock has returned.
   NON-USER threads (no reference): any sequence of nsync_wait_n (NULL, ..., {cv}), nsync_cv_signal, nsync_cv_broadcast.
   [bad] is set when, after [freed], any thread takes a step that accesses mu->word or mu->waiters ([xtouches_mu]: a MuModel step
   at a pc with touches_mu, the load of the mutex word in nsync_cv_wait, wake_waiters' loads / CASes / transfer), when refs is
   decremented again, or when free is called again.  Statements only; proofs in Proof/MuXRefProof.v, MuXRefProof2.v. *)
From NsyncBase Require Import CSem.
From NsyncGen Require Import Consts Sites.
From NsyncModel Require Import MuModel MuSpec MuXferModel MuXRefModel.
From NsyncProof Require Import MuXferProof2 MuXferProof4 MuXferProof9 MuXRefProof MuXRefProof2.
From Coq Require Import List ZArith Bool.
Import ListNotations.
Local Open Scope Z_scope.

(* THE THEOREM.  Any number of threads (< 2^24 - 1, the width of the reader count), any programs of that shape, any
   schedule, any choice of timeouts / deadlines / early exits, any foreign posts on the semaphores: nothing touches the
   mutex (or refs) after the free, and the free happens once. *)
Theorem C13x_no_touch_after_free : forall progs sched,
  Z.of_nat (length progs) < 2 ^ 24 - 1 ->
  bad (rxrun (rxinit progs) sched) = false.
Proof. exact no_touch_after_free_x. Qed.

(* [xtouches_mu] does not miss a write: a step with step_touches = false leaves mu->word and mu->waiters as they were (that it
   does not READ them either is visible in MuXferModel.xstep_thr, branch by branch: the table at the definition) *)
Theorem C13x_touches_mu_sound : forall x t c, step_touches x t = false ->
  word (mw (fst (xstep_thr x t c))) = word (mw x) /\ queue (mw (fst (xstep_thr x t c))) = queue (mw x).
Proof. exact xtouches_mu_sound. Qed.

(* the key lemma, where MuRefProof used MuProof2.QInv: a thread inside nsync_mu_unlock_slow_ that has taken the spinlock --
   the early-release window (UsRelLoad / UsRelCas: lock bit given away, spinlock still owned) included -- has somebody on its
   wake list: it entered because MU_WAITING was set with the spinlock free, and that means a non-empty queue
   (C04x_waiting_only_if_queued).  The waiter on the list is parked on the mutex (in nsync_mu_lock_slow_, or a transferred cv
   waiter) and has not decremented yet: it owns a reference. *)
Theorem C13x_release_has_waiter : forall progs sched t,
  Z.of_nat (length progs) < 2 ^ 24 - 1 ->
  let xw := xrun (xinit progs) sched in
  match t_pc (get (mw xw) t) with UsRelLoad _ u | UsRelCas _ u _ => wake u <> [] | _ => True end.
Proof. exact release_has_waiter. Qed.

(* what the free step is: taken by a thread that computed last = true under the lock, when its own nsync_mu_unlock has
   RETURNED (between calls, no call left); it changes nothing of the models *)
Theorem C13x_free_step : forall w t c, freed w = false -> freed (rxstep_thr w t c) = true ->
  phase_of w t = Dec true /\ x_pc (xget (xw w) t) = XIdle /\ x_ops (xget (xw w) t) = [] /\
  t_pc (get (mw (xw w)) t) = Idle /\ t_ops (get (mw (xw w)) t) = [] /\ xw (rxstep_thr w t c) = xw w.
Proof. exact free_step_x. Qed.

(* the state behind the theorem: from the free on nobody owns a reference; the mutex queue is empty; every user is between
   calls for good, crashed, or in the post-last-CAS tail of nsync_mu_unlock_slow_ (waiter records and semaphores only);
   every thread that owns no reference is outside the part of wake_waiters that works on the mutex -- and cannot get there:
   only nsync_wait_n records are left on the cv queue or on a to_wake_list (no native and no generic-interface waiter), so pmu = NULL whenever it wakes somebody *)
Theorem C13x_tail_after_free : forall progs sched,
  Z.of_nat (length progs) < 2 ^ 24 - 1 ->
  let w := rxrun (rxinit progs) sched in
  freed w = true ->
  refs w = 0 /\ queue (mw (xw w)) = [] /\
  (forall f, In f (cvq (xw w)) \/ (exists u, In f (kws (xw w) u)) -> xn_rec (x_pc (xget (xw w) f)) = true) /\
  forall t, phase_of w t <> Pre /\
            (phase_of w t <> NonUser ->
               x_pc (xget (xw w) t) = XIdle /\ x_ops (xget (xw w) t) = [] /\ t_ops (get (mw (xw w)) t) = [] /\
               match t_pc (get (mw (xw w)) t) with Idle | Crash _ | UsWakeStore _ _ | UsWakeV _ _ _ => True | _ => False end) /\
            (phase_of w t = NonUser -> nu_ok (xw w) t /\ xtouches_mu (x_pc (xget (xw w) t)) Idle = false).
Proof. exact tail_after_free_x. Qed.

(* ---------- non-vacuity ---------- *)
(* the early-release window with cv traffic: users 0, 1, 2, thread 3 owns no reference; 1 waits on the cv, 3 waits through
   nsync_wait_n; 0 locks, broadcasts (1 is TRANSFERRED to the mutex queue, 3's record is woken directly) and unlocks through
   nsync_mu_unlock_slow_: at UsRelLoad (lock bit given away, spinlock owned) the transferred cv waiter 1, parked in nsync_cv_wait,
   is on 0's wake list and still owns its reference *)
Example C13x_window_example :
  let w := rxrun (rxinit cvt_progs) cvt_s1 in
  (exists m u, t_pc (get (mw (xw w)) 0%nat) = UsRelLoad m u /\ wake u = [1%nat]) /\ held (get (mw (xw w)) 0%nat) = None /\
  xferred (xw w) 1%nat = true /\ (exists l, x_pc (xget (xw w) 1%nat) = XwSem l) /\
  ph w = [Pre; Pre; Pre; NonUser] /\ refs w = 3 /\ freed w = false.
Proof. exact window_example_x. Qed.

(* ... the run goes on to the free (by thread 2) while thread 3 is still inside nsync_wait_n with its nsync_cv_signal to do: it
   finishes both AFTER the free, [bad] stays false *)
Example C13x_after_free_example :
  let w1 := rxrun (rxrun (rxinit cvt_progs) cvt_s1) cvt_s2 in
  let w2 := rxrun w1 cvt_s3 in
  (freed w1 = true /\ bad w1 = false /\ refs w1 = 0 /\ ph w1 = [Done; Done; Done; NonUser] /\ word (mw (xw w1)) = 0 /\
   (exists om, x_pc (xget (xw w1) 3%nat) = XnSem om) /\ x_ops (xget (xw w1) 3%nat) = [XSignal]) /\
  (bad w2 = false /\ x_pc (xget (xw w2) 3%nat) = XIdle /\ x_ops (xget (xw w2) 3%nat) = [] /\ cvq (xw w2) = []).
Proof. exact after_free_example_x. Qed.

(* ---------- the regression: the code before 0f631a1 ---------- *)
(* [rxrun_old]: the same wrapper over [xstep_thr_old], which is xstep_thr except that wake_waiters' release never clears
   MU_WAITING (Proof/MuXRefProof2.v; it coincides with xstep_thr at every step but wake_waiters' acquiring CAS:
   C13x_old_step_elsewhere).  The theorem is FALSE of it: *)
Theorem C13x_old_step_elsewhere : forall x t c,
  (forall k old, x_pc (xget (xbegin x t) t) <> XvCas1 k old) -> xstep_thr_old x t c = xstep_thr x t c.
Proof. exact old_step_elsewhere. Qed.

Theorem C13x_old_code_refuted : exists progs sched,
  Z.of_nat (length progs) < 2 ^ 24 - 1 /\ bad (rxrun_old (rxinit progs) sched) = true.
Proof. exact old_code_refuted. Qed.

(* the witness is the F15 schedule of harness/scen/refcount_cv.c (users A, Y, D, T2; Z waits through nsync_wait_n and owns
   no reference): after A's broadcast under a read lock the OLD code leaves MU_WAITING set over an empty queue with the
   spinlock free ... *)
Theorem C13x_f15_old_stale_bit :
  let w := rxrun_old (rxinit f15r_progs) (firstn (6 + 3 + 1 + 8 + 20) f15r_sched) in
  has (word (mw (xw w))) MU_WAITING = true /\ has (word (mw (xw w))) MU_SPINLOCK = false /\ queue (mw (xw w)) = [].
Proof. exact f15_old_stale_bit. Qed.

(* ... D's unlock therefore enters nsync_mu_unlock_slow_ and gives the lock away early with an EMPTY wake list; T2 then takes
   the lock, drops the last reference, unlocks and frees; D's next step (its load of the word, UsRelLoad) is a use after free *)
Theorem C13x_f15_old_window :
  let w := rxrun_old (rxinit f15r_progs) (removelast f15r_sched) in
  freed w = true /\ bad w = false /\ refs w = 0 /\ queue (mw (xw w)) = [] /\
  (exists m u, t_pc (get (mw (xw w)) 2%nat) = UsRelLoad m u /\ wake u = []) /\
  step_touches (xw w) 2%nat = true.
Proof. exact f15_old_window. Qed.

Theorem C13x_f15_old_bad : bad (rxrun_old (rxinit f15r_progs) f15r_sched) = true.
Proof. exact f15_old_bad. Qed.

(* the SAME schedule under the repaired step: harmless (D's unlock takes the uncontended path; everybody finishes) *)
Theorem C13x_f15_schedule_repaired :
  let w := rxrun (rxinit f15r_progs) f15r_sched in
  bad w = false /\ freed w = true /\ refs w = 0 /\ word (mw (xw w)) = 0 /\ queue (mw (xw w)) = [] /\
  ph w = [Done; Done; Done; Done; NonUser].
Proof. exact f15_repaired_ok. Qed.

Print Assumptions C13x_no_touch_after_free.
Print Assumptions C13x_touches_mu_sound.
Print Assumptions C13x_release_has_waiter.
Print Assumptions C13x_window_example.
Print Assumptions C13x_after_free_example.
Print Assumptions C13x_free_step.
Print Assumptions C13x_tail_after_free.
Print Assumptions C13x_old_step_elsewhere.
Print Assumptions C13x_old_code_refuted.
Print Assumptions C13x_f15_old_stale_bit.
Print Assumptions C13x_f15_old_window.
Print Assumptions C13x_f15_old_bad.
Print Assumptions C13x_f15_schedule_repaired.
