(* C12 — the per-thread semaphore never loses a post.
   Theorems about Model/SemModel.v (the futex semaphore over a modelled kernel futex
   with adversarial early returns).  Statements only; proofs in Proof/SemProof.v. *)
From NsyncBase Require Import CSem.
From NsyncGen Require Import Consts Sites Time.
From NsyncModel Require Import SemModel.
From NsyncProof Require Import SemProof.
From Coq Require Import List ZArith.
Import ListNotations.
Local Open Scope Z_scope.

Section C12.
  Variable prog : list (option tm).       (* the owner's calls: None = P, Some d = P_with_deadline d *)
  Variable posts : list nat.              (* number of V calls of each poster: any number of posters *)
  Variable clock0 : Z.
  Variable sched : list (actor * choice). (* any interleaving, any placement of EINTR / early-ETIMEDOUT returns *)
  Hypothesis Hposts : total_posts posts < 2 ^ 31.   (* the count fits the int futex word *)
  Let w := run (init prog posts clock0) sched.

  (* the word is exactly #V - #P (successful CASes) and never negative *)
  Theorem C12_count : word w = nV w - nP w /\ 0 <= word w.
  Proof. exact (count_reachable prog posts clock0 sched Hposts). Qed.

  (* count conservation over the WORD.  [ret0 w] is the number of calls in the log of returns [rets w] whose
     result is 0 (the log is appended to where a call returns, not where a counter is bumped);
     [posts_pending w] is read off the posters' program counters (V calls whose CAS has not succeeded yet).
     Every one of the posters' V calls is still pending, or sits in the word, or was consumed by a call that
     returned 0: a wait never returns 0 without a post, and no post disappears. *)
  Theorem C12_conservation :
    ret0 w + word w + posts_pending w = total_posts posts /\ 0 <= word w /\ 0 <= posts_pending w /\ 0 <= ret0 w.
  Proof. exact (conservation_reachable prog posts clock0 sched Hposts). Qed.

  (* the same against the ghost count of successful V CASes: posts made = successful Ps + current count;
     so the number of 0-returns never exceeds the number of V's whose CAS succeeded *)
  Theorem C12_no_free_lunch : nV w = ret0 w + word w /\ ret0 w <= nV w /\ nV w <= total_posts posts.
  Proof. exact (no_free_lunch_reachable prog posts clock0 sched Hposts). Qed.

  (* ETIMEDOUT is reported only at or after the deadline, whatever the kernel returned early.
     The clock is READ in one step of the model (value rd, logged) and compared with the deadline in a LATER
     step (translated nsync_time_cmp of Gen/Time.v on the logged value): for every call in the log that
     returned ETIMEDOUT, its argument d is a deadline of the program, the C comparison  cmp (d, rd) <= 0  held
     for a value rd that was read from the clock during that call (not before its first step, not after now),
     and for a normalized deadline that is  d <= rd <= clock  as instants.  No hypothesis on the program. *)
  Theorem C12_timeout_sound : forall e rd, In e (rets w) -> ce_res e = ResTimedOut rd ->
    exists d, ce_arg e = Some d /\ In (Some d) prog /\
      nsync_time_cmp (to_ts d) (to_ts rd) <= 0 /\ normalized rd /\
      ce_begin e <= tm_ns rd <= clock w /\
      (normalized d -> tm_ns d <= tm_ns rd).
  Proof. exact (timeout_sound_reachable prog posts clock0 sched). Qed.

  (* the form about the result the caller has just seen *)
  Theorem C12_last_timeout : SemModel.last w = RTimedOut ->
    exists e l d rd, rets w = e :: l /\ ce_arg e = Some d /\ ce_res e = ResTimedOut rd /\ In (Some d) prog /\
      nsync_time_cmp (to_ts d) (to_ts rd) <= 0 /\ normalized rd /\
      ce_begin e <= tm_ns rd <= clock w /\
      (normalized d -> tm_ns d <= tm_ns rd).
  Proof. exact (last_timeout_reachable prog posts clock0 sched). Qed.

  (* the log of returns follows the program: completed calls, the current one (if any), the remaining ones *)
  Theorem C12_log_faithful : exists cur, (length cur <= 1)%nat /\ (owner w = OIdle -> cur = []) /\
    rev (map ce_arg (rets w)) ++ cur ++ oprog w = prog.
  Proof. exact (log_faithful_reachable prog posts clock0 sched). Qed.

  (* no lost post: whenever the owner sleeps in the kernel, the count is 0 or a poster is about to wake it *)
  Theorem C12_no_lost_post : owner_asleep w = true -> word w = 0 \/ pending_wake w.
  Proof. exact (no_lost_post_reachable prog posts clock0 sched Hposts). Qed.

  (* normalized deadlines (any seconds value) never make the kernel reject the timespec (no ASSERT failure) *)
  Theorem C12_no_crash : prog_ok prog -> owner w <> OCrash.
  Proof. exact (no_crash_reachable prog posts clock0 sched). Qed.
End C12.

(* a post makes a PRESENT wait return: from any reachable world with a positive count and the owner inside a
   call and not asleep in the kernel, the owner running alone (kernel behaving normally) completes the call within
   4 steps; it returns 0 and takes one post -- except that a call which the kernel has already told ETIMEDOUT and
   which is reading / has read the clock (pc TClock / TDecide) may report that timeout, leaving the post in place.
   (A sleeping owner is the subject of C12_no_lost_post: a wake-up is pending.) *)
(* CORRECTION (SemProof): the hypothesis [prog_ok prog] was added -- a deadline with an unnormalized nsec
   field in the owner's pc makes the kernel reject the timespec (EINVAL) instead of retrying the wait.
   (Before the repair of the C source this also covered deadlines before the epoch, finding F1; those are
   now clamped to the epoch, see Properties_C15.v.)
   Also [last] is written [SemModel.last]: List is imported after SemModel here, so the bare name
   would be List.last. *)
Theorem C12_solo : forall prog posts clock0 sched,
  total_posts posts < 2 ^ 31 ->
  prog_ok prog ->
  let w := run (init prog posts clock0) sched in
  0 < word w -> owner w <> OIdle -> owner w <> OCrash -> owner_asleep w = false ->
  exists n, (n <= 4)%nat /\
    let w' := run w (repeat (Owner, CNormal) n) in
    owner w' = OIdle /\
    ((SemModel.last w' = ROk /\ ret0 w' = ret0 w + 1 /\ word w' = word w - 1) \/
     (SemModel.last w' = RTimedOut /\ word w' = word w /\
      exists d, owner w = TClock d \/ exists rd, owner w = TDecide d rd)).
Proof. exact solo_reachable. Qed.

(* a post makes a FUTURE wait return: with a positive count and an idle owner, the next call -- plain or timed,
   whatever its deadline (expired, before the epoch, not normalized) and whatever the kernel would do (c1, c2) --
   returns 0 after exactly one load and one successful CAS that takes one post: it never enters the kernel.
   No hypothesis on the program. *)
Theorem C12_future : forall prog posts clock0 sched a rest c1 c2,
  total_posts posts < 2 ^ 31 ->
  let w := run (init prog posts clock0) sched in
  owner w = OIdle -> oprog w = a :: rest -> 0 < word w ->
  let w1 := fst (step w Owner c1) in
  let w2 := fst (step w1 Owner c2) in
  (exists s, snd (step w Owner c1) = EvLoad s (word w)) /\
  (exists s, snd (step w1 Owner c2) = EvCas s (word w) (word w - 1) true) /\
  owner w2 = OIdle /\ SemModel.last w2 = ROk /\ word w2 = word w - 1 /\
  rets w2 = mk_ce a (clock w) ResOk :: rets w /\ oprog w2 = rest.
Proof. exact future_reachable. Qed.

(* NOT PROVED (and not claimed, DESIGN.md 2.3): the temporal form "under every fair schedule a wait with a post
   available returns".  What is proved is its safety decomposition: a sleeping owner with a positive count always has a
   wake-up pending (C12_no_lost_post), an owner that is awake inside a call completes it within 4 own steps
   (C12_solo), an idle owner's next call returns 0 in 2 steps (C12_future). *)
Definition C12_fair_wakeup_full : Prop :=
  forall prog posts clock0 (s : nat -> actor * choice),
    total_posts posts < 2 ^ 31 -> prog_ok prog ->
    (forall a n, exists m, (n <= m)%nat /\ fst (s m) = a) ->     (* every actor is scheduled again and again *)
    forall n, 0 < word (run (init prog posts clock0) (map s (seq 0 n))) ->
              owner (run (init prog posts clock0) (map s (seq 0 n))) <> OIdle ->
    exists m, (n <= m)%nat /\ owner (run (init prog posts clock0) (map s (seq 0 m))) = OIdle.

Example C12_example : exists sched,
  let w := run (init [None; Some (mk_tm 0 5000)] [1%nat; 1%nat] 1000) sched in
  ret0 w = 2 /\ nV w = 2 /\ word w = 0 /\ owner w = OIdle.
Proof. exact example_two_posts. Qed.

(* a run with an injected EINTR, an early ETIMEDOUT of the kernel that is NOT believed (clock read 1000 < 5000:
   retry), a sleep, a real timeout (clock read at 5500, decision taken at 5600), then a second call that sleeps
   and is ended by a post; the events of the eight interesting owner steps are listed *)
Example C12_example_eintr_timeout_post :
  let w := run (init [Some (mk_tm 0 5000); Some (mk_tm 0 9000)] [1%nat] 1000) sched_eintr_timeout_post in
  rets w = [ mk_ce (Some (mk_tm 0 9000)) 5600 ResOk; mk_ce (Some (mk_tm 0 5000)) 1000 (ResTimedOut (mk_tm 0 5500)) ] /\
  SemModel.last w = ROk /\ word w = 0 /\ nV w = 1 /\ clock w = 5600 /\ owner w = OIdle /\
  map (fun n => snd (step (run (init [Some (mk_tm 0 5000); Some (mk_tm 0 9000)] [1%nat] 1000) (firstn n sched_eintr_timeout_post)) Owner
                          (snd (nth n sched_eintr_timeout_post (Owner, CNormal)))))
      [1; 3; 4; 5; 7; 9; 10; 12]%nat
  = [ EvFutexWait EINTR; EvFutexWait ETIMEDOUT; EvClock (mk_tm 0 1000); EvDecide false;
      EvFutexWait 0; EvFutexWait ETIMEDOUT; EvClock (mk_tm 0 5500); EvDecide true ].
Proof. exact example_eintr_timeout_post. Qed.

Print Assumptions C12_count. Print Assumptions C12_conservation. Print Assumptions C12_no_free_lunch.
Print Assumptions C12_timeout_sound. Print Assumptions C12_last_timeout. Print Assumptions C12_log_faithful.
Print Assumptions C12_no_lost_post. Print Assumptions C12_no_crash. Print Assumptions C12_solo. Print Assumptions C12_future.
Print Assumptions C12_example. Print Assumptions C12_example_eintr_timeout_post.
