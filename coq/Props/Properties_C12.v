(* C12 — the per-thread semaphore never loses a post.
   Theorems about Model/SemModel.v (the futex semaphore over a modelled kernel futex
   with adversarial early returns).  Statements only; proofs in Proof/SemProof.v. *)
From NsyncBase Require Import CSem.
From NsyncGen Require Import Consts Sites.
From NsyncModel Require Import SemModel.
From NsyncProof Require Import SemProof.
From Coq Require Import List ZArith.
Import ListNotations.
Local Open Scope Z_scope.

Section C12.
  Variable prog : list (option tm).       (* the owner's calls: None = P, Some d = P_with_deadline d *)
  Variable posts : list nat.              (* number of V calls of each poster: any number of posters *)
  Variable clock0 : Z.
  Variable sched : list (actor * choice). (* any interleaving, any placement of EINTR / early-ETIMEDOUT returns *)
  Hypothesis Hposts : total_posts posts < 2 ^ 31.   (* the count fits the int futex word *)
  Let w := run (init prog posts clock0) sched.

  (* the word is exactly #V - #P and never negative *)
  Theorem C12_count : word w = nV w - nP w /\ 0 <= word w.
  Proof. exact (count_reachable prog posts clock0 sched Hposts). Qed.

  (* a wait never returns success without a post: successes are exactly the decrementing CASes *)
  Theorem C12_no_free_lunch : ret0 w = nP w /\ nP w <= nV w.
  Proof. exact (no_free_lunch_reachable prog posts clock0 sched Hposts). Qed.

  (* ETIMEDOUT is reported only at or after the deadline, whatever the kernel returned early *)
  Theorem C12_timeout_sound : early w = 0.
  Proof. exact (timeout_sound_reachable prog posts clock0 sched). Qed.

  (* no lost post: whenever the owner sleeps in the kernel, the count is 0 or a poster is about to wake it *)
  Theorem C12_no_lost_post : owner_asleep w = true -> word w = 0 \/ pending_wake w.
  Proof. exact (no_lost_post_reachable prog posts clock0 sched Hposts). Qed.

  (* normalized deadlines (any seconds value) never make the kernel reject the timespec (no ASSERT failure) *)
  Theorem C12_no_crash : prog_ok prog -> owner w <> OCrash.
  Proof. exact (no_crash_reachable prog posts clock0 sched). Qed.
End C12.

(* a post makes a pending wait return: from any reachable world with a positive count, the owner running
   alone (kernel behaving normally) completes its current call successfully within 3 steps *)
(* CORRECTION (SemProof): the hypothesis [prog_ok prog] was added -- a deadline with an unnormalized nsec
   field in the owner's pc makes the kernel reject the timespec (EINVAL) instead of retrying the wait.
   (Before the repair of the C source this also covered deadlines before the epoch, finding F1; those are
   now clamped to the epoch, see Properties_C15.v.)
   Also [last] is written [SemModel.last]: List is imported after SemModel here, so the bare name
   would be List.last. *)
Theorem C12_solo : forall prog posts clock0 sched,
  total_posts posts < 2 ^ 31 ->
  prog_ok prog ->
  let w := run (init prog posts clock0) sched in
  0 < word w -> owner w <> OIdle -> owner w <> OCrash -> owner_asleep w = false ->
  (forall d, owner w <> TClock d) ->
  exists n, (n <= 3)%nat /\
    let w' := run w (repeat (Owner, CNormal) n) in owner w' = OIdle /\ SemModel.last w' = ROk /\ ret0 w' = ret0 w + 1.
Proof. exact solo_reachable. Qed.

Example C12_example : exists sched,
  let w := run (init [None; Some (mk_tm 0 5000)] [1%nat; 1%nat] 1000) sched in
  ret0 w = 2 /\ nV w = 2 /\ word w = 0 /\ owner w = OIdle.
Proof. exact example_two_posts. Qed.

Print Assumptions C12_count. Print Assumptions C12_no_free_lunch. Print Assumptions C12_timeout_sound.
Print Assumptions C12_no_lost_post. Print Assumptions C12_no_crash. Print Assumptions C12_solo.
Print Assumptions C12_example.
