(* C13, first sentence, as a theorem with an explicit free:
     "A release of an nsync_mu makes no access to the mutex after the point at which another thread can acquire it,
      so a thread that learns under the lock that it is the last user may free the memory holding the mutex as soon
      as its own unlock returns."
   Quantifier: all interleavings of the reference-count pattern (lock; last = (--refs == 0); unlock; if last free)
   with any number of threads, waiters present.

   Model/MuRefModel.v wraps Model/MuModel.v (MuModel.step unchanged: one step per atomic site of mu.c, validated
   against the real code by lock-step replay): world = mutex world + refs + ghost freed + ghost bad + the client pc
   (Pre / Dec last / Done) of every thread.  A schedule is a list of thread numbers; [rstep v w t] is thread t's next
   step: a client step (decrement, free, `if (trylock)` guard) or MuModel.step.  [bad] is set when, after [freed],
     - any thread takes a MuModel step at a pc with [touches_mu] (every pc but Idle, Crash, UsWakeStore, UsWakeV),
     - the client decrements refs again, or frees again.
   The programs are ARBITRARY lists of OLock m / OTry m / OUnlock per thread (ill-formed ones crash in MuModel and
   then never give their reference back); [pattern v extras] are the intended ones: any extra rounds, then the
   decrement round.  Statements only; proofs in Proof/MuRefProof.v. *)
From NsyncBase Require Import CSem.
From NsyncGen Require Import Consts Sites.
From NsyncModel Require Import MuModel MuSpec MuRefModel.
From NsyncProof Require Import MuProof MuProof2 MuRefProof.
From Coq Require Import List ZArith Bool.
Import ListNotations.
Local Open Scope Z_scope.

(* [touches_mu] does not miss a write: a step taken at a pc with touches_mu = false leaves mu->word and mu->waiters
   as they were (that it does not READ them either is visible in MuModel.step: the four branches Idle, Crash,
   UsWakeStore, UsWakeV mention neither [word] nor [queue]; see the table at the definition) *)
Theorem C13r_touches_mu_sound : forall w t,
  touches_mu (t_pc (get (begin_op w t) t)) = false ->
  word (fst (step w t)) = word w /\ queue (fst (step w t)) = queue w.
Proof. exact touches_mu_sound. Qed.

(* THE THEOREM.  Write-mode pattern, any number of threads (< 2^24 - 1, the width of the reader count), any
   programs, any schedule: nothing touches the mutex (or refs) after the free, and the free happens once. *)
Theorem C13r_no_touch_after_free : forall progs sched,
  Z.of_nat (length progs) < 2 ^ 24 - 1 ->
  bad (rrun VWin (rinit progs) sched) = false.
Proof. exact no_touch_after_free_W. Qed.

(* what the free step is: taken by a thread that computed last = true under the lock, when its own
   nsync_mu_unlock has RETURNED (pc Idle, no call left); it does not change the mutex world *)
Theorem C13r_free_step : forall v w t, freed w = false -> freed (rstep v w t) = true ->
  phase_of w t = Dec true /\ t_pc (get (mw w) t) = Idle /\ t_ops (get (mw w) t) = [] /\ mw (rstep v w t) = mw w.
Proof. exact free_step. Qed.

(* the state behind the theorem: from the free on, nobody owns a reference, no thread has a call left, and every
   thread is between calls, (crashed,) or in the post-last-CAS tail of nsync_mu_unlock_slow_ -- where, by
   C13_last_cas (Properties_C13.v) and C13r_touches_mu_sound, it touches waiter records only *)
Theorem C13r_tail_after_free : forall progs sched,
  Z.of_nat (length progs) < 2 ^ 24 - 1 ->
  let w := rrun VWin (rinit progs) sched in
  freed w = true ->
  refs w = 0 /\
  forall t, phase_of w t <> Pre /\ t_ops (get (mw w) t) = [] /\
            match t_pc (get (mw w) t) with
            | Idle | Crash _ | UsWakeStore _ _ | UsWakeV _ _ _ => True
            | _ => False
            end.
Proof. exact tail_after_free_W. Qed.

(* ---------- the reader variant ---------- *)
(* sound read-mode pattern: rlock; ...; runlock; last = (atomic --refs == 0); if (last) free.  The decrement is the
   client's own atomic operation AFTER nsync_mu_runlock has returned. *)
Theorem C13r_reader_variant : forall progs sched,
  Z.of_nat (length progs) < 2 ^ 24 - 1 ->
  bad (rrun VRafter (rinit progs) sched) = false.
Proof. exact no_touch_after_free_Rafter. Qed.

Theorem C13r_reader_variant_all_returned : forall progs sched,
  Z.of_nat (length progs) < 2 ^ 24 - 1 ->
  let w := rrun VRafter (rinit progs) sched in
  freed w = true ->
  refs w = 0 /\ forall t, phase_of w t <> Pre /\ t_pc (get (mw w) t) = Idle /\ t_ops (get (mw w) t) = [].
Proof. exact all_returned_Rafter. Qed.

(* the IN-LOCK read-mode pattern  rlock; last = (--refs == 0); runlock; if (last) free  is a client error, whatever
   the mutex does: read locks do not exclude each other, so the thread that computes last = true is not the last
   user of the mutex -- another reader may still hold its own read lock and must still call nsync_mu_runlock.
   (The decrement under a read lock is also a data race of the client, unless it is atomic.) *)
Definition C13r_reader_inlock_full : Prop :=
  forall progs sched, Z.of_nat (length progs) < 2 ^ 24 - 1 -> bad (rrun VRin (rinit progs) sched) = false.

Theorem C13r_reader_inlock_refuted : ~ C13r_reader_inlock_full.
Proof. exact reader_inlock_refuted. Qed.

(* the witness: two readers, schedule 0 0 1 1 1 1 1 1 1 1: the object is freed while thread 0 holds its read lock,
   has decremented, and has its nsync_mu_runlock still to do; its next step is a use after free *)
Theorem C13r_reader_inlock_witness :
  let w := rrun VRin (rinit (pattern VRin [[]; []])) [0; 0; 1;1;1; 1; 1;1;1; 1]%nat in
  freed w = true /\ bad w = false /\
  held (get (mw w) 0%nat) = Some R /\ phase_of w 0%nat = Dec false /\ t_ops (get (mw w) 0%nat) = [OUnlock] /\
  bad (rstep VRin w 0%nat) = true.
Proof. exact reader_inlock_witness. Qed.

(* ---------- non-vacuity ---------- *)
(* three threads; the object is freed by thread 2 while thread 0 is still inside nsync_mu_unlock_slow_, at UsWakeV:
   its next step posts waiter 1's semaphore (event EvV 1) and [bad] stays false to the end of the run *)
Example C13r_tail_example :
  let w := rrun VWin (rinit (pattern VWin [[]; []; []]))
             [0; 1;1;1;1;1;1;1; 0;0;0;0;0;0;0;0; 1;1;1;1;1;1; 2;2;2;2]%nat in
  freed w = true /\ bad w = false /\ refs w = 0 /\ ph w = [Dec false; Done; Done] /\
  (exists u, t_pc (get (mw w) 0%nat) = UsWakeV W 1%nat u) /\
  touches_mu (t_pc (get (mw w) 0%nat)) = false /\
  snd (step (mw w) 0%nat) = EvV 1%nat /\
  let w' := rrun VWin w [0; 0]%nat in
  bad w' = false /\ ph w' = [Done; Done; Done] /\ sem (mw w') 1%nat = 1 /\
  map (fun s => (t_pc s, t_ops s, held s)) (thr (mw w')) = [(Idle, [], None); (Idle, [], None); (Idle, [], None)].
Proof. exact tail_example. Qed.

(* the early-release window (lock bit given away, spinlock still owned) occurs in the same run: there the waiter on
   the releaser's wake list still owns its reference -- that is what keeps the object alive *)
Example C13r_window_example :
  let w := rrun VWin (rinit (pattern VWin [[]; []; []])) [0; 1;1;1;1;1;1;1; 0;0;0;0;0]%nat in
  (exists u, t_pc (get (mw w) 0%nat) = UsRelLoad W u /\ wake u = [1%nat]) /\ held (get (mw w) 0%nat) = None /\
  word (mw w) mod 2 = 0 /\ ph w = [Dec false; Pre; Pre] /\ refs w = 2 /\ freed w = false.
Proof. exact window_example. Qed.

(* an extra reader round, and a decrement round entered by `while (!trylock) yield` (as harness/scen/refcount.c) *)
Example C13r_trylock_example :
  t_ops (get (mw (rrun VWin (rinit [[OLock R; OUnlock; OLock W; OUnlock]; [OTry W; OUnlock]]) [0; 1;1; 1]%nat)) 1%nat)
    = [OTry W; OUnlock] /\
  let w := rrun VWin (rinit [[OLock R; OUnlock; OLock W; OUnlock]; [OTry W; OUnlock]])
             [0; 1;1; 1; 1;1; 0; 1; 1; 1; 1; 1; 0; 0; 0; 0]%nat in
  freed w = true /\ bad w = false /\ refs w = 0 /\ ph w = [Done; Done] /\ word (mw w) = 0.
Proof. exact try_example. Qed.

Example C13r_reader_variant_example :
  let w := rrun VRafter (rinit (pattern VRafter [[]; []])) [0; 1;1;1; 0;0;0; 0; 0; 1; 1; 1]%nat in
  freed w = true /\ bad w = false /\ refs w = 0 /\ ph w = [Done; Done].
Proof. exact rafter_example. Qed.

Print Assumptions C13r_touches_mu_sound.
Print Assumptions C13r_no_touch_after_free.
Print Assumptions C13r_free_step.
Print Assumptions C13r_tail_after_free.
Print Assumptions C13r_reader_variant.
Print Assumptions C13r_reader_variant_all_returned.
Print Assumptions C13r_reader_inlock_refuted.
Print Assumptions C13r_reader_inlock_witness.
Print Assumptions C13r_tail_example.
Print Assumptions C13r_window_example.
Print Assumptions C13r_trylock_example.
Print Assumptions C13r_reader_variant_example.
