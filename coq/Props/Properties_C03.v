(* C03 — every hand-off is a happens-before edge under the DECLARED memory orders.
   Statements only; proofs in Proof/HbProof.v and Proof/SitesPinned.v. *)
From NsyncBase Require Import CSem.
From NsyncGen Require Import Consts Sites.
From NsyncModel Require Import MuModel HbModel SitesExpected.
From NsyncProof Require Import SitesPinned HbProof.
From Coq Require Import List ZArith String.
Import ListNotations.
Local Open Scope Z_scope.
(* EDIT (HbProof agent): the string literals of C03_publication_orders had no scope ("No interpretation for string");
   opening string_scope is the only change, the statements are untouched. *)
Local Open Scope string_scope.

(* Mutex hand-off, for ANY number of threads, programs and schedules: whatever a thread had in its view when it
   released the mutex (unlock, runlock, including the early release inside unlock_slow) is contained in the view of
   every thread that acquires it later (lock, rlock, trylock, rtrylock, lock_slow) -- computed from the memory orders
   the source requests at each site, nothing else. *)
Theorem C03_mutex_handoff : forall progs sched i j oi oj,
  let tr := run_hb (init progs) hb0 sched in
  nth_error tr i = Some oi -> nth_error tr j = Some oj -> (i < j)%nat ->
  is_release oi -> is_acquire oj ->
  vle (o_view oi) (o_view oj).
Proof. exact mutex_handoff. Qed.

(* what the proof rests on, stated against the regenerated inventory: every site that takes the lock asks for acquire,
   every site that gives it up asks for release, and nothing writes the word except by compare-and-swap *)
Theorem C03_mutex_orders :
  Forall (fun s => has_acq (order_of s) = true) [101; 103; 201; 203; 301; 303; 401; 403; 502] /\
  Forall (fun s => has_rel (order_of s) = true) [701; 703; 801; 803; 902; 903; 905; 602] /\
  Forall (fun x => s_target x = "word.mu"%string -> s_kind x <> Kstore)
         (filter (fun x => negb (String.eqb (s_fn x) "nsync_mu_init")) sites_mu_c).
Proof. exact mutex_orders. Qed.

(* the other hand-offs named by the property: the publishing site asks for release, every observing site for acquire
   (once word, note flag, counter value, waiter `waiting` flag used by signal/broadcast/unlock wake-ups) *)
Theorem C03_publication_orders :
  (* nsync_run_once_impl: ATM_STORE_REL (once, 2) vs. every ATM_LOAD_ACQ (once) that lets a caller return *)
  In ("nsync_run_once_impl", 4%nat, Kstore, Orel, "once") expected_once_c /\
  In ("nsync_run_once_impl", 5%nat, Kload, Oacq, "once") expected_once_c /\
  In ("nsync_run_once", 1%nat, Kload, Oacq, "once") expected_once_c /\
  (* note: the flag is set with release and read with acquire *)
  In ("note_notify_child", 2%nat, Kstore, Orel, "notified.n") expected_note_c /\
  In ("nsync_note_notified_deadline_", 1%nat, Kload, Oacq, "notified.n") expected_note_c /\
  (* counter: the decrement is an acq_rel RMW, waiters' and readers' loads are acquire *)
  In ("nsync_counter_add", 3%nat, Kcas, Oacqrel, "value.c") expected_counter_c /\
  In ("nsync_counter_value", 1%nat, Kload, Oacq, "value.c") expected_counter_c /\
  (* wake-ups: waiting := 0 with release, the sleeper's re-check with acquire *)
  In ("nsync_mu_unlock_slow_", 7%nat, Kstore, Orel, "waiting.nsync_dll_nsync_waiter_.p") expected_mu_c /\
  In ("nsync_mu_lock_slow_", 5%nat, Kload, Oacq, "waiting.nw.w") expected_mu_c.
Proof. exact publication_orders. Qed.

(* the inventory these statements talk about IS the one regenerated from /repo now *)
Theorem C03_inventory_current :
  map site_sig sites_mu_c = expected_mu_c /\ map site_sig sites_cv_c = expected_cv_c /\
  map site_sig sites_mu_wait_c = expected_mu_wait_c /\ map site_sig sites_once_c = expected_once_c /\
  map site_sig sites_note_c = expected_note_c /\ map site_sig sites_counter_c = expected_counter_c /\
  map site_sig sites_wait_c = expected_wait_c /\ map site_sig sites_sem_wait_c = expected_sem_wait_c /\
  map site_sig sites_common_c = expected_common_c /\ map site_sig sites_debug_c = expected_debug_c /\
  map site_sig sites_nsync_semaphore_futex_c = expected_nsync_semaphore_futex_c.
Proof. exact inventory_current. Qed.

Print Assumptions C03_mutex_handoff. Print Assumptions C03_mutex_orders.
Print Assumptions C03_publication_orders. Print Assumptions C03_inventory_current.
