(* C03 — every hand-off is a happens-before edge under the DECLARED memory orders.
   Statements only; proofs in Proof/HbProof.v and Proof/SitesPinned.v.
   Continued in Props/Properties_C03b.v (once, counter, note) and Props/Properties_C03c.v (mutex + nsync_mu_wait incl.
   the two release STORES of mu_wait.c; agreement of the ATM_* macro orders of the real atomic headers with the harness). *)
From NsyncBase Require Import CSem.
From NsyncGen Require Import Consts Sites.
From NsyncModel Require Import MuModel HbModel SitesExpected.
From NsyncProof Require Import SitesPinned HbProof.
From Coq Require Import List ZArith String.
Import ListNotations.
Local Open Scope Z_scope.
Local Open Scope string_scope.

(* Mutex hand-off, for ANY number of threads, programs and schedules: whatever a thread had in its view when it
   released the mutex (unlock, runlock, including the early release inside unlock_slow) is contained in the view of
   every thread that acquires it later (lock, rlock, trylock, rtrylock, lock_slow) -- computed from the memory orders
   the source requests at each site, nothing else.  (MuModel = mu.c alone; the same with nsync_mu_wait,
   nsync_mu_unlock_without_wakeup and the back-out stores of mu_wait.c: C03_muwait_handoff in Properties_C03c.v.) *)
Theorem C03_mutex_handoff : forall progs sched i j oi oj,
  let tr := run_hb (init progs) hb0 sched in
  nth_error tr i = Some oi -> nth_error tr j = Some oj -> (i < j)%nat ->
  is_release oi -> is_acquire oj ->
  vle (o_view oi) (o_view oj).
Proof. exact mutex_handoff. Qed.

(* the hypotheses are met: thread 0 locks (step 0) and unlocks (step 1: a release), thread 1 locks (step 2: an acquire
   by ANOTHER thread); thread 0's epoch at the release (2) is in thread 1's view after its acquire *)
Example C03_mutex_handoff_example :
  let tr := run_hb (init [[OLock W; OUnlock]; [OLock W]]) hb0 [0; 0; 1]%nat in
  exists oi oj,
    nth_error tr 1 = Some oi /\ nth_error tr 2 = Some oj /\ is_release oi /\ is_acquire oj /\
    o_t oi = 0%nat /\ o_t oj = 1%nat /\ o_view oi 0%nat = 2 /\ o_view oj 0%nat = 2 /\ o_view oj 1%nat = 1.
Proof.
  intros tr.
  assert (H : match nth_error tr 1, nth_error tr 2 with
              | Some oi, Some oj =>
                  is_release oi /\ is_acquire oj /\ o_t oi = 0%nat /\ o_t oj = 1%nat /\
                  o_view oi 0%nat = 2 /\ o_view oj 0%nat = 2 /\ o_view oj 1%nat = 1
              | _, _ => False
              end).
  { vm_compute. repeat split; try reflexivity; discriminate. }
  destruct (nth_error tr 1) as [oi|]; [|contradiction].
  destruct (nth_error tr 2) as [oj|]; [|contradiction].
  exists oi, oj. split; [reflexivity|]. split; [reflexivity|]. exact H.
Qed.

(* what the hand-off proof of MuModel rests on, on the regenerated inventory of mu.c: every site at which the model takes
   the lock is a compare-and-swap on `word.mu' that asks for acquire, every site at which it gives it up one that asks
   for release ([order_of k s] is relaxed unless site s IS an access of kind k to `word.mu') *)
Theorem C03_mutex_orders :
  Forall (fun s => has_acq (order_of Kcas s) = true) [101; 103; 201; 203; 301; 303; 401; 403; 502] /\
  Forall (fun s => has_rel (order_of Kcas s) = true) [701; 703; 801; 803; 902; 903; 905; 602].
Proof. exact mutex_orders. Qed.

(* Every WRITE to the word of an nsync_mu in ANY file of the inventory ([all_sites]: common.c, counter.c, cv.c, debug.c,
   mu.c, mu_wait.c, note.c, the futex semaphore, once.c, per_thread_waiter.c, sem_wait.c, wait.c; a mutex word is
   `mu->word', `pmu->word' or `cv_mu->word', or the parameter of nsync_spin_test_and_set_):
   1. it is a compare-and-swap, EXCEPT exactly two plain stores: sites 8 and 9 of mu_try_acquire_after_timeout_or_cancel
      (mu_wait.c:106 and :111), and both ask for release.  (Why these two stores do not cut the release sequence of the
      word is proved on the model: C03_muwait_handoff.)
   2. every write that gives up lock bits and / or the queue spinlock ([mu_word_releasing], 16 sites, each of them
      present) asks for release;
   3. every write that takes lock bits and / or the spinlock ([mu_word_acquiring], 15 sites, each present) asks for acquire;
   4. the two lists cover every write: no relaxed write to a mutex word exists;
   5. nothing escapes the classification by its name: every site whose target is a `word' field is on a mutex word or
      on a condition variable's word, and nsync_spin_test_and_set_ accesses nothing but its parameter. *)
Theorem C03_mutex_word_writes :
  map (fun x => (s_fn x, s_ord x, s_order x)) (filter (is_kind Kstore) mu_word_writes) =
    [("mu_try_acquire_after_timeout_or_cancel", 8%nat, Orel); ("mu_try_acquire_after_timeout_or_cancel", 9%nat, Orel)] /\
  map site_id (filter (id_in mu_word_releasing) mu_word_writes) = mu_word_releasing /\
  Forall (fun x => has_rel (s_order x) = true) (filter (id_in mu_word_releasing) mu_word_writes) /\
  map site_id (filter (id_in mu_word_acquiring) mu_word_writes) = mu_word_acquiring /\
  Forall (fun x => has_acq (s_order x) = true) (filter (id_in mu_word_acquiring) mu_word_writes) /\
  Forall (fun x => id_in mu_word_releasing x || id_in mu_word_acquiring x = true) mu_word_writes /\
  Forall (fun x => word_target x = true -> on_mu_word x || on_cv_word x = true) all_sites /\
  Forall (fun x => String.eqb (s_fn x) "nsync_spin_test_and_set_" = true -> String.eqb (s_target x) "w" = true) all_sites.
Proof. exact mutex_word_writes. Qed.

(* the other hand-offs named by the property, each looked up in the REGENERATED list of its file with its kind and its
   target ([order_at] is relaxed unless the site exists, has that kind and that target): the publishing site asks for
   release, every observing site for acquire *)
Theorem C03_publication_orders :
  (* nsync_run_once_impl: ATM_STORE_REL (once, 2) vs. every ATM_LOAD_ACQ (once) that lets a caller return *)
  has_rel (order_at sites_once_c "nsync_run_once_impl" 4 Kstore "once") = true /\
  Forall (fun f => has_acq (order_at sites_once_c (fst f) (snd f) Kload "once") = true)
         [("nsync_run_once_impl", 1%nat); ("nsync_run_once_impl", 5%nat); ("nsync_run_once", 1%nat);
          ("nsync_run_once_arg", 1%nat); ("nsync_run_once_spin", 1%nat); ("nsync_run_once_arg_spin", 1%nat)] /\
  (* note: the flag is set with release and read with acquire; a waiter of the note is woken with a release store *)
  has_rel (order_at sites_note_c "note_notify_child" 2 Kstore "notified.n") = true /\
  Forall (fun n => has_acq (order_at sites_note_c "nsync_note_notified_deadline_" n Kload "notified.n") = true) [1%nat; 2%nat] /\
  has_rel (order_at sites_note_c "note_notify_child" 3 Kstore "waiting.nw") = true /\
  (* counter: the decrement is an acq_rel RMW, waiters' and readers' loads are acquire; the waiter is woken through
     ATM_STORE_REL (&nw->waiting, 0) (counter.c:76) / ATM_LOAD_ACQ (&nw->waiting) (counter.c:136) *)
  has_rel (order_at sites_counter_c "nsync_counter_add" 3 Kcas "value.c") = true /\
  has_acq (order_at sites_counter_c "nsync_counter_add" 3 Kcas "value.c") = true /\
  Forall (fun f => has_acq (order_at sites_counter_c (fst f) (snd f) Kload "value.c") = true)
         [("nsync_counter_add", 1%nat); ("nsync_counter_value", 1%nat); ("nsync_counter_wait", 1%nat);
          ("counter_ready_time", 2%nat); ("counter_enqueue", 1%nat); ("counter_dequeue", 1%nat)] /\
  has_rel (order_at sites_counter_c "nsync_counter_add" 5 Kstore "waiting.nw") = true /\
  has_acq (order_at sites_counter_c "counter_dequeue" 2 Kload "waiting.nw") = true /\
  (* mutex wake-ups: nsync_mu_unlock_slow_ stores waiting := 0 with release; the sleeper in nsync_mu_lock_slow_ and in
     nsync_mu_wait_with_deadline re-checks it with acquire *)
  has_rel (order_at sites_mu_c "nsync_mu_unlock_slow_" 7 Kstore "waiting.nsync_dll_nsync_waiter_.p") = true /\
  has_acq (order_at sites_mu_c "nsync_mu_lock_slow_" 5 Kload "waiting.nw.w") = true /\
  has_acq (order_at sites_mu_wait_c "nsync_mu_wait_with_deadline" 6 Kload "waiting.nw.w") = true /\
  (* signal / broadcast: wake_waiters stores waiting := 0 with release (cv.c:148), the waiter in
     nsync_cv_wait_with_deadline_generic loads it with acquire (cv.c:248); when wake_waiters transfers waiters to the
     mutex queue instead, it takes the mutex' spinlock with an acquire CAS and gives it up with a release CAS *)
  has_rel (order_at sites_cv_c "wake_waiters" 6 Kstore "waiting.p_nw") = true /\
  has_acq (order_at sites_cv_c "nsync_cv_wait_with_deadline_generic" 5 Kload "waiting.nw.w") = true /\
  has_acq (order_at sites_cv_c "wake_waiters" 2 Kcas "word.pmu") = true /\
  has_rel (order_at sites_cv_c "wake_waiters" 4 Kcas "word.pmu") = true /\
  (* mu_wait.c: the CAS that enqueues the caller and releases the mutex "by blocking"; nsync_mu_unlock_without_wakeup;
     the re-acquisition after a timeout / cancellation and its two back-out / downgrade stores *)
  has_rel (order_at sites_mu_wait_c "nsync_mu_wait_with_deadline" 5 Kcas "word.mu") = true /\
  Forall (fun n => has_rel (order_at sites_mu_wait_c "nsync_mu_unlock_without_wakeup" n Kcas "word.mu") = true) [1%nat; 3%nat] /\
  has_acq (order_at sites_mu_wait_c "mu_try_acquire_after_timeout_or_cancel" 2 Kcas "word.mu") = true /\
  Forall (fun n => has_rel (order_at sites_mu_wait_c "mu_try_acquire_after_timeout_or_cancel" n Kstore "word.mu") = true) [8%nat; 9%nat].
Proof. exact publication_orders. Qed.

(* the hand-written inventory Model/SitesExpected.v (used by other properties' pins) IS the one regenerated from /repo
   now; none of the statements above depends on it *)
Theorem C03_inventory_current :
  map site_sig sites_mu_c = expected_mu_c /\ map site_sig sites_cv_c = expected_cv_c /\
  map site_sig sites_mu_wait_c = expected_mu_wait_c /\ map site_sig sites_once_c = expected_once_c /\
  map site_sig sites_note_c = expected_note_c /\ map site_sig sites_counter_c = expected_counter_c /\
  map site_sig sites_wait_c = expected_wait_c /\ map site_sig sites_sem_wait_c = expected_sem_wait_c /\
  map site_sig sites_common_c = expected_common_c /\ map site_sig sites_debug_c = expected_debug_c /\
  map site_sig sites_nsync_semaphore_futex_c = expected_nsync_semaphore_futex_c.
Proof. exact inventory_current. Qed.

Print Assumptions C03_mutex_handoff. Print Assumptions C03_mutex_handoff_example.
Print Assumptions C03_mutex_orders. Print Assumptions C03_mutex_word_writes.
Print Assumptions C03_publication_orders. Print Assumptions C03_inventory_current.
