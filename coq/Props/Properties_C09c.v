(* C09 (continued) -- no call of note.c gets stuck, STRONG form.
   The conclusion of C09_no_stuck_full (Properties_C09.v, proved in Properties_C09b.v), `exists t c, snd (step w t c) <>
   EvBlocked`, is too weak: a thread with an empty stack and an empty program satisfies it (its step returns EvNone), and so
   does a frame that merely waits for its callee to return.  Here the conclusion is that some UNFINISHED thread can take a
   step that CHANGES the world.  Theorems about Model/NoteModel.v; statements only, proofs in Proof/NoteProof13.v on top of
   NoteProof8.v .. NoteProof12.v.
   What is added to the ranking argument of Properties_C09b.v:
   - InvT (NoteProof13.v): the top frame of a call stack is never a frame that waits for a callee (N9, CR, FR, WD, AIs,
     ANotify, WReady, WLoop, WDeq), and the program points of notify / nsync_note_free that use the saved parent pointer
     (N5, N6, N7, N10, F2, F3, F4, F7, F11) have one -- these are exactly the frames whose step is (w, EvNone);
   - every step of such a top frame that is not EvBlocked changes the thread's call stack (step1_changes), so `progress`
     (a thread inside a call whose step is not EvBlocked) implies `live` (a thread inside a call whose step changes the world);
   - a thread that begins a call shortens its program. *)
From NsyncBase Require Import CSem.
From NsyncGen Require Import Consts Sites.
From NsyncModel Require Import NoteModel.
From NsyncProof Require Import NoteProof14 NoteProof NoteProof2 NoteProof3 NoteProof4 NoteProof7 NoteProof8 NoteProof11 NoteProof12 NoteProof13.
From NsyncProps Require Import Properties_C09.
From Coq Require Import List ZArith.
Import ListNotations.
Local Open Scope Z_scope.

(* ---- in every reachable state of a contract-abiding client in which some thread is inside a call (or has calls left) and is
        not legitimately asleep in nsync_note_wait's semaphore wait, some unfinished thread can take a step that changes the
        world ---- *)
Theorem C09_no_stuck_strong : forall w, reachable w -> broken (gh w) = false ->
  (exists t, unfinished w t /\ ~ sem_waiting w t) -> exists t c, unfinished w t /\ fst (step w t c) <> w.
Proof. exact no_stuck_strong. Qed.

(* ---- the shape fact behind it: which frames can be on top of a call stack ---- *)
(* the in-call form (fourth review): some thread INSIDE a call, not in the semaphore wait of nsync_note_wait => some thread INSIDE a call
   (non-empty stack) takes a step that changes the world; C09_no_stuck_strong above can also be met by a thread beginning its next call *)
Theorem C09_no_stuck_incall : forall w, reachable w -> broken (gh w) = false ->
  (exists t f rest, stk w t = f :: rest /\ ~ (exists n dl d rest', stk w t = AWait n dl (S1 d) :: rest')) ->
  exists t c, stk w t <> [] /\ fst (step1 w t c) <> w.
Proof. exact no_stuck_incall. Qed.

Theorem C09_top_frame : forall w t f rest, reachable w -> stk w t = f :: rest -> topok f.
Proof. intros w t f rest R. exact (InvT_reachable w R t f rest). Qed.
Theorem C09_step_changes : forall w t c, reachable w -> stk w t <> [] -> snd (step1 w t c) <> EvBlocked ->
  stk (fst (step1 w t c)) t <> stk w t.
Proof. intros w t c R. exact (step1_changes w t c (ia_shape _ (InvA_reachable w R) t) (InvT_reachable w R t)). Qed.

(* ---- the two "responsible thread" steps of the ranking argument, strong form: some thread inside a call makes a
        world-changing step, or the responsible thread is blocked at a strictly higher rank ---- *)
Theorem C09_lock_holder_rank_strong : forall w, reachable w -> broken (gh w) = false ->
  forall y h, lock (nt w y) = Some h ->
  live w \/ exists f rest v, stk w h = f :: rest /\ wrank f = Some v /\ (2 * y + 2 < v)%nat /\ (v < rank_bound w)%nat.
Proof. exact lock_holder_rank_strong. Qed.
Theorem C09_disc_holder_rank_strong : forall w, reachable w -> broken (gh w) = false ->
  forall x r, (tcount w r x >= 1)%nat ->
  live w \/ exists f rest v, stk w r = f :: rest /\ wrank f = Some v /\ (1 <= v)%nat /\ (v < rank_bound w)%nat /\
                             forall p, parent (nt w x) = Some p -> (2 * p + 1 < v)%nat.
Proof. exact disc_holder_rank_strong. Qed.

(* ---- the hypotheses are satisfiable, non-trivially: in ex_world (two threads, one note; 13 steps) thread 1 is inside
        nsync_note_is_notified, unfinished, not in the semaphore wait and genuinely blocked on the note's lock (every step of
        it returns the same world and EvBlocked), while thread 0, inside notify holding that lock, takes a step that changes
        the world ---- *)
Theorem C09_strong_example :
  reachable ex_world /\ broken (gh ex_world) = false /\
  (unfinished ex_world 1 /\ ~ sem_waiting ex_world 1 /\
   lock_blocked ex_world 1 0 /\ forall c, step ex_world 1 c = (ex_world, EvBlocked)) /\
  (unfinished ex_world 0 /\ fst (step ex_world 0 false) <> ex_world).
Proof. exact ex_blocked_and_live. Qed.

Print Assumptions C09_no_stuck_strong.
Print Assumptions C09_top_frame.
Print Assumptions C09_step_changes.
Print Assumptions C09_lock_holder_rank_strong.
Print Assumptions C09_disc_holder_rank_strong.
Print Assumptions C09_strong_example.
Print Assumptions C09_no_stuck_incall.
