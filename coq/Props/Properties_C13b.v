(* C13 over the REGENERATED control flow — "releasing never touches the mutex after it may have been reclaimed".
   C13_last_cas / C13_fast_release_is_last (Properties_C13.v) are facts about the hand-written step function of
   Model/MuModel.v.  The theorems below are about Gen/Flow.v and Gen/Sites.v, which gen/flow.py and gen/sites.py
   regenerate from /repo/internal/mu.c on every run: a change of mu.c that makes a releasing function touch the
   mutex word (or anything but dequeued waiter records) after its last release CAS breaks them.

   Nodes of a function: "ENTRY", "EXIT", "s<i>" (its i-th atomic site in Gen/Sites.v), "c:<callee>".
   flow_mu_c is a MAY-follow relation; it does not record which successor of a CAS is its success branch.

   The word-CAS sites of nsync_mu_unlock_slow_ (C13b_unlock_slow_cas_sites) and their model pcs (C13b_model_sites):
     s2  uncontended release (mu.c "return" branch)            -- MuModel UsCasRel,  event site 902
     s3  early release: gives the lock bits away, TAKES the queue spinlock -- MuModel UsCasSpin, event site 903
     s5  the LAST CAS: drops the spinlock (loop "while (!CAS) old = LOAD" with the retry load s6)
                                                               -- MuModel UsRelCas (retry: UsRelLoad), 905 (904)
     s7  ATM_STORE_REL (&waiter->waiting, 0) in the wake loop  -- MuModel UsWakeStore
   Statements and their (computational) proofs; nothing here depends on the model except C13b_model_sites and the
   example. *)
From Coq Require Import String List Bool Arith DecimalString.
From NsyncBase Require Import CSem.
From NsyncGen Require Import Consts Sites Flow.
From NsyncModel Require Import MuModel MuSpec.
From NsyncProof Require Import MuProof MuProof2 MuProof3 MuProof4.
Import ListNotations.
Local Open Scope string_scope.

(* ---------- reading Gen/Flow.v and Gen/Sites.v ---------- *)
Definition node_of (i : nat) : string := "s" ++ NilZero.string_of_uint (Nat.to_uint i).
Definition mem (x : string) (l : list string) : bool := existsb (String.eqb x) l.

(* the atomic sites of fn in mu.c, as (ordinal, kind, target) *)
Definition sites_of (fn : string) : list (nat * akind * string) :=
  map (fun s => (s_ord s, s_kind s, s_target s)) (filter (fun s => String.eqb (s_fn s) fn) sites_mu_c).
(* node is an atomic site of fn that accesses (loads, stores or CASes) the mutex word *)
Definition word_site (fn node : string) : bool :=
  existsb (fun s => String.eqb (s_fn s) fn && String.eqb (node_of (s_ord s)) node && String.eqb (s_target s) "word.mu")
          sites_mu_c.
Definition is_cas (k : akind) : bool := match k with Kcas => true | _ => false end.
(* ordinals of the CAS sites of fn on the mutex word *)
Definition word_cas_sites (fn : string) : list nat :=
  map (fun s => s_ord s)
      (filter (fun s => String.eqb (s_fn s) fn && is_cas (s_kind s) && String.eqb (s_target s) "word.mu") sites_mu_c).
Definition succs_in (fl : list (string * string * string)) (fn a : string) : list string :=
  map snd (filter (fun e => String.eqb (fst (fst e)) fn && String.eqb (snd (fst e)) a) fl).
Notation succs := (succs_in flow_mu_c).
Definition preds (fn b : string) : list string :=
  map (fun e => snd (fst e)) (filter (fun e => String.eqb (fst (fst e)) fn && String.eqb (snd e) b) flow_mu_c).

(* b may be executed after a in fn with only non-[stop] nodes strictly in between (b itself may be a stop node) *)
Inductive follows (fn : string) (stop : string -> bool) (a : string) : string -> Prop :=
| follows_one b : In (fn, a, b) flow_mu_c -> follows fn stop a b
| follows_more b c : follows fn stop a b -> stop b = false -> In (fn, b, c) flow_mu_c -> follows fn stop a c.

(* THE BOOLEAN CHECK over the flow list: every edge of fn that leaves [start], or leaves a non-stop node of S, ends in S *)
Definition closed (fn : string) (stop : string -> bool) (start : string) (S : list string) : bool :=
  forallb (fun e => match e with (f, a, b) =>
             negb (String.eqb f fn) || negb (String.eqb a start || (mem a S && negb (stop a))) || mem b S end)
          flow_mu_c.

(* the characterisation that makes the boolean readable *)
Lemma mem_In x l : mem x l = true <-> In x l.
Proof.
  unfold mem. rewrite existsb_exists. split.
  - intros (y & Hy & E). apply String.eqb_eq in E. now subst.
  - intros H. exists x. split; [exact H | apply String.eqb_refl].
Qed.

Theorem closed_sound : forall fn stop start S, closed fn stop start S = true ->
  forall n, follows fn stop start n -> In n S.
Proof.
  intros fn stop start S C. unfold closed in C. rewrite forallb_forall in C.
  assert (forall a b, In (fn, a, b) flow_mu_c -> (a = start \/ (In a S /\ stop a = false)) -> In b S) as K.
  { intros a b Hin Ha. specialize (C _ Hin). cbv beta iota in C. rewrite String.eqb_refl in C. cbn [negb orb] in C.
    apply mem_In. destruct (mem b S); [reflexivity | exfalso]. rewrite orb_false_r in C.
    apply negb_true_iff, orb_false_iff in C. destruct C as [C1 C2].
    destruct Ha as [-> | [Ha Hs]].
    - rewrite String.eqb_refl in C1. discriminate C1.
    - apply mem_In in Ha. rewrite Ha, Hs in C2. discriminate C2. }
  intros n F. induction F as [b Hb | b c F IH Hs Hc].
  - apply (K start b Hb). now left.
  - apply (K b c Hc). right. split; assumption.
Qed.

Lemma succs_In_gen (fl : list (string * string * string)) fn a b :
  In b (succs_in fl fn a) -> In (fn, a, b) fl.
Proof.
  unfold succs_in. induction fl as [|e fl IH]; cbn [filter map]; [intros []|].
  destruct e as [[f a'] b']. cbn [fst snd].
  destruct (String.eqb_spec f fn) as [->|]; cbn [andb]; [|intros H; right; exact (IH H)].
  destruct (String.eqb_spec a' a) as [->|]; [|intros H; right; exact (IH H)].
  cbn [map snd In]. intros [-> | H]; [left; reflexivity | right; exact (IH H)].
Qed.

Lemma succs_In fn a b : mem b (succs fn a) = true -> In (fn, a, b) flow_mu_c.
Proof. intros H. apply succs_In_gen. exact (proj1 (mem_In _ _) H). Qed.

Definition fn_us := "nsync_mu_unlock_slow_".
Definition SEM_V := "c:nsync_mu_semaphore_v".

(* ---------- which sites are the release CASes ---------- *)
Theorem C13b_unlock_slow_sites :
  sites_of fn_us =
  [ (1, Kload, "word.mu"); (2, Kcas, "word.mu"); (3, Kcas, "word.mu"); (4, Kload, "word.mu"); (5, Kcas, "word.mu");
    (6, Kload, "word.mu"); (7, Kstore, "waiting.nsync_dll_nsync_waiter_.p") ]%nat.
Proof. vm_compute. reflexivity. Qed.

Theorem C13b_unlock_slow_cas_sites : word_cas_sites fn_us = [2; 3; 5]%nat.
Proof. vm_compute. reflexivity. Qed.

(* the model's releasing pcs perform exactly these sites (event site id = 900 + ordinal; 700/800 + ordinal for
   nsync_mu_unlock / nsync_mu_runlock), with the values Gen/Sites.v computes for them *)
Theorem C13b_model_sites : forall w t,
  match t_pc (get w t) with
  | UlFast m => exists ok, snd (step w t) = EvCas (fid_unlock m + 1) (ufast_old m) (ufast_new m) ok
  | UlCas2 m old => exists ok, snd (step w t) = EvCas (fid_unlock m + 3) old (unlock_new2 m old) ok
  | UsCasRel m old => exists ok, snd (step w t) = EvCas 902 old (nsync_mu_unlock_slow_cas1_new old (lt_of m)) ok
  | UsCasSpin m old =>
      exists ok, snd (step w t) = EvCas 903 old (nsync_mu_unlock_slow_cas2_new old (lt_add_to_acquire (lt_of m))) ok
  | UsRelLoad _ _ => snd (step w t) = EvLoad 904 (word w)
  | UsRelCas m u old =>
      exists ok, snd (step w t) =
                 EvCas 905 old (nsync_mu_unlock_slow_cas3_new old (late u) (set_on u) (clear_on u)) ok
  | UsWakeStore _ u => match wake u with [] => True | p :: _ => snd (step w t) = EvStoreWaiting p 0%Z end
  | UsWakeV _ p _ => snd (step w t) = EvV p
  | _ => True
  end.
Proof. exact release_step_sites. Qed.

(* ---------- nsync_mu_unlock_slow_: after the LAST word CAS ---------- *)
(* s5 sits in the retry loop "while (!CAS (s5)) old = LOAD (s6)": s6's only successor and only predecessor is s5 *)
Theorem C13b_retry_loop : succs fn_us "s6" = ["s5"] /\ preds fn_us "s6" = ["s5"] /\ preds fn_us "s5" = ["s4"; "s6"].
Proof. vm_compute. repeat split. Qed.

Definition after_last_cas : list string := ["s6"; "s7"; SEM_V; "EXIT"].

(* the boolean check: from the last CAS s5, going on until the next access of the mutex word, the code stays inside
   { s6 (retry load), s7 (waiting store), nsync_mu_semaphore_v, EXIT } *)
Theorem C13b_after_last_cas_check : closed fn_us (word_site fn_us) "s5" after_last_cas = true.
Proof. vm_compute. reflexivity. Qed.

(* ... of which only the retry load s6 accesses the word (and no node is a word-WRITING site) ... *)
Theorem C13b_after_last_cas_word_sites : map (word_site fn_us) after_last_cas = [true; false; false; false].
Proof. vm_compute. reflexivity. Qed.

(* ... and once the retry loop is left (first node other than s5/s6, i.e. s7 or EXIT) NO path ever comes back to a
   site of the mutex word, to the queue, or to any call but nsync_mu_semaphore_v: the tail { s7, semaphore_v, EXIT }
   is closed under ALL successors *)
Definition wake_tail : list string := ["s7"; SEM_V; "EXIT"].
Theorem C13b_wake_tail_check :
  closed fn_us (fun _ => false) "s7" wake_tail = true /\ closed fn_us (fun _ => false) "EXIT" wake_tail = true /\
  succs fn_us "s5" = ["s6"; "s7"; "EXIT"].
Proof. vm_compute. repeat split. Qed.

(* readable form: after its last write to the mutex word nsync_mu_unlock_slow_ executes only the `waiting` store of
   waiters it has already dequeued, calls of nsync_mu_semaphore_v, and its return (s6 = the CAS failed, try again) *)
Theorem C13_flow_after_last_cas : forall n,
  (follows fn_us (word_site fn_us) "s5" n -> n = "s6" \/ n = "s7" \/ n = SEM_V \/ n = "EXIT") /\
  (follows fn_us (fun _ => false) "s7" n -> n = "s7" \/ n = SEM_V \/ n = "EXIT") /\
  ~ follows fn_us (fun _ => false) "EXIT" n.
Proof.
  intros n. split; [|split].
  - intros F. pose proof (closed_sound _ _ _ _ C13b_after_last_cas_check n F) as H.
    cbn [after_last_cas In] in H. intuition congruence.
  - intros F. pose proof (closed_sound _ _ _ _ (proj1 C13b_wake_tail_check) n F) as H.
    cbn [wake_tail In] in H. intuition congruence.
  - intros F.
    assert (closed fn_us (fun _ => false) "EXIT" [] = true) as C by (vm_compute; reflexivity).
    exact (closed_sound _ _ _ _ C n F).
Qed.

(* the other two release CASes of nsync_mu_unlock_slow_:
   s2 (uncontended release): next is EXIT, or the loop-head load s1 of the word (mu.c: the CAS failed, retry);
   s3 (early release, spinlock taken): until the next access of the word only the queue scan runs -- and EXIT is NOT
   among the nodes: the function cannot return after an early release without passing s4 -> s5, the last CAS
   (between s3 and s5 the mutex is pinned: C13_pinned) *)
Theorem C13_flow_other_release_cas : forall n,
  (follows fn_us (word_site fn_us) "s2" n -> n = "s1" \/ n = "EXIT") /\
  (follows fn_us (word_site fn_us) "s3" n -> n <> "EXIT") /\
  succs fn_us "s4" = ["s5"] /\ preds fn_us "EXIT" = ["s2"; "s5"; SEM_V].
Proof.
  intros n.
  assert (closed fn_us (word_site fn_us) "s2" ["s1"; "EXIT"] = true) as C2 by (vm_compute; reflexivity).
  assert (closed fn_us (word_site fn_us) "s3"
            ["s1"; "s4"; "c:condition_true"; "c:mu_release_spinlock"; "c:nsync_maybe_merge_conditions_";
             "c:nsync_remove_from_mu_queue_"; "c:nsync_spin_test_and_set_"] = true) as C3 by (vm_compute; reflexivity).
  split; [|split; [|split; vm_compute; reflexivity]].
  - intros F. pose proof (closed_sound _ _ _ _ C2 n F) as H. cbn [In] in H. intuition congruence.
  - intros F E. pose proof (closed_sound _ _ _ _ C3 n F) as H. subst n. cbn [In] in H.
    repeat (destruct H as [H | H]; [discriminate H|]). exact H.
Qed.

(* ---------- nsync_mu_unlock / nsync_mu_runlock: the fast paths ---------- *)
Definition fast_release_check (fn : string) : bool :=
  (* sites: s1 CAS, s2 load, s3 CAS, all on the word, release order on the CASes *)
  match sites_of fn with
  | [ (1, Kcas, t1); (2, Kload, t2); (3, Kcas, t3) ]%nat =>
      String.eqb t1 "word.mu" && String.eqb t2 "word.mu" && String.eqb t3 "word.mu"
  | _ => false
  end &&
  (* after the first CAS: return, or re-read the word (s2) *)
  closed fn (word_site fn) "s1" ["s2"; "EXIT"] &&
  (* after the second CAS: return, or call nsync_mu_unlock_slow_ and then return *)
  closed fn (word_site fn) "s3" ["c:nsync_mu_unlock_slow_"; "EXIT"] &&
  mem "EXIT" (succs fn "s1") && mem "EXIT" (succs fn "s3").

Theorem C13b_fast_release_check :
  fast_release_check "nsync_mu_unlock" = true /\ fast_release_check "nsync_mu_runlock" = true.
Proof. vm_compute. split; reflexivity. Qed.

(* readable form: each of the two release CASes of nsync_mu_unlock / nsync_mu_runlock can be followed directly by
   the return; its only other continuation is another look at the word (s2, the `if (!ATM_CAS_REL (..))` branch) or
   the call of nsync_mu_unlock_slow_ -- nothing else of the mutex, and no other memory, is touched in these
   functions.  (That EXIT is the SUCCESS branch is C semantics of `if (!CAS)`; Flow.v does not record polarity --
   the model's C13_fast_release_is_last and the lock-step replay do.) *)
Theorem C13_flow_fast_release : forall fn n, fn = "nsync_mu_unlock" \/ fn = "nsync_mu_runlock" ->
  word_cas_sites fn = [1; 3]%nat /\
  (follows fn (word_site fn) "s1" n -> n = "s2" \/ n = "EXIT") /\
  (follows fn (word_site fn) "s3" n -> n = "c:nsync_mu_unlock_slow_" \/ n = "EXIT") /\
  In (fn, "s1", "EXIT") flow_mu_c /\ In (fn, "s3", "EXIT") flow_mu_c.
Proof.
  intros fn n [-> | ->].
  - assert (closed "nsync_mu_unlock" (word_site "nsync_mu_unlock") "s1" ["s2"; "EXIT"] = true) as C1
      by (vm_compute; reflexivity).
    assert (closed "nsync_mu_unlock" (word_site "nsync_mu_unlock") "s3" ["c:nsync_mu_unlock_slow_"; "EXIT"] = true)
      as C3 by (vm_compute; reflexivity).
    split; [vm_compute; reflexivity|]. split; [|split; [|split]].
    + intros F. pose proof (closed_sound _ _ _ _ C1 n F) as H. cbn [In] in H. intuition congruence.
    + intros F. pose proof (closed_sound _ _ _ _ C3 n F) as H. cbn [In] in H. intuition congruence.
    + apply succs_In. vm_compute. reflexivity.
    + apply succs_In. vm_compute. reflexivity.
  - assert (closed "nsync_mu_runlock" (word_site "nsync_mu_runlock") "s1" ["s2"; "EXIT"] = true) as C1
      by (vm_compute; reflexivity).
    assert (closed "nsync_mu_runlock" (word_site "nsync_mu_runlock") "s3" ["c:nsync_mu_unlock_slow_"; "EXIT"] = true)
      as C3 by (vm_compute; reflexivity).
    split; [vm_compute; reflexivity|]. split; [|split; [|split]].
    + intros F. pose proof (closed_sound _ _ _ _ C1 n F) as H. cbn [In] in H. intuition congruence.
    + intros F. pose proof (closed_sound _ _ _ _ C3 n F) as H. cbn [In] in H. intuition congruence.
    + apply succs_In. vm_compute. reflexivity.
    + apply succs_In. vm_compute. reflexivity.
Qed.

(* ---------- non-vacuity of C13_pinned (Properties_C13.v) ---------- *)
(* er_progs = [[OLock W; OUnlock]; [OLock W; OUnlock]; [OLock R; OUnlock]], er_sched = 0, 8 x 1, 8 x 2, 4 x 0:
   thread 0 holds, writer 1 and reader 2 queue and sleep, thread 0's nsync_mu_unlock goes through UlFast (fails),
   UlLoad, UsLoad and the early-release CAS 903: it is now at UsRelLoad, no longer a holder, owns the spinlock,
   has waiter 1 on its private wake list and waiter 2 still on the queue -- the hypotheses of C13_pinned hold *)
Example C13_early_release_example :
  (Z.of_nat (length er_progs) < 2 ^ 24 - 1)%Z /\
  let w := run (init er_progs) er_sched in
  exists u, t_pc (get w 0%nat) = UsRelLoad W u /\ wake u = [1%nat] /\ queue w = [2%nat] /\
            held (get w 0%nat) = None /\ has (word w) MU_SPINLOCK = true /\
            (word w mod 2 = 0)%Z /\ (word w / 256 = 0)%Z.
Proof. exact early_release_example. Qed.

Print Assumptions closed_sound. Print Assumptions succs_In_gen. Print Assumptions succs_In.
Print Assumptions C13b_unlock_slow_sites. Print Assumptions C13b_unlock_slow_cas_sites.
Print Assumptions C13b_model_sites. Print Assumptions C13b_retry_loop.
Print Assumptions C13b_after_last_cas_check. Print Assumptions C13b_after_last_cas_word_sites.
Print Assumptions C13b_wake_tail_check. Print Assumptions C13_flow_after_last_cas.
Print Assumptions C13_flow_other_release_cas. Print Assumptions C13b_fast_release_check.
Print Assumptions C13_flow_fast_release. Print Assumptions C13_early_release_example.
