(* C16, first sentence — the debug-state functions are transparent for the mutex:
   "Calling nsync_mu_debug_state, nsync_cv_debug_state or their *_and_waiters variants concurrently with any other
    operations on the same mutex or condition variable never changes who holds the mutex, never loses a wake-up and
    never deadlocks."
   MUTEX half, stated over Model/MuDbgModel.v: Model/MuModel.v (lockers; MuModel.step unchanged) plus any number of
   DEBUGGER threads running nsync_mu_debug_state (DState), nsync_mu_debug_state_and_waiters (DStateWaiters) and
   nsync_mu_debugger (DDebugger) -- emit_mu_state / emit_waiters of internal/debug.c and nsync_spin_test_and_set_ of
   internal/common.c, one step per atomic site, values and loop guards from Gen/Sites.v.  The model is tied to the real
   code by lock-step replay (replay/mudbg_replay.ml on harness/scen/mu_mix.c with VRT_DEBUGGER=1|2).
   Every theorem is about ALL reachable combined worlds: any number of lockers < 2^24 - 1, any number of debuggers,
   any programs, any schedule.  Statements only; proofs in Proof/MuDbgProof.v, MuDbgProof2.v, MuDbgProof3.v.
   The condition-variable half (emit_cv_state) is NOT covered here. *)
From NsyncBase Require Import CSem.
From NsyncGen Require Import Consts Sites.
From NsyncModel Require Import MuModel MuSpec MuDbgModel.
From NsyncProof Require Import MuProof MuProof2 MuProof3 MuDbgProof MuDbgProof2 MuDbgProof3.
From Coq Require Import List ZArith.
Import ListNotations.
Local Open Scope Z_scope.

Definition dreach (progs : list (list op)) (dprogs : list (list dop)) (sched : list who) : dworld :=
  drun (dinit progs dprogs) sched.
(* debugger d owns the queue spinlock (ghost) / its pc *)
Definition downs (w : dworld) (d : nat) : bool := d_owner (dget w d).
Definition dpc_of (w : dworld) (d : nat) : dpc := d_pc (dget w d).

(* ---- (a) "never changes who holds the mutex": a debugger step changes no locker's state at all (pc, held, ...),
   not the queue, no waiting flag, no semaphore, and no bit of the word other than MU_SPINLOCK ---- *)
Theorem C16a_holders : forall progs dprogs sched d,
  Z.of_nat (length progs) < 2 ^ 24 - 1 ->
  let w := dreach progs dprogs sched in
  let w' := fst (dstep w (TDbg d)) in
  thr (base w') = thr (base w) /\ queue (base w') = queue (base w) /\ waiting (base w') = waiting (base w) /\
  sem (base w') = sem (base w) /\ wtype (base w') = wtype (base w) /\
  (forall k, k <> 1 -> Z.testbit (word (base w')) k = Z.testbit (word (base w)) k) /\
  (word (base w') = word (base w) \/ word (base w') = Z.lxor (word (base w)) MU_SPINLOCK).
Proof. exact dbg_only_spin_bit. Qed.

Theorem C16a_held_unchanged : forall progs dprogs sched d t,
  Z.of_nat (length progs) < 2 ^ 24 - 1 ->
  let w := dreach progs dprogs sched in
  held (get (base (fst (dstep w (TDbg d)))) t) = held (get (base w) t).
Proof. exact dbg_holders_unchanged. Qed.

(* ---- (b) mutual exclusion and "the word tells the truth about the holders" in every reachable combined world ---- *)
Theorem C16a_exclusion : forall progs dprogs sched,
  Z.of_nat (length progs) < 2 ^ 24 - 1 -> excl (base (dreach progs dprogs sched)).
Proof. exact dexcl_reachable. Qed.

Theorem C16a_word_agrees : forall progs dprogs sched,
  Z.of_nat (length progs) < 2 ^ 24 - 1 -> word_agrees (base (dreach progs dprogs sched)).
Proof. exact dword_agrees_reachable. Qed.

(* ---- (c) the spinlock discipline ---- *)
(* a debugger sets MU_SPINLOCK only by the CAS of nsync_spin_test_and_set_, from a word in which the bit is clear, and
   becomes the owner; it clears the bit only as the owner, by the CAS of its release loop (a CAS on the CURRENT word:
   every other bit survives, see (a)); its ghost ownership changes only together with the bit *)
Theorem C16a_spinlock_discipline : forall progs dprogs sched d,
  Z.of_nat (length progs) < 2 ^ 24 - 1 ->
  let w := dreach progs dprogs sched in
  let w' := fst (dstep w (TDbg d)) in
  (Z.testbit (word (base w')) 1 = true -> Z.testbit (word (base w)) 1 = false ->
     downs w d = false /\ downs w' d = true /\
     word (base w') = nsync_spin_test_and_set_cas1_new (word (base w)) MU_SPINLOCK 0) /\
  (Z.testbit (word (base w)) 1 = true -> Z.testbit (word (base w')) 1 = false ->
     downs w d = true /\ downs w' d = false /\ word (base w') = emit_mu_state_cas1_new (word (base w))) /\
  (downs w' d <> downs w d -> Z.testbit (word (base w')) 1 <> Z.testbit (word (base w)) 1).
Proof. exact dbg_spin_discipline. Qed.

(* while a debugger owns the spinlock the bit is set, no locker is inside one of mu.c's spinlock sections (between
   the enqueue CAS and mu_release_spinlock in lock_slow; between the spinlock CAS and the releasing CAS in unlock_slow),
   and no other debugger owns it *)
Theorem C16a_owner_excludes : forall progs dprogs sched d,
  Z.of_nat (length progs) < 2 ^ 24 - 1 ->
  let w := dreach progs dprogs sched in
  downs w d = true ->
  Z.testbit (word (base w)) 1 = true /\
  (forall t, in_spin_section (t_pc (get (base w) t)) = false) /\
  (forall d', downs w d' = true -> d' = d).
Proof. exact dbg_owner_excludes. Qed.

(* ---- (d) debuggers never block ---- *)
(* no debugger step is a semaphore operation (its events are loads and CASes of the word and loads of waiter records;
   (a) says the semaphores are untouched) *)
Theorem C16a_no_semaphore : forall w d e, snd (dstep w (TDbg d)) <> DEvBase e.
Proof. exact dbg_no_base_event. Qed.

(* a debugger that owns the spinlock, run alone, releases it: within 2 of its own steps once it has finished printing
   (pc at the release loop), within 2 * (records still to print) + 3 in general; until then it changes nothing shared *)
Theorem C16a_release_within_2 : forall progs dprogs sched d f,
  Z.of_nat (length progs) < 2 ^ 24 - 1 ->
  let w := dreach progs dprogs sched in
  dpc_of w d = DRelLoad f -> downs (drun w [TDbg d; TDbg d]) d = false.
Proof. exact dbg_release_loop_bound. Qed.

Theorem C16a_owner_releases : forall progs dprogs sched d,
  Z.of_nat (length progs) < 2 ^ 24 - 1 ->
  let w := dreach progs dprogs sched in
  downs w d = true ->
  exists k, (k <= 2 * dwalk_left (dpc_of w d) + 3)%nat /\ downs (drun w (repeat (TDbg d) k)) d = false /\
            Z.testbit (word (base (drun w (repeat (TDbg d) k)))) 1 = false /\
            forall j, (j < k)%nat -> base (drun w (repeat (TDbg d) j)) = base w.
Proof. exact dbg_owner_releases. Qed.

(* a debugger that does not own the spinlock changes nothing shared until the step that acquires it
   (this covers nsync_mu_debugger's walk of the queue WITHOUT the lock: read-only steps) *)
Theorem C16a_nonowner_inert : forall progs dprogs sched d,
  Z.of_nat (length progs) < 2 ^ 24 - 1 ->
  let w := dreach progs dprogs sched in
  let w' := fst (dstep w (TDbg d)) in
  downs w d = false -> downs w' d = false -> base w' = base w.
Proof. exact dbg_nonowner_inert. Qed.

(* ---- (e) "never loses a wake-up, never deadlocks" ---- *)
(* the debugger has returned from its last call / is inside the loop of nsync_spin_test_and_set_ *)
Definition ddone (w : dworld) (d : nat) : Prop := dpc_of w d = DIdle /\ d_ops (dget w d) = [].
Definition dspinning (w : dworld) (d : nat) : Prop := spin_pc (dpc_of w d) = true.
(* nothing moves any more except, possibly, debuggers going round their spin loop: every locker is asleep in the
   semaphore P of nsync_mu_lock_slow_ (count 0) or finished, every debugger is finished or spinning *)
Definition quiescent_with_debuggers (w : dworld) : Prop :=
  h_quiescent (base w) /\ forall d, (d < length (dbg w))%nat -> ddone w d \/ dspinning w d.

(* the analogue of C02_holder_is_responsible (Properties_C02b) for the combined system: in such a world with a
   sleeper some thread still HOLDS the mutex, the sleeper is on the queue with its waiting flag set, the word says
   "waiters, no designated waker, not all-false" and MU_SPINLOCK is FREE -- so no debugger is stuck: each spinning
   one, run alone, acquires within 3 of its own steps (and then (d) releases).  A world in which everybody sleeps or
   spins while the mutex is free, or while a debugger or a dead owner holds the spinlock, is unreachable. *)
Theorem C16a_no_lost_handoff : forall progs dprogs sched,
  Z.of_nat (length progs) < 2 ^ 24 - 1 ->
  let w := dreach progs dprogs sched in
  quiescent_with_debuggers w -> forall t, h_asleep (base w) t ->
  (exists t', holds (base w) t' W \/ holds (base w) t' R) /\
  In t (queue (base w)) /\ waiting (base w) t = true /\
  has (word (base w)) MU_WAITING = true /\ has (word (base w)) MU_DESIG_WAKER = false /\
  has (word (base w)) MU_ALL_FALSE = false /\ has (word (base w)) MU_SPINLOCK = false /\
  (forall d, dspinning w d -> exists k, (k <= 3)%nat /\ downs (drun w (repeat (TDbg d) k)) d = true).
Proof. exact dno_lost_handoff. Qed.

(* ... and the last holder's release must take the spinlock and scan the queue (C02_last_holder_must_scan) *)
Theorem C16a_last_holder_must_scan : forall progs dprogs sched,
  Z.of_nat (length progs) < 2 ^ 24 - 1 ->
  let w := dreach progs dprogs sched in
  quiescent_with_debuggers w -> forall t, h_asleep (base w) t -> forall m,
  match m with W => count_held (base w) W = 1 | R => count_held (base w) W = 0 /\ count_held (base w) R = 1 end ->
  word (base w) <> ufast_old m /\ unlock_try_cas2 m (word (base w)) = false /\
  nsync_mu_unlock_slow_cas1_guard (word (base w)) = false /\ nsync_mu_unlock_slow_cas2_guard (word (base w)) = true.
Proof. exact dlast_holder_must_scan. Qed.

(* whoever spins for MU_SPINLOCK (a locker in lock_slow / unlock_slow, a debugger in nsync_spin_test_and_set_) waits for
   somebody who can move: whenever the bit is set its owner -- a locker inside a spinlock section or a debugger between
   its two CASes -- is enabled, and run alone it clears the bit within 3 (locker) resp. 2 * records + 3 (debugger) of its
   own steps *)
Theorem C16a_spinlock_owner_live : forall progs dprogs sched,
  Z.of_nat (length progs) < 2 ^ 24 - 1 ->
  let w := dreach progs dprogs sched in
  Z.testbit (word (base w)) 1 = true ->
  (exists t, in_spin_section (t_pc (get (base w) t)) = true /\
             snd (dstep w (TBase t)) <> DEvBase EvBlocked /\ snd (dstep w (TBase t)) <> DEvBase EvNone /\
             exists k, (k <= 3)%nat /\ Z.testbit (word (base (drun w (repeat (TBase t) k)))) 1 = false) \/
  (exists d, downs w d = true /\ snd (dstep w (TDbg d)) <> DEvNone /\
             exists k, (k <= 2 * dwalk_left (dpc_of w d) + 3)%nat /\
                       Z.testbit (word (base (drun w (repeat (TDbg d) k)))) 1 = false).
Proof. exact spin_owner_live. Qed.

(* ---- (f) non-vacuity ---- *)
(* a debugger takes the spinlock while a locker is enqueuing: the locker's CAS fails, it spins, the debugger reads the
   queued record and releases, the locker proceeds and sleeps *)
Example C16a_dbg_interleaves_enqueue :
  let w1 := drun (dinit e1_progs e1_dprogs) e1_s1 in
  let w2 := drun w1 (lk 2 3) in
  let w3 := drun w2 (db 0 4) in
  let w4 := drun w3 (lk 2 7) in
  (downer w1 0 = true /\ has (word (base w1)) MU_SPINLOCK = true /\
   exists l old, t_pc (get (base w1) 2) = LsCasEnq W l old /\ has old MU_SPINLOCK = false) /\
  (base w2 = set_t (base w1) 2 (get (base w2) 2) /\ (exists l, t_pc (get (base w2) 2) = LsLoad W l) /\ downer w2 0 = true) /\
  (downer w3 0 = false /\ d_read (dget w3 0) = [1%nat] /\ dpcof w3 0 = DIdle /\
   has (word (base w3)) MU_SPINLOCK = false /\ queue (base w3) = [1%nat] /\ holds (base w3) 0 W) /\
  (queue (base w4) = [1%nat; 2%nat] /\ h_asleep (base w4) 2 /\ holds (base w4) 0 W /\ has (word (base w4)) MU_SPINLOCK = false).
Proof. exact ex_dbg_interleaves_enqueue. Qed.

(* nsync_mu_debugger finds MU_WAITING and MU_SPINLOCK set (a locker is linking itself in), does not wait, and walks
   the queue without the lock: read-only steps, never owner *)
Example C16a_debugger_unlocked_walk :
  let w1 := drun (dinit e1_progs e2_dprogs) e2_s1 in
  let w2 := drun w1 (db 0 3) in
  (in_spin_section (t_pc (get (base w1) 2)) = true /\ has (word (base w1)) MU_SPINLOCK = true /\
   has (word (base w1)) MU_WAITING = true) /\
  base w2 = base w1 /\ d_unsafe (dget w2 0) = 2%nat /\ d_read (dget w2 0) = [] /\ downer w2 0 = false /\
  d_done w2 0 /\
  (forall k, (k <= 3)%nat -> downer (drun w1 (db 0 k)) 0 = false).
Proof. exact ex_debugger_unlocked_walk. Qed.

Example C16a_quiescent_satisfiable :
  let w := drun (dinit e3_progs e1_dprogs) e3_s in
  Z.of_nat (length e3_progs) < 2 ^ 24 - 1 /\ dquiescent w /\ h_asleep (base w) 1 /\ h_done (base w) 0 /\
  holds (base w) 0 W /\ d_spinning w 0.
Proof. exact ex_dquiescent_satisfiable. Qed.

(* ---- (g) the regression of finding F2: the OLD release (a plain store of the stale word returned by
   nsync_spin_test_and_set_) breaks mutual exclusion and the word/holder agreement; sstep / srun = the model with that
   release (Proof/MuDbgProof3.v) ---- *)
Definition C16a_exclusion_with_stale_store : Prop :=
  forall progs dprogs sched, Z.of_nat (length progs) < 2 ^ 24 - 1 ->
  excl (base (srun (dinit progs dprogs) sched)) /\ word_agrees (base (srun (dinit progs dprogs) sched)).

Theorem C16a_stale_store_refuted : exists progs dprogs sched,
  Z.of_nat (length progs) < 2 ^ 24 - 1 /\
  let w := srun (dinit progs dprogs) sched in
  (holds (base w) 1 W /\ holds (base w) 3 W /\ ~ excl (base w)) /\ ~ word_agrees (base w).
Proof. exact stale_store_refuted. Qed.

Theorem C16a_exclusion_with_stale_store_is_false : ~ C16a_exclusion_with_stale_store.
Proof.
  intros F. destruct stale_store_refuted as (progs & dprogs & sched & Hn & (_ & _ & NE) & _).
  exact (NE (proj1 (F progs dprogs sched Hn))).
Qed.

(* the same schedule under the repaired release: locker 3 keeps the mutex, the woken locker 1 stays out *)
Example C16a_stale_schedule_repaired :
  let w := drun (dinit g_progs e1_dprogs) (lk 0 1 ++ lk 1 8 ++ lk 2 8 ++ lk 0 9 ++ db 0 3 ++ lk 3 3 ++ db 0 4 ++ lk 1 4) in
  holds (base w) 3 W /\ held (get (base w) 1) = None /\ dpcof w 0 = DIdle /\ downer w 0 = false.
Proof. exact stale_schedule_repaired. Qed.

Print Assumptions C16a_holders. Print Assumptions C16a_held_unchanged.
Print Assumptions C16a_exclusion. Print Assumptions C16a_word_agrees.
Print Assumptions C16a_spinlock_discipline. Print Assumptions C16a_owner_excludes.
Print Assumptions C16a_no_semaphore. Print Assumptions C16a_release_within_2. Print Assumptions C16a_owner_releases.
Print Assumptions C16a_nonowner_inert.
Print Assumptions C16a_no_lost_handoff. Print Assumptions C16a_last_holder_must_scan.
Print Assumptions C16a_spinlock_owner_live.
Print Assumptions C16a_dbg_interleaves_enqueue. Print Assumptions C16a_debugger_unlocked_walk.
Print Assumptions C16a_quiescent_satisfiable.
Print Assumptions C16a_stale_store_refuted. Print Assumptions C16a_exclusion_with_stale_store_is_false.
Print Assumptions C16a_stale_schedule_repaired.
