(* C06 -- conditional critical sections.
   (b) evaluation under the lock: theorem about Model/MuWaitModel.v (Proof/MuWaitProof.v, Part 4);
   (a) the same_condition rings: theorems about the pure queue functions the model's steps are made of
       (splice_after / maybe_merge / remove_from / skip_past of Model/MuWaitModel.v, which follow the pointer code of
       nsync_dll_splice_after_, nsync_maybe_merge_conditions_, nsync_remove_from_mu_queue_, skip_past_same_condition
       assignment by assignment and are compared with the real same_condition pointers in the lock-step replay)
       (Proof/MuWaitRings.v). *)
From NsyncBase Require Import CSem.
From NsyncGen Require Import Consts Sites.
From NsyncModel Require Import MuWaitModel MuWaitSpec.
From NsyncProof Require Import MuWaitProof MuWaitRings.
From Coq Require Import List ZArith.
Import ListNotations.
Local Open Scope Z_scope.

(* ---------- (b) ---------- *)
(* Whenever a step of thread t evaluates a condition (its own, at entry to / after re-acquisition in
   nsync_mu_wait_with_deadline, or a queued waiter's, inside the scan of nsync_mu_unlock_slow_), t owns lock bits of
   the word -- as a reader, a writer, or an unlocker that converted itself to a writer -- and no OTHER thread owns the
   write lock (by C01w), i.e. no other thread is inside a write critical section.  Any number of threads (< 2^24),
   programs, schedules. *)
Theorem C06_eval_under_lock : forall progs cl c0 sched t c,
  Z.of_nat (length progs) < 2 ^ 24 - 1 ->
  eval_under_lock (run (init progs cl c0) sched) t c.
Proof. exact eval_under_lock_reachable. Qed.

(* ---------- (a) rings: for queues of ANY length ---------- *)
(* WAIT_CONDITION_EQ implies "same condition" (same function, arguments in one condition_arg_eq class), an equivalence *)
Theorem C06_cond_eq_sound : forall wc we cl a b, cond_eq wc we cl a b = true -> sc_equiv wc cl a b.
Proof. exact cond_eq_sc_equiv. Qed.

(* RingInv is preserved by: enqueue at the end with merge (first wait of nsync_mu_wait_with_deadline) *)
Theorem C06_rings_enqueue_last : forall wc we cl r q t,
  RingInv wc cl r q -> ~ In t q -> single r t ->
  let r' := maybe_merge wc we cl r (last_opt q) (Some t) in
  RingInv wc cl r' (q ++ [t]) /\ frame r r' (t :: q).
Proof. exact ring_enqueue_last. Qed.
(* ... enqueue at the front with merge (subsequent waits) *)
Theorem C06_rings_enqueue_first : forall wc we cl r q t,
  RingInv wc cl r q -> ~ In t q -> single r t ->
  let r' := maybe_merge wc we cl r (Some t) (first_opt q) in
  RingInv wc cl r' (t :: q) /\ frame r r' (t :: q).
Proof. exact ring_enqueue_first. Qed.
(* ... the enqueues of nsync_mu_lock_slow_ (no condition, no merge) *)
Theorem C06_rings_enqueue_plain : forall wc cl r q t,
  RingInv wc cl r q -> ~ In t q -> single r t -> RingInv wc cl r (q ++ [t]) /\ RingInv wc cl r (t :: q).
Proof. intros; split; [now apply ring_enqueue_plain_last | now apply ring_enqueue_plain_first]. Qed.
(* ... nsync_remove_from_mu_queue_ (from the head, the tail, the middle; first / last / inner member of a ring):
   the removed waiter is left as a singleton ring, the neighbours' rings are merged when WAIT_CONDITION_EQ says so *)
Theorem C06_rings_remove : forall wc we cl r q e,
  RingInv wc cl r q -> In e q ->
  let '(q', r') := remove_from wc we cl r q e in
  q' = remove1 e q /\ RingInv wc cl r' q' /\ single r' e /\ frame r r' q.
Proof. exact ring_remove. Qed.
(* ... the end of a round of the scan in nsync_mu_unlock_slow_: merge across the boundary and append the new waiters *)
Theorem C06_rings_scan_round : forall wc we cl r d n,
  RingInv wc cl r d -> RingInv wc cl r n -> (forall x, In x d -> ~ In x n) ->
  let r' := maybe_merge wc we cl r (last_opt d) (first_opt n) in
  RingInv wc cl r' (d ++ n) /\ frame r r' (d ++ n).
Proof. exact ring_append. Qed.
(* ... and pointer updates elsewhere do not disturb a queue's rings (the scanner's private lists vs. mu->waiters) *)
Theorem C06_rings_frame : forall wc cl r r' q,
  RingInv wc cl r q -> (forall x, In x q -> fst r' x = fst r x /\ snd r' x = snd r x) -> RingInv wc cl r' q.
Proof. exact RingInv_frame. Qed.

(* C06_scan_sound: under "condition_arg_eq identifies only arguments with equal truth", every waiter that the scan
   skips through skip_past_same_condition after finding p's condition false has a false condition *)
Theorem C06_scan_sound : forall wc cl ps r pre p tl,
  eq_truth_preserving cl ps -> RingInv wc cl r (pre ++ p :: tl) -> wtrue wc ps p = false ->
  exists skipped, tl = skipped ++ skip_past (fst r) (pre ++ p :: tl) (p :: tl) p /\
                  Forall (fun x => wtrue wc ps x = false) skipped.
Proof. exact skip_false. Qed.

Print Assumptions C06_eval_under_lock. Print Assumptions C06_cond_eq_sound.
Print Assumptions C06_rings_enqueue_last. Print Assumptions C06_rings_enqueue_first. Print Assumptions C06_rings_enqueue_plain.
Print Assumptions C06_rings_remove. Print Assumptions C06_rings_scan_round. Print Assumptions C06_rings_frame.
Print Assumptions C06_scan_sound.
