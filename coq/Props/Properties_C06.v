(* C06 -- conditional critical sections.
   (b) evaluation under the lock: theorem about Model/MuWaitModel.v (Proof/MuWaitProof.v, Part 4);
   (a) the same_condition rings: theorems about the pure queue functions the model's steps are made of
       (splice_after / maybe_merge / remove_from / skip_past of Model/MuWaitModel.v, which follow the pointer code of
       nsync_dll_splice_after_, nsync_maybe_merge_conditions_, nsync_remove_from_mu_queue_, skip_past_same_condition
       assignment by assignment and are compared with the real same_condition pointers in the lock-step replay)
       (Proof/MuWaitRings.v). *)
From NsyncBase Require Import CSem.
From NsyncGen Require Import Consts Sites.
From NsyncModel Require Import MuWaitModel MuWaitSpec.
From NsyncProof Require Import MuWaitProof MuWaitRings.
From Coq Require Import List ZArith.
Import ListNotations.
Local Open Scope Z_scope.

(* ---------- (b) ---------- *)
(* Whenever a step of thread t evaluates a condition (its own, at entry to / after re-acquisition in
   nsync_mu_wait_with_deadline, or a queued waiter's, inside the scan of nsync_mu_unlock_slow_), t owns lock bits of
   the word -- as a reader, a writer, or an unlocker that converted itself to a writer -- and no OTHER thread owns the
   write lock (by C01w), i.e. no other thread is inside a write critical section.  Any number of threads (< 2^24),
   programs, schedules. *)
Theorem C06_eval_under_lock : forall progs cl c0 sched t c,
  Z.of_nat (length progs) < 2 ^ 24 - 1 ->
  eval_under_lock (run (init progs cl c0) sched) t c.
Proof. exact eval_under_lock_reachable. Qed.

(* ---------- (a) rings: for queues of ANY length ---------- *)
(* WAIT_CONDITION_EQ implies "same condition" (same function, arguments in one condition_arg_eq class), an equivalence *)
Theorem C06_cond_eq_sound : forall wc we cl a b, cond_eq wc we cl a b = true -> sc_equiv wc cl a b.
Proof. exact cond_eq_sc_equiv. Qed.

(* RingInv is preserved by: enqueue at the end with merge (first wait of nsync_mu_wait_with_deadline) *)
Theorem C06_rings_enqueue_last : forall wc we cl r q t,
  RingInv wc cl r q -> ~ In t q -> single r t ->
  let r' := maybe_merge wc we cl r (last_opt q) (Some t) in
  RingInv wc cl r' (q ++ [t]) /\ frame r r' (t :: q).
Proof. exact ring_enqueue_last. Qed.
(* ... enqueue at the front with merge (subsequent waits) *)
Theorem C06_rings_enqueue_first : forall wc we cl r q t,
  RingInv wc cl r q -> ~ In t q -> single r t ->
  let r' := maybe_merge wc we cl r (Some t) (first_opt q) in
  RingInv wc cl r' (t :: q) /\ frame r r' (t :: q).
Proof. exact ring_enqueue_first. Qed.
(* ... the enqueues of nsync_mu_lock_slow_ (no condition, no merge) *)
Theorem C06_rings_enqueue_plain : forall wc cl r q t,
  RingInv wc cl r q -> ~ In t q -> single r t -> RingInv wc cl r (q ++ [t]) /\ RingInv wc cl r (t :: q).
Proof. intros; split; [now apply ring_enqueue_plain_last | now apply ring_enqueue_plain_first]. Qed.
(* ... nsync_remove_from_mu_queue_ (from the head, the tail, the middle; first / last / inner member of a ring):
   the removed waiter is left as a singleton ring, the neighbours' rings are merged when WAIT_CONDITION_EQ says so *)
Theorem C06_rings_remove : forall wc we cl r q e,
  RingInv wc cl r q -> In e q ->
  let '(q', r') := remove_from wc we cl r q e in
  q' = remove1 e q /\ RingInv wc cl r' q' /\ single r' e /\ frame r r' q.
Proof. exact ring_remove. Qed.
(* ... the end of a round of the scan in nsync_mu_unlock_slow_: merge across the boundary and append the new waiters *)
Theorem C06_rings_scan_round : forall wc we cl r d n,
  RingInv wc cl r d -> RingInv wc cl r n -> (forall x, In x d -> ~ In x n) ->
  let r' := maybe_merge wc we cl r (last_opt d) (first_opt n) in
  RingInv wc cl r' (d ++ n) /\ frame r r' (d ++ n).
Proof. exact ring_append. Qed.
(* ... and pointer updates elsewhere do not disturb a queue's rings (the scanner's private lists vs. mu->waiters) *)
Theorem C06_rings_frame : forall wc cl r r' q,
  RingInv wc cl r q -> (forall x, In x q -> fst r' x = fst r x /\ snd r' x = snd r x) -> RingInv wc cl r' q.
Proof. exact RingInv_frame. Qed.

(* C06_scan_sound: under "condition_arg_eq identifies only arguments with equal truth", every waiter that the scan
   skips through skip_past_same_condition after finding p's condition false has a false condition *)
Theorem C06_scan_sound : forall wc cl ps r pre p tl,
  eq_truth_preserving cl ps -> RingInv wc cl r (pre ++ p :: tl) -> wtrue wc ps p = false ->
  exists skipped, tl = skipped ++ skip_past (fst r) (pre ++ p :: tl) (p :: tl) p /\
                  Forall (fun x => wtrue wc ps x = false) skipped.
Proof. exact skip_false. Qed.


(* ---------- MU_ALL_FALSE ---------- *)
(* FULL statements (NOT proved; kept as the targets).  For programs that never use nsync_mu_unlock_without_wakeup:
   whenever MU_ALL_FALSE is set and no thread owns the write lock, every queued waiter has a condition that is false in
   the current protected state ... *)
Definition no_nw (progs : list (list op)) : Prop := forall ops, In ops progs -> ~ In OUnlockNW ops.
Definition C06_allfalse_full : Prop := forall progs cl c0 sched,
  Z.of_nat (length progs) < 2 ^ 24 - 1 -> no_nw progs ->
  let w := run (init progs cl c0) sched in
  eq_truth_preserving (cls w) (pst w) ->
  has (word w) MU_ALL_FALSE = true -> (forall t, ~ holds w t W) ->
  forall p, In p (queue w) -> exists f a, wcond w p = Some (f, a) /\ pst w f a = false.
(* ... and no wake-up is lost: there is no reachable quiescent world (no thread can move) in which the mutex is free and a
   queued nsync_mu_wait caller's condition is true *)
Definition lost_wakeup (w : world) : Prop :=
  (forall t c, fst (step w (Thr t c)) = w) /\ (forall t, held (get w t) = None) /\
  exists t x, mw (get w t) = Some x /\ In t (queue w) /\ cond_true w (mw_cond x) = true.
Definition C06_no_stuck_full : Prop := forall progs cl c0 sched,
  Z.of_nat (length progs) < 2 ^ 24 - 1 -> no_nw progs ->
  let w := run (init progs cl c0) sched in eq_truth_preserving (cls w) (pst w) -> ~ lost_wakeup w.

(* PROVED part (site level, for all word values): which writes to the word can set / clear / keep MU_ALL_FALSE.
   Every enqueue clears it; every path of nsync_mu_unlock that releases the write lock without scanning clears it;
   nsync_mu_unlock_without_wakeup and nsync_mu_runlock keep it; the scan's final CAS sets it exactly when the scan kept
   it in set_on_release and some waiter remains, whatever the word held before.
   MISSING for C06_allfalse_full / C06_no_stuck_full: the scan-level invariant "set_on_release keeps MU_ALL_FALSE only
   while every waiter moved to `waiters` was evaluated false in the current protected state" -- it needs RingInv as an
   invariant of reachable worlds (its sequential core is C06_scan_sound / C06_rings_* above) together with the facts that
   the protected state is constant while the scanner owns the write lock (C01w_exclusion) and that waiters arriving
   during the scan are unconditional -- and, for no_stuck, the "who wakes whom" invariant of C02 extended to
   MU_DESIG_WAKER hand-offs through nsync_mu_wait_with_deadline. *)
Theorem C06_allfalse_partial :
  (forall old lw m c, has (nsync_mu_lock_slow_cas2_new old lw (lt_of m) c) MU_ALL_FALSE = false) /\
  (forall old st, has (nsync_spin_test_and_set_cas1_new old st MU_ALL_FALSE) MU_ALL_FALSE = false) /\
  has nsync_mu_unlock_cas1_new MU_ALL_FALSE = false /\
  (forall old, has (nsync_mu_unlock_cas2_new old) MU_ALL_FALSE = false) /\
  (forall old, has (nsync_mu_unlock_slow_cas1_new old (lt_of W)) MU_ALL_FALSE = false) /\
  (forall old, 0 <= old < 4294967296 -> old mod 2 = 1 ->
     has (nsync_mu_unlock_without_wakeup_cas2_new old) MU_ALL_FALSE = has old MU_ALL_FALSE) /\
  (forall old, has (nsync_mu_runlock_cas2_new old) MU_ALL_FALSE = has old MU_ALL_FALSE) /\
  (forall w m u old, 0 <= old < 4294967296 -> (u_late u = 0 \/ (u_late u = MU_WLOCK /\ old mod 2 = 1)) -> 0 <= u_set u < 256 ->
     match snd (finalize w m u) with
     | UsRelLoad _ f _ =>
         has (nsync_mu_unlock_slow_cas3_new old (late f) (set_on f) (clear_on f)) MU_ALL_FALSE =
         has (u_set u) MU_ALL_FALSE && match u_done u with [] => false | _ => true end
     | _ => False
     end).
Proof.
  split; [exact af_lock_slow_enqueue|]. split; [exact af_wait_enqueue|]. split; [exact af_unlock_fast|].
  split; [exact af_unlock_cas2|]. split; [exact af_unlock_slow_cas1_W|]. split; [exact af_unlock_nowakeup_cas2|].
  split; [exact af_runlock_cas2 | exact af_finalize].
Qed.

Print Assumptions C06_allfalse_partial.
Print Assumptions C06_eval_under_lock. Print Assumptions C06_cond_eq_sound.
Print Assumptions C06_rings_enqueue_last. Print Assumptions C06_rings_enqueue_first. Print Assumptions C06_rings_enqueue_plain.
Print Assumptions C06_rings_remove. Print Assumptions C06_rings_scan_round. Print Assumptions C06_rings_frame.
Print Assumptions C06_scan_sound.
