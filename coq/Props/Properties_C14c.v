(* C14 — the GLOBAL half: who owns MU_LONG_WAIT, who clears it, what it buys the long waiter, and what it does not.
   Statements only; proofs in Proof/MuProof5.v.  All theorems are over EVERY reachable world of Model/MuModel.v
   (any number of threads < 2^24 - 1, any programs, any schedule).

   Vocabulary (definitions in Proof/MuProof5.v, Part A; nothing is added to the model):
     lw_enq_step w t    the step of t from w is the enqueue CAS of nsync_mu_lock_slow_ (site 503) performed with
                        long_wait = MU_LONG_WAIT, and it succeeds
     slow_acq_step w t  the step of t from w is the acquiring CAS of nsync_mu_lock_slow_ (site 502) and it succeeds
     lw_acq_step w t    ... performed by a thread whose own long_wait is MU_LONG_WAIT
     enq_since progs sched t   somewhere in sched t made an lw_enq_step and no later step of t is a slow_acq_step:
                               "t is between its enqueue CAS with the bit and its acquisition"
     exc_since progs sched t   somewhere in sched a thread u <> t made an lw_acq_step and no later step of t is an
                               lw_enq_step: "another long waiter has acquired since t's latest enqueue CAS"
     lsl_of p = Some l         l = the locals (zero_to_acquire, clear, long_wait, wait_count) of nsync_mu_lock_slow_ at pc p
     sole_long_waiter progs sched t   in no world along sched does a thread other than t carry long_wait = MU_LONG_WAIT

   RESULT.  (1) C14_long_wait_owner, C14_long_wait_transition, C14_cleared_only_by, C14_set_only_by: proved.
            (2) C14_no_fresh_overtake, C14_no_fresh_overtake_run, C14_single_victim, C14_overtaker_waited: proved; the
                exception (another long waiter's acquisition clears the bit) is real: C14_exception_witness.
            (3) C14_bound: REFUTED (C14_bound_refuted_reader, C14_bound_refuted_writer) -- the number of sleeps of a
                single escalated victim is unbounded under adversarial scheduling with 3 resp. 5 threads, although no
                fresh thread ever overtakes it.  What holds instead: C14_long_wait_persists, C14_long_wait_sticky,
                C14_fresh_arrival_behind, C14_overtaker_waited.
            (4) C14c_nonvacuous. *)
From NsyncBase Require Import CSem.
From NsyncGen Require Import Consts Sites.
From NsyncModel Require Import MuModel MuSpec.
From NsyncProof Require Import MuProof MuProof2 MuProof3 MuProof4 MuProof5.
From Coq Require Import List ZArith.
Import ListNotations.
Local Open Scope Z_scope.

(* ---------------------------------------------------------------------------------------------------------- *)
(* 1. the owner of MU_LONG_WAIT                                                                                 *)
(* ---------------------------------------------------------------------------------------------------------- *)

(* (a) whenever the bit is set, some thread t is inside nsync_mu_lock_slow_ with long_wait = MU_LONG_WAIT, holds
       nothing, and is between its enqueue CAS with the bit and its acquisition;
   (b) conversely every thread between its enqueue CAS with the bit and its acquisition sees the bit set -- unless
       another thread whose long_wait is MU_LONG_WAIT has acquired since that CAS (its acquiring CAS clears the bit
       for everybody; t sets it again at its next enqueue CAS, C14_enqueue_sets_bit).
   A thread whose wake-up count has just reached LONG_WAIT_THRESHOLD and that has not enqueued since is NOT covered
   by (b): the bit enters the word only at its next enqueue CAS (C14_threshold_gap_example). *)
Theorem C14_long_wait_owner : forall progs sched,
  Z.of_nat (length progs) < 2 ^ 24 - 1 ->
  let w := run (init progs) sched in
  (has (word w) MU_LONG_WAIT = true ->
     exists t l, enq_since progs sched t /\ lsl_of (P w t) = Some l /\ longw l = MU_LONG_WAIT /\
                 held (get w t) = None) /\
  (forall t, enq_since progs sched t ->
     (exists l, lsl_of (P w t) = Some l /\ longw l = MU_LONG_WAIT) /\ held (get w t) = None /\
     (has (word w) MU_LONG_WAIT = true \/ exc_since progs sched t)).
Proof. exact long_wait_owner. Qed.

(* the exact effect of ONE step of any thread on the bit: set by a successful enqueue CAS with long_wait =
   MU_LONG_WAIT, cleared by a successful acquiring CAS of nsync_mu_lock_slow_ by a thread whose own long_wait is
   MU_LONG_WAIT, unchanged by every other step -- in particular by every release path (nsync_mu_unlock /
   nsync_mu_runlock fast paths, nsync_mu_unlock_slow_ with or without an empty queue: clear_on_release never contains
   MU_LONG_WAIT), by the fast-path and try-lock acquisitions, and by acquisitions of threads with long_wait = 0 *)
Theorem C14_long_wait_transition : forall progs sched u,
  Z.of_nat (length progs) < 2 ^ 24 - 1 ->
  let w := run (init progs) sched in
  has (word (fst (step w u))) MU_LONG_WAIT =
  (if lw_enq_step w u then true else if lw_acq_step w u then false else has (word w) MU_LONG_WAIT).
Proof. exact long_wait_transition. Qed.

Theorem C14_cleared_only_by : forall progs sched u,
  Z.of_nat (length progs) < 2 ^ 24 - 1 ->
  let w := run (init progs) sched in
  has (word w) MU_LONG_WAIT = true -> has (word (fst (step w u))) MU_LONG_WAIT = false ->
  exists m l, P w u = LsCasAcq m l (word w) /\ longw l = MU_LONG_WAIT /\ acquires w u.
Proof. exact long_wait_cleared_only_by. Qed.

Theorem C14_set_only_by : forall progs sched u,
  Z.of_nat (length progs) < 2 ^ 24 - 1 ->
  let w := run (init progs) sched in
  has (word w) MU_LONG_WAIT = false -> has (word (fst (step w u))) MU_LONG_WAIT = true ->
  exists m l, P w u = LsCasEnq m l (word w) /\ longw l = MU_LONG_WAIT.
Proof. exact long_wait_set_only_by. Qed.

(* the history predicates are what the ghost flags computed alongside the run say (used to evaluate them on
   concrete runs) *)
Theorem C14_enq_since_ghost : forall progs sched t,
  enqd (ghost_of progs sched) t = true <-> enq_since progs sched t.
Proof. exact enqd_history. Qed.
Theorem C14_exc_since_ghost : forall progs sched t,
  exc (ghost_of progs sched) t = true <-> exc_since progs sched t.
Proof. exact exc_history. Qed.

(* ---------------------------------------------------------------------------------------------------------- *)
(* 2. no fresh thread overtakes                                                                                 *)
(* ---------------------------------------------------------------------------------------------------------- *)

(* in every world in which t is between its enqueue CAS with the bit and its acquisition, and no OTHER long waiter has
   acquired since that CAS: the bit is set and every step that acquires the mutex is made by a thread that is not
   fresh.  (sched is arbitrary, so this holds "from the enqueue CAS until t acquires, along any schedule".) *)
Theorem C14_no_fresh_overtake : forall progs sched t,
  Z.of_nat (length progs) < 2 ^ 24 - 1 ->
  let w := run (init progs) sched in
  enq_since progs sched t -> ~ exc_since progs sched t ->
  has (word w) MU_LONG_WAIT = true /\ forall u, acquires w u -> ~ fresh w u.
Proof. exact no_fresh_overtake. Qed.

(* the same as a statement about runs, without the history predicates: the step after s1 is t's successful enqueue
   CAS with long_wait = MU_LONG_WAIT; along ANY continuation s2 in which no thread with long_wait = MU_LONG_WAIT
   acquires (t's own acquisition ends the wait, another long waiter's acquisition opens the exception window), the
   bit is set and no fresh thread acquires *)
Theorem C14_no_fresh_overtake_run : forall progs s1 t s2,
  Z.of_nat (length progs) < 2 ^ 24 - 1 ->
  lw_enq_step (run (init progs) s1) t = true ->
  (forall s3 u s4, s2 = s3 ++ u :: s4 -> lw_acq_step (run (init progs) (s1 ++ t :: s3)) u = false) ->
  let w := run (init progs) (s1 ++ t :: s2) in
  has (word w) MU_LONG_WAIT = true /\ forall u, acquires w u -> ~ fresh w u.
Proof. exact no_fresh_overtake_run. Qed.

(* with a single long-waiting thread there is no exception *)
Theorem C14_single_victim : forall progs sched t,
  Z.of_nat (length progs) < 2 ^ 24 - 1 ->
  let w := run (init progs) sched in
  sole_long_waiter progs sched t -> enq_since progs sched t ->
  has (word w) MU_LONG_WAIT = true /\ forall u, acquires w u -> ~ fresh w u.
Proof. exact single_victim. Qed.

(* who CAN overtake while the bit is set: only a thread at the acquiring CAS of nsync_mu_lock_slow_ with clear =
   MU_DESIG_WAKER, i.e. one that has itself been queued and woken in its current call *)
Theorem C14_overtaker_waited : forall progs sched u,
  Z.of_nat (length progs) < 2 ^ 24 - 1 ->
  let w := run (init progs) sched in
  has (word w) MU_LONG_WAIT = true -> acquires w u ->
  exists m l, P w u = LsCasAcq m l (word w) /\ clr l = MU_DESIG_WAKER.
Proof. exact overtaker_waited. Qed.

(* the exception is real (two readers woken together, both escalated; the first one's acquisition clears the bit, a
   fresh writer then takes the free lock ahead of the second one, which has been woken LONG_WAIT_THRESHOLD times;
   the second one's next enqueue CAS closes the window) *)
Example C14_exception_witness :
  Z.of_nat (length xw_progs) < 2 ^ 24 - 1 /\
  (let w := run (init xw_progs) xw_sched30 in
   word w = 69 /\ has (word w) MU_LONG_WAIT = true /\ queue w = [2; 1]%nat /\
   enq_since xw_progs xw_sched30 1%nat /\ enq_since xw_progs xw_sched30 2%nat) /\
  (let s := (xw_sched30 ++ repeat 0 10 ++ repeat 1 3)%nat in let w := run (init xw_progs) s in
   has (word w) MU_LONG_WAIT = true /\ lw_acq_step w 1%nat = true /\
   has (word (fst (step w 1%nat))) MU_LONG_WAIT = false) /\
  (let w := run (init xw_progs) xw_sched in
   enq_since xw_progs xw_sched 2%nat /\ exc_since xw_progs xw_sched 2%nat /\
   word w = 0 /\ held (get w 2%nat) = None /\ sleeps (get w 2%nat) = LONG_WAIT_THRESHOLD /\
   fresh w 0%nat /\ acquires w 0%nat) /\
  (let s := (xw_sched ++ [0] ++ repeat 2 8)%nat in let w := run (init xw_progs) s in
   holds w 0%nat W /\ h_asleep w 2%nat /\ sleeps (get w 2%nat) = LONG_WAIT_THRESHOLD + 1 /\
   has (word w) MU_LONG_WAIT = true /\ enq_since xw_progs s 2%nat /\ ~ exc_since xw_progs s 2%nat).
Proof. exact exception_witness. Qed.

(* ---------------------------------------------------------------------------------------------------------- *)
(* 3. the bound on the victim's sleeps                                                                          *)
(* ---------------------------------------------------------------------------------------------------------- *)

(* the full statement (DESIGN.md 4, C14_bound): with a single escalated victim blocked in nsync_mu_lock (md = W) or
   nsync_mu_rlock (md = R), at most LONG_WAIT_THRESHOLD + c sleeps inside the call under every schedule *)
Definition C14_bound_full (md : mode) (c : Z) : Prop :=
  forall progs sched t l, Z.of_nat (length progs) < 2 ^ 24 - 1 -> sole_long_waiter progs sched t ->
    P (run (init progs) sched) t = LsSemP md l ->
    sleeps (get (run (init progs) sched) t) <= LONG_WAIT_THRESHOLD + c.

(* REFUTED for a reader victim: 3 threads (writer A, reader victim V, reader U), V the only escalated thread, the bit
   set from V's first enqueue with it on, no fresh thread ever acquiring -- and V is sent back to sleep once per
   cycle (here 1000 cycles): A's release wakes V and U together; U acquires, which clears MU_DESIG_WAKER; U's release
   therefore wakes the queued A; A acquires; only then V runs, finds a writer, and sleeps again; U and A come back,
   are stopped by the bit, queue, are woken -- and have thereby "themselves waited" *)
Example C14_bound_refuted_reader_witness :
  let progs := sv_progs sv_K in let sched := sv_sched sv_K in let w := run (init progs) sched in
  length progs = 3%nat /\ sole_long_waiter progs sched 1%nat /\
  enq_since progs sched 1%nat /\ ~ exc_since progs sched 1%nat /\
  has (word w) MU_LONG_WAIT = true /\ h_asleep w 1%nat /\ queue w = [1; 2]%nat /\ holds w 0%nat W /\
  (exists l, P w 1%nat = LsSemP R l) /\
  sleeps (get w 1%nat) = LONG_WAIT_THRESHOLD + Z.of_nat sv_K.
Proof. exact bound_refuted_witness. Qed.

Theorem C14_bound_refuted_reader : ~ C14_bound_full R 999.
Proof. exact bound_refuted_reader. Qed.

(* REFUTED for a writer victim among readers: 5 threads (a writer that only sets the scene, the writer victim V, three
   readers), no barging writer; V fails once per cycle from its very first wake-up on, and escalating changes
   nothing: the reader that holds releases and wakes V (first in the queue); a reader woken earlier together with the
   holder acquires -- clearing MU_DESIG_WAKER before the designated waker V has run -- and its release wakes the
   readers queued behind V; one of them acquires; only then V runs *)
Example C14_bound_refuted_writer_witness :
  let progs := wv_progs (wv_S + wv_S) in let w := run (init progs) wv_sched in
  length progs = 5%nat /\ sole_long_waiter progs wv_sched 1%nat /\
  enq_since progs wv_sched 1%nat /\ ~ exc_since progs wv_sched 1%nat /\
  has (word w) MU_LONG_WAIT = true /\ h_asleep w 1%nat /\ queue w = [1; 4]%nat /\
  (exists l, P w 1%nat = LsSemP W l) /\
  sleeps (get w 1%nat) = LONG_WAIT_THRESHOLD + 300.
Proof. exact bound_refuted_writer_witness. Qed.

Theorem C14_bound_refuted_writer : ~ C14_bound_full W 299.
Proof. exact bound_refuted_writer. Qed.

(* what holds instead (C14_bound_partial): *)
(* (i) once set, the bit stays set along any continuation in which no thread with long_wait = MU_LONG_WAIT acquires *)
Theorem C14_long_wait_persists : forall progs s1 s2,
  Z.of_nat (length progs) < 2 ^ 24 - 1 ->
  has (word (run (init progs) s1)) MU_LONG_WAIT = true ->
  (forall s3 u s4, s2 = s3 ++ u :: s4 -> lw_acq_step (run (init progs) (s1 ++ s3)) u = false) ->
  has (word (run (init progs) (s1 ++ s2))) MU_LONG_WAIT = true.
Proof. exact long_wait_persists. Qed.

(* (ii) a thread's long_wait, once MU_LONG_WAIT, stays so until its own acquiring CAS succeeds (so every later enqueue
        CAS of it sets the bit again: C14_enqueue_sets_bit) *)
Theorem C14_long_wait_sticky : forall w t,
  lw_pc (P w t) = true -> slow_acq_step w t = false -> lw_pc (P (fst (step w t)) t) = true.
Proof. exact step_lw_sticky. Qed.

(* (iii) a thread that enqueues without having been woken in its current call (every fresh arrival stopped by the bit)
         goes to the BACK of the queue, behind the long waiter (which re-queues at the front: C14_front) *)
Theorem C14_fresh_arrival_behind : forall progs sched t m l,
  Z.of_nat (length progs) < 2 ^ 24 - 1 ->
  let w := run (init progs) sched in
  P w t = LsStoreWaiting m l -> clr l = 0 -> queue (fst (step w t)) = queue w ++ [t].
Proof. exact fresh_arrival_behind. Qed.

(* the gap before the first enqueue with the bit *)
Example C14_threshold_gap_example :
  let w := run (init lw_progs) gap_sched in
  (exists l, P w 1%nat = LsLoad W l /\ longw l = MU_LONG_WAIT /\ wcount l = LONG_WAIT_THRESHOLD) /\
  has (word w) MU_LONG_WAIT = false /\ ~ enq_since lw_progs gap_sched 1%nat /\
  lw_enq_step (run w [1%nat]) 1%nat = true /\ has (word (run w [1; 1]%nat)) MU_LONG_WAIT = true.
Proof. exact threshold_gap_example. Qed.

(* ---------------------------------------------------------------------------------------------------------- *)
(* 4. non-vacuity                                                                                               *)
(* ---------------------------------------------------------------------------------------------------------- *)

(* the run of Properties_C14b (victim = thread 1 overtaken LONG_WAIT_THRESHOLD times, then the adversary releases):
   the hypotheses of C14_no_fresh_overtake and of C14_single_victim hold, the lock is FREE (word = MU_LONG_WAIT |
   MU_DESIG_WAKER), thread 2 is fresh -- and its acquiring CAS (nsync_mu_lock, site 1, 0 -> MU_WLOCK) is refused *)
Example C14c_nonvacuous :
  Z.of_nat (length lw_progs) < 2 ^ 24 - 1 /\
  let w := run (init lw_progs) lw_sched in
  enq_since lw_progs lw_sched 1%nat /\ ~ exc_since lw_progs lw_sched 1%nat /\
  sole_long_waiter lw_progs lw_sched 1%nat /\
  word w = 72 /\ has (word w) MU_LONG_WAIT = true /\ sleeps (get w 1%nat) = LONG_WAIT_THRESHOLD /\
  fresh w 2%nat /\ held (get w 2%nat) = None /\
  snd (step w 2%nat) = EvCas 101 0 1 false /\ held (get (fst (step w 2%nat)) 2%nat) = None.
Proof. exact c14c_nonvacuous. Qed.

Print Assumptions C14_long_wait_owner. Print Assumptions C14_long_wait_transition.
Print Assumptions C14_cleared_only_by. Print Assumptions C14_set_only_by.
Print Assumptions C14_enq_since_ghost. Print Assumptions C14_exc_since_ghost.
Print Assumptions C14_no_fresh_overtake. Print Assumptions C14_no_fresh_overtake_run.
Print Assumptions C14_single_victim. Print Assumptions C14_overtaker_waited.
Print Assumptions C14_exception_witness.
Print Assumptions C14_bound_refuted_reader_witness. Print Assumptions C14_bound_refuted_reader.
Print Assumptions C14_bound_refuted_writer_witness. Print Assumptions C14_bound_refuted_writer.
Print Assumptions C14_long_wait_persists. Print Assumptions C14_long_wait_sticky.
Print Assumptions C14_fresh_arrival_behind. Print Assumptions C14_threshold_gap_example.
Print Assumptions C14c_nonvacuous.
