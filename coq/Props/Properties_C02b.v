(* C02 (hand-off half) — a released mutex is always handed on: no lost lock wake-up.
   "If every thread that acquires an nsync_mu eventually releases it, every nsync_mu_lock and nsync_mu_rlock
    call eventually returns: no thread stays asleep on a mutex that is free (or only read-held, for a reader)
    with nobody left who is responsible for waking it."
   Stated as a safety property of ALL reachable worlds of Model/MuModel.v (any number of threads < 2^24-1,
   any programs, any schedule).  Statements only; proofs in Proof/MuProof3.v. *)
From NsyncBase Require Import CSem.
From NsyncGen Require Import Consts Sites.
From NsyncModel Require Import MuModel MuSpec.
From NsyncProof Require Import MuProof MuProof2 MuProof3.
From Coq Require Import List ZArith.
Import ListNotations.
Local Open Scope Z_scope.

(* t sits in the semaphore P of nsync_mu_lock_slow_ with count 0 *)
Definition asleep (w : world) (t : nat) : Prop := snd (step w t) = EvBlocked.
(* t is idle and its program is exhausted: [step] does nothing *)
Definition done (w : world) (t : nat) : Prop := t_pc (get w t) = Idle /\ t_ops (get w t) = [].
(* nothing can move any more *)
Definition quiescent (w : world) : Prop := forall t, (t < nthreads w)%nat -> asleep w t \/ done w t.
(* the mode the sleeping nsync_mu_lock / nsync_mu_rlock call asked for *)
Definition wants (w : world) (t : nat) (m : mode) : Prop := exists l, t_pc (get w t) = LsSemP m l.

(* ---- the statement at full strength: a sleeping reader implies a WRITE holder ---- *)
Definition C02_no_lost_handoff_full : Prop :=
  forall progs sched, Z.of_nat (length progs) < 2 ^ 24 - 1 ->
  let w := run (init progs) sched in
  quiescent w -> forall t, asleep w t ->
  (wants w t W -> exists t', holds w t' W \/ holds w t' R) /\
  (wants w t R -> exists t', holds w t' W).

(* It is false of the model, by design of the lock (writer priority): progs = cx_progs =
   [[OLock R]; [OLock W; OUnlock]; [OLock R; OUnlock]], sched = cx_sched = 0, 8 x 1, 8 x 2:
   reader 0 holds and is finished, writer 1 is queued, reader 2 is queued behind the writer and asleep. *)
Theorem C02_no_lost_handoff_refuted : exists progs sched,
  Z.of_nat (length progs) < 2 ^ 24 - 1 /\
  let w := run (init progs) sched in
  quiescent w /\ exists t, asleep w t /\ wants w t R /\ forall t', ~ holds w t' W.
Proof. exact no_lost_handoff_refuted. Qed.

Theorem C02_no_lost_handoff_full_is_false : ~ C02_no_lost_handoff_full.
Proof. exact h_full_false. Qed.

(* not even "a write holder, or a writer waiting ahead": reader 3 sleeps beside read holder 1, no writer anywhere
   (cy_progs, cy_sched: reader 1 was woken as designated waker, reader 3 queued before 1 re-acquired) *)
Example C02_reader_sleeps_beside_reader : exists progs sched,
  Z.of_nat (length progs) < 2 ^ 24 - 1 /\
  let w := run (init progs) sched in
  quiescent w /\ asleep w 3%nat /\ wants w 3%nat R /\ holds w 1%nat R /\
  (forall t', ~ holds w t' W) /\ (forall t', ~ wants w t' W).
Proof. exact reader_sleeps_beside_reader. Qed.

(* ---- what holds: whenever nothing can move any more and some thread is still asleep inside
   nsync_mu_lock / nsync_mu_rlock, some thread (finished, or itself asleep in a nested call) still HOLDS the
   mutex; a world where everybody sleeps or is finished while the mutex is free is unreachable.
   Writer half at full strength; reader half with "holds in either mode". ---- *)
Theorem C02_no_lost_handoff_partial : forall progs sched,
  Z.of_nat (length progs) < 2 ^ 24 - 1 ->
  let w := run (init progs) sched in
  quiescent w -> forall t, asleep w t ->
  (wants w t W -> exists t', holds w t' W \/ holds w t' R) /\
  (wants w t R -> exists t', holds w t' W \/ holds w t' R).
Proof. exact no_lost_handoff_partial. Qed.

(* ... and the holder IS responsible for the sleeper (both modes): the sleeper is on the waiter queue with its
   waiting flag set and the word says "waiters, no designated waker, queue spinlock free, not all-false" ... *)
Theorem C02_holder_is_responsible : forall progs sched,
  Z.of_nat (length progs) < 2 ^ 24 - 1 ->
  let w := run (init progs) sched in
  quiescent w -> forall t, asleep w t ->
  (exists t', holds w t' W \/ holds w t' R) /\
  In t (queue w) /\ waiting w t = true /\
  has (word w) MU_WAITING = true /\ has (word w) MU_DESIG_WAKER = false /\ has (word w) MU_ALL_FALSE = false /\
  has (word w) MU_SPINLOCK = false.
Proof. exact no_lost_handoff. Qed.

(* ... so that the release of the last holder (the writer, or the only remaining reader) can take none of the
   paths that wake nobody: the first CAS of nsync_mu_unlock / nsync_mu_runlock fails, the second is not attempted,
   the uncontended branch of nsync_mu_unlock_slow_ is closed, and its spinlock-taking branch (followed by the
   scan, which wakes the head of a non-empty queue: C13 pinned / us_after_scan) is open. *)
Theorem C02_last_holder_must_scan : forall progs sched,
  Z.of_nat (length progs) < 2 ^ 24 - 1 ->
  let w := run (init progs) sched in
  quiescent w -> forall t, asleep w t -> forall m,
  match m with W => count_held w W = 1 | R => count_held w W = 0 /\ count_held w R = 1 end ->
  word w <> ufast_old m /\ unlock_try_cas2 m (word w) = false /\
  nsync_mu_unlock_slow_cas1_guard (word w) = false /\ nsync_mu_unlock_slow_cas2_guard (word w) = true.
Proof. exact last_holder_must_scan. Qed.

(* the hypotheses are satisfiable: cz_progs = [[OLock W]; [OLock W; OUnlock]], cz_sched = 0, 8 x 1:
   thread 0 finishes holding the lock, thread 1 sleeps in nsync_mu_lock *)
Example C02_quiescent_satisfiable : exists progs sched,
  Z.of_nat (length progs) < 2 ^ 24 - 1 /\
  let w := run (init progs) sched in
  quiescent w /\ asleep w 1%nat /\ wants w 1%nat W /\ done w 0%nat /\ holds w 0%nat W.
Proof. exact quiescent_satisfiable. Qed.

Print Assumptions C02_no_lost_handoff_refuted. Print Assumptions C02_no_lost_handoff_full_is_false.
Print Assumptions C02_reader_sleeps_beside_reader.
Print Assumptions C02_no_lost_handoff_partial. Print Assumptions C02_holder_is_responsible.
Print Assumptions C02_last_holder_must_scan. Print Assumptions C02_quiescent_satisfiable.
