(* C05 / C13 / C15 over nsync_sem_wait_with_cancel_ (internal/sem_wait.c, all of it) and the note functions it calls into or races
   with (nsync_note_notified_deadline_, nsync_note_notify, notify, note_notify_child of internal/note.c, seen from the cancel note).
   Theorems about Model/SemWaitModel.v: one step per atomic site of sem_wait.c / note.c, per lock / unlock boundary of the cancel
   note's note_mu (ABSTRACT exclusive lock; licence C01/C02), per clock read, per V / P (ABSTRACT counting semaphore; licence C12);
   any number of threads (programs of OWait / ONotify / OIsNotified / OParentNotify), any number of notes, several waiters per
   note, any schedule, clock ticks, posts from outside ([reachable]).  The model is tied to the code by replay/semwait_replay.ml
   over traces of harness/scen/cancel_mix.c (lock-step: every site, value read / written, lock boundary, clock read, V, P).
   The values written and the guard cancel_note != NULL come from Gen/Sites.v.  Statements only; proofs in Proof/SemWaitProof.v
   (stack shapes, what the locals know, the log of returns), SemWaitProof2.v (note_mu discipline), SemWaitProof3.v (records,
   queue, posts), SemWaitProof4.v (concrete runs), SemWaitProof5.v.

   [rets w] is the ghost log of the returned calls: result, why (YOk: the P took a post | YTimeout: the P timed out and the
   caller's deadline was the nearer one | YEarly: the first nsync_note_notified_deadline_ said notified | YLocked: found notified
   under note_mu before enqueueing | YExpiry: the P timed out at the note's expiry), the clock at the return / at the time-out /
   at the first expiry check, the note's `notified` word and expiry at the return, the locals cancel_time and deadline_is_nearer,
   the record (the on-stack struct nsync_waiter_s) the call created, if any. *)
From NsyncBase Require Import CSem.
From NsyncGen Require Import Consts Sites.
From NsyncModel Require Import SemWaitModel.
From NsyncProof Require Import SemWaitProof SemWaitProof2 SemWaitProof3 SemWaitProof4 SemWaitProof5.
From Coq Require Import List ZArith.
Import ListNotations.
Local Open Scope Z_scope.

(* ---- C05: the result and its reason ---- *)

(* C05sw_results: the result is 0, ETIMEDOUT or ECANCELED (Gen/Consts.v). *)
Theorem C05sw_results : forall w e, reachable w -> In e (rets w) -> e_res e = 0 \/ e_res e = ETIMEDOUT \/ e_res e = ECANCELED.
Proof. exact sw_results. Qed.

(* C05sw_reason (the part that holds): for every returned call
     0          => the P took a post;
     ETIMEDOUT  => the P timed out at a clock value c >= abs_deadline (c <= the clock at the return), and there was no note or the
                   deadline was strictly nearer than the note's expiry (deadline_is_nearer, cancel_time = the expiry);
     ECANCELED  => there was a cancel note and, at the moment of the return, its `notified` word is non-zero OR ITS EXPIRY IS NOT
                   AFTER THE EPOCH (see C05sw_reason_refuted); by expiry of the P (YExpiry) only if the clock had reached the
                   note's expiry, the deadline was not strictly nearer, and -- e_flag <> 0 in that case for a note with a positive
                   expiry -- the call itself has called nsync_note_notify before returning; when the first
                   nsync_note_notified_deadline_ read the clock and cancelled (YEarly with e_chk = Some c) the clock had reached
                   the expiry. *)
Theorem C05sw_reason_partial : forall w e, reachable w -> In e (rets w) -> reason_ok e.
Proof. exact sw_reason. Qed.
(* the statement at full strength: ECANCELED => the `notified` word is non-zero at the return ... *)
Definition C05sw_reason_full : Prop := reason_full.
(* ... is FALSE of the model and of the code: a note whose expiry is at or before the epoch (nsync_note_new (NULL, t) with t <= 0) is
   treated as notified by NOTIFIED_TIME / nsync_note_notified_deadline_ / nsync_note_is_notified and cancels a wait, but nobody
   ever stores its `notified` word (note_notify_child does nothing when NOTIFIED_TIME (n) <= 0).  Witness: one thread, note
   expiry -5, clock 0 (SemWaitProof4.ex_preepoch_expiry); checked on the real code with the scenario in the report
   (result ECANCELED, nsync_note_is_notified = 1, notified word 0).  Not a violation of C05 (the note IS expired). *)
Theorem C05sw_reason_refuted : exists w e, reachable w /\ In e (rets w) /\ e_res e = ECANCELED /\ e_flag e = 0 /\ e_exp e = Some (-5).
Proof. exact sw_reason_refuted. Qed.
Theorem C05sw_reason_full_false : ~ C05sw_reason_full.
Proof. exact sw_reason_not_full. Qed.

(* ---- C13: nobody touches a record whose call has returned ---- *)

(* C13sw_no_dead_touch: no step of a notifier or of the owner has read or written a record (its waiting word, its sem pointer, its
   list links -- a list operation is charged with touching EVERY record on that list) after the call that owns it returned. *)
Theorem C13sw_no_dead_touch : forall w, reachable w -> dead_touch w = 0.
Proof. exact sw_no_dead_touch. Qed.
(* the structural facts it rests on: a record is on the queue of at most one note (its call's cancel note), at most once, and only
   while its call is live ... *)
Theorem C13sw_queue : forall w m r, reachable w -> In r (waiters (nt w m)) ->
  (r < nrec w)%nat /\ rnote (recs w r) = m /\ live (recs w r) = true /\ NoDup (waiters (nt w m)).
Proof. exact sw_queue. Qed.
(* ... and a record unlinked by a notifier (thread u before its store of waiting = 0, or between that store and its V) is live,
   is on no queue, and u holds the note's note_mu.  WHAT THE CODE GUARANTEES: note_notify_child stores nw->waiting = 0 BEFORE it
   reads nw->sem for the V, so the waiting word protects nothing here (nsync_sem_wait_with_cancel_ never reads nw.waiting); the
   record is protected by note_mu alone: the notifier holds it from before the unlink until after the last V, and the owner takes it
   (sem_wait.c:67) between its P and its return. *)
Theorem C13sw_taken_live : forall w u n r, reachable w -> taking w u n r ->
  live (recs w r) = true /\ rnote (recs w r) = n /\ lock (nt w n) = Some u /\ (forall m, ~ In r (waiters (nt w m))).
Proof. exact sw_taken_live. Qed.
(* note_mu is held by exactly the thread whose current frame is inside a critical section of it *)
Theorem C13sw_note_mu : forall w n u, reachable w -> (lock (notes w n) = Some u <-> held_by (stack (get w u)) = Some n).
Proof. intros w n u R. exact (reachable_W3 w R n u). Qed.

(* C05sw_clean: when a call returns, its record is dead and on no note's queue -- then and ever after. *)
Theorem C05sw_clean : forall w e r, reachable w -> In e (rets w) -> e_rec e = Some r ->
  live (recs w r) = false /\ forall m, ~ In r (waiters (nt w m)).
Proof. exact sw_clean. Qed.

(* ---- C05 "needs no further wake-up" (safety form) ---- *)

(* C05sw_no_lost_cancel: a thread inside the P of a wait whose cancel note has `notified` <> 0 has a post of its semaphore
   available, or a notifier is still inside the waiter loop of note_notify_child of that note (and that notifier is never blocked
   there: C05sw_drainer_enabled; it posts or has posted for every record it unlinks). *)
Theorem C05sw_no_lost_cancel : forall w t n l, reachable w -> in_P w t n l -> flag (nt w n) <> 0 ->
  (1 <= sem (get w t))%nat \/ exists u, draining w u n.
Proof. exact sw_no_lost_cancel. Qed.
Theorem C05sw_drainer_enabled : forall w u n c, draining w u n -> snd (step w u c) <> EvBlocked.
Proof. exact sw_drainer_enabled. Qed.
(* the form asked for: no notifier draining => the thread is not stuck *)
Theorem C05sw_not_stuck : forall w t n l, reachable w -> in_P w t n l -> flag (nt w n) <> 0 -> (forall u, ~ draining w u n) -> ~ stuck w t.
Proof. exact sw_not_stuck. Qed.
(* once abs_deadline has been reached (in particular: an expired, zero or pre-epoch deadline) the time-out of the P is enabled,
   whatever the note's expiry is (local_abs_deadline is the minimum of the two) *)
Theorem C05sw_deadline_enabled : forall w t n l rest, reachable w -> stack (get w t) = AWait l (WP n) :: rest ->
  tle_z (w_dl l) (clock w) = true -> snd (step w t true) = EvP false.
Proof. exact sw_deadline_enabled. Qed.
Theorem C05sw_plain_deadline_enabled : forall w t l rest, stack (get w t) = AWait l WPlain :: rest ->
  tle_z (w_dl l) (clock w) = true -> snd (step w t true) = EvP false.
Proof. exact sw_plain_deadline_enabled. Qed.

(* ---- C15 ---- *)
(* no deadline and no note: the P never times out, it blocks until there is a post, and such a call only ever returns 0 *)
Theorem C15sw_no_deadline : forall w t l rest, stack (get w t) = AWait l WPlain :: rest -> w_dl l = None ->
  snd (step w t true) = EvBlocked /\ (sem (get w t) = O -> snd (step w t false) = EvBlocked) /\
  ((1 <= sem (get w t))%nat -> snd (step w t false) = EvP true).
Proof. exact sw_no_deadline. Qed.
Theorem C15sw_no_deadline_result : forall w e, reachable w -> In e (rets w) -> e_note e = None -> e_dl e = None ->
  e_res e = 0 /\ e_took e <> None.
Proof. exact sw_no_deadline_result. Qed.
(* C05sw_expired_prompt -- "a wait called with abs_deadline <= clock or with a note whose expiry <= clock, run alone, returns a
   non-zero result within a fixed number of its own steps without blocking" -- is NOT PROVED as a theorem over all reachable
   quiescent worlds (it needs two more invariants: disconnecting <> 0 only while a thread is inside notify / the parent's loop, and
   a live record's owner is inside its call).  What is proved: the time-out is enabled as soon as the deadline is reached
   (C05sw_deadline_enabled, C05sw_plain_deadline_enabled: any deadline value, negative ones included), every result is justified
   (C05sw_reason_partial), and the concrete runs below. *)
Definition C05sw_expired_prompt_stmt : Prop :=
  forall w t no dl rest, reachable w -> (forall u, stack (get w u) = []) -> prog (get w t) = OWait no dl :: rest ->
    (tle_z dl (clock w) = true \/ exists n, no = Some n /\ tle_z (expiry (nt w n)) (clock w) = true) ->
    exists k, (k <= 16)%nat /\
      let w' := run w (repeat (AStep t true) k) in
      stack (get w' t) = [] /\ exists r, hd_error (hist (get w' t)) = Some (OWait no dl, RInt r) /\ r <> 0.

(* ---- non-vacuity: concrete schedules (vm_compute) reaching each outcome; more in Proof/SemWaitProof4.v ---- *)
Definition C05sw_ex_ok := ex_ok.
Definition C05sw_ex_timeout := ex_timeout.
Definition C05sw_ex_early_notified := ex_early_notified.
Definition C05sw_ex_early_expired := ex_early_expired.
Definition C05sw_ex_locked := ex_locked.
Definition C05sw_ex_expiry := ex_expiry.
Definition C05sw_ex_race_notify_timeout := ex_race_notify_timeout.
Definition C05sw_ex_two_waiters := ex_two_waiters.
Definition C05sw_ex_parent_notify := ex_parent_notify.
Definition C05sw_ex_preepoch_expiry := ex_preepoch_expiry.

Print Assumptions C05sw_results.
Print Assumptions C05sw_reason_partial.
Print Assumptions C05sw_reason_refuted.
Print Assumptions C05sw_reason_full_false.
Print Assumptions C13sw_no_dead_touch.
Print Assumptions C13sw_queue.
Print Assumptions C13sw_taken_live.
Print Assumptions C13sw_note_mu.
Print Assumptions C05sw_clean.
Print Assumptions C05sw_no_lost_cancel.
Print Assumptions C05sw_drainer_enabled.
Print Assumptions C05sw_not_stuck.
Print Assumptions C05sw_deadline_enabled.
Print Assumptions C05sw_plain_deadline_enabled.
Print Assumptions C15sw_no_deadline.
Print Assumptions C15sw_no_deadline_result.
Print Assumptions C05sw_ex_ok.
Print Assumptions C05sw_ex_timeout.
Print Assumptions C05sw_ex_early_notified.
Print Assumptions C05sw_ex_early_expired.
Print Assumptions C05sw_ex_locked.
Print Assumptions C05sw_ex_expiry.
Print Assumptions C05sw_ex_race_notify_timeout.
Print Assumptions C05sw_ex_two_waiters.
Print Assumptions C05sw_ex_parent_notify.
Print Assumptions C05sw_ex_preepoch_expiry.
