(* C17 — the waiter-queue list operations implement a sequence.
   Theorems about coq/Gen/Dll.v, the translation of internal/dll.c that
   gen/c2coq.py regenerates on every run.  Statements only; proofs are in
   Proof/DllProof.v. *)
From NsyncBase Require Import CSem.
From NsyncGen Require Import Dll.
From NsyncProof Require Import DllSpec DllProof.
Local Open Scope Z_scope.

(* splice_after on two disjoint rings: n and its successors come after p *)
Theorem C17_splice : forall h p ps n ns,
  ring h (p :: ps) -> ring h (n :: ns) -> disjoint (p :: ps) (n :: ns) ->
  let h' := nsync_dll_splice_after_ h p n in
  ring h' (p :: n :: ns ++ ps) /\ frame h h' (p :: ps ++ n :: ns).
Proof. exact splice_ring. Qed.

(* make_first_in_list: the ring of e (starting at e) is put in front of the list *)
Theorem C17_make_first : forall h l s e es,
  lrep h l s -> ring h (e :: es) -> disjoint s (e :: es) ->
  let '(l', h') := nsync_dll_make_first_in_list_ h l e in
  lrep h' l' (e :: es ++ s) /\ frame h h' (s ++ e :: es).
Proof. exact make_first_spec. Qed.

(* make_last_in_list: the ring of e (ending at e) is put at the end of the list *)
Theorem C17_make_last : forall h l s e es,
  lrep h l s -> ring h (es ++ [e]) -> disjoint s (es ++ [e]) ->
  let '(l', h') := nsync_dll_make_last_in_list_ h l e in
  lrep h' l' (s ++ es ++ [e]) /\ frame h h' (s ++ es ++ [e]).
Proof. exact make_last_spec. Qed.

(* e == NULL leaves everything unchanged *)
Theorem C17_make_null : forall h l,
  nsync_dll_make_first_in_list_ h l 0 = (l, h) /\ nsync_dll_make_last_in_list_ h l 0 = (l, h).
Proof. exact make_null_spec. Qed.

(* remove: the element disappears from the sequence and becomes a self-linked singleton
   that can be inserted again (it satisfies the precondition of make_first/make_last) *)
Theorem C17_remove : forall h l s1 e s2,
  lrep h l (s1 ++ e :: s2) ->
  let '(l', h') := nsync_dll_remove_ h l e in
  lrep h' l' (s1 ++ s2) /\ ring h' [e] /\ frame h h' (s1 ++ e :: s2).
Proof. exact remove_spec. Qed.

Theorem C17_init : forall h e c, e <> 0 ->
  ring (nsync_dll_init_ h e c) [e] /\ frame h (nsync_dll_init_ h e c) [e].
Proof. exact init_spec. Qed.

(* traversals: first/next yields the sequence, last/prev its reverse, and both stop
   (return NULL) exactly at the end; emptiness is reported exactly for [] *)
Theorem C17_traverse : forall h l s, lrep h l s ->
  traverse_fwd h l (S (length s)) = s /\
  traverse_bwd h l (S (length s)) = rev s /\
  (nsync_dll_is_empty_ l = 1 <-> s = []) /\ (nsync_dll_is_empty_ l = 0 <-> s <> []).
Proof. exact traverse_spec. Qed.

(* rings not touched by an operation are preserved *)
Theorem C17_frame : forall h h' xs s l,
  frame h h' xs -> disjoint s xs -> lrep h l s -> lrep h' l s.
Proof. exact lrep_frame. Qed.

(* every operation sequence of any length on any number of disjoint lists:
   the code's lists represent exactly the abstract sequences *)
Theorem C17_refines : forall ops h st h' st',
  srep h st -> run h st ops = Some (h', st') ->
  srep h' st' /\ map snd st' = fold_left op_spec ops (map snd st).
Proof. exact run_refines. Qed.

Theorem C17_sequences : forall ops h st h' st' i,
  srep h st -> run h st ops = Some (h', st') -> (i < length st')%nat ->
  let l := fst (nth i st' (0, [])) in
  let s := nth i (fold_left op_spec ops (map snd st)) [] in
  traverse_fwd h' l (S (length s)) = s /\ traverse_bwd h' l (S (length s)) = rev s.
Proof. exact run_sequences. Qed.

(* non-vacuity: a concrete heap, two lists and a free element, and an operation sequence *)
Example C17_example : exists h st h' st',
  srep h st /\ run h st [OpLast 0 2; OpFirst 0 1; OpRemove 0 1; OpSplice 0 0 3] = Some (h', st') /\
  map snd st = [[10; 11]; [20]; [12]; [30]] /\
  map snd st' = [[20; 30; 11; 12]; []; []; []; [10]].
Proof. exact example_run. Qed.

Print Assumptions C17_splice. Print Assumptions C17_make_first. Print Assumptions C17_make_last.
Print Assumptions C17_make_null. Print Assumptions C17_remove. Print Assumptions C17_init.
Print Assumptions C17_traverse. Print Assumptions C17_frame. Print Assumptions C17_refines.
Print Assumptions C17_sequences. Print Assumptions C17_example.
