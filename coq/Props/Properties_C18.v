(* C18 — nsync_time arithmetic is exact on normalized values.
   Theorems about coq/Gen/Time*.v, which gen/c2coq.py regenerates from
   platform/posix/src/time_rep.c, platform/c++11/src/time_rep_timespec.cc and
   internal/time_internal.c on every run.  This file contains statements only. *)
From Coq Require Import ZArith.
From NsyncBase Require Import CSem.
From NsyncGen Require Time TimeCpp TimeInt TimeIntCpp TimeProofC TimeProofCpp.
Local Open Scope Z_scope.

Module C.
  Import Time TimeInt TimeProofC.
  Theorem C18_add : forall a b, norm a -> norm b -> add_no_ovf a b ->
    norm (nsync_time_add a b) /\ ns (nsync_time_add a b) = ns a + ns b.
  Proof. exact add_exact. Qed.
  Theorem C18_sub : forall a b, norm a -> norm b -> sub_no_ovf a b ->
    norm (nsync_time_sub a b) /\ ns (nsync_time_sub a b) = ns a - ns b.
  Proof. exact sub_exact. Qed.
  Theorem C18_roundtrip : forall a b, norm a -> norm b -> add_no_ovf a b ->
    in64 (sec (nsync_time_add a b) - sec b) -> in64 (sec a) ->
    nsync_time_sub (nsync_time_add a b) b = a.
  Proof. exact roundtrip. Qed.
  Theorem C18_cmp : forall a b, norm a -> norm b ->
    nsync_time_cmp a b = sgn3 (ns a - ns b).
  Proof. exact cmp_exact. Qed.
  Theorem C18_ms : forall u, 0 <= u < 2 ^ 32 ->
    norm (nsync_time_ms u) /\ ns (nsync_time_ms u) = u * 1000000.
  Proof. exact ms_exact. Qed.
  Theorem C18_us : forall u, 0 <= u < 2 ^ 32 ->
    norm (nsync_time_us u) /\ ns (nsync_time_us u) = u * 1000.
  Proof. exact us_exact. Qed.
  Theorem C18_s_ns : forall s n, nsync_time_s_ns s n = mk_timespec s n.
  Proof. exact s_ns_exact. Qed.
  Theorem C18_bounds : forall t, norm t -> 0 <= sec t -> in64 (sec t) ->
    nsync_time_cmp t_zero t <= 0 /\ nsync_time_cmp t t_no_deadline <= 0.
  Proof. exact bounds. Qed.
End C.

Module Cpp.
  Import TimeCpp TimeIntCpp TimeProofCpp.
  Theorem C18_add : forall a b, norm a -> norm b -> add_no_ovf a b ->
    norm (nsync_time_add a b) /\ ns (nsync_time_add a b) = ns a + ns b.
  Proof. exact add_exact. Qed.
  Theorem C18_sub : forall a b, norm a -> norm b -> sub_no_ovf a b ->
    norm (nsync_time_sub a b) /\ ns (nsync_time_sub a b) = ns a - ns b.
  Proof. exact sub_exact. Qed.
  Theorem C18_roundtrip : forall a b, norm a -> norm b -> add_no_ovf a b ->
    in64 (sec (nsync_time_add a b) - sec b) -> in64 (sec a) ->
    nsync_time_sub (nsync_time_add a b) b = a.
  Proof. exact roundtrip. Qed.
  Theorem C18_cmp : forall a b, norm a -> norm b ->
    nsync_time_cmp a b = sgn3 (ns a - ns b).
  Proof. exact cmp_exact. Qed.
  Theorem C18_ms : forall u, 0 <= u < 2 ^ 32 ->
    norm (nsync_time_ms u) /\ ns (nsync_time_ms u) = u * 1000000.
  Proof. exact ms_exact. Qed.
  Theorem C18_us : forall u, 0 <= u < 2 ^ 32 ->
    norm (nsync_time_us u) /\ ns (nsync_time_us u) = u * 1000.
  Proof. exact us_exact. Qed.
  Theorem C18_s_ns : forall s n, nsync_time_s_ns s n = mk_timespec s n.
  Proof. exact s_ns_exact. Qed.
  Theorem C18_bounds : forall t, norm t -> 0 <= sec t -> in64 (sec t) ->
    nsync_time_cmp t_zero t <= 0 /\ nsync_time_cmp t t_no_deadline <= 0.
  Proof. exact bounds. Qed.
End Cpp.

Print Assumptions C.C18_add. Print Assumptions C.C18_sub. Print Assumptions C.C18_roundtrip.
Print Assumptions C.C18_cmp. Print Assumptions C.C18_ms. Print Assumptions C.C18_us.
Print Assumptions C.C18_s_ns. Print Assumptions C.C18_bounds.
Print Assumptions Cpp.C18_add. Print Assumptions Cpp.C18_sub. Print Assumptions Cpp.C18_roundtrip.
Print Assumptions Cpp.C18_cmp. Print Assumptions Cpp.C18_ms. Print Assumptions Cpp.C18_us.
Print Assumptions Cpp.C18_s_ns. Print Assumptions Cpp.C18_bounds.
