(* C05 / C15 over nsync_sem_wait_with_cancel_ (internal/sem_wait.c) and the cancel note's side of internal/note.c, second part: what was
   left open in Properties_C05sw.v, and the additions asked for by the audit of that file.  Theorems about Model/SemWaitModel.v (see the
   header of Properties_C05sw.v for the model and its tie to the code); statements only; proofs in Proof/SemWaitProof6.v (invariants W5:
   `disconnecting`, W6: a live record's owner is inside its call, W7: who may have set the `notified` word; the log of returns step by step)
   Proof/SemWaitProof7.v (the seeded variant; a thread run alone: rank, progress; W8: past the first check the expiry is after the epoch)
   and Proof/SemWaitProof8.v (the threads in the way of an expired wait get out of the way alone).

   Vocabulary.  [ops w u]: the calls thread u has begun so far (the running one, then the completed ones).  [called w o]: some thread has
   begun call o.  [justified w n]: nsync_note_notify (n) has been CALLED (by anybody: ONotify n begun), or the notifier of n's parent has
   come to n (OParentNotify n begun), or the clock has reached n's expiry (which includes every expiry at or before the epoch: the clock of
   a reachable world is >= 0).  [expired w no dl]: abs_deadline <= clock, or the cancel note's expiry <= clock. *)
From NsyncBase Require Import CSem.
From NsyncGen Require Import Consts Sites.
From NsyncModel Require Import SemWaitModel.
From NsyncProof Require Import SemWaitProof SemWaitProof2 SemWaitProof3 SemWaitProof4 SemWaitProof5 SemWaitProof6 SemWaitProof7 SemWaitProof8.
From Coq Require Import List ZArith.
Import ListNotations.
Local Open Scope Z_scope.

(* ---- (2) who may have set the `notified` word; a cancellation is never reported for a note nobody notified and that has not expired ---- *)

(* C05sx_flag_sound: in every reachable world a note's `notified` word is non-zero only if nsync_note_notify was called on it, or the
   notifier of its parent came to it, or the clock had reached its expiry.  (The word is written by one step only, the store of
   note_notify_child: C05sx_flag_written_by.) *)
Theorem C05sx_flag_sound : forall w n, reachable w -> flag (nt w n) <> 0 -> justified w n.
Proof. exact sw_flag_sound. Qed.
Theorem C05sx_flag_written_by : forall w t c m, flag (notes (fst (step_core w t c)) m) = flag (notes w m) \/
  exists par rest, stack (get w t) = FC m par C2 :: rest.
Proof. exact step_core_flag. Qed.

(* C05sx_cancel_sound -- the strengthened ECANCELED clause of C05sw_reason_partial: when an action makes a wait return ECANCELED, then IN
   THE STATE THE RETURNING STEP STARTED FROM (so: before the return) the call has a cancel note n, and nsync_note_notify (n) had been called
   or n's parent's notifier had come to n or the clock had reached n's expiry; the entry records that state's clock, expiry and `notified`. *)
Theorem C05sx_cancel_sound : forall w a e, reachable w -> rets (exec w a) = e :: rets w -> e_res e = ECANCELED ->
  exists n, e_note e = Some n /\ e_clock e = clock w /\ e_exp e = expiry (nt w n) /\ e_flag e = flag (nt w n) /\ justified w n.
Proof. exact sw_cancel_sound. Qed.
(* read off the log alone: ECANCELED => there was a note, and at the return its `notified` word was set or the clock had reached its expiry *)
Theorem C05sx_cancel_log : forall w e, reachable w -> In e (rets w) -> e_res e = ECANCELED ->
  e_note e <> None /\ (e_flag e <> 0 \/ tle_z (e_exp e) (e_clock e) = true).
Proof. exact sw_cancel_log. Qed.
(* the same clause as a property of a transition function, proved of the model ... *)
Theorem C05sx_cancel_sound_model : cancel_sound_of exec.
Proof. exact sw_cancel_sound_model. Qed.
(* ... and FALSE of the variant of the model with the seeded defect "the enqueue guard at sem_wait.c:50 tests the nearer of abs_deadline and
   cancel_time" (seeded/C15c_semwait_nearer_zero_is_cancel): abs_deadline = -1 ns, a note nobody notifies and that never expires, clock 0 --
   the variant returns ECANCELED (SemWaitProof7.ex_variant_run), the model ETIMEDOUT (ex_variant_faithful). *)
Theorem C05sx_cancel_sound_variant_refuted : ~ cancel_sound_of exec_var.
Proof. exact sw_cancel_sound_variant_refuted. Qed.
Definition C05sx_ex_variant_run := ex_variant_run.
Definition C05sx_ex_variant_faithful := ex_variant_faithful.

(* C05sx_reason_strong (audit item c): for every returned call
     ECANCELED with the `notified` word still 0 at the return => the call returned from the first nsync_note_notified_deadline_ (YEarly),
        the note's expiry is not after the epoch, and NO record was created;
     YExpiry (the P timed out at the note's expiry) => a record was created and the note IS notified at the return: the nsync_note_notify
        this call itself made (the step that sets YExpiry is the step that enters nsync_note_notify, and the wait leaves WNtf only when it
        returns) has completed;
     YLocked => a record was created and the note is notified at the return;  YEarly => no record;
     a call that created a record has a note whose expiry is after the epoch. *)
Theorem C05sx_reason_strong : forall w e, reachable w -> In e (rets w) -> reason_strong e.
Proof. exact sw_reason_strong. Qed.

(* ---- the invariants named as missing in Properties_C05sw.v ---- *)
(* disconnecting is 0 or 1, and non-zero exactly while some thread is between the increment and the decrement (inside notify, or the
   parent's notifier at this note); that thread is unique (SemWaitProof6.W5, d_uniq) *)
Theorem C05sx_disconnecting : forall w n, reachable w -> (disc (nt w n) = 0%nat \/ disc (nt w n) = 1%nat) /\
  (disc (nt w n) <> 0%nat <-> exists u, incd (stack (get w u)) n = true).
Proof. exact sw_disc. Qed.
(* a live record's owner is still inside the call that created it *)
Theorem C05sx_live_owner : forall w r, reachable w -> live (recs w r) = true ->
  exists l s, In (AWait l s) (stack (get w (owner (recs w r)))) /\ has_rec s = true /\ w_rec l = r.
Proof. exact sw_live_owner. Qed.

(* ---- (1) C05sw_expired_prompt ---- *)
(* C05sx_expired_prompt: a wait called with abs_deadline <= clock (any value, before the epoch included) or with a cancel note whose expiry
   <= clock, from a reachable world in which NO OTHER THREAD HOLDS THE NOTE'S note_mu AND ITS disconnecting IS 0 (no other thread is inside
   a critical section of that note_mu or between notify's increment and decrement; the other threads may be anywhere else, e.g. blocked in
   their own P on the same note), run alone with the choice "time out", is never blocked and returns a NON-ZERO result within
   15 + 2 * (records queued on the note) of its own steps (an expired note is notified by the call itself, which wakes every queued waiter:
   2 steps each).  This covers the already-expired note (audit item e): nsync_note_notified_deadline_'s notify finds note_mu free and
   disconnecting == 0. *)
Theorem C05sx_expired_prompt : forall w t no dl rest, reachable w -> stack (get w t) = [] -> prog (get w t) = OWait no dl :: rest -> expired w no dl ->
  (forall n, no = Some n -> lock (nt w n) = None /\ disc (nt w n) = 0%nat) ->
  exists k, (1 <= k <= 15 + 2 * nwaiters w no)%nat /\
    let w' := run w (repeat (AStep t true) k) in
    stack (get w' t) = [] /\ exists r, hd_error (hist (get w' t)) = Some (OWait no dl, RInt r) /\ r <> 0.
Proof. exact sw_expired_prompt. Qed.
(* the statement left open in Properties_C05sw.v (C05sw_expired_prompt_stmt, verbatim): from a world in which no thread is inside a call *)
Theorem C05sx_expired_prompt_quiet : forall w t no dl rest, reachable w -> (forall u, stack (get w u) = []) -> prog (get w t) = OWait no dl :: rest ->
    (tle_z dl (clock w) = true \/ exists n, no = Some n /\ tle_z (expiry (nt w n)) (clock w) = true) ->
    exists k, (k <= 16)%nat /\
      let w' := run w (repeat (AStep t true) k) in
      stack (get w' t) = [] /\ exists r, hd_error (hist (get w' t)) = Some (OWait no dl, RInt r) /\ r <> 0.
Proof. exact sw_expired_prompt_quiet. Qed.
(* the engine: a thread inside a call on note n, run alone ([solo False]: nobody else holds n's note_mu or has incremented n's
   disconnecting; its wait, if it is one, has not taken a post and is due), is never blocked, its rank (own steps left) decreases, and when
   its call returns a wait's result is non-zero.  ([solo True] / [step_good True] drop the two requirements on the wait and then allow the
   thread to stop in its P: that is how the threads in the way are run below.) *)
Theorem C05sx_solo_step : forall w t n, solo False w t n -> step_good False w t n (step_core w t true).
Proof. exact (solo_step False). Qed.

(* C05sx_expired_prompt_composed (the composed bound; audit item e in full): from ANY reachable world in which thread t is about to call a
   wait whose deadline or whose note's expiry has been reached -- somebody may hold the note's note_mu (a notifier draining it, another
   waiter enqueueing or dequeueing itself, a reader of NOTIFIED_TIME), somebody may be disconnecting the note (between notify's increment
   and decrement, possibly having released note_mu to take the parent's) -- there is a schedule of steps of OTHER threads only (first the
   holder of note_mu, alone, until it has left it; then the disconnecting thread, alone, until it has decremented; C05sx_helper_run: each
   is never blocked and its rank decreases) after which note_mu is free and disconnecting is 0, and from there the wait, run alone, returns
   a non-zero result within 15 + 2 * (records then queued on the note) own steps. *)
Theorem C05sx_expired_prompt_composed : forall w t no dl rest, reachable w -> stack (get w t) = [] -> prog (get w t) = OWait no dl :: rest -> expired w no dl ->
  exists sched k, helper_sched t sched /\
    let w1 := run w sched in
    (forall n, no = Some n -> lock (nt w1 n) = None /\ disc (nt w1 n) = 0%nat) /\ (1 <= k <= 15 + 2 * nwaiters w1 no)%nat /\
    let w' := run w (sched ++ repeat (AStep t true) k) in
    stack (get w' t) = [] /\ exists r, hd_error (hist (get w' t)) = Some (OWait no dl, RInt r) /\ r <> 0.
Proof. exact sw_expired_prompt_composed. Qed.
(* a thread that holds n's note_mu or is disconnecting n, run alone while nobody else holds that note_mu, gets out of the way within
   [rank] own steps; no other thread moves, the clock stands still *)
Theorem C05sx_helper_run : forall u n k w, reachable w -> (forall v, v <> u -> held_by (stack (get w v)) <> Some n) -> (rank w (stack (get w u)) <= k)%nat ->
  exists j, (j <= k)%nat /\ let w' := run w (repeat (AStep u true) j) in busyb (stack (get w' u)) n = false /\ untouched u w w'.
Proof. exact helper_run. Qed.

(* ---- audit items a, b, d ---- *)
(* (a) no lost cancellation by the state of the waiter's own record *)
Theorem C05sx_no_lost_cancel_strong : forall w t n l, reachable w -> in_P w t n l -> flag (nt w n) <> 0 ->
  let r := w_rec l in
  owner (recs w r) = t /\ live (recs w r) = true /\ rnote (recs w r) = n /\
  ((rs (recs w r) = RQueued /\ In r (waiters (nt w n)) /\ exists u, draining w u n /\ lock (nt w n) = Some u) \/
   (rs (recs w r) = RTaken /\ exists u, taking w u n r /\ lock (nt w n) = Some u) \/
   (rs (recs w r) = RPosted /\ (1 <= sem (get w t))%nat)).
Proof. exact sw_no_lost_cancel_strong. Qed.
(* (b) the P's time-out is enabled as soon as the note's expiry is reached *)
Theorem C05sx_expiry_enabled : forall w t n l rest, reachable w -> stack (get w t) = AWait l (WP n) :: rest ->
  tle_z (expiry (nt w n)) (clock w) = true -> snd (step w t true) = EvP false.
Proof. exact sw_expiry_enabled. Qed.
(* (d) the next wait on a notified note is cancelled at once (one step, whatever the choice), without creating a record ... *)
Theorem C05sx_next_call_cancelled : forall w t n dl rest c, reachable w -> flag (nt w n) <> 0 -> stack (get w t) = [] -> prog (get w t) = OWait (Some n) dl :: rest ->
  let w' := exec w (AStep t c) in
  stack (get w' t) = [] /\ prog (get w' t) = rest /\ hd_error (hist (get w' t)) = Some (OWait (Some n) dl, RInt ECANCELED) /\ nrec w' = nrec w /\
  exists e, rets w' = e :: rets w /\ e_thr e = t /\ e_res e = ECANCELED /\ e_why e = YEarly /\ e_rec e = None /\ e_note e = Some n /\ e_flag e = flag (nt w n).
Proof. exact sw_next_call_cancelled. Qed.
(* ... in particular after a wait that returned 0 with the note notified (the usual course: the notifier's V ends the P) *)
Theorem C05sx_cancel_after_zero : forall w e t n dl rest c, reachable w -> In e (rets w) -> e_res e = 0 -> e_note e = Some n -> e_flag e <> 0 ->
  stack (get w t) = [] -> prog (get w t) = OWait (Some n) dl :: rest ->
  let w' := exec w (AStep t c) in
  stack (get w' t) = [] /\ hd_error (hist (get w' t)) = Some (OWait (Some n) dl, RInt ECANCELED) /\ nrec w' = nrec w /\
  exists e', rets w' = e' :: rets w /\ e_res e' = ECANCELED /\ e_why e' = YEarly /\ e_rec e' = None.
Proof. exact sw_cancel_after_zero. Qed.

Print Assumptions C05sx_flag_sound.
Print Assumptions C05sx_flag_written_by.
Print Assumptions C05sx_cancel_sound.
Print Assumptions C05sx_cancel_log.
Print Assumptions C05sx_cancel_sound_model.
Print Assumptions C05sx_cancel_sound_variant_refuted.
Print Assumptions C05sx_ex_variant_run.
Print Assumptions C05sx_ex_variant_faithful.
Print Assumptions C05sx_reason_strong.
Print Assumptions C05sx_disconnecting.
Print Assumptions C05sx_live_owner.
Print Assumptions C05sx_expired_prompt.
Print Assumptions C05sx_expired_prompt_quiet.
Print Assumptions C05sx_solo_step.
Print Assumptions C05sx_expired_prompt_composed.
Print Assumptions C05sx_helper_run.
Print Assumptions C05sx_no_lost_cancel_strong.
Print Assumptions C05sx_expiry_enabled.
Print Assumptions C05sx_next_call_cancelled.
Print Assumptions C05sx_cancel_after_zero.
