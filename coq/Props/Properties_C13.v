(* C13 — releasing never touches the mutex after it may have been reclaimed (mutex half).
   Statements only; proofs in Proof/MuProof2.v. *)
From NsyncBase Require Import CSem.
From NsyncGen Require Import Consts Sites.
From NsyncModel Require Import MuModel MuSpec.
From NsyncProof Require Import MuProof MuProof2.
From Coq Require Import List ZArith.
Import ListNotations.
Local Open Scope Z_scope.

(* after the releasing call's last successful CAS on the word (the one that drops the queue spinlock) the remaining
   steps -- waking the chosen waiters -- touch only waiter records (which live in nsync's never-freed pool):
   neither the word nor the queue of the mutex is read or written again *)
Theorem C13_last_cas : forall w t,
  is_wake_pc (t_pc (get w t)) = true ->
  word (fst (step w t)) = word w /\ queue (fst (step w t)) = queue w /\
  (is_wake_pc (t_pc (get (fst (step w t)) t)) = true \/ t_pc (get (fst (step w t)) t) = Idle).
Proof. exact last_cas. Qed.

(* the uncontended releases are a single CAS: the call is over (pc Idle) in the very step that gives the lock away *)
Theorem C13_fast_release_is_last : forall w t m,
  (t_pc (get (begin_op w t) t) = UlFast m \/ exists old, t_pc (get (begin_op w t) t) = UlCas2 m old \/
   t_pc (get (begin_op w t) t) = UsCasRel m old) ->
  held (get (fst (step w t)) t) = None -> held (get (begin_op w t) t) <> None ->
  t_pc (get (fst (step w t)) t) = Idle.
Proof. exact fast_release_is_last. Qed.

(* between an early release (unlock_slow's CAS that gives the lock bit away while keeping the spinlock) and that last
   CAS, the mutex is pinned: some thread is still on the queue or on the releaser's private wake list, and every
   such thread is still inside its nsync_mu_lock call, i.e. still counts as a user of the mutex *)
Theorem C13_pinned : forall progs sched t m u,
  Z.of_nat (length progs) < 2 ^ 24 - 1 ->
  let w := run (init progs) sched in
  (t_pc (get w t) = UsRelLoad m u \/ exists old, t_pc (get w t) = UsRelCas m u old) ->
  wake u ++ queue w <> [] /\
  (forall p, In p (wake u ++ queue w) -> in_lock_slow_queued (t_pc (get w p)) = true).
Proof. exact pinned. Qed.

Print Assumptions C13_last_cas. Print Assumptions C13_fast_release_is_last. Print Assumptions C13_pinned.
