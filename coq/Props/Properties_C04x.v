(* C04x -- the hand-off half of C04 / C02 over the COMBINED model Model/MuXferModel.v (Model/MuModel.v = mu.c site by
   site, plus the part of cv.c that works on the mutex: nsync_cv_wait releasing / parking / re-acquiring, nsync_cv_signal /
   broadcast, wake_waiters with the TRANSFER of cv waiters to the mutex queue and its release of the mutex spinlock with
   clear_on_release).
   "nsync_cv_signal wakes at least one ... a thread that started waiting before a wake-up is issued is covered by it" and
   "no thread stays asleep on a mutex that is free with nobody left who is responsible for waking it", for waiters that
   wake_waiters handed from the cv to the mutex queue: MuProof3's hand-off invariant HInv lifted to the wrapper
   (Proof/MuXferProof4.v: every waiter is in exactly one place; MuXferProof5.v: HInv with the extra participants -- a
   transferred cv waiter whose flag has been cleared is a designated waker, the semaphore wait of nsync_cv_wait, wake_waiters
   as waker and as a third kind of spinlock owner; MuXferProof6.v: preservation by every step of the wrapper, the theorems
   below; MuXferProof7.v: the result of the wait).
   For ANY number of threads < 2^24 - 1, ANY programs of lock / rlock / trylock / rtrylock / unlock / cv-wait / signal /
   broadcast, ANY schedule, ANY choice of timeouts, ANY foreign posts on the semaphores.  Statements only. *)
From NsyncBase Require Import CSem.
From NsyncGen Require Import Consts Sites.
From NsyncModel Require Import MuModel MuSpec MuXferModel.
From NsyncProof Require Import MuProof2 MuXferProof MuXferProof2 MuXferProof3 MuXferProof4 MuXferProof6 MuXferProof7 MuXferProof8.
From Coq Require Import List ZArith.
Import ListNotations.
Local Open Scope Z_scope.

(* ---------- every reachable world ---------- *)

(* Whenever the mutex queue is not empty, nobody holds the mutex and the queue spinlock is free, somebody is responsible
   for the queued waiters and is able to act ([x_waker]): a waiter whose waiting flag has been cleared (in
   nsync_mu_lock_slow_: about to re-read the flag, or asleep with its post pending -- C04x_cleared_flag_has_post -- ; or a
   TRANSFERRED cv waiter parked in nsync_cv_wait, which will enter nsync_mu_lock_slow_ with clear = MU_DESIG_WAKER), a
   designated waker inside the loop of nsync_mu_lock_slow_, or a releaser of nsync_mu_unlock_slow_ that still has waiters
   on its wake list.  (Not: "MU_DESIG_WAKER is set": a releaser that wakes several readers sets the bit once and the first
   of them to acquire clears it while the others are still on their way.) *)
Theorem C04x_handoff_all_states : forall progs sched,
  Z.of_nat (length progs) < 2 ^ 24 - 1 ->
  let xw := xrun (xinit progs) sched in
  queue (mw xw) <> [] -> (forall t m, held (get (mw xw) t) <> Some m) -> has (word (mw xw)) MU_SPINLOCK = false ->
  exists a, x_waker xw a.
Proof. exact x_handoff_all_states. Qed.

(* A waiter inside the semaphore wait of nsync_cv_wait whose flag has been cleared (by wake_waiters, or -- transferred --
   by nsync_mu_unlock_slow_) has a post available, or its waker sits between its store waiting = 0 and its V on it. *)
Theorem C04x_cleared_flag_has_post : forall progs sched p l,
  Z.of_nat (length progs) < 2 ^ 24 - 1 ->
  let xw := xrun (xinit progs) sched in
  x_pc (xget xw p) = XwSem l -> waiting (mw xw) p = false ->
  1 <= sem (mw xw) p \/ (exists u m us, t_pc (get (mw xw) u) = UsWakeV m p us) \/ (exists u k, x_pc (xget xw u) = XvV k p).
Proof. exact x_cleared_flag_has_post. Qed.

(* ---------- quiescent worlds (every thread is done or blocked on its semaphore) ---------- *)

(* C04x_no_lost_transfer at full strength (MuXferProof2.no_lost_transfer_full): no waiter that wake_waiters handed to the
   mutex queue sleeps in its cv wait while nobody holds the mutex. *)
Theorem C04x_no_lost_transfer_full : forall progs sched l p,
  Z.of_nat (length progs) < 2 ^ 24 - 1 ->
  let xw := xrun (xinit progs) sched in
  x_quiescent xw -> x_pc (xget xw p) = XwSem l -> xferred xw p = true -> x_holder xw.
Proof. exact no_lost_transfer_full_holds. Qed.

(* ... and the holder IS responsible (analogue of C02_holder_is_responsible, for both kinds of sleepers on the mutex:
   [x_mu_sleeper] = asleep in nsync_mu_lock_slow_, or a transferred waiter asleep in nsync_cv_wait; a waiter PARKED ON THE
   CV -- not transferred -- is legitimately asleep and is not covered): the sleeper is on the mutex queue with its flag
   set, the word says "waiters, no designated waker, spinlock free, not all-false" ... *)
Theorem C04x_holder_is_responsible : forall progs sched,
  Z.of_nat (length progs) < 2 ^ 24 - 1 ->
  let xw := xrun (xinit progs) sched in
  x_quiescent xw -> forall p, x_mu_sleeper xw p ->
  (exists t', holds (mw xw) t' W \/ holds (mw xw) t' R) /\
  In p (queue (mw xw)) /\ waiting (mw xw) p = true /\
  has (word (mw xw)) MU_WAITING = true /\ has (word (mw xw)) MU_DESIG_WAKER = false /\
  has (word (mw xw)) MU_ALL_FALSE = false /\ has (word (mw xw)) MU_SPINLOCK = false.
Proof. exact x_no_lost_handoff. Qed.

(* ... so that the release of the last holder can take none of the paths that wake nobody: the first CAS of
   nsync_mu_unlock / runlock fails, the second (UlLoad -> UlCas2) is not attempted, the uncontended branch of
   nsync_mu_unlock_slow_ is closed and its spinlock-taking branch, followed by the scan, is open. *)
Theorem C04x_last_holder_must_scan : forall progs sched,
  Z.of_nat (length progs) < 2 ^ 24 - 1 ->
  let xw := xrun (xinit progs) sched in
  x_quiescent xw -> forall p, x_mu_sleeper xw p -> forall m,
  match m with W => count_held (mw xw) W = 1 | R => count_held (mw xw) W = 0 /\ count_held (mw xw) R = 1 end ->
  word (mw xw) <> ufast_old m /\ unlock_try_cas2 m (word (mw xw)) = false /\
  nsync_mu_unlock_slow_cas1_guard (word (mw xw)) = false /\ nsync_mu_unlock_slow_cas2_guard (word (mw xw)) = true.
Proof. exact x_last_holder_must_scan. Qed.

(* ---------- the result of the wait (C05: a consumed wake-up is reported as a wake-up) ---------- *)
(* [w_out] = ghost "outcome != 0", set as in cv.c only by the branch of the confirmation section that finds the waiter
   still on the cv queue; [wl3 pc = Some l]: the thread is inside a wait (enqueued, not yet returned) with locals l. *)

(* A wait that was transferred to the mutex queue returns 0, whatever its deadline did. *)
Theorem C05x_transferred_returns_zero : forall progs sched t l,
  Z.of_nat (length progs) < 2 ^ 24 - 1 ->
  let xw := xrun (xinit progs) sched in
  wl3 (x_pc (xget xw t)) = Some l -> xferred xw t = true -> w_out l = false.
Proof. exact x_transferred_returns_zero. Qed.

(* A waiter that nsync_cv_signal / broadcast has chosen (it is on the to_wake_list of a thread inside wake_waiters), and
   a transferred waiter, is in the state [x_zero]: inside its wait, outcome 0 so far, off the cv queue ... *)
Theorem C05x_picked_zero : forall progs sched t u,
  Z.of_nat (length progs) < 2 ^ 24 - 1 ->
  let xw := xrun (xinit progs) sched in
  In t (kws xw u) -> exists l, wl3 (x_pc (xget xw t)) = Some l /\ w_out l = false /\ ~ In t (cvq xw).
Proof. exact x_picked_zero. Qed.

Theorem C05x_transferred_zero : forall progs sched t l,
  Z.of_nat (length progs) < 2 ^ 24 - 1 ->
  let xw := xrun (xinit progs) sched in
  wl3 (x_pc (xget xw t)) = Some l -> wph2 (x_pc (xget xw t)) = true -> xferred xw t = true -> x_zero xw t.
Proof. exact x_transferred_zero. Qed.

(* ... and that state is stable under every schedule (timeouts, cancellations and foreign posts included) until the very
   step in which the wait returns -- from its re-acquisition, with outcome 0. *)
Theorem C05x_zero_until_return : forall sched xw t, x_zero xw t ->
  x_zero (xrun xw sched) t \/
  exists s1 a s2, sched = s1 ++ a :: s2 /\ x_zero (xrun xw s1) t /\
                  x_returns_zero (xrun xw s1) (fst (xstep (xrun xw s1) a)) t.
Proof. exact xrun_zero. Qed.

(* ---------- non-vacuity ---------- *)
(* a BALANCED program (two waiters, one broadcaster inside its critical section, everybody unlocks): after the
   broadcaster's unlock the hypotheses of C04x_handoff_all_states hold (queue = [1], no holder, spinlock free), thread 0 --
   a transferred waiter with its flag cleared and its post pending -- is the waker, and the run goes on to completion *)
Example C04x_example_all_states :
  let x1 := xrun (xinit bal_progs) bal_s1 in
  let x2 := xrun x1 bal_s2 in
  (queue (mw x1) = [1%nat] /\ (forall t m, held (get (mw x1) t) <> Some m) /\ has (word (mw x1)) MU_SPINLOCK = false /\
   has (word (mw x1)) MU_WAITING = true /\ has (word (mw x1)) MU_DESIG_WAKER = true) /\
  (x_waker x1 0%nat /\ (exists l, x_pc (xget x1 0%nat) = XwSem l) /\ xferred x1 0%nat = true /\
   waiting (mw x1) 0%nat = false /\ sem (mw x1) 0%nat = 1 /\
   (exists l, x_pc (xget x1 1%nat) = XwSem l) /\ xferred x1 1%nat = true /\ waiting (mw x1) 1%nat = true) /\
  (forall t, (t < 3)%nat -> x_done x2 t) /\ word (mw x2) = 0 /\ queue (mw x2) = [] /\
  x_rets (xget x2 0%nat) = [(W, Some W)] /\ x_rets (xget x2 1%nat) = [(W, Some W)].
Proof. exact example_all_states. Qed.

(* the quiescent corollaries are satisfiable -- necessarily by a program in which a thread finishes while holding the mutex *)
Example C04x_example_quiescent :
  let xw := xrun (xinit q_progs) q_sched in
  x_quiescent xw /\ x_mu_sleeper xw 0%nat /\ xferred xw 0%nat = true /\ x_done xw 1%nat /\ holds (mw xw) 1%nat W.
Proof. exact example_quiescent. Qed.

(* a wait whose deadline expires after it has been transferred: sem_outcome != 0, outcome stays 0, it returns holding *)
Example C05x_example_timeout_after_transfer :
  let x1 := xrun (xinit to_progs) to_s1 in
  let x2 := xrun x1 to_s2 in
  (xferred x1 0%nat = true /\ exists l, wl3 (x_pc (xget x1 0%nat)) = Some l /\ w_so l = true /\ w_out l = false) /\
  (exists l, x_pc (xget x2 0%nat) = XwReacq l /\ w_so l = true /\ w_out l = false) /\
  let x3 := xrun x2 (map go [0;0]%nat) in
  holds (mw x3) 0%nat W /\ x_rets (xget x3 0%nat) = [(W, Some W)] /\ x_pc (xget x3 0%nat) = XIdle.
Proof. exact example_timeout_after_transfer. Qed.

Print Assumptions C04x_handoff_all_states. Print Assumptions C04x_cleared_flag_has_post.
Print Assumptions C04x_no_lost_transfer_full. Print Assumptions C04x_holder_is_responsible.
Print Assumptions C04x_last_holder_must_scan.
Print Assumptions C05x_transferred_returns_zero. Print Assumptions C05x_picked_zero. Print Assumptions C05x_transferred_zero.
Print Assumptions C05x_zero_until_return.
Print Assumptions C04x_example_all_states. Print Assumptions C04x_example_quiescent.
Print Assumptions C05x_example_timeout_after_transfer.
