(* C04x -- the hand-off half of C04 / C02 over the COMBINED model Model/MuXferModel.v (Model/MuModel.v = mu.c site by
   site, plus the part of cv.c that works on the mutex: nsync_cv_wait releasing / parking / re-acquiring, nsync_cv_signal /
   broadcast, wake_waiters with the TRANSFER of cv waiters to the mutex queue and its release of the mutex spinlock with
   clear_on_release; GENERIC-interface waiters (nsync_cv_wait_with_deadline_generic with the caller's own lock routines: cv_mu
   == NULL), which wake_waiters wakes directly since the repair of finding F16; nsync_wait_n callers on the same cv, with or without the mutex, whose records wake_waiters never
   transfers -- the `p_w == NULL` branch -- and which make all_readers false).
   "nsync_cv_signal wakes at least one ... a thread that started waiting before a wake-up is issued is covered by it" and
   "no thread stays asleep on a mutex that is free with nobody left who is responsible for waking it", for waiters that
   wake_waiters handed from the cv to the mutex queue: MuProof3's hand-off invariant HInv lifted to the wrapper
   (Proof/MuXferProof4.v: every waiter is in exactly one place; MuXferProof5.v: HInv with the extra participants -- a
   transferred cv waiter whose flag has been cleared is a designated waker, the semaphore wait of nsync_cv_wait, wake_waiters
   as waker and as a third kind of spinlock owner; MuXferProof6.v: preservation by every step of the wrapper, the theorems
   below; MuXferProof7.v: the result of the wait).
   For ANY number of threads < 2^24 - 1, ANY programs of lock / rlock / trylock / rtrylock / unlock / cv-wait /
   nsync_wait_n (with or without the mutex) / signal / broadcast, ANY schedule, ANY choice of timeouts, ANY foreign posts
   on the semaphores.  Statements only. *)
From NsyncBase Require Import CSem.
From NsyncGen Require Import Consts Sites.
From NsyncModel Require Import MuModel MuSpec MuXferModel.
From NsyncProof Require Import MuProof2 MuXferProof MuXferProof2 MuXferProof3 MuXferProof4 MuXferProof6 MuXferProof7 MuXferProof8 MuXferProof10 MuXferProof11.
From Coq Require Import List ZArith.
Import ListNotations.
Local Open Scope Z_scope.

(* ---------- every reachable world ---------- *)

(* Whenever the mutex queue is not empty, nobody holds the mutex and the queue spinlock is free, somebody is responsible
   for the queued waiters and is able to act ([x_waker]): a waiter whose waiting flag has been cleared (in
   nsync_mu_lock_slow_: about to re-read the flag, or asleep with its post pending -- C04x_cleared_flag_has_post -- ; or a
   TRANSFERRED cv waiter parked in nsync_cv_wait, which will enter nsync_mu_lock_slow_ with clear = MU_DESIG_WAKER), a
   designated waker inside the loop of nsync_mu_lock_slow_, or a releaser of nsync_mu_unlock_slow_ that still has waiters
   on its wake list.  (Not: "MU_DESIG_WAKER is set": a releaser that wakes several readers sets the bit once and the first
   of them to acquire clears it while the others are still on their way.) *)
Theorem C04x_handoff_all_states : forall progs sched,
  Z.of_nat (length progs) < 2 ^ 24 - 1 ->
  let xw := xrun (xinit progs) sched in
  queue (mw xw) <> [] -> (forall t m, held (get (mw xw) t) <> Some m) -> has (word (mw xw)) MU_SPINLOCK = false ->
  exists a, x_waker xw a.
Proof. exact x_handoff_all_states. Qed.

(* A waiter inside the semaphore wait of nsync_cv_wait whose flag has been cleared (by wake_waiters, or -- transferred --
   by nsync_mu_unlock_slow_) has a post available, or its waker sits between its store waiting = 0 and its V on it. *)
Theorem C04x_cleared_flag_has_post : forall progs sched p l,
  Z.of_nat (length progs) < 2 ^ 24 - 1 ->
  let xw := xrun (xinit progs) sched in
  x_pc (xget xw p) = XwSem l -> waiting (mw xw) p = false ->
  1 <= sem (mw xw) p \/ (exists u m us, t_pc (get (mw xw) u) = UsWakeV m p us) \/ (exists u k, x_pc (xget xw u) = XvV k p).
Proof. exact x_cleared_flag_has_post. Qed.

(* ---------- quiescent worlds (every thread is done or blocked on its semaphore) ---------- *)

(* C04x_no_lost_transfer at full strength (MuXferProof2.no_lost_transfer_full): no waiter that wake_waiters handed to the
   mutex queue sleeps in its cv wait while nobody holds the mutex. *)
Theorem C04x_no_lost_transfer_full : forall progs sched l p,
  Z.of_nat (length progs) < 2 ^ 24 - 1 ->
  let xw := xrun (xinit progs) sched in
  x_quiescent xw -> x_pc (xget xw p) = XwSem l -> xferred xw p = true -> x_holder xw.
Proof. exact no_lost_transfer_full_holds. Qed.

(* ... and the holder IS responsible (analogue of C02_holder_is_responsible, for both kinds of sleepers on the mutex:
   [x_mu_sleeper] = asleep in nsync_mu_lock_slow_, or a transferred waiter asleep in nsync_cv_wait; a waiter PARKED ON THE
   CV -- not transferred -- is legitimately asleep and is not covered): the sleeper is on the mutex queue with its flag
   set, the word says "waiters, no designated waker, spinlock free, not all-false" ... *)
Theorem C04x_holder_is_responsible : forall progs sched,
  Z.of_nat (length progs) < 2 ^ 24 - 1 ->
  let xw := xrun (xinit progs) sched in
  x_quiescent xw -> forall p, x_mu_sleeper xw p ->
  (exists t', holds (mw xw) t' W \/ holds (mw xw) t' R) /\
  In p (queue (mw xw)) /\ waiting (mw xw) p = true /\
  has (word (mw xw)) MU_WAITING = true /\ has (word (mw xw)) MU_DESIG_WAKER = false /\
  has (word (mw xw)) MU_ALL_FALSE = false /\ has (word (mw xw)) MU_SPINLOCK = false.
Proof. exact x_no_lost_handoff. Qed.

(* ... so that the release of the last holder can take none of the paths that wake nobody: the first CAS of
   nsync_mu_unlock / runlock fails, the second (UlLoad -> UlCas2) is not attempted, the uncontended branch of
   nsync_mu_unlock_slow_ is closed and its spinlock-taking branch, followed by the scan, is open. *)
Theorem C04x_last_holder_must_scan : forall progs sched,
  Z.of_nat (length progs) < 2 ^ 24 - 1 ->
  let xw := xrun (xinit progs) sched in
  x_quiescent xw -> forall p, x_mu_sleeper xw p -> forall m,
  match m with W => count_held (mw xw) W = 1 | R => count_held (mw xw) W = 0 /\ count_held (mw xw) R = 1 end ->
  word (mw xw) <> ufast_old m /\ unlock_try_cas2 m (word (mw xw)) = false /\
  nsync_mu_unlock_slow_cas1_guard (word (mw xw)) = false /\ nsync_mu_unlock_slow_cas2_guard (word (mw xw)) = true.
Proof. exact x_last_holder_must_scan. Qed.

(* ---------- balanced programs ---------- *)
(* The three quiescent theorems above have a holder in their conclusion: they bite only when a thread ends (or sleeps) holding
   the mutex.  [balanced progs]: every program, read sequentially, releases what it acquires ([bal]: lock only when holding
   nothing, unlock only when holding, nsync_cv_wait / nsync_wait_n (mu, ..) entered -- hence left -- holding in the declared
   mode, nsync_wait_n (NULL, ..) called holding nothing, no trylock).  For such programs a finished thread holds nothing and no
   sleeping thread holds anything, so: in a quiescent reachable world NOBODY sleeps on the mutex -- neither inside
   nsync_mu_lock_slow_ nor as a cv waiter that wake_waiters has transferred to the mutex queue.  (Threads asleep on the CV -- not
   transferred -- may remain: nobody signalled them.) *)
Theorem C04x_balanced_no_mu_sleeper : forall progs sched,
  Z.of_nat (length progs) < 2 ^ 24 - 1 -> balanced progs ->
  let xw := xrun (xinit progs) sched in
  x_quiescent xw -> forall p, ~ x_mu_sleeper xw p.
Proof. exact balanced_no_mu_sleeper. Qed.

(* non-vacuity: the balanced three-thread program of C04x_example_all_states: in mid-run thread 1 IS a transferred waiter asleep on
   the mutex queue (the world is not quiescent: the others can move); the final world is quiescent *)
Example C04x_balanced_example :
  balanced bal_progs /\
  (let x1 := xrun (xinit bal_progs) bal_s1 in x_mu_sleeper x1 1%nat /\ ~ x_quiescent x1) /\
  (let x2 := xrun (xrun (xinit bal_progs) bal_s1) bal_s2 in x_quiescent x2 /\ forall p, ~ x_mu_sleeper x2 p).
Proof. exact balanced_example. Qed.

(* ... and a quiescent world of a balanced program WITH sleepers: a reader in nsync_cv_wait and an nsync_wait_n caller, both on
   the cv queue, nobody to signal them -- asleep, but not on the mutex *)
Example C04x_balanced_example_cv_sleepers :
  let xw := xrun (xinit lone_progs) lone_sched in
  balanced lone_progs /\ x_quiescent xw /\ x_asleep xw 0%nat /\ x_asleep xw 1%nat /\ cvq xw = [0; 1]%nat /\
  forall p, ~ x_mu_sleeper xw p.
Proof. exact balanced_example_cv_sleepers. Qed.

(* ---------- the regression behind finding F16: the transfer test before commit f28c99f ---------- *)
(* [xrun_o16]: the same model over [xstep_thr_o16] (Proof/MuXferProof11.v), which is xstep_thr except that wake_waiters' transfer
   loop spares only `p_w == NULL` records (so a generic-interface waiter behind a native first waiter is MOVED to the mutex
   queue) and that a generic waiter, moved or not, re-acquires through its caller's lock routine.  It coincides with xstep_thr
   at every other step, and at XwLoop for non-generic waiters: *)
Theorem C04x_f16_old_step_elsewhere : forall x t c,
  (forall k old, x_pc (xget (xbegin x t) t) <> XvCas1 k old) -> (forall l, x_pc (xget (xbegin x t) t) <> XwLoop l) ->
  xstep_thr_o16 x t c = xstep_thr x t c.
Proof. exact o16_step_elsewhere. Qed.

(* All the theorems above quantify over programs WITH generic waiters (XWaitG) and hold for the repaired model.  They are FALSE of
   the old transfer test, for a balanced program: a quiescent world with a thread asleep on the queue of a mutex nobody holds *)
Theorem C04x_f16_old_code_refuted : exists progs sched,
  Z.of_nat (length progs) < 2 ^ 24 - 1 /\ balanced progs /\
  let xw := xrun_o16 (xinit progs) sched in
  x_quiescent xw /\ (exists p, x_mu_sleeper xw p) /\ ~ x_holder xw.
Proof. exact f16_old_code_refuted. Qed.

(* the witness: a native waiter first, a generic waiter behind it, ONE broadcast under the write lock: the old loop moves both *)
Theorem C04x_f16_old_moves_generic :
  let xw := xrun_o16 (xinit f16_progs) (firstn 20 f16_sched) in
  queue (mw xw) = [0; 1]%nat /\ xferred xw 1%nat = true /\ xg_rec (x_pc (xget xw 1%nat)) = true.
Proof. exact f16_old_moves_generic. Qed.

(* ... the generic waiter is later woken with MU_DESIG_WAKER set, re-acquires through nsync_mu_lock and never clears the bit; a
   later locker (thread 3) queues behind a later holder (thread 4), whose unlock wakes nobody: quiescent, everybody else done,
   mutex free, MU_DESIG_WAKER and MU_WAITING set, thread 3 asleep on the queue with its flag set *)
Theorem C04x_f16_old_stranded :
  let xw := xrun_o16 (xinit f16_progs) f16_sched in
  x_quiescent xw /\ x_mu_sleeper xw 3%nat /\ (forall t m, held (get (mw xw) t) <> Some m) /\
  queue (mw xw) = [3%nat] /\ waiting (mw xw) 3%nat = true /\
  has (word (mw xw)) MU_DESIG_WAKER = true /\ has (word (mw xw)) MU_WAITING = true /\ has (word (mw xw)) MU_SPINLOCK = false /\
  (forall t, t <> 3%nat -> (t < 5)%nat -> x_done xw t).
Proof. exact f16_old_stranded. Qed.

(* the SAME schedule under the repaired step: the generic waiter is woken directly and never marked; where the old run ends
   stranded the repaired run has a live waker (thread 2 about to post the designated waker 0); run on, everybody finishes *)
Theorem C04x_f16_schedule_repaired :
  let x1 := xrun (xinit f16_progs) f16_sched in
  let x2 := xrun x1 (map go (repeat 2 5 ++ repeat 0 30 ++ repeat 3 20 ++ repeat 1 10 ++ repeat 4 5)%nat) in
  (xferred x1 1%nat = false /\ (exists m u, t_pc (get (mw x1) 2%nat) = UsWakeV m 0%nat u) /\ ~ x_quiescent x1) /\
  (forall t, (t < 5)%nat -> x_done x2 t) /\ word (mw x2) = 0 /\ queue (mw x2) = [].
Proof. exact f16_schedule_repaired. Qed.

(* ---------- the result of the wait (C05: a consumed wake-up is reported as a wake-up) ---------- *)
(* [w_out] = ghost "outcome != 0", set as in cv.c only by the branch of the confirmation section that finds the waiter
   still on the cv queue; [wl3 pc = Some l]: the thread is inside a wait (enqueued, not yet returned) with locals l. *)

(* A wait that was transferred to the mutex queue returns 0, whatever its deadline did. *)
Theorem C05x_transferred_returns_zero : forall progs sched t l,
  Z.of_nat (length progs) < 2 ^ 24 - 1 ->
  let xw := xrun (xinit progs) sched in
  wl3 (x_pc (xget xw t)) = Some l -> xferred xw t = true -> w_out l = false.
Proof. exact x_transferred_returns_zero. Qed.

(* A waiter that nsync_cv_signal / broadcast has chosen (it is on the to_wake_list of a thread inside wake_waiters), and
   a transferred waiter, is in the state [x_zero]: inside its wait, outcome 0 so far, off the cv queue ...  (a member of a
   to_wake_list is a native waiter -- the second alternative -- or the record of an nsync_wait_n call, whose result is
   "was still queued" as computed by cv_dequeue, not an outcome) *)
Theorem C05x_picked_zero : forall progs sched t u,
  Z.of_nat (length progs) < 2 ^ 24 - 1 ->
  let xw := xrun (xinit progs) sched in
  In t (kws xw u) ->
  (xn_rec (x_pc (xget xw t)) = true /\ ~ In t (cvq xw)) \/
  exists l, wl3 (x_pc (xget xw t)) = Some l /\ w_out l = false /\ ~ In t (cvq xw).
Proof. exact x_picked_zero. Qed.

Theorem C05x_transferred_zero : forall progs sched t l,
  Z.of_nat (length progs) < 2 ^ 24 - 1 ->
  let xw := xrun (xinit progs) sched in
  wl3 (x_pc (xget xw t)) = Some l -> wph2 (x_pc (xget xw t)) = true -> xferred xw t = true -> x_zero xw t.
Proof. exact x_transferred_zero. Qed.

(* ... and that state is stable under every schedule (timeouts, cancellations and foreign posts included) until the very
   step in which the wait returns -- from its re-acquisition, with outcome 0. *)
Theorem C05x_zero_until_return : forall sched xw t, x_zero xw t ->
  x_zero (xrun xw sched) t \/
  exists s1 a s2, sched = s1 ++ a :: s2 /\ x_zero (xrun xw s1) t /\
                  x_returns_zero (xrun xw s1) (fst (xstep (xrun xw s1) a)) t.
Proof. exact xrun_zero. Qed.

(* ---------- nsync_wait_n records on the cv ---------- *)
(* [xn_rec (pc of p)]: the record thread p has on the cv is the record of an nsync_wait_n call (flags == 0: wake_waiters' `p_w ==
   NULL`); such a record is never transferred: its thread is neither on the mutex queue nor on the wake list of a thread
   inside nsync_mu_unlock_slow_, and it is not a native cv waiter -- so the two waiting flags of a thread (w->nw.waiting of its
   waiter struct, nw[0].waiting of its nsync_wait_n call), which the model keeps in ONE cell, are never live together. *)
Theorem C04x_record_kinds : forall progs sched p,
  Z.of_nat (length progs) < 2 ^ 24 - 1 ->
  let xw := xrun (xinit progs) sched in
  xn_rec (x_pc (xget xw p)) = true ->
  ~ In p (queue (mw xw)) /\ (forall u, ~ In p (wake_of (t_pc (get (mw xw) u)))) /\ wphase (x_pc (xget xw p)) = false /\
  xaf xw p = false.
Proof. exact record_kinds. Qed.

(* GENERIC-interface waiters ([XWaitG m]: nsync_cv_wait_with_deadline_generic with the caller's own lock routines; the waiter
   struct has cv_mu == NULL and l_type == NULL; [xg_rec (pc of p)]: p's record on the cv is such a waiter).  Since the repair of
   finding F16 (wake_waiters transfers only waiters whose cv_mu is pmu) such a waiter is never transferred: not marked, not on
   the mutex queue, not on a releaser's wake list -- it is woken directly and re-acquires through its caller's lock routine.
   [nrec] = xn_rec or xg_rec: the records wake_waiters does not transfer and nsync_cv_signal counts as non-readers. *)
Theorem C04x_generic_never_transferred : forall progs sched p,
  Z.of_nat (length progs) < 2 ^ 24 - 1 ->
  let xw := xrun (xinit progs) sched in
  xg_rec (x_pc (xget xw p)) = true ->
  xferred xw p = false /\ ~ In p (queue (mw xw)) /\ (forall u, ~ In p (wake_of (t_pc (get (mw xw) u)))).
Proof. exact generic_never_transferred. Qed.

(* the cv side of the places invariant: every member of the cv queue or of a to_wake_list has its waiting flag set, is
   there exactly once, and is a native waiter parked in nsync_cv_wait that has not been transferred, or an nsync_wait_n record *)
Theorem C04x_cv_members : forall progs sched p,
  Z.of_nat (length progs) < 2 ^ 24 - 1 ->
  let xw := xrun (xinit progs) sched in
  In p (cvq xw) \/ (exists u, In p (kws xw u)) ->
  waiting (mw xw) p = true /\
  ((wph2 (x_pc (xget xw p)) = true /\ xferred xw p = false) \/ nrec xw p = true) /\
  (In p (cvq xw) -> forall u, ~ In p (kws xw u)) /\ (forall u1 u2, In p (kws xw u1) -> In p (kws xw u2) -> u1 = u2).
Proof. exact cv_members. Qed.

(* wake_waiters computes pmu from its first element once; while it works on *pmu (its first load, its acquiring CAS) that
   element still is a native waiter, parked, not transferred, flag set: it cannot have left its wait *)
Theorem C04x_wake_head_native : forall progs sched t k f,
  Z.of_nat (length progs) < 2 ^ 24 - 1 ->
  let xw := xrun (xinit progs) sched in
  x_pc (xget xw t) = XvLoad1 k \/ (exists old, x_pc (xget xw t) = XvCas1 k old) -> hd_error (k_wake k) = Some f ->
  nrec xw f = false /\ wph2 (x_pc (xget xw f)) = true /\ xferred xw f = false /\ waiting (mw xw) f = true.
Proof. exact wake_head_native. Qed.

(* ---------- non-vacuity ---------- *)
(* the F15 shape (finding F15, repaired by 0f631a1): a reader and an nsync_wait_n caller wait; a broadcast under a read lock
   takes wake_waiters' acquiring CAS 256 -> 262 (MU_SPINLOCK | MU_WAITING set), transfers NOBODY, and its releasing CAS
   clears MU_WAITING again because the mutex queue is empty (k_clr = MU_SPINLOCK | MU_WAITING); everybody finishes *)
Example C04x_example_nobody_transferred :
  let x1 := xrun (xinit f15_progs) f15_s1 in
  let x2 := xrun x1 f15_s2 in
  let x3 := xrun x2 f15_s3 in
  let x4 := xrun x3 f15_s4 in
  (cvq x1 = [] /\ (exists k old, x_pc (xget x1 2%nat) = XvCas1 k old /\ k_wake k = [0; 1]%nat /\ k_allr k = false) /\
   nrec x1 0%nat = false /\ nrec x1 1%nat = true /\ holds (mw x1) 2%nat R /\ has (word (mw x1)) MU_WAITING = false) /\
  (snd (xstep x1 (go 2%nat)) = XMu (EvCas 1002 256 262 true) /\
   has (word (mw x2)) MU_WAITING = true /\ has (word (mw x2)) MU_SPINLOCK = true /\ queue (mw x2) = [] /\
   xferred x2 0%nat = false /\ xferred x2 1%nat = false /\
   exists k, x_pc (xget x2 2%nat) = XvLoad3 k /\ k_wake k = [0; 1]%nat /\ k_clr k = bor MU_SPINLOCK MU_WAITING) /\
  (has (word (mw x3)) MU_WAITING = false /\ has (word (mw x3)) MU_SPINLOCK = false /\ queue (mw x3) = [] /\ word (mw x3) = 256) /\
  (forall t, (t < 3)%nat -> x_done x4 t) /\ word (mw x4) = 0 /\ queue (mw x4) = [] /\ cvq x4 = [] /\
  x_rets (xget x4 0%nat) = [(R, Some R)].
Proof. exact example_nobody_transferred. Qed.

(* nsync_wait_n WITH the mutex: enqueued while holding it, unlocked, woken by a signal under the lock (its record is first
   on the list: pmu = NULL, wake_waiters goes straight to the waking loop), dequeued, locked again, logged as held *)
Example C04x_example_waitn_mutex :
  let x1 := xrun (xinit wn_progs) wn_s1 in
  let x2 := xrun x1 wn_s2 in
  ((exists om, x_pc (xget x1 0%nat) = XnSem om) /\ (exists k, x_pc (xget x1 1%nat) = XvStore k /\ k_wake k = [0%nat]) /\
   cvq x1 = [] /\ waiting (mw x1) 0%nat = true /\ holds (mw x1) 1%nat W) /\
  (forall t, (t < 2)%nat -> x_done x2 t) /\ word (mw x2) = 0 /\ x_rets (xget x2 0%nat) = [(W, Some W)].
Proof. exact example_waitn_mutex. Qed.

(* a BALANCED program (two waiters, one broadcaster inside its critical section, everybody unlocks): after the
   broadcaster's unlock the hypotheses of C04x_handoff_all_states hold (queue = [1], no holder, spinlock free), thread 0 --
   a transferred waiter with its flag cleared and its post pending -- is the waker, and the run goes on to completion *)
Example C04x_example_all_states :
  let x1 := xrun (xinit bal_progs) bal_s1 in
  let x2 := xrun x1 bal_s2 in
  (queue (mw x1) = [1%nat] /\ (forall t m, held (get (mw x1) t) <> Some m) /\ has (word (mw x1)) MU_SPINLOCK = false /\
   has (word (mw x1)) MU_WAITING = true /\ has (word (mw x1)) MU_DESIG_WAKER = true) /\
  (x_waker x1 0%nat /\ (exists l, x_pc (xget x1 0%nat) = XwSem l) /\ xferred x1 0%nat = true /\
   waiting (mw x1) 0%nat = false /\ sem (mw x1) 0%nat = 1 /\
   (exists l, x_pc (xget x1 1%nat) = XwSem l) /\ xferred x1 1%nat = true /\ waiting (mw x1) 1%nat = true) /\
  (forall t, (t < 3)%nat -> x_done x2 t) /\ word (mw x2) = 0 /\ queue (mw x2) = [] /\
  x_rets (xget x2 0%nat) = [(W, Some W)] /\ x_rets (xget x2 1%nat) = [(W, Some W)].
Proof. exact example_all_states. Qed.

(* the quiescent corollaries are satisfiable -- necessarily by a program in which a thread finishes while holding the mutex *)
Example C04x_example_quiescent :
  let xw := xrun (xinit q_progs) q_sched in
  x_quiescent xw /\ x_mu_sleeper xw 0%nat /\ xferred xw 0%nat = true /\ x_done xw 1%nat /\ holds (mw xw) 1%nat W.
Proof. exact example_quiescent. Qed.

(* a wait whose deadline expires after it has been transferred: sem_outcome != 0, outcome stays 0, it returns holding *)
Example C05x_example_timeout_after_transfer :
  let x1 := xrun (xinit to_progs) to_s1 in
  let x2 := xrun x1 to_s2 in
  (xferred x1 0%nat = true /\ exists l, wl3 (x_pc (xget x1 0%nat)) = Some l /\ w_so l = true /\ w_out l = false) /\
  (exists l, x_pc (xget x2 0%nat) = XwReacq l /\ w_so l = true /\ w_out l = false) /\
  let x3 := xrun x2 (map go [0;0]%nat) in
  holds (mw x3) 0%nat W /\ x_rets (xget x3 0%nat) = [(W, Some W)] /\ x_pc (xget x3 0%nat) = XIdle.
Proof. exact example_timeout_after_transfer. Qed.

Print Assumptions C04x_handoff_all_states. Print Assumptions C04x_cleared_flag_has_post.
Print Assumptions C04x_no_lost_transfer_full. Print Assumptions C04x_holder_is_responsible.
Print Assumptions C04x_last_holder_must_scan.
Print Assumptions C04x_f16_old_step_elsewhere. Print Assumptions C04x_f16_old_code_refuted. Print Assumptions C04x_f16_old_moves_generic.
Print Assumptions C04x_f16_old_stranded. Print Assumptions C04x_f16_schedule_repaired.
Print Assumptions C04x_balanced_no_mu_sleeper. Print Assumptions C04x_balanced_example. Print Assumptions C04x_balanced_example_cv_sleepers.
Print Assumptions C05x_transferred_returns_zero. Print Assumptions C05x_picked_zero. Print Assumptions C05x_transferred_zero.
Print Assumptions C05x_zero_until_return.
Print Assumptions C04x_record_kinds. Print Assumptions C04x_generic_never_transferred. Print Assumptions C04x_cv_members. Print Assumptions C04x_wake_head_native.
Print Assumptions C04x_example_nobody_transferred. Print Assumptions C04x_example_waitn_mutex.
Print Assumptions C04x_example_all_states. Print Assumptions C04x_example_quiescent.
Print Assumptions C05x_example_timeout_after_transfer.
