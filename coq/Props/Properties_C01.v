(* C01 — writer exclusion and reader sharing.
   Theorems about Model/MuModel.v, whose word-update expressions, guards, masks and
   lock_type tables are regenerated from /repo (Gen/Sites.v, Gen/Consts.v) on every run
   and whose control skeleton is replayed in lock-step against the real mu.c.
   Statements only; proofs in Proof/MuProof.v. *)
From NsyncBase Require Import CSem.
From NsyncGen Require Import Consts Sites.
From NsyncModel Require Import MuModel MuSpec.
From NsyncProof Require Import MuProof.
From Coq Require Import List ZArith.
Import ListNotations.
Local Open Scope Z_scope.

(* For ANY number of threads (fewer than 2^24, the width of the reader count), ANY
   programs of lock / rlock / trylock / rtrylock / unlock operations and ANY schedule:
   the lock field of the word is exactly the set of holders, hence at most one writer
   and never a writer together with a reader. *)
Theorem C01_word_agrees : forall progs sched,
  Z.of_nat (length progs) < 2 ^ 24 - 1 ->
  word_agrees (run (init progs) sched).
Proof. exact word_agrees_reachable. Qed.

Theorem C01_exclusion : forall progs sched,
  Z.of_nat (length progs) < 2 ^ 24 - 1 ->
  excl (run (init progs) sched).
Proof. exact excl_reachable. Qed.

(* non-vacuity: a reachable world with two readers inside and a writer queued *)
Example C01_example : exists progs sched,
  let w := run (init progs) sched in
  holds w 0%nat R /\ holds w 1%nat R /\ queue w = [2%nat] /\ excl w.
Proof. exact example_two_readers. Qed.

Print Assumptions C01_word_agrees. Print Assumptions C01_exclusion. Print Assumptions C01_example.
