(* OnceModel: executable model of internal/once.c (nsync_run_once, _arg, _spin, _arg_spin) for any number of
   callers on any number of nsync_once words.  One step = one atomic site on the once word.
   once_mu / once_cv are deliberately abstract: a blocked loser's timed cv wait may return at any moment (its
   deadline is at most 50 ms away), so a loser is simply a thread that re-reads the word; the lock only serialises
   threads that do not touch the word.  Values and guards come from Gen/Sites.v.  No proofs in this file. *)
From NsyncBase Require Import CSem.
From NsyncGen Require Import Consts Sites.
From Coq Require Import List ZArith Bool.
Import ListNotations.
Local Open Scope Z_scope.

Inductive opc :=
| OIdle
| OEntry (o : nat) (spin : bool)              (* nsync_run_once*: o = ATM_LOAD_ACQ (once)            run_once#1 *)
| OImplLoad (o : nat) (spin : bool)           (* nsync_run_once_impl: uint32_t o = ATM_LOAD_ACQ       impl#1 *)
| OCas (o : nat) (spin : bool)                (* while (o == 0 && !ATM_CAS_ACQ (once, 0, 1))          impl#2 *)
| OReload (o : nat) (spin : bool)             (*     o = ATM_LOAD (once)                              impl#3 *)
| ORunning (o : nat) (spin : bool)            (* the winner: f is running; next site is the store     impl#4 *)
| OWaitLoad (o : nat) (spin : bool).          (* while (ATM_LOAD_ACQ (once) != 2) { wait / spin }     impl#5 *)

Record tstate := mk_t { pc : opc; calls : list (nat * bool);     (* remaining calls: (once index, spinning variant) *)
                        returned : list nat }.                   (* ghost: objects on which a call of this thread has returned *)
Record world := mk_w {
  once : nat -> Z;          (* the once words *)
  runs : nat -> Z;          (* ghost: how often the function of object o has been started *)
  completed : nat -> bool;  (* ghost: the function of object o has returned *)
  early : Z;                (* ghost: number of calls that returned while their object's function had not completed (must stay 0) *)
  thr : list tstate }.

Inductive ev := EvLoad (site : Z) (v : Z) | EvCas (site : Z) (ok : bool) | EvStore (site : Z) (v : Z) | EvNone.

Definition fupd {A} (f : nat -> A) (k : nat) (v : A) : nat -> A := fun x => if Nat.eqb x k then v else f x.
Fixpoint lupd {A} (l : list A) (k : nat) (v : A) : list A :=
  match l, k with [], _ => [] | _ :: t, O => v :: t | x :: t, S k' => x :: lupd t k' v end.
Definition dflt := mk_t OIdle [] [].
Definition get (w : world) (t : nat) := nth t (thr w) dflt.
Definition set_pc (w : world) (t : nat) (p : opc) : world :=
  let s := get w t in mk_w (once w) (runs w) (completed w) (early w) (lupd (thr w) t (mk_t p (calls s) (returned s))).
(* the call on object o returns *)
Definition ret (w : world) (t : nat) (o : nat) : world :=
  let s := get w t in
  mk_w (once w) (runs w) (completed w) (if completed w o then early w else early w + 1)
       (lupd (thr w) t (mk_t OIdle (calls s) (o :: returned s))).

Definition begin_call (w : world) (t : nat) : world :=
  let s := get w t in
  match pc s, calls s with
  | OIdle, (o, sp) :: rest => mk_w (once w) (runs w) (completed w) (early w) (lupd (thr w) t (mk_t (OEntry o sp) rest (returned s)))
  | _, _ => w
  end.

(* site ids: 10 + ordinal for nsync_run_once_impl; 1 for the entry load of the four public functions *)
Definition step (w0 : world) (t : nat) : world * ev :=
  let w := begin_call w0 t in
  match pc (get w t) with
  | OIdle => (w, EvNone)
  | OEntry o sp =>
      let v := once w o in
      if v =? 2 then (ret w t o, EvLoad 1 v) else (set_pc w t (OImplLoad o sp), EvLoad 1 v)
  | OImplLoad o sp =>
      let v := once w o in
      if nsync_run_once_impl_load2_guard v            (* o != 2: enter the body (and take once_mu in the blocking variants) *)
      then (if nsync_run_once_impl_cas1_guard v then (set_pc w t (OCas o sp), EvLoad 11 v)
            else (set_pc w t (OWaitLoad o sp), EvLoad 11 v))
      else (ret w t o, EvLoad 11 v)
  | OCas o sp =>
      if once w o =? nsync_run_once_impl_cas1_old
      then (mk_w (fupd (once w) o nsync_run_once_impl_cas1_new) (fupd (runs w) o (runs w o + 1)) (completed w) (early w)
                 (lupd (thr w) t (mk_t (ORunning o sp) (calls (get w t)) (returned (get w t)))), EvCas 12 true)
      else (set_pc w t (OReload o sp), EvCas 12 false)
  | OReload o sp =>
      let v := once w o in
      if v =? 0 then (set_pc w t (OCas o sp), EvLoad 13 v) else (set_pc w t (OWaitLoad o sp), EvLoad 13 v)
  | ORunning o sp =>
      (* f has returned (program order), the winner publishes *)
      (mk_w (fupd (once w) o nsync_run_once_impl_store1_new) (runs w) (fupd (completed w) o true) (early w)
            (lupd (thr w) t (mk_t (OWaitLoad o sp) (calls (get w t)) (returned (get w t)))), EvStore 14 nsync_run_once_impl_store1_new)
  | OWaitLoad o sp =>
      let v := once w o in
      if v =? 2 then (ret w t o, EvLoad 15 v) else (w, EvLoad 15 v)     (* not yet: timed cv wait or spin delay, then re-read *)
  end.

Definition init (progs : list (list (nat * bool))) : world :=
  mk_w (fun _ => 0) (fun _ => 0) (fun _ => false) 0 (map (fun p => mk_t OIdle p []) progs).
Definition run (w : world) (sched : list nat) : world := fold_left (fun w t => fst (step w t)) sched w.

(* ---------- statements ---------- *)
Definition unfinished (w : world) (t : nat) : Prop := pc (get w t) <> OIdle \/ calls (get w t) <> [].
(* a step that changes something (not a loser's fruitless re-read) *)
Definition productive (w : world) (t : nat) : Prop := fst (step w t) <> w.
Definition winner_of (w : world) (o : nat) (t : nat) : Prop := exists sp, pc (get w t) = ORunning o sp.
