(* OnceModel: executable model of internal/once.c (nsync_run_once, _arg, _spin, _arg_spin) for any number of
   callers on any number of nsync_once words.
   Steps:  one per atomic site on the once word (values and guards from Gen/Sites.v);
           the call of the once-function f is TWO steps: f-begin (the thread enters f) and f-end (f returns; the
           ghost [completed] is set HERE), and the store of 2 is a LATER step -- a C source that stored 2 before
           calling f would not replay against this model (the scenario announces f's entry and exit in the trace);
           the operations on the internal lock and condition variable are abstract steps: nsync_mu_lock /
           nsync_mu_unlock of s->once_mu (blocking variants only; the spinning variants have s == NULL),
           nsync_cv_broadcast (blocking winner only: a SPINNING winner skips it, once.c:81-84), the timed
           nsync_cv_wait_with_deadline of a blocking loser (release of once_mu + wait, end of the wait, re-acquisition
           of once_mu as three steps; the deadline is at most 50 ms away and the model has no clock, so the wait can
           ALWAYS end by the waiter's own step -- whether the broadcast or the deadline ended it is not distinguished,
           the broadcast step therefore changes no other thread), nsync_spin_delay_ of a spinning loser.
   Environment (fields of the world that no step changes):
           [slot]      which once_sync_s an nsync_once uses (NSYNC_ONCE_SYNC_ hashes the address: different once
                       objects may SHARE once_mu / once_cv) -- an arbitrary map;
           [fterm]     whether the once-function of an object returns (f-end is enabled only then);
           [lockable]  whether nsync_mu_lock on a slot's once_mu returns when the mutex is free (the contract of
                       nsync_mu; [false] models a mutex that cannot be obtained).
   No proofs in this file. *)
From NsyncBase Require Import CSem.
From NsyncGen Require Import Consts Sites.
From Coq Require Import List ZArith Bool.
Import ListNotations.
Local Open Scope Z_scope.

Inductive opc :=
| OIdle
| OEntry (o : nat) (spin : bool)       (* nsync_run_once*: o = ATM_LOAD_ACQ (once)                     run_once#1 *)
| OImplLoad (o : nat) (spin : bool)    (* nsync_run_once_impl: uint32_t o = ATM_LOAD_ACQ (once)        impl#1 *)
| OLock (o : nat) (z : bool)           (* blocking: nsync_mu_lock (&s->once_mu); z: impl#1 read 0      once.c:67 *)
| OCas (o : nat) (spin : bool)         (* while (o == 0 && !ATM_CAS_ACQ (once, 0, 1))                  impl#2 *)
| OReload (o : nat) (spin : bool)      (*     o = ATM_LOAD (once)                                      impl#3 *)
| OWinUnlock (o : nat)                 (* blocking winner: nsync_mu_unlock (&s->once_mu)               once.c:74 *)
| OFBegin (o : nat) (spin : bool)      (* the winner is about to call f                                once.c:77/79 *)
| OFRun (o : nat) (spin : bool)        (* inside f; the next step is f's return *)
| OWinLock (o : nat)                   (* blocking winner: nsync_mu_lock (&s->once_mu)                 once.c:82 *)
| OBroadcast (o : nat)                 (* blocking winner: nsync_cv_broadcast (&s->once_cv)            once.c:83 *)
| OStore (o : nat) (spin : bool)       (* ATM_STORE_REL (once, 2)                                      impl#4 *)
| OWaitLoad (o : nat) (spin : bool)    (* while (ATM_LOAD_ACQ (once) != 2)                             impl#5 *)
| OCvEnter (o : nat)                   (* blocking loser: nsync_cv_wait_with_deadline releases once_mu once.c:94 *)
| OCvWait (o : nat)                    (*   ... waits on once_cv, deadline <= 50 ms away *)
| OCvReacq (o : nat)                   (*   ... woken or timed out: re-acquires once_mu *)
| OSpin (o : nat)                      (* spinning loser: nsync_spin_delay_                            once.c:96 *)
| OFinalUnlock (o : nat).              (* blocking: nsync_mu_unlock (&s->once_mu)                      once.c:100 *)

Record tstate := mk_t { pc : opc;
                        cur : option (nat * bool);       (* the call being executed (or the last one) *)
                        calls : list (nat * bool);       (* remaining calls: (once index, spinning variant) *)
                        returned : list nat }.           (* ghost: objects on which a call of this thread has returned *)
Record env := mk_env { slot : nat -> nat; fterm : nat -> bool; lockable : nat -> bool }.
Record world := mk_w {
  cfg : env;                (* never changed *)
  once : nat -> Z;          (* the once words *)
  mu : nat -> option nat;   (* once_mu of each slot: the thread holding it *)
  wins : nat -> list nat;   (* ghost: the threads whose CAS 0 -> 1 on the word of object o succeeded *)
  fbeg : nat -> list nat;   (* ghost: the threads that entered the function of object o *)
  completed : nat -> bool;  (* ghost: the function of object o has returned *)
  early : Z;                (* ghost: number of calls that returned while their object's function had not completed (must stay 0) *)
  thr : list tstate }.
(* how often the function of object o has been started *)
Definition runs (w : world) (o : nat) : Z := Z.of_nat (length (fbeg w o)).

Inductive ev :=
| EvLoad (site : Z) (v : Z) | EvCas (site : Z) (ok : bool) | EvStore (site : Z) (v : Z)
| EvFBegin (o : nat) | EvFEnd (o : nat)
| EvFStuck (o : nat)                  (* the function does not return: nothing happens *)
| EvLock (s : nat) | EvUnlock (s : nat)
| EvBlocked (s : nat)                 (* nsync_mu_lock does not return (yet): nothing happens *)
| EvBroadcast (s : nat)
| EvCvRelease (s : nat)               (* the wait begins: once_mu released *)
| EvCvEnd (s : nat)                   (* the wait ends by the waiter's own step: its deadline *)
| EvSpin
| EvNone.

Definition fupd {A} (f : nat -> A) (k : nat) (v : A) : nat -> A := fun x => if Nat.eqb x k then v else f x.
Fixpoint lupd {A} (l : list A) (k : nat) (v : A) : list A :=
  match l, k with [], _ => [] | _ :: t, O => v :: t | x :: t, S k' => x :: lupd t k' v end.
Definition dflt := mk_t OIdle None [] [].
Definition get (w : world) (t : nat) := nth t (thr w) dflt.
Definition slot_of (w : world) (o : nat) : nat := slot (cfg w) o.

Definition set_thr (w : world) (l : list tstate) : world :=
  mk_w (cfg w) (once w) (mu w) (wins w) (fbeg w) (completed w) (early w) l.
Definition with_pc (s : tstate) (p : opc) : tstate := mk_t p (cur s) (calls s) (returned s).
Definition set_pc (w : world) (t : nat) (p : opc) : world := set_thr w (lupd (thr w) t (with_pc (get w t) p)).
Definition set_mu (w : world) (s : nat) (h : option nat) : world :=
  mk_w (cfg w) (once w) (fupd (mu w) s h) (wins w) (fbeg w) (completed w) (early w) (thr w).
(* the call on object o returns *)
Definition ret (w : world) (t : nat) (o : nat) : world :=
  let s := get w t in
  mk_w (cfg w) (once w) (mu w) (wins w) (fbeg w) (completed w) (if completed w o then early w else early w + 1)
       (lupd (thr w) t (mk_t OIdle (cur s) (calls s) (o :: returned s))).

Definition begin_call (w : world) (t : nat) : world :=
  let s := get w t in
  match pc s, calls s with
  | OIdle, (o, sp) :: rest => set_thr w (lupd (thr w) t (mk_t (OEntry o sp) (Some (o, sp)) rest (returned s)))
  | _, _ => w
  end.

(* nsync_mu_lock (&s->once_mu) by thread t, continuing at p *)
Definition do_lock (w : world) (t : nat) (o : nat) (p : opc) : world * ev :=
  let s := slot_of w o in
  match mu w s with
  | None => if lockable (cfg w) s then (set_pc (set_mu w s (Some t)) t p, EvLock s) else (w, EvBlocked s)
  | Some _ => (w, EvBlocked s)
  end.
Definition do_unlock (w : world) (t : nat) (o : nat) (p : opc) : world * ev :=
  let s := slot_of w o in (set_pc (set_mu w s None) t p, EvUnlock s).
(* site ids: 10 + ordinal for nsync_run_once_impl; 1 for the entry load of the four public functions *)
Definition step_pc (w : world) (t : nat) : world * ev :=
  match pc (get w t) with
  | OIdle => (w, EvNone)
  | OEntry o sp =>
      let v := once w o in
      if v =? 2 then (ret w t o, EvLoad 1 v) else (set_pc w t (OImplLoad o sp), EvLoad 1 v)
  | OImplLoad o sp =>
      let v := once w o in
      if nsync_run_once_impl_load2_guard v            (* o != 2: enter the body *)
      then (let z := nsync_run_once_impl_cas1_guard v in   (* o == 0: the CAS loop is entered *)
            if sp then (set_pc w t (if z then OCas o sp else OWaitLoad o sp), EvLoad 11 v)
            else (set_pc w t (OLock o z), EvLoad 11 v))       (* if (s != NULL) nsync_mu_lock (&s->once_mu) *)
      else (ret w t o, EvLoad 11 v)
  | OLock o z => do_lock w t o (if z then OCas o false else OWaitLoad o false)
  | OCas o sp =>
      if once w o =? nsync_run_once_impl_cas1_old
      then (mk_w (cfg w) (fupd (once w) o nsync_run_once_impl_cas1_new) (mu w) (fupd (wins w) o (t :: wins w o)) (fbeg w)
                 (completed w) (early w)
                 (lupd (thr w) t (with_pc (get w t) (if sp then OFBegin o sp else OWinUnlock o))), EvCas 12 true)
      else (set_pc w t (OReload o sp), EvCas 12 false)
  | OReload o sp =>
      let v := once w o in
      if v =? 0 then (set_pc w t (OCas o sp), EvLoad 13 v) else (set_pc w t (OWaitLoad o sp), EvLoad 13 v)
  | OWinUnlock o => do_unlock w t o (OFBegin o false)
  | OFBegin o sp =>
      (mk_w (cfg w) (once w) (mu w) (wins w) (fupd (fbeg w) o (t :: fbeg w o)) (completed w) (early w)
            (lupd (thr w) t (with_pc (get w t) (OFRun o sp))), EvFBegin o)
  | OFRun o sp =>
      if fterm (cfg w) o
      then (mk_w (cfg w) (once w) (mu w) (wins w) (fbeg w) (fupd (completed w) o true) (early w)
                 (lupd (thr w) t (with_pc (get w t) (if sp then OStore o sp else OWinLock o))), EvFEnd o)
      else (w, EvFStuck o)
  | OWinLock o => do_lock w t o (OBroadcast o)
  | OBroadcast o => (set_pc w t (OStore o false), EvBroadcast (slot_of w o))
  | OStore o sp =>
      (mk_w (cfg w) (fupd (once w) o nsync_run_once_impl_store1_new) (mu w) (wins w) (fbeg w) (completed w) (early w)
            (lupd (thr w) t (with_pc (get w t) (OWaitLoad o sp))), EvStore 14 nsync_run_once_impl_store1_new)
  | OWaitLoad o sp =>
      let v := once w o in
      if v =? 2 then (if sp then ret w t o else set_pc w t (OFinalUnlock o), EvLoad 15 v)
      else (set_pc w t (if sp then OSpin o else OCvEnter o), EvLoad 15 v)
  | OCvEnter o => let s := slot_of w o in (set_pc (set_mu w s None) t (OCvWait o), EvCvRelease s)
  | OCvWait o => (set_pc w t (OCvReacq o), EvCvEnd (slot_of w o))     (* the deadline (<= 50 ms) *)
  | OCvReacq o => do_lock w t o (OWaitLoad o false)
  | OSpin o => (set_pc w t (OWaitLoad o true), EvSpin)
  | OFinalUnlock o =>
      let s := slot_of w o in (ret (set_mu w s None) t o, EvUnlock s)
  end.

Definition step (w0 : world) (t : nat) : world * ev := step_pc (begin_call w0 t) t.

Definition init (e : env) (progs : list (list (nat * bool))) : world :=
  mk_w e (fun _ => 0) (fun _ => None) (fun _ => []) (fun _ => []) (fun _ => false) 0 (map (fun p => mk_t OIdle None p []) progs).
Definition run (w : world) (sched : list nat) : world := fold_left (fun w t => fst (step w t)) sched w.

(* ---------- statements ---------- *)
Definition unfinished (w : world) (t : nat) : Prop := pc (get w t) <> OIdle \/ calls (get w t) <> [].
Definition all_done (w : world) : Prop := forall t, pc (get w t) = OIdle /\ calls (get w t) = [].
(* the winner of object o: between its successful CAS and its store of 2 *)
Definition win_pc (o : nat) (p : opc) : Prop :=
  p = OWinUnlock o \/ (exists sp, p = OFBegin o sp) \/ (exists sp, p = OFRun o sp) \/ p = OWinLock o \/ p = OBroadcast o \/
  (exists sp, p = OStore o sp).
Definition winner_of (w : world) (o : nat) (t : nat) : Prop := win_pc o (pc (get w t)).
(* program counters at which the thread holds the once_mu of its object's slot / is about to operate on it *)
Definition holds_pc (p : opc) : option nat :=
  match p with
  | OCas o false | OReload o false | OWinUnlock o | OBroadcast o | OStore o false | OWaitLoad o false
  | OCvEnter o | OFinalUnlock o => Some o
  | _ => None
  end.
(* program counters of the abstract lock / condition-variable operations: only a blocking call has them *)
Definition lock_pc (p : opc) : option nat :=
  match p with
  | OLock o _ | OWinUnlock o | OWinLock o | OBroadcast o | OCvEnter o | OCvWait o | OCvReacq o | OFinalUnlock o => Some o
  | _ => None
  end.
Definition lock_ev (e : ev) : bool :=
  match e with EvLock _ | EvUnlock _ | EvBlocked _ | EvBroadcast _ | EvCvRelease _ | EvCvEnd _ => true | _ => false end.

(* a progress measure: what a thread still has to do, as a number; [d2 = true]: the word of its object is 2.
   A loser that finds the word not yet 2 goes round OWaitLoad -> (OCvEnter -> OCvWait -> OCvReacq | OSpin) -> OWaitLoad
   at the same level (6, 7 while it holds once_mu); everything else only moves down. *)
Definition stage (d2 : bool) (p : opc) : nat :=
  match p with
  | OIdle => 0
  | OEntry _ _ => 20 | OImplLoad _ _ => 19 | OLock _ _ => 18 | OCas _ _ => 17 | OReload _ _ => 16
  | OWinUnlock _ => 15 | OFBegin _ _ => 14 | OFRun _ _ => 13 | OWinLock _ => 12 | OBroadcast _ => 11 | OStore _ _ => 10
  | OWaitLoad _ sp => if d2 then 2 else if sp then 6 else 8
  | OCvEnter _ => 7
  | OCvWait _ => if d2 then 4 else 6
  | OCvReacq _ => if d2 then 3 else 6
  | OSpin _ => if d2 then 3 else 6
  | OFinalUnlock _ => 1
  end.
Definition pc_obj (p : opc) : option nat :=
  match p with
  | OIdle => None
  | OEntry o _ | OImplLoad o _ | OLock o _ | OCas o _ | OReload o _ | OWinUnlock o | OFBegin o _ | OFRun o _ | OWinLock o
  | OBroadcast o | OStore o _ | OWaitLoad o _ | OCvEnter o | OCvWait o | OCvReacq o | OSpin o | OFinalUnlock o => Some o
  end.
Definition is2 (w : world) (p : opc) : bool := match pc_obj p with Some o => once w o =? 2 | None => false end.
Definition trank (w : world) (s : tstate) : nat := (21 * length (calls s) + stage (is2 w (pc s)) (pc s))%nat.
Definition rank (w : world) : nat := fold_right (fun s a => (trank w s + a)%nat) O (thr w).
Definition env_ok (e : env) : Prop := (forall o, fterm e o = true) /\ (forall s, lockable e s = true).
