(* MuModel: executable model of internal/mu.c for condition-free programs
   (lock, rlock, trylock, rtrylock, unlock, runlock; lock_slow, unlock_slow,
   mu_release_spinlock).  One step = one atomic site of the C code followed by
   the thread-local work up to the next site (DESIGN.md 3.1).

   Every value written to the mutex word is computed by the expression that
   gen/sites.py extracted from the C source (Gen/Sites.v), every mask and both
   lock_type tables come from the probe (Gen/Consts.v).  The control skeleton
   (which site follows which) is hand-written and validated against the real
   code by lock-step replay (replay/).  No proofs in this file. *)
From NsyncBase Require Import CSem.
From NsyncGen Require Import Consts Sites.
From Coq Require Import List ZArith Bool.
Import ListNotations.
Local Open Scope Z_scope.

Inductive mode := W | R.
Definition mode_eqb (a b : mode) := match a, b with W, W | R, R => true | _, _ => false end.

Definition lt_of (m : mode) : lock_type :=
  match m with
  | W => mk_lock_type writer_type_zero_to_acquire writer_type_add_to_acquire writer_type_held_if_non_zero
           writer_type_set_when_waiting writer_type_clear_on_acquire writer_type_clear_on_uncontended_release
  | R => mk_lock_type reader_type_zero_to_acquire reader_type_add_to_acquire reader_type_held_if_non_zero
           reader_type_set_when_waiting reader_type_clear_on_acquire reader_type_clear_on_uncontended_release
  end.

Definition band (a b : Z) := Z.land a b.
Definition bor (a b : Z) := Z.lor a b.
Definition bnot32 (a : Z) := 4294967295 - a.
Definition has (w m : Z) : bool := negb (band w m =? 0).

(* locals of nsync_mu_lock_slow_ *)
Record lsl := mk_lsl { zta : Z; clr : Z; longw : Z; wcount : Z }.
(* locals of nsync_mu_unlock_slow_ after the scan *)
Record usl := mk_usl { wake : list nat; set_on : Z; clear_on : Z; late : Z }.

Inductive pc :=
| Idle
| LkFast (m : mode) | LkLoad (m : mode) | LkCas2 (m : mode) (old : Z)
| TryFast (m : mode) | TryLoad (m : mode) | TryCas2 (m : mode) (old : Z)
| LsLoad (m : mode) (l : lsl)
| LsCasAcq (m : mode) (l : lsl) (old : Z)
| LsCasEnq (m : mode) (l : lsl) (old : Z)
| LsStoreWaiting (m : mode) (l : lsl)
| LsRelLoad (m : mode) (l : lsl)
| LsRelCas (m : mode) (l : lsl) (old : Z)
| LsWaitLoad (m : mode) (l : lsl)
| LsSemP (m : mode) (l : lsl)
| UlFast (m : mode) | UlLoad (m : mode) | UlCas2 (m : mode) (old : Z)
| UsLoad (m : mode)
| UsCasRel (m : mode) (old : Z)
| UsCasSpin (m : mode) (old : Z)
| UsRelLoad (m : mode) (u : usl)
| UsRelCas (m : mode) (u : usl) (old : Z)
| UsWakeStore (m : mode) (u : usl)
| UsWakeV (m : mode) (p : nat) (u : usl)
| Crash (why : Z).

Inductive op := OLock (m : mode) | OTry (m : mode) | OUnlock.

Record tstate := mk_t { t_pc : pc; t_ops : list op; held : option mode;   (* ghost: what the thread holds *)
                        sleeps : Z;                                       (* ghost: # of P completed in the current call *)
                        last_try : option bool }.

Record world := mk_w {
  word : Z;
  queue : list nat;              (* mu->waiters, head first *)
  waiting : nat -> bool;         (* w->nw.waiting of each thread's waiter *)
  sem : nat -> Z;                (* abstract semaphore count of each thread's waiter *)
  wtype : nat -> mode;           (* w->l_type *)
  thr : list tstate }.

Definition fupd {A} (f : nat -> A) (k : nat) (v : A) : nat -> A := fun x => if Nat.eqb x k then v else f x.
Fixpoint lupd {A} (l : list A) (k : nat) (v : A) : list A :=
  match l, k with
  | [], _ => []
  | _ :: t, O => v :: t
  | x :: t, S k' => x :: lupd t k' v
  end.
Definition dflt_t := mk_t Idle [] None 0 None.
Definition get (w : world) (t : nat) : tstate := nth t (thr w) dflt_t.
Definition set_t (w : world) (t : nat) (s : tstate) : world :=
  mk_w (word w) (queue w) (waiting w) (sem w) (wtype w) (lupd (thr w) t s).
Definition set_pc (w : world) (t : nat) (p : pc) : world :=
  let s := get w t in set_t w t (mk_t p (t_ops s) (held s) (sleeps s) (last_try s)).
Definition set_word (w : world) (v : Z) : world := mk_w v (queue w) (waiting w) (sem w) (wtype w) (thr w).
Definition set_queue (w : world) (q : list nat) : world := mk_w (word w) q (waiting w) (sem w) (wtype w) (thr w).
Definition set_waiting (w : world) (t : nat) (b : bool) : world :=
  mk_w (word w) (queue w) (fupd (waiting w) t b) (sem w) (wtype w) (thr w).
Definition set_sem (w : world) (t : nat) (v : Z) : world :=
  mk_w (word w) (queue w) (waiting w) (fupd (sem w) t v) (wtype w) (thr w).
Definition set_wtype (w : world) (t : nat) (m : mode) : world :=
  mk_w (word w) (queue w) (waiting w) (sem w) (fupd (wtype w) t m) (thr w).

(* ghost updates *)
Definition acquire (w : world) (t : nat) (m : mode) : world :=
  let s := get w t in set_t w t (mk_t Idle (t_ops s) (Some m) 0 (last_try s)).
Definition released (w : world) (t : nat) : world :=   (* the lock bits are given up by this step *)
  let s := get w t in set_t w t (mk_t (t_pc s) (t_ops s) None (sleeps s) (last_try s)).
Definition set_try (w : world) (t : nat) (b : bool) : world :=
  let s := get w t in set_t w t (mk_t (t_pc s) (t_ops s) (held s) (sleeps s) (Some b)).

(* observable event of a step, compared with the implementation's trace *)
Inductive ev :=
| EvCas (site : Z) (old new : Z) (ok : bool)   (* site = ordinal key, see site ids below *)
| EvLoad (site : Z) (v : Z)
| EvStoreWaiting (p : nat) (v : Z)
| EvLoadWaiting (v : Z)
| EvP | EvV (p : nat)
| EvBlocked | EvNone | EvCrash.

(* site ids: 100*function + ordinal in Gen/Sites.v's numbering of that function
   1 nsync_mu_lock 2 nsync_mu_rlock 3 nsync_mu_trylock 4 nsync_mu_rtrylock 5 nsync_mu_lock_slow_
   6 mu_release_spinlock 7 nsync_mu_unlock 8 nsync_mu_runlock 9 nsync_mu_unlock_slow_ *)
Definition fid_lock (m : mode) := match m with W => 100 | R => 200 end.
Definition fid_try (m : mode) := match m with W => 300 | R => 400 end.
Definition fid_unlock (m : mode) := match m with W => 700 | R => 800 end.

(* ----- values from Gen/Sites.v, selected by mode ----- *)
Definition fast_new (m : mode) := match m with W => nsync_mu_lock_cas1_new | R => nsync_mu_rlock_cas1_new end.
Definition fast_guard2 (m : mode) (old : Z) :=
  match m with W => nsync_mu_lock_cas2_guard old | R => nsync_mu_rlock_cas2_guard old end.
Definition fast_new2 (m : mode) (old : Z) :=
  match m with W => nsync_mu_lock_cas2_new old | R => nsync_mu_rlock_cas2_new old end.
Definition try_new (m : mode) := match m with W => nsync_mu_trylock_cas1_new | R => nsync_mu_rtrylock_cas1_new end.
Definition try_guard2 (m : mode) (old : Z) :=
  match m with W => nsync_mu_trylock_cas2_guard old | R => nsync_mu_rtrylock_cas2_guard old end.
Definition try_new2 (m : mode) (old : Z) :=
  match m with W => nsync_mu_trylock_cas2_new old | R => nsync_mu_rtrylock_cas2_new old end.
Definition ufast_old (m : mode) := match m with W => nsync_mu_unlock_cas1_old | R => nsync_mu_runlock_cas1_old end.

Definition ls_init (m : mode) : lsl := mk_lsl (lt_zero_to_acquire (lt_of m)) 0 0 0.

(* nsync_mu_unlock: go to the slow path? (first disjunct of the else-if; the panics are the Crash pc) *)
Definition unlock_bad (m : mode) (old : Z) : bool :=
  match m with
  | W => has (band (band (old - MU_WLOCK) (bnot32 MU_ALL_FALSE)) (bor MU_RLOCK_FIELD MU_WLOCK)) 4294967295
  | R => band (Z.lxor old MU_WLOCK) (bor MU_WLOCK MU_RLOCK_FIELD) =? 0
  end.
Definition unlock_try_cas2 (m : mode) (old : Z) : bool :=
  match m with W => nsync_mu_unlock_cas2_guard old | R => nsync_mu_runlock_cas2_guard old end.
Definition ufast_new (m : mode) := match m with W => nsync_mu_unlock_cas1_new | R => nsync_mu_runlock_cas1_new end.
Definition unlock_new2 (m : mode) (old : Z) : Z :=
  match m with W => nsync_mu_unlock_cas2_new old | R => nsync_mu_runlock_cas2_new old end.

(* the scan of nsync_mu_unlock_slow_ for a queue without conditional waiters:
   returns (wake list, remaining queue, set_on_release) *)
Fixpoint scan (ty : nat -> mode) (q : list nat) (wake_type : option mode) (wake keep : list nat) (set_on : Z)
  : list nat * list nat * Z :=
  match q with
  | [] => (wake, keep, set_on)
  | p :: rest =>
      match wake_type with
      | Some W => (wake, keep ++ q, band set_on (bnot32 MU_ALL_FALSE))    (* p != NULL at loop exit *)
      | _ =>
          if match wake_type with None => true | _ => mode_eqb (ty p) R end
          then scan ty rest (Some (ty p)) (wake ++ [p]) keep set_on
          else scan ty rest wake_type wake (keep ++ [p])
                    (band (bor set_on MU_WRITER_WAITING) (bnot32 MU_ALL_FALSE))
      end
  end.

Definition us_after_scan (w : world) : usl * list nat :=
  let '(wk, keep, set_on) := scan (wtype w) (queue w) None [] [] MU_ALL_FALSE in
  let c0 := MU_SPINLOCK in
  let c1 := match wk with [] => bor c0 MU_DESIG_WAKER | _ => c0 end in
  let c2 := if band set_on MU_ALL_FALSE =? 0 then bor c1 MU_ALL_FALSE else c1 in
  let c3 := match keep with
            | [] => bor c2 (bor (bor (bor MU_WAITING MU_WRITER_WAITING) MU_CONDITION) MU_ALL_FALSE)
            | _ => c2 end in
  (mk_usl wk set_on c3 0, keep).

(* ----- the step function ----- *)
Definition cas (w : world) (expect new : Z) : world * bool :=
  if word w =? expect then (set_word w new, true) else (w, false).

Definition begin_op (w : world) (t : nat) : world :=
  let s := get w t in
  match t_pc s, t_ops s with
  | Idle, o :: rest =>
      let p := match o, held s with
               | OLock m, None => LkFast m
               | OTry m, None => TryFast m
               | OLock _, Some _ | OTry _, Some _ => Crash 4   (* client contract: no re-acquisition while holding *)
               | OUnlock, Some m => UlFast m
               | OUnlock, None => Crash 1
               end in
      set_t w t (mk_t p rest (held s) 0 (last_try s))
  | _, _ => w
  end.

Definition step (w0 : world) (t : nat) : world * ev :=
  let w := begin_op w0 t in
  let s := get w t in
  match t_pc s with
  | Idle => (w, EvNone)
  | Crash _ => (w, EvCrash)
  (* --- nsync_mu_lock / nsync_mu_rlock --- *)
  | LkFast m =>
      let '(w1, ok) := cas w 0 (fast_new m) in
      if ok then (acquire w1 t m, EvCas (fid_lock m + 1) 0 (fast_new m) true)
      else (set_pc w1 t (LkLoad m), EvCas (fid_lock m + 1) 0 (fast_new m) false)
  | LkLoad m =>
      let old := word w in
      if fast_guard2 m old then (set_pc w t (LkCas2 m old), EvLoad (fid_lock m + 2) old)
      else (set_pc (set_wtype w t m) t (LsLoad m (ls_init m)), EvLoad (fid_lock m + 2) old)
  | LkCas2 m old =>
      let '(w1, ok) := cas w old (fast_new2 m old) in
      if ok then (acquire w1 t m, EvCas (fid_lock m + 3) old (fast_new2 m old) true)
      else (set_pc (set_wtype w1 t m) t (LsLoad m (ls_init m)), EvCas (fid_lock m + 3) old (fast_new2 m old) false)
  (* --- trylock / rtrylock --- *)
  | TryFast m =>
      let '(w1, ok) := cas w 0 (try_new m) in
      if ok then (set_try (acquire w1 t m) t true, EvCas (fid_try m + 1) 0 (try_new m) true)
      else (set_pc w1 t (TryLoad m), EvCas (fid_try m + 1) 0 (try_new m) false)
  | TryLoad m =>
      let old := word w in
      if try_guard2 m old then (set_pc w t (TryCas2 m old), EvLoad (fid_try m + 2) old)
      else (set_try (set_pc w t Idle) t false, EvLoad (fid_try m + 2) old)
  | TryCas2 m old =>
      let '(w1, ok) := cas w old (try_new2 m old) in
      if ok then (set_try (acquire w1 t m) t true, EvCas (fid_try m + 3) old (try_new2 m old) true)
      else (set_try (set_pc w1 t Idle) t false, EvCas (fid_try m + 3) old (try_new2 m old) false)
  (* --- nsync_mu_lock_slow_ --- *)
  | LsLoad m l =>
      let old := word w in
      if nsync_mu_lock_slow_cas1_guard old (zta l) then (set_pc w t (LsCasAcq m l old), EvLoad 501 old)
      else if nsync_mu_lock_slow_cas2_guard old (zta l) then (set_pc w t (LsCasEnq m l old), EvLoad 501 old)
      else (w, EvLoad 501 old)     (* spin delay, loop *)
  | LsCasAcq m l old =>
      let new := nsync_mu_lock_slow_cas1_new old (lt_of m) (clr l) (longw l) in
      let '(w1, ok) := cas w old new in
      if ok then (acquire w1 t m, EvCas 502 old new true)
      else (set_pc w1 t (LsLoad m l), EvCas 502 old new false)
  | LsCasEnq m l old =>
      let new := nsync_mu_lock_slow_cas2_new old (longw l) (lt_of m) (clr l) in
      let '(w1, ok) := cas w old new in
      if ok then (set_pc w1 t (LsStoreWaiting m l), EvCas 503 old new true)
      else (set_pc w1 t (LsLoad m l), EvCas 503 old new false)
  | LsStoreWaiting m l =>
      let w1 := set_waiting w t true in
      let q := if wcount l =? 0 then queue w1 ++ [t] else t :: queue w1 in
      (set_pc (set_queue w1 q) t (LsRelLoad m l), EvStoreWaiting t 1)
  | LsRelLoad m l => (set_pc w t (LsRelCas m l (word w)), EvLoad 601 (word w))
  | LsRelCas m l old =>
      let new := mu_release_spinlock_cas1_new old in
      let '(w1, ok) := cas w old new in
      if ok then (set_pc w1 t (LsWaitLoad m l), EvCas 602 old new true)
      else (set_pc w1 t (LsRelLoad m l), EvCas 602 old new false)
  | LsWaitLoad m l =>
      if waiting w t then (set_pc w t (LsSemP m l), EvLoadWaiting 1)
      else
        let wc := wrap_u 32 (wcount l + 1) in
        let lw := if wc =? LONG_WAIT_THRESHOLD then MU_LONG_WAIT else longw l in
        let l' := mk_lsl (band (zta l) (bnot32 (bor MU_WRITER_WAITING MU_LONG_WAIT))) MU_DESIG_WAKER lw wc in
        (set_pc w t (LsLoad m l'), EvLoadWaiting 0)
  | LsSemP m l =>
      if 0 <? sem w t then
        let s1 := get w t in
        (set_t (set_sem w t (sem w t - 1)) t (mk_t (LsWaitLoad m l) (t_ops s1) (held s1) (sleeps s1 + 1) (last_try s1)), EvP)
      else (w, EvBlocked)
  (* --- nsync_mu_unlock / nsync_mu_runlock --- *)
  | UlFast m =>
      let '(w1, ok) := cas w (ufast_old m) (ufast_new m) in
      if ok then (released (set_pc w1 t Idle) t, EvCas (fid_unlock m + 1) (ufast_old m) (ufast_new m) true)
      else (set_pc w1 t (UlLoad m), EvCas (fid_unlock m + 1) (ufast_old m) (ufast_new m) false)
  | UlLoad m =>
      let old := word w in
      if unlock_try_cas2 m old then (set_pc w t (UlCas2 m old), EvLoad (fid_unlock m + 2) old)
      else if unlock_bad m old then (set_pc w t (Crash 2), EvLoad (fid_unlock m + 2) old)
      else (set_pc w t (UsLoad m), EvLoad (fid_unlock m + 2) old)
  | UlCas2 m old =>
      let new := unlock_new2 m old in
      let '(w1, ok) := cas w old new in
      if ok then (released (set_pc w1 t Idle) t, EvCas (fid_unlock m + 3) old new true)
      else (set_pc w1 t (UsLoad m), EvCas (fid_unlock m + 3) old new false)
  (* --- nsync_mu_unlock_slow_ --- *)
  | UsLoad m =>
      let old := word w in
      if has old MU_CONDITION then (set_pc w t (Crash 3), EvLoad 901 old)   (* conditional waiters: outside this model *)
      else if nsync_mu_unlock_slow_cas1_guard old then (set_pc w t (UsCasRel m old), EvLoad 901 old)
      else if nsync_mu_unlock_slow_cas2_guard old then (set_pc w t (UsCasSpin m old), EvLoad 901 old)
      else (w, EvLoad 901 old)
  | UsCasRel m old =>
      let new := nsync_mu_unlock_slow_cas1_new old (lt_of m) in
      let '(w1, ok) := cas w old new in
      if ok then (released (set_pc w1 t Idle) t, EvCas 902 old new true)
      else (set_pc w1 t (UsLoad m), EvCas 902 old new false)
  | UsCasSpin m old =>
      let new := nsync_mu_unlock_slow_cas2_new old (lt_add_to_acquire (lt_of m)) in
      let '(w1, ok) := cas w old new in
      if ok then
        let '(u, keep) := us_after_scan w1 in
        (released (set_pc (set_queue w1 keep) t (UsRelLoad m u)) t, EvCas 903 old new true)
      else (set_pc w1 t (UsLoad m), EvCas 903 old new false)
  | UsRelLoad m u => (set_pc w t (UsRelCas m u (word w)), EvLoad 904 (word w))
  | UsRelCas m u old =>
      let new := nsync_mu_unlock_slow_cas3_new old (late u) (set_on u) (clear_on u) in
      let '(w1, ok) := cas w old new in
      if ok then (set_pc w1 t (match wake u with [] => Idle | _ => UsWakeStore m u end), EvCas 905 old new true)
      else (set_pc w1 t (UsRelLoad m u), EvCas 905 old new false)
  | UsWakeStore m u =>
      match wake u with
      | [] => (set_pc w t Idle, EvNone)
      | p :: rest => (set_pc (set_waiting w p false) t (UsWakeV m p (mk_usl rest (set_on u) (clear_on u) (late u))),
                      EvStoreWaiting p 0)
      end
  | UsWakeV m p u =>
      (set_pc (set_sem w p (sem w p + 1)) t (match wake u with [] => Idle | _ => UsWakeStore m u end), EvV p)
  end.

Definition init (progs : list (list op)) : world :=
  mk_w 0 [] (fun _ => false) (fun _ => 0) (fun _ => W) (map (fun p => mk_t Idle p None 0 None) progs).

Definition run (w : world) (sched : list nat) : world := fold_left (fun w t => fst (step w t)) sched w.
