(* helpers used only by the lock-step replayer (replay/muxfer_replay.ml) *)
From NsyncBase Require Import CSem.
From NsyncGen Require Import Consts Sites.
From NsyncModel Require Import MuModel MuXferModel.
From Coq Require Import List ZArith Bool.
Import ListNotations.
Local Open Scope Z_scope.

Definition xpush_op (xw : xworld) (t : nat) (o : xop) : xworld :=
  let s := xget xw t in set_xt xw t (mk_xt (x_pc s) (x_ops s ++ [o]) (x_rets s)).
Definition xinit_n (n : nat) : xworld := xinit (repeat [] n).

(* wrapper pc of a thread, for the driver *)
Definition xpc_code (xw : xworld) (t : nat) : Z :=
  match x_pc (xget xw t) with
  | XIdle => 0 | XwStore _ => 1 | XwLoadMu _ => 2 | XwEnq _ => 3 | XwUnlock _ => 4 | XwLoop _ => 5 | XwSem _ => 6
  | XwLoad6 _ => 7 | XwConfirm _ => 8 | XwLoad13 _ => 9 | XwReacq _ => 10 | XkLoad _ => 11 | XkSelect _ => 12
  | XvLoad1 _ => 13 | XvCas1 _ _ => 14 | XvLoad3 _ => 15 | XvCas2 _ _ => 16 | XvLoad5 _ => 17 | XvStore _ => 18 | XvV _ _ => 19
  | XnStore0 _ => 20 | XnEnq _ => 21 | XnUnlock _ => 22 | XnReady _ => 23 | XnSem _ => 24 | XnDeq _ => 25 | XnSpin _ => 26
  | XnReacq _ => 27 | XgStore _ => 28
  | XCrash _ => 99
  end.
(* a mutex operation of the thread is in progress (MuModel pc not Idle, or an operation handed over and not begun) *)
Definition mu_busy (xw : xworld) (t : nat) : bool := negb (mu_idle (mw xw) t).
Definition held_of (xw : xworld) (t : nat) : option mode := held (get (mw xw) t).
(* the thread is about to post the semaphore of thread p (wake_waiters, or nsync_mu_unlock_slow_ in MuModel) *)
Definition v_target (xw : xworld) (t : nat) : option nat :=
  match x_pc (xget xw t) with
  | XvV _ p => Some p
  | XIdle | XwUnlock _ | XnUnlock _ => match t_pc (get (mw xw) t) with UsWakeV _ p _ => Some p | _ => None end
  | _ => None
  end.
(* the thread sleeps (or is about to) on its semaphore inside nsync_mu_lock_slow_ *)
Definition mu_sem_pc (xw : xworld) (t : nat) : bool :=
  match t_pc (get (mw xw) t) with LsSemP _ _ => true | _ => false end.
Definition is_desig_entry (xw : xworld) (t : nat) : bool :=
  match x_pc (xget xw t), t_pc (get (mw xw) t) with
  | XwReacq _, LsLoad _ l => (clr l =? MU_DESIG_WAKER) && (wcount l =? 0)
  | _, _ => false
  end.
Definition mu_spin_free (xw : xworld) : bool := negb (has (word (mw xw)) MU_SPINLOCK).
Definition mu_queue (xw : xworld) : list nat := queue (mw xw).
Definition mu_word (xw : xworld) : Z := word (mw xw).
Definition nrets (xw : xworld) (t : nat) : nat := length (x_rets (xget xw t)).
Definition last_ret_ok (xw : xworld) (t : nat) : bool :=
  match x_rets (xget xw t) with
  | (m, Some m') :: _ => mode_eqb m m'
  | (_, None) :: _ => false
  | [] => true
  end.
Definition xferred_of (xw : xworld) (t : nat) : bool := xferred xw t.
(* the thread's record on the cv is the record of an nsync_wait_n call *)
Definition xn_rec_of (xw : xworld) (t : nat) : bool := xn_rec (x_pc (xget xw t)).
(* the ghost result "outcome != 0" of the cv wait whose re-acquisition is in progress *)
Definition reacq_out (xw : xworld) (t : nat) : option bool :=
  match x_pc (xget xw t) with XwReacq l => Some (w_out l) | _ => None end.
