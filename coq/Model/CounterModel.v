(* CounterModel: executable model of internal/counter.c (nsync_counter_add / _value / _wait and the three
   waitable callbacks) together with the single-object path of internal/wait.c (nsync_wait_n with count = 1,
   mu = NULL), for any number of threads on ONE counter.

   One thread step = one atomic site of counter.c plus the thread-local work up to the next site; the two
   semaphore operations of the protocol (nsync_mu_semaphore_v in add, nsync_mu_semaphore_p_with_deadline in
   wait_n) are steps of their own on an ABSTRACT per-thread semaphore (a count; P enabled when > 0; the timed P
   may give up only when clock >= deadline: label [LTimeout]).  The clock is a model variable advanced by the
   environment label [LTick].
   counter_mu is an ABSTRACT lock [mu : option nat] (its holder): a step that needs it is enabled only when it
   is free.  Acquisition is FOLDED into the first site executed under it (add#2 first iteration, enqueue#1,
   dequeue#1) and release into the LAST step executed under it (the CAS / the waited-load / the last V of add;
   the store of enqueue; the load or store of `waiting' in dequeue).
   A waiter record (struct nsync_waiter_s on the stack of wait_n) is identified with its thread: [waiters] is
   the list c->waiters (first = head), [waiting u] is nw->waiting of thread u's record, [sem u] the count of
   the semaphore of thread u's waiter struct (it survives calls, as the per-thread waiter does).
   The two overflow ASSERTs and the "increment from zero after a wait" ASSERT lead to the pc [Crash] (the
   process aborts; the lock stays held).
   Ghost: [hist] (every value the counter held, newest first), [log] (one record per returned call),
   per-call ghost [gh] (kept outside the thread list so that ghost updates and pc updates commute), and [broken] (an ASSERT has fired or is bound to fire).
   Values and guards come from Gen/Sites.v.  No proofs in this file. *)
From NsyncBase Require Import CSem.
From NsyncGen Require Import Consts Sites.
From Coq Require Import List ZArith Bool.
Import ListNotations.
Local Open Scope Z_scope.

Inductive op :=
| Add (delta : Z)            (* nsync_counter_add (c, delta); delta is converted to int32_t *)
| Value                      (* nsync_counter_value (c) *)
| Wait (dl : option Z).      (* nsync_counter_wait (c, dl): None = nsync_time_no_deadline, Some d = d ns after time zero *)

Inductive cpc :=
| Idle
| AddLoad0 (d : Z)                 (* delta == 0: value = ATM_LOAD_ACQ (&c->value)                          add#1 *)
| AddLock (d : Z)                  (* nsync_mu_lock; value = ATM_LOAD (&c->value)   (first iteration)       add#2 *)
| AddReload (d : Z)                (* value = ATM_LOAD (&c->value)   (after a failed CAS, lock held)        add#2 *)
| AddCas (d v : Z)                 (* ATM_CAS_RELACQ (&c->value, value, value+delta)                        add#3 *)
| AddChk (d v : Z)                 (* delta > 0 && value == delta: ATM_LOAD (&c->waited)    v = new value   add#4 *)
| AddStore (d v : Z)               (* value == 0: unlink the first waiter; ATM_STORE_REL (&nw->waiting, 0)  add#5 *)
| AddV (d v : Z) (u : nat)         (* nsync_mu_semaphore_v (nw->sem) for the record of thread u *)
| ValLoad                          (* result = ATM_LOAD_ACQ (&c->value)                                     value#1 *)
| WRdyStore (dl : option Z)        (* wait_n's first loop: counter_ready_time: ATM_STORE (&c->waited, 1)    ready#1 *)
| WRdyLoad (dl : option Z)         (*                                          ATM_LOAD_ACQ (&c->value)     ready#2 *)
| WEnq (dl : option Z)             (* counter_enqueue: nsync_mu_lock; value = ATM_LOAD_ACQ (&c->value)      enq#1 *)
| WEnqStore1 (dl : option Z)       (*   value != 0: append; ATM_STORE (&nw->waiting, 1); unlock             enq#2 *)
| WEnqStore2 (dl : option Z)       (*   value == 0: ATM_STORE (&nw->waiting, 0); unlock                     enq#3 *)
| WLoopStore (dl : option Z)       (* sleep loop: counter_ready_time: ATM_STORE (&c->waited, 1)             ready#1 *)
| WLoopLoad (dl : option Z)        (*                                 ATM_LOAD_ACQ (&c->value)              ready#2 *)
| WP (dl : option Z)               (* nsync_mu_semaphore_p_with_deadline (&w->sem, min_ntime) *)
| WDeq (dl : option Z)             (* counter_dequeue: nsync_mu_lock; value = ATM_LOAD_ACQ (&c->value)      deq#1 *)
| WDeqLoad (dl : option Z) (v : Z) (*   ATM_LOAD_ACQ (&nw->waiting) != 0 ?                                  deq#2 *)
| WDeqStore (dl : option Z) (v : Z)(*   unlink; ATM_STORE (&nw->waiting, 0); unlock                         deq#3 *)
| WFinal (dl : option Z)           (* nsync_counter_wait: wait_n != 0: result = ATM_LOAD_ACQ (&c->value)    wait#1 *)
| Crash.                           (* an ASSERT failed *)

(* ghost of the call in progress *)
Record cg := mk_g {
  g_op : op;                 (* the call (delta already converted to int32) *)
  g_start : nat;             (* index (in the history, 0 = initial value) of the value current when the call started *)
  g_lin : nat;               (* add: index of the value its successful CAS installed *)
  g_np : nat;                (* wait: number of successful P operations executed *)
  g_first : option Z;        (* wait: value seen by the first ready_time load *)
  g_exp : option Z }.        (* wait: clock value at the step at which the timed P gave up *)
(* ghost record of a returned call *)
Record crec := mk_c {
  c_tid : nat; c_op : op; c_start : nat; c_stop : nat;   (* c_stop: index of the value current at the return *)
  c_lin : nat; c_res : Z; c_np : nat; c_first : option Z; c_exp : option Z }.

Record tstate := mk_t { pc : cpc; prog : list op }.

Record world := mk_w {
  value : Z;                 (* c->value *)
  waited : Z;                (* c->waited *)
  mu : option nat;           (* holder of c->counter_mu *)
  waiters : list nat;        (* c->waiters, records named by their thread *)
  waiting : nat -> Z;        (* nw->waiting of thread u's record *)
  sem : nat -> Z;            (* count of thread u's semaphore *)
  clock : Z;
  hist : list Z;             (* ghost: values held, newest first, never empty *)
  log : list crec;           (* ghost: returned calls, newest first *)
  gh : nat -> cg;            (* ghost: the call in progress of thread u *)
  broken : bool;             (* ghost: an ASSERT has failed, or the ASSERT at add#4 is bound to fail *)
  thr : list tstate }.

Inductive label := LStep (t : nat) | LTimeout (t : nat) | LTick (d : Z).

Inductive ev :=
| EvLoad (site : Z) (v : Z)
| EvStore (site : Z) (u : nat) (v : Z)      (* u: the thread whose record is written (stores to `waiting'); else the actor *)
| EvCas (site : Z) (old new : Z) (ok : bool)
| EvV (u : nat) | EvP | EvTimeout | EvTick | EvBlocked | EvNone.

(* site ids: 100 * function + ordinal; functions: 1 nsync_counter_add, 2 nsync_counter_value, 3 nsync_counter_wait,
   4 counter_ready_time, 5 counter_enqueue, 6 counter_dequeue *)

Definition fupd {A} (f : nat -> A) (k : nat) (v : A) : nat -> A := fun x => if Nat.eqb x k then v else f x.
Fixpoint lupd {A} (l : list A) (k : nat) (v : A) : list A :=
  match l, k with [], _ => [] | _ :: t, O => v :: t | x :: t, S k' => x :: lupd t k' v end.
Definition unlink (u : nat) (l : list nat) : list nat := filter (fun x => negb (Nat.eqb x u)) l.

Definition g0 := mk_g Value 0 0 0 None None.
Definition dflt := mk_t Idle [].
Definition get (w : world) (t : nat) := nth t (thr w) dflt.
Definition idx (w : world) : nat := pred (length (hist w)).

(* field updates *)
Definition set_thr (w : world) (t : nat) (s : tstate) : world :=
  mk_w (value w) (waited w) (mu w) (waiters w) (waiting w) (sem w) (clock w) (hist w) (log w) (gh w) (broken w) (lupd (thr w) t s).
Definition set_pc (w : world) (t : nat) (p : cpc) : world :=
  let s := get w t in set_thr w t (mk_t p (prog s)).
Definition set_g (w : world) (t : nat) (x : cg) : world :=
  mk_w (value w) (waited w) (mu w) (waiters w) (waiting w) (sem w) (clock w) (hist w) (log w) (fupd (gh w) t x) (broken w) (thr w).
Definition set_mu (w : world) (m : option nat) : world :=
  mk_w (value w) (waited w) m (waiters w) (waiting w) (sem w) (clock w) (hist w) (log w) (gh w) (broken w) (thr w).
Definition set_waited (w : world) (x : Z) : world :=
  mk_w (value w) x (mu w) (waiters w) (waiting w) (sem w) (clock w) (hist w) (log w) (gh w) (broken w) (thr w).
Definition set_waiters (w : world) (l : list nat) : world :=
  mk_w (value w) (waited w) (mu w) l (waiting w) (sem w) (clock w) (hist w) (log w) (gh w) (broken w) (thr w).
Definition set_waiting (w : world) (u : nat) (x : Z) : world :=
  mk_w (value w) (waited w) (mu w) (waiters w) (fupd (waiting w) u x) (sem w) (clock w) (hist w) (log w) (gh w) (broken w) (thr w).
Definition set_sem (w : world) (u : nat) (x : Z) : world :=
  mk_w (value w) (waited w) (mu w) (waiters w) (waiting w) (fupd (sem w) u x) (clock w) (hist w) (log w) (gh w) (broken w) (thr w).
Definition set_clock (w : world) (x : Z) : world :=
  mk_w (value w) (waited w) (mu w) (waiters w) (waiting w) (sem w) x (hist w) (log w) (gh w) (broken w) (thr w).
Definition set_broken (w : world) (b : bool) : world :=
  mk_w (value w) (waited w) (mu w) (waiters w) (waiting w) (sem w) (clock w) (hist w) (log w) (gh w) b (thr w).
(* the counter takes a new value: the only change of the abstract integer *)
Definition set_value (w : world) (x : Z) : world :=
  mk_w x (waited w) (mu w) (waiters w) (waiting w) (sem w) (clock w) (x :: hist w) (log w) (gh w) (broken w) (thr w).
Definition add_log (w : world) (r : crec) : world :=
  mk_w (value w) (waited w) (mu w) (waiters w) (waiting w) (sem w) (clock w) (hist w) (r :: log w) (gh w) (broken w) (thr w).

(* the call of thread t returns r *)
Definition ret (w : world) (t : nat) (r : Z) : world :=
  let x := gh w t in
  set_pc (add_log w (mk_c t (g_op x) (g_start x) (idx w) (g_lin x) r (g_np x) (g_first x) (g_exp x))) t Idle.
Definition crash (w : world) (t : nat) : world := set_pc (set_broken w true) t Crash.

(* abs_deadline is after nsync_time_zero *)
Definition after_zero (dl : option Z) : bool := match dl with None => true | Some d => 0 <? d end.

Definition first_pc (o : op) : cpc :=
  match o with
  | Add d => if nsync_counter_add_load1_guard d then AddLoad0 d else AddLock d
  | Value => ValLoad
  | Wait dl => WRdyStore dl
  end.
Definition norm_op (o : op) : op := match o with Add d => Add (wrap_s 32 d) | _ => o end.

(* an idle thread with a non-empty program starts its next call *)
Definition begin_call (w : world) (t : nat) : world :=
  let s := get w t in
  match pc s, prog s with
  | Idle, o :: rest => set_g (set_thr w t (mk_t (first_pc (norm_op o)) rest)) t (mk_g (norm_op o) (idx w) 0 0 None None)
  | _, _ => w
  end.

(* can the thread at pc p execute its step? *)
Definition enabled_pc (w : world) (t : nat) (p : cpc) : bool :=
  match p with
  | Idle | Crash => false
  | AddLock _ | WEnq _ | WDeq _ => match mu w with None => true | Some _ => false end
  | WP _ => 0 <? sem w t
  | _ => true
  end.

(* add: after the last ASSERT: wake the waiters if the value is 0, unlock, return *)
Definition finish_add (w : world) (t : nat) (v : Z) : world := ret (set_mu w None) t v.
Definition drain (w : world) (t : nat) (d v : Z) : world :=
  match waiters w with
  | [] => finish_add w t v
  | _ :: _ => set_pc w t (AddStore d v)
  end.
(* the overflow ASSERTs (no atomic site: evaluated inside the step that precedes them), then the wake-up test *)
Definition after_chk (w : world) (t : nat) (d v : Z) : world :=
  let before := wrap_u 32 (v - wrap_u 32 d) in                 (* value - delta, unsigned *)
  if (if d >? 0 then v >? before else v <? before)
  then (if nsync_counter_add_store1_guard d v then drain w t d v else finish_add w t v)
  else crash w t.
Definition after_cas (w : world) (t : nat) (d v : Z) : world :=
  if nsync_counter_add_load3_guard d v then set_pc w t (AddChk d v) else after_chk w t d v.

(* dequeue returns (value != 0); wait_n returns 0 when it is false, else 1, and then counter_wait reloads *)
Definition after_deq (w : world) (t : nat) (dl : option Z) (v : Z) : world :=
  let w1 := set_mu w None in
  if v =? 0 then ret w1 t 0 else set_pc w1 t (WFinal dl).

Definition exec (w : world) (t : nat) : world * ev :=
  let s := get w t in
  match pc s with
  | Idle | Crash => (w, EvNone)
  | AddLoad0 d => (ret w t (value w), EvLoad 101 (value w))
  | AddLock d => (set_pc (set_mu w (Some t)) t (AddCas d (value w)), EvLoad 102 (value w))
  | AddReload d => (set_pc w t (AddCas d (value w)), EvLoad 102 (value w))
  | AddCas d v =>
      let new := nsync_counter_add_cas1_new v d in
      if value w =? nsync_counter_add_cas1_old v
      then
        let doomed := (v =? 0) && (d >? 0) && negb (waited w =? 0) in    (* increment from zero after a wait *)
        let w1 := set_broken (set_value w new) (broken w || doomed) in
        let x := gh w t in
        let w2 := set_g w1 t (mk_g (g_op x) (g_start x) (idx w1) (g_np x) (g_first x) (g_exp x)) in
        (after_cas w2 t d new, EvCas 103 v new true)
      else (set_pc w t (AddReload d), EvCas 103 v new false)
  | AddChk d v =>
      let x := waited w in
      if x =? 0 then (after_chk w t d v, EvLoad 104 x) else (crash w t, EvLoad 104 x)
  | AddStore d v =>
      match waiters w with
      | [] => (finish_add w t v, EvNone)
      | u :: rest =>
          (set_pc (set_waiting (set_waiters w rest) u nsync_counter_add_store1_new) t (AddV d v u),
           EvStore 105 u nsync_counter_add_store1_new)
      end
  | AddV d v u => (drain (set_sem w u (sem w u + 1)) t d v, EvV u)
  | ValLoad => (ret w t (value w), EvLoad 201 (value w))
  | WRdyStore dl => (set_pc (set_waited w counter_ready_time_store1_new) t (WRdyLoad dl), EvStore 401 t counter_ready_time_store1_new)
  | WRdyLoad dl =>
      let v := value w in
      let x := gh w t in
      let w1 := set_g w t (mk_g (g_op x) (g_start x) (g_lin x) (g_np x) (Some v) (g_exp x)) in
      if v =? 0 then (ret w1 t 0, EvLoad 402 v)                       (* ready: wait_n returns 0 *)
      else if after_zero dl then (set_pc w1 t (WEnq dl), EvLoad 402 v)
      else (set_pc w1 t (WFinal dl), EvLoad 402 v)                    (* deadline not after time zero: wait_n returns 1 *)
  | WEnq dl =>
      let v := value w in
      let w1 := set_waiting (set_mu w (Some t)) t 0 in               (* wait.c: ATM_STORE (&nw[i].waiting, 0) before the call *)
      if counter_enqueue_store1_guard v then (set_pc w1 t (WEnqStore1 dl), EvLoad 501 v)
      else (set_pc w1 t (WEnqStore2 dl), EvLoad 501 v)
  | WEnqStore1 dl =>
      (set_pc (set_mu (set_waiting (set_waiters w (waiters w ++ [t])) t counter_enqueue_store1_new) None) t (WLoopStore dl),
       EvStore 502 t counter_enqueue_store1_new)
  | WEnqStore2 dl =>
      (set_pc (set_mu (set_waiting w t counter_enqueue_store2_new) None) t (WLoopStore dl), EvStore 503 t counter_enqueue_store2_new)
  | WLoopStore dl => (set_pc (set_waited w counter_ready_time_store1_new) t (WLoopLoad dl), EvStore 401 t counter_ready_time_store1_new)
  | WLoopLoad dl =>
      let v := value w in
      if (v =? 0) || negb (after_zero dl) then (set_pc w t (WDeq dl), EvLoad 402 v)   (* min_ntime <= 0: leave the loop *)
      else (set_pc w t (WP dl), EvLoad 402 v)
  | WP dl =>
      let x := gh w t in
      (set_pc (set_g (set_sem w t (sem w t - 1)) t (mk_g (g_op x) (g_start x) (g_lin x) (S (g_np x)) (g_first x) (g_exp x)))
              t (WLoopStore dl), EvP)
  | WDeq dl => (set_pc (set_mu w (Some t)) t (WDeqLoad dl (value w)), EvLoad 601 (value w))
  | WDeqLoad dl v =>
      let x := waiting w t in
      if negb (x =? 0) then (set_pc w t (WDeqStore dl v), EvLoad 602 x) else (after_deq w t dl v, EvLoad 602 x)
  | WDeqStore dl v =>
      (after_deq (set_waiting (set_waiters w (unlink t (waiters w))) t counter_dequeue_store1_new) t dl v,
       EvStore 603 t counter_dequeue_store1_new)
  | WFinal dl => (ret w t (value w), EvLoad 301 (value w))
  end.

Definition step (w : world) (l : label) : world * ev :=
  match l with
  | LTick d => (set_clock w (clock w + Z.abs d), EvTick)
  | LTimeout t =>
      let s := get w t in
      match pc s with
      | WP (Some d) =>
          if d <=? clock w
          then let x := gh w t in
               (set_pc (set_g w t (mk_g (g_op x) (g_start x) (g_lin x) (g_np x) (g_first x) (Some (clock w)))) t (WDeq (Some d)),
                EvTimeout)
          else (w, EvBlocked)
      | _ => (w, EvBlocked)
      end
  | LStep t =>
      let w1 := begin_call w t in
      if enabled_pc w1 t (pc (get w1 t)) then exec w1 t else (w, EvBlocked)
  end.

Definition init (v0 clock0 : Z) (progs : list (list op)) : world :=
  mk_w (wrap_u 32 v0) 0 None [] (fun _ => 0) (fun _ => 0) clock0 [wrap_u 32 v0] [] (fun _ => g0) false
       (map (fun p => mk_t Idle p) progs).
Definition run (w : world) (sched : list label) : world := fold_left (fun w l => fst (step w l)) sched w.

(* ---------- vocabulary of the statements ---------- *)
(* value number i of the counter (0 = initial) *)
Definition held_at (w : world) (i : nat) : option Z := nth_error (rev (hist w)) i.
Definition unfinished (w : world) (t : nat) : Prop := pc (get w t) <> Idle \/ prog (get w t) <> [].
(* the pc at which thread t executes its next step (an idle thread with a program is at the first site of its next call) *)
Definition next_pc (w : world) (t : nat) : cpc := pc (get (begin_call w t) t).
Definition enabled (w : world) (t : nat) : bool := enabled_pc (begin_call w t) t (next_pc w t).
Definition is_add (o : op) (d : Z) : Prop := o = Add d /\ nsync_counter_add_cas1_guard d = true.
