(* Happens-before instrumentation of CounterModel executions (C03, counter hand-off).
   Same operational release/acquire semantics as Model/HbModel.v and Model/HbOnce.v ([view], [vle], [vjoin], [vtick],
   [has_acq], [has_rel] of HbModel are reused), with one release view per LOCATION of the counter protocol:

     release store      rel_x := V_t                    relaxed store   rel_x := bottom  (it heads no release sequence)
     successful RMW     V_t := V_t join rel_x  (if acquire);   rel_x := rel_x join V_t (if release)
                        (a relaxed RMW leaves rel_x alone: it continues the release sequence)
     acquire load       V_t := V_t join rel_x           relaxed load / failed CAS: nothing

   Both the ORDER and the LOCATION (c->value, c->waited, nw->waiting) of every access are looked up in the REGENERATED
   inventory Gen/Sites.v (sites_counter_c: s_order, s_target); a site that is missing or has another kind than the event
   the model emits gets no ordering credit.
   The WAKE-UP hand-off (the one C03 claims) goes through nw->waiting only: counter.c:76 ATM_STORE_REL (&nw->waiting, 0)
   in nsync_counter_add (model event EvStore 105 u _, u = the thread whose record was popped from c->waiters) and
   counter.c:136 ATM_LOAD_ACQ (&nw->waiting) in counter_dequeue (model event EvLoad 602 _ by the waiter).  All other
   stores to a `waiting' flag are instrumented too, with the (relaxed) order the inventory gives them: enqueue#2/#3
   (EvStore 502/503), dequeue#3 (EvStore 603), and wait.c:54 ATM_STORE (&nw[i].waiting, 0) of nsync_wait_n
   (sites_wait_c, nsync_wait_n#1), which CounterModel folds into the step at pc WEnq (event EvLoad 501 _, exec:
   [set_waiting (set_mu w (Some t)) t 0]): on EvLoad 501 by thread t the instrumentation FIRST performs that store on
   LWaiting t (a relaxed store resets the release view of the flag to bottom), THEN the load.
   The two semaphore operations of the model (EvV / EvP) are the successful compare-and-swaps of nsync_mu_semaphore_v
   and nsync_mu_semaphore_p / _p_with_deadline on the semaphore word: they are instrumented as read-modify-writes with
   exactly the orders sites_nsync_semaphore_futex_c gives these CASes.  This is the FUTEX flavour of the semaphore only
   (the mutex/condvar and sem_t flavours have no such sites); nothing of the C03 claim is credited to it: the wake-up
   theorem (counter_wakes -> counter_dequeue_load) does not use LSem at all.
   The abstract lock counter_mu gets NO ordering credit here (the mutex hand-off is C03_mutex_handoff).
   CounterModel is not re-implemented: its [step] runs alongside and the instrumentation consumes the event it returns.
   Definitions only; proofs in Proof/HbCounterProof.v. *)
From NsyncBase Require Import CSem.
From NsyncGen Require Import Consts Sites.
From NsyncModel Require Import HbModel.
From NsyncModel Require HbOnce.
From Coq Require Import List ZArith Bool String.
(* CounterModel last: its [get] must win over Coq.Strings.String.get *)
From NsyncModel Require Import CounterModel.
Import ListNotations.
Local Open Scope Z_scope.

(* ---------- locations ---------- *)
Inductive loc :=
| LValue                 (* c->value *)
| LWaited                (* c->waited *)
| LWaiting (u : nat)     (* nw->waiting of the waiter record of thread u *)
| LSem (u : nat)         (* the word of thread u's semaphore *)
| LOther.                (* anything the inventory does not let us name: never read by a hand-off *)
Definition loc_eqb (a b : loc) : bool :=
  match a, b with
  | LValue, LValue | LWaited, LWaited | LOther, LOther => true
  | LWaiting u, LWaiting v | LSem u, LSem v => Nat.eqb u v
  | _, _ => false
  end.

(* ---------- orders and locations, from the inventory ---------- *)
(* CounterModel's site ids: 100 * function + ordinal *)
Definition cfn_of_site (s : Z) : string :=
  match s / 100 with
  | 1 => "nsync_counter_add" | 2 => "nsync_counter_value" | 3 => "nsync_counter_wait"
  | 4 => "counter_ready_time" | 5 => "counter_enqueue" | 6 => "counter_dequeue" | _ => ""
  end%string.
Definition csite (s : Z) : option site :=
  find (fun x => String.eqb (s_fn x) (cfn_of_site s) && Nat.eqb (s_ord x) (Z.to_nat (s mod 100))) sites_counter_c.
Definition corder (k : akind) (s : Z) : aorder :=
  match csite s with
  | Some x => if HbOnce.kind_eqb (s_kind x) k then s_order x else Orlx
  | None => Orlx
  end.
(* u: the thread whose waiter record the access is to, when the target is a `waiting' field *)
Definition cloc (s : Z) (u : nat) : loc :=
  match csite s with
  | Some x => if String.eqb (s_target x) "value.c" then LValue
              else if String.eqb (s_target x) "waited.c" then LWaited
              else if String.eqb (s_target x) "waiting.nw" then LWaiting u
              else LOther
  | None => LOther
  end.

(* the semaphore: orders of the compare-and-swaps of the futex implementation *)
Definition sem_cas_order (fn : string) : aorder :=
  HbOnce.omeet_all (map s_order (filter (fun x => String.eqb (s_fn x) fn && HbOnce.kind_eqb (s_kind x) Kcas)
                                        sites_nsync_semaphore_futex_c)).
Definition sem_v_order : aorder := sem_cas_order "nsync_mu_semaphore_v".
Definition sem_p_order : aorder :=
  HbOnce.omeet (sem_cas_order "nsync_mu_semaphore_p") (sem_cas_order "nsync_mu_semaphore_p_with_deadline").

(* ---------- the instrumentation ---------- *)
Record chb := mk_chb { cviews : nat -> view; crel : loc -> view }.
Definition chb0 : chb := mk_chb (fun _ => vbot) (fun _ => vbot).
Definition lupdv (f : loc -> view) (l : loc) (v : view) : loc -> view := fun x => if loc_eqb x l then v else f x.

Definition do_load (h : chb) (t : nat) (l : loc) (o : aorder) : chb :=
  if has_acq o then mk_chb (fupd (cviews h) t (vjoin (cviews h t) (crel h l))) (crel h) else h.
Definition do_store (h : chb) (t : nat) (l : loc) (o : aorder) : chb :=
  mk_chb (cviews h) (lupdv (crel h) l (if has_rel o then cviews h t else vbot)).
Definition do_rmw (h : chb) (t : nat) (l : loc) (o : aorder) : chb :=
  let v := if has_acq o then vjoin (cviews h t) (crel h l) else cviews h t in
  mk_chb (fupd (cviews h) t v) (if has_rel o then lupdv (crel h) l (vjoin (crel h l) v) else crel h).

(* wait.c:54 ATM_STORE (&nw[i].waiting, 0) in nsync_wait_n, folded by CounterModel into the step of enqueue#1 *)
Definition wait_n_store_order : aorder :=
  HbOnce.site_order_in sites_wait_c "nsync_wait_n" 1 Kstore "waiting.nw.i".
(* applied before the load of every EvLoad s: the folded store when s is enqueue#1 (501), nothing otherwise *)
Definition wait_n_store (h : chb) (t : nat) (s : Z) : chb :=
  if s =? 501 then do_store h t (LWaiting t) wait_n_store_order else h.

Definition actor (l : label) : option nat := match l with LStep t | LTimeout t => Some t | LTick _ => None end.

(* effect of one CounterModel event on the happens-before state *)
Definition chb_step (h : chb) (lab : label) (e : ev) : chb :=
  match actor lab with
  | None => h
  | Some t =>
      let h := mk_chb (fupd (cviews h) t (vtick (cviews h t) t)) (crel h) in
      match e with
      | EvLoad s _ => do_load (wait_n_store h t s) t (cloc s t) (corder Kload s)
      | EvStore s u _ => do_store h t (cloc s u) (corder Kstore s)
      | EvCas s _ _ true => do_rmw h t (cloc s t) (corder Kcas s)
      | EvV u => do_rmw h t (LSem u) sem_v_order
      | EvP => do_rmw h t (LSem t) sem_p_order
      | _ => h
      end
  end.

Definition view_of (h : chb) (lab : label) : view :=
  match actor lab with Some t => cviews h t | None => vbot end.

(* run the model and the instrumentation together; per step: label, world before and after, event,
   the acting thread's view before and after the step *)
Record cobs := mk_cobs { co_lab : label; co_w : world; co_w' : world; co_ev : ev; co_pre : view; co_view : view }.

Fixpoint run_hb_counter (w : world) (h : chb) (sched : list label) : list cobs :=
  match sched with
  | [] => []
  | l :: rest =>
      let '(w', e) := step w l in
      let h' := chb_step h l e in
      mk_cobs l w w' e (view_of h l) (view_of h' l) :: run_hb_counter w' h' rest
  end.

(* ---------- vocabulary of the statements: the model's own ghost fields ---------- *)
(* the step at which the counter takes the value 0: the successful CAS of the nsync_counter_add that zeroes it *)
Definition counter_zeroes (ob : cobs) : Prop := hist (co_w' ob) = 0 :: hist (co_w ob).
(* a step at which a call returns x to its caller (nsync_counter_wait, nsync_counter_value, nsync_counter_add) *)
Definition counter_returns (x : Z) (ob : cobs) : Prop :=
  exists r, log (co_w' ob) = r :: log (co_w ob) /\ c_res r = x.
(* the same, for a call of nsync_counter_wait *)
Definition counter_wait_returns (x : Z) (ob : cobs) : Prop :=
  exists r dl, log (co_w' ob) = r :: log (co_w ob) /\ c_res r = x /\ c_op r = Wait dl.
(* nsync_counter_add's V on the semaphore of thread u's waiter; thread u's successful P *)
Definition counter_posts (u : nat) (ob : cobs) : Prop := co_ev ob = EvV u.
Definition counter_woken (u : nat) (ob : cobs) : Prop := co_ev ob = EvP /\ actor (co_lab ob) = Some u.
(* the wake-up hand-off proper: nsync_counter_add's ATM_STORE_REL (&nw->waiting, 0) (counter.c:76) on the record of
   thread u, popped from c->waiters *)
Definition counter_wakes (u : nat) (ob : cobs) : Prop := exists v, co_ev ob = EvStore 105 u v.
(* thread u's ATM_LOAD_ACQ (&nw->waiting) in counter_dequeue (counter.c:136) *)
Definition counter_dequeue_load (u : nat) (ob : cobs) : Prop :=
  exists x, co_ev ob = EvLoad 602 x /\ actor (co_lab ob) = Some u.
