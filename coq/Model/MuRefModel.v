(* MuRefModel: the reference-count client of property C13 on top of Model/MuModel.v.

   N threads share an object { nsync_mu mu; int refs; } and each thread owns one reference.  Every thread runs

        ... any number of extra rounds (lock/unlock, rlock/runlock, trylock [+unlock when it succeeded]) ...
        acquire (mode of the variant);  last = (--refs == 0);  release;  if (last) free (obj);

   MuModel.step is used UNCHANGED for every step a thread takes inside an nsync_mu_* call; this file only adds the
   client's own steps (the decrement, the free, the `if (trylock ...)` guard) and three ghost fields.

     refs   the client's counter (lives in the same object as the mutex)
     freed  ghost: free (obj) has been called
     bad    ghost: set when, after [freed], a thread takes a step that accesses mu->word or mu->waiters
            ([touches_mu]), when the client reads/writes refs again, or when free is called a second time
     ph     the client pc of every thread: Pre (still owns its reference), Dec last (has decremented, last is the
            value it computed), Done (has passed `if (last) free`)

   Waiter records (w->nw.waiting, w->sem, w->l_type: MuModel's [waiting], [sem], [wtype]) belong to the threads,
   live in nsync's waiter pool, and are never freed: they are not part of the freed object.

   Three variants of the decrement round:
     VWin     lock;  last = (--refs == 0); unlock;  if (last) free     -- the pattern of the property (write mode)
     VRafter  rlock; ...; runlock; last = (atomic --refs == 0); if (last) free   -- sound read-mode pattern: the
              decrement is the client's own atomic operation AFTER runlock has returned
     VRin     rlock; last = (--refs == 0); runlock; if (last) free     -- unsound (client error): another reader
              may still hold its own read lock; kept to exhibit the witness
   No proofs in this file. *)
From NsyncBase Require Import CSem.
From NsyncGen Require Import Consts Sites.
From NsyncModel Require Import MuModel.
From Coq Require Import List ZArith Bool.
Import ListNotations.
Local Open Scope Z_scope.

Inductive variant := VWin | VRafter | VRin.
Definition vmode (v : variant) : mode := match v with VWin => W | VRafter | VRin => R end.

Inductive phase := Pre | Dec (is_last : bool) | Done.

Record rworld := mk_r { mw : world; refs : Z; freed : bool; bad : bool; ph : list phase }.

(* does the step taken at this pc (the pc AFTER begin_op, i.e. the pc whose branch of MuModel.step runs) access
   mu->word or mu->waiters?  From MuModel.step, branch by branch:
     Idle, Crash                 return the world unchanged                                        -> false
     LkFast LkCas2 TryFast TryCas2 LsCasAcq LsCasEnq LsRelCas UlFast UlCas2 UsCasRel UsCasSpin UsRelCas
                                 [cas w ..] on the word (UsCasSpin also scans and rewrites mu->waiters) -> true
     LkLoad TryLoad LsLoad LsRelLoad UlLoad UsLoad UsRelLoad
                                 read [word w]                                                     -> true
     LsStoreWaiting              writes [queue] (mu->waiters)                                      -> true
     LsWaitLoad, LsSemP          read [waiting w t] / [sem w t] of the thread's OWN waiter only; counted as touching
                                 all the same (the thread is inside nsync_mu_lock_slow_ and its next site is a load
                                 of the word): this only makes [bad] easier to set                  -> true
     UsWakeStore                 [set_waiting w p false]: the waiter record of the dequeued waiter p -> false
     UsWakeV                     [set_sem w p ..]: p's semaphore                                    -> false
   (Proof/MuRefProof.v, touches_mu_sound: a step with touches_mu = false leaves word and queue unchanged.) *)
Definition touches_mu (p : pc) : bool :=
  match p with
  | Idle | Crash _ | UsWakeStore _ _ | UsWakeV _ _ _ => false
  | _ => true
  end.

Definition is_idle (p : pc) : bool := match p with Idle => true | _ => false end.
Definition no_ops (l : list op) : bool := match l with [] => true | _ => false end.
Definition only_unlock (l : list op) : bool := match l with [OUnlock] => true | _ => false end.
Definition holds_mode (h : option mode) (m : mode) : bool :=
  match h with Some m' => mode_eqb m' m | None => false end.

Definition phase_of (w : rworld) (t : nat) : phase := nth t (ph w) Done.

(* the client rewrites its own remaining program (thread-local control flow of the client, no shared access) *)
Definition set_ops (w : world) (t : nat) (o : list op) : world :=
  let s := get w t in set_t w t (mk_t (t_pc s) o (held s) (sleeps s) (last_try s)).

(* ---- the client's steps ---- *)
(* last = (--refs == 0) *)
Definition do_dec (w : rworld) (t : nat) : rworld :=
  let r := refs w - 1 in
  mk_r (mw w) r (freed w) (bad w || freed w) (lupd (ph w) t (Dec (r =? 0))).
(* if (last) free (obj) *)
Definition do_free (w : rworld) (t : nat) (l : bool) : rworld :=
  mk_r (mw w) (refs w) (freed w || l) (bad w || (l && freed w)) (lupd (ph w) t Done).
(* one step inside an nsync_mu_* call: MuModel.step, unchanged *)
Definition do_mu (w : rworld) (t : nat) : rworld :=
  let p := t_pc (get (begin_op (mw w) t) t) in
  mk_r (fst (step (mw w) t)) (refs w) (freed w) (bad w || (freed w && touches_mu p)) (ph w).
(* the client changes what it will call next (no access to shared memory) *)
Definition do_ops (w : rworld) (t : nat) (o : list op) : rworld :=
  mk_r (set_ops (mw w) t o) (refs w) (freed w) (bad w) (ph w).

(* may the thread decrement now?  in-lock variants: it is back from its acquiring call, holds the lock in the
   variant's mode, and all that is left of its program is the release; VRafter: its last release has returned *)
Definition dec_ready (v : variant) (s : tstate) : bool :=
  match v with
  | VWin | VRin => is_idle (t_pc s) && only_unlock (t_ops s) && holds_mode (held s) (vmode v)
  | VRafter => is_idle (t_pc s) && no_ops (t_ops s)
  end.
(* the release has returned *)
Definition free_ready (s : tstate) : bool := is_idle (t_pc s) && no_ops (t_ops s).

(* `if (nsync_mu_trylock (mu)) { ...; nsync_mu_unlock (mu); }`: the thread is between calls, holds nothing, and the
   next call of its list is the release -- the guarded block is skipped.  When that release is the LAST call of an
   in-lock variant the failed trylock was the acquisition of the decrement round: the client tries again
   (`while (!nsync_mu_trylock (mu)) yield ();`, as harness/scen/refcount.c does). *)
Definition skip_ready (s : tstate) : option (list op) :=
  match t_pc s, held s, t_ops s with
  | Idle, None, OUnlock :: rest => Some rest
  | _, _, _ => None
  end.
Definition after_skip (v : variant) (rest : list op) : list op :=
  match v, rest with
  | VWin, [] | VRin, [] => [OTry (vmode v); OUnlock]
  | _, _ => rest
  end.

Definition rstep (v : variant) (w : rworld) (t : nat) : rworld :=
  let s := get (mw w) t in
  match phase_of w t with
  | Pre =>
      if dec_ready v s then do_dec w t
      else match skip_ready s with
           | Some rest => do_ops w t (after_skip v rest)
           | None => do_mu w t
           end
  | Dec l => if free_ready s then do_free w t l else do_mu w t
  | Done => do_mu w t
  end.

(* any programs; refs starts at the number of threads *)
Definition rinit (progs : list (list op)) : rworld :=
  mk_r (init progs) (Z.of_nat (length progs)) false false (map (fun _ => Pre) progs).

(* the programs of the pattern: extra rounds, then the decrement round of the variant *)
Definition pattern (v : variant) (extras : list (list op)) : list (list op) :=
  map (fun e => e ++ [OLock (vmode v); OUnlock]) extras.

Definition rrun (v : variant) (w : rworld) (sched : list nat) : rworld := fold_left (rstep v) sched w.
