(* helpers used only by the lock-step replayer (replay/muwait_replay.ml) *)
From NsyncBase Require Import CSem.
From NsyncModel Require Import MuWaitModel.
From Coq Require Import List ZArith Bool.
Import ListNotations.

Definition push_op (w : world) (t : nat) (o : op) : world :=
  let s := get w t in set_t w t (mk_t (t_pc s) (t_ops s ++ [o]) (held s) (conv s) (spin s) (mw s) (last_ret s)).
Definition is_idle (w : world) (t : nat) : bool :=
  match t_pc (get w t), t_ops (get w t) with Idle, [] => true | _, _ => false end.
Definition init_n (n : nat) (classes : list nat) (clock0 : Z) : world :=
  init (repeat [] n) (fun a => nth a classes a) clock0.
(* what the thread is about to do: 1 timed P of mu_wait, 2 V of unlock_slow, 3 P of lock_slow, 5 crashed, 0 idle, 4 other *)
Definition pc_code (w : world) (t : nat) : Z :=
  match t_pc (get w t) with
  | Idle => 0%Z | MwSemP => 1%Z | UsWakeV _ _ _ => 2%Z | LsSemP _ _ => 3%Z | Crash _ => 5%Z | _ => 4%Z
  end.
Definition crash_why (w : world) (t : nat) : Z := match t_pc (get w t) with Crash y => y | _ => 0%Z end.
(* between the dll removal and the return of nsync_remove_from_mu_queue_ inside mu_try_acquire_after_timeout_or_cancel
   mu->waiters is not a well-formed view of the queue *)
Definition unstable_queue (w : world) : bool :=
  existsb (fun s => match t_pc s with RmLoad (KTry _) | RmCas (KTry _) _ => true | _ => false end) (thr w).
Definition ret_code (w : world) (t : nat) : Z := match last_ret (get w t) with Some r => r | None => (-1)%Z end.
Definition in_call (w : world) (t : nat) : bool := match mw (get w t) with Some _ => true | None => false end.
Definition clear_ret (w : world) (t : nat) : world :=
  let s := get w t in set_t w t (mk_t (t_pc s) (t_ops s) (held s) (conv s) (spin s) (mw s) None).
Definition timeout_enabled (w : world) (t : nat) : bool :=
  match mw_dl (get_mw w t) with Some d => Z.leb d (clock w) | None => false end.
Definition cancel_enabled (w : world) (t : nat) : bool := mw_canc (get_mw w t) && note w.
Definition bad_evals (w : world) : nat :=
  length (filter (fun e => er_otherw e || match er_held e with None => true | _ => false end) (evlog w)).
Definition nevals (w : world) : nat := length (evlog w).
